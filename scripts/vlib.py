"""Shared plumbing of the check scripts: repo hashing, work directories, preparation (generator run,
pruning, harness build, lake build), locking. Python stdlib only."""
import fcntl, hashlib, json, os, re, shutil, subprocess, sys, time

VERIF = os.path.dirname(os.path.dirname(os.path.abspath(__file__)))
REPO = os.environ.get("VERIF_REPO", "/repo")
# a development run against another tree (VERIF_REPO) keeps its preparations apart: `gc_work` removes the
# preparations of other repo states, which must not hit a run against /repo going on at the same time
WORK = os.path.join(VERIF, ".work" if REPO == "/repo" else ".work-alt")
LEAN = os.path.join(VERIF, "lean")
HARNESS = os.path.join(VERIF, "harness")

GOENV = dict(os.environ, GOFLAGS="-mod=mod", GOPROXY="off", GOSUMDB="off", GOTOOLCHAIN="local", CGO_ENABLED="0")


def log(*a):
    print("[verif]", *a, file=sys.stderr, flush=True)


def run(cmd, cwd=None, env=None, check=True, capture=True, timeout=None):
    p = subprocess.run(cmd, cwd=cwd, env=env or GOENV, stdout=subprocess.PIPE if capture else None,
                       stderr=subprocess.STDOUT if capture else None, text=True, timeout=timeout)
    if check and p.returncode != 0:
        raise RuntimeError("command failed (%d): %s\n%s" % (p.returncode, " ".join(cmd), (p.stdout or "")[-4000:]))
    return p


def harness_build(wd, out, pkg, check=True):
    """go build of a harness command against the tree under verification (the harness go.mod names /repo;
    with VERIF_REPO set a copy of it with the replace directive redirected is used)."""
    cmd = ["go", "build"]
    if REPO != "/repo":
        mf = os.path.join(wd, "harness.mod")
        open(mf, "w").write(open(os.path.join(HARNESS, "go.mod")).read().replace("=> /repo", "=> " + REPO))
        shutil.copy(os.path.join(HARNESS, "go.sum"), os.path.join(wd, "harness.sum"))
        cmd.append("-modfile=" + mf)
    return run(cmd + ["-o", out, pkg], cwd=HARNESS, check=check)


def repo_key():
    """sha256 over every tracked and untracked-but-not-ignored file of /repo (path + content)."""
    out = subprocess.run(["git", "-C", REPO, "ls-files", "-co", "--exclude-standard", "-z"], stdout=subprocess.PIPE, check=True).stdout
    files = sorted(f for f in out.decode().split("\0") if f and f != "inspc/inspc")
    h = hashlib.sha256()
    for f in files:
        p = os.path.join(REPO, f)
        try:
            with open(p, "rb") as fh:
                data = fh.read()
        except (FileNotFoundError, IsADirectoryError):
            continue
        h.update(f.encode() + b"\0" + hashlib.sha256(data).digest())
    # the harness and the model are part of what a cached preparation depends on
    for root in (os.path.join(HARNESS, "corr"), os.path.join(HARNESS, "cmd")):
        for d, _, fs in sorted(os.walk(root)):
            for f in sorted(fs):
                if f.endswith(".go"):
                    with open(os.path.join(d, f), "rb") as fh:
                        h.update(f.encode() + hashlib.sha256(fh.read()).digest())
    return h.hexdigest()[:20]


class Lock:
    def __init__(self, name="lock"):
        os.makedirs(WORK, exist_ok=True)
        self.path = os.path.join(WORK, name)

    def __enter__(self):
        self.f = open(self.path, "w")
        fcntl.flock(self.f, fcntl.LOCK_EX)
        return self

    def __exit__(self, *a):
        fcntl.flock(self.f, fcntl.LOCK_UN)
        self.f.close()


GOMOD = """module gen

go 1.22.0

require (
	github.com/koykov/inspector v0.0.0
	verifharness v0.0.0
)

replace github.com/koykov/inspector => %s

replace verifharness => %s
"""


def install_extracted(prep):
    """Copy the facts extracted from the current /repo (by this preparation) into the Lean project."""
    src = os.path.join(prep.get("genmod", ""), "extracted")
    dst = os.path.join(LEAN, "InspectorModel", "Extracted")
    if os.path.isdir(src):
        for f in os.listdir(src):
            a, b = os.path.join(src, f), os.path.join(dst, f)
            if not os.path.exists(b) or open(a).read() != open(b).read():
                shutil.copy(a, b)


def lake_build(targets=()):
    """Build the Lean library and driver; returns (ok, log)."""
    p = run(["lake", "build"] + list(targets), cwd=LEAN, env=os.environ.copy(), check=False)
    return p.returncode == 0, p.stdout


def trim_go_cache(limit=20 << 30):
    """The generated packages are large: every prepared repo state adds some hundred MB to Go's build cache, and a
    long series of development runs grew it to ~100 GB. Trim it when it passes `limit` (rebuilds are then cold once)."""
    d = os.environ.get("GOCACHE") or os.path.join(os.path.expanduser("~"), ".cache", "go-build")
    total = 0
    try:
        for sub in os.scandir(d):
            if sub.is_dir():
                for f in os.scandir(sub.path):
                    try:
                        total += f.stat().st_size
                    except OSError:
                        pass
            if total > limit:
                break
    except OSError:
        return
    if total > limit:
        run(["go", "clean", "-cache"], check=False)


def gc_work(keep_key):
    """Remove preparations of other repo states (disk is limited)."""
    if not os.path.isdir(WORK):
        return
    for d in os.listdir(WORK):
        p = os.path.join(WORK, d)
        if os.path.isdir(p) and d != keep_key and re.fullmatch(r"[0-9a-f]{20}", d):
            shutil.rmtree(p, ignore_errors=True)


def prepare(tier, seed=1):
    """Generate + compile the tier's grammar slice with the current generator; build the harness.
    Returns the dict stored in <work>/prep.json."""
    key = repo_key()
    wd = os.path.join(WORK, key, tier)
    with Lock():
        pj = os.path.join(wd, "prep.json")
        if os.path.exists(pj):
            return json.load(open(pj))
        gc_work(key)
        trim_go_cache()
        t0 = time.time()
        shutil.rmtree(wd, ignore_errors=True)
        gm = os.path.join(wd, "genmod")
        os.makedirs(gm)
        info = {"key": key, "tier": tier, "work": wd, "genmod": gm, "errors": []}
        # 1. tools that link the *current* /repo
        bindir = os.path.join(wd, "bin")
        os.makedirs(bindir)
        harness_build(wd, os.path.join(bindir, "gengram"), "./cmd/gengram")
        # 2. generator run (Force) on the grammar slice and on testobj
        p = run([os.path.join(bindir, "gengram"), "-root", gm, "-tier", tier, "-seed", str(seed), "-phase", "generate"], cwd=wd, check=False)
        info["generate_rc"] = p.returncode
        info["generate_log"] = (p.stdout or "")[-2000:]
        if p.returncode != 0:
            info["errors"].append("generator run failed")
            json.dump(info, open(pj, "w"), indent=1)
            return info
        open(os.path.join(gm, "go.mod"), "w").write(GOMOD % (REPO, HARNESS))
        shutil.copy(os.path.join(REPO, "go.sum"), os.path.join(gm, "go.sum"))
        shapes = json.load(open(os.path.join(gm, "shapes.json")))
        generated = sorted(f for f in os.listdir(os.path.join(gm, "decl_ins")) if f.endswith("_ins.go"))
        info["shapes_enumerated"] = len(shapes)
        info["files_generated"] = len(generated)
        # 3. pruning loop: drop the files the Go compiler rejects until the package builds
        rejected = {}
        for rnd in range(12):
            p = run(["go", "build", "-gcflags=-e", "./decl_ins/"], cwd=gm, check=False)
            if p.returncode == 0:
                break
            bad = {}
            for line in (p.stdout or "").splitlines():
                m = re.match(r"^(?:\./)?decl_ins/([a-z0-9_]+\.go):(\d+):(\d+): (.*)$", line.strip())
                if m:
                    bad.setdefault(m.group(1), m.group(4))
            if not bad:
                info["errors"].append("decl_ins does not build and no file could be blamed: " + (p.stdout or "")[-1500:])
                break
            for f, msg in bad.items():
                rejected[f] = msg
                os.remove(os.path.join(gm, "decl_ins", f))
        info["rejected"] = rejected
        # fresh testobj_ins must build as a whole; files the compiler rejects are recorded and dropped
        fresh_rejected = {}
        for rnd in range(8):
            p = run(["go", "build", "-gcflags=-e", "./fresh/testobj_ins/"], cwd=gm, check=False)
            if p.returncode == 0:
                break
            bad = {}
            for line in (p.stdout or "").splitlines():
                m = re.match(r"^(?:\./)?fresh/testobj_ins/([a-z0-9_]+\.go):(\d+):(\d+): (.*)$", line.strip())
                if m:
                    bad.setdefault(m.group(1), "%s:%s: %s" % (m.group(2), m.group(3), m.group(4)))
            if not bad:
                info["errors"].append("regenerated testobj_ins does not build and no file could be blamed: " + (p.stdout or "")[-1500:])
                shutil.rmtree(os.path.join(gm, "fresh", "testobj_ins"), ignore_errors=True)
                os.makedirs(os.path.join(gm, "fresh", "testobj_ins"))
                break
            for f, msg in bad.items():
                fresh_rejected[f] = msg
                os.remove(os.path.join(gm, "fresh", "testobj_ins", f))
        if not [f for f in os.listdir(os.path.join(gm, "fresh", "testobj_ins")) if f.endswith(".go")]:
            open(os.path.join(gm, "fresh", "testobj_ins", "doc.go"), "w").write("package testobj_ins\n")
        info["fresh_testobj_builds"] = not fresh_rejected
        info["fresh_rejected"] = fresh_rejected
        # 4. main package registering every surviving type; harness binary
        run([os.path.join(bindir, "gengram"), "-root", gm, "-phase", "main"], cwd=wd)
        p = run(["go", "build", "-o", os.path.join(bindir, "corr"), "."], cwd=gm, check=False)
        if p.returncode != 0:
            info["errors"].append("harness does not build: " + (p.stdout or "")[-3000:])
        # 4b. the three targets, twice in fresh processes (C13)
        for runname in ("A", "B"):
            p = run([os.path.join(bindir, "gengram"), "-root", gm, "-phase", "targets", "-run", runname], cwd=wd, check=False)
            if p.returncode != 0:
                info["errors"].append("target run %s failed: %s" % (runname, (p.stdout or "")[-800:]))
        # 5. go/ssa facts about package-level writes (C20), over the library and every generated package
        harness_build(wd, os.path.join(bindir, "globals"), "./cmd/globals")
        os.makedirs(os.path.join(gm, "extracted"), exist_ok=True)
        p = run([os.path.join(bindir, "globals"), "-dir", gm, "-extra", "gen/decl_ins,gen/fresh/testobj_ins", "-out", os.path.join(gm, "extracted", "Globals.lean")], cwd=gm, check=False)
        if p.returncode != 0:
            info["errors"].append("globals extractor failed: " + (p.stdout or "")[-1500:])
        # 6. race-enabled harness (C20)
        p = run(["go", "build", "-race", "-o", os.path.join(bindir, "corr-race"), "."], cwd=gm, check=False, env=dict(GOENV, CGO_ENABLED="1"))
        if p.returncode != 0:
            info["errors"].append("race-enabled harness does not build: " + (p.stdout or "")[-1500:])
        info["corr_race"] = os.path.join(bindir, "corr-race")
        info["alive"] = len(open(os.path.join(gm, "alive.txt")).read().split())
        info["corr"] = os.path.join(bindir, "corr")
        info["prepare_s"] = round(time.time() - t0, 1)
        json.dump(info, open(pj, "w"), indent=1)
        return info


def prepare_lib(tier):
    """Build the library-only harness against the current /repo."""
    key = repo_key()
    wd = os.path.join(WORK, key, "lib")
    with Lock():
        pj = os.path.join(wd, "prep.json")
        if os.path.exists(pj):
            return json.load(open(pj))
        gc_work(key)
        shutil.rmtree(wd, ignore_errors=True)
        os.makedirs(os.path.join(wd, "bin"))
        info = {"key": key, "tier": tier, "work": wd, "errors": [], "genmod": wd}
        p = harness_build(wd, os.path.join(wd, "bin", "corr"), "./cmd/libonly", check=False)
        if p.returncode != 0:
            info["errors"].append("library harness does not build: " + (p.stdout or "")[-3000:])
        info["corr"] = os.path.join(wd, "bin", "corr")
        json.dump(info, open(pj, "w"), indent=1)
        return info


if __name__ == "__main__":
    tier = sys.argv[1] if len(sys.argv) > 1 else "quick"
    i = prepare(tier)
    print(json.dumps({k: v for k, v in i.items() if k not in ("rejected", "generate_log")}, indent=1))
    print("rejected:", len(i.get("rejected", {})))
