/-
Spec/StructEq.lean — C05/C11's reading of DeepEqual: structural identity / difference, three-valued.
Independent of `Gen/`.
-/
import InspectorModel.Core.Lookup
import InspectorModel.Gen.DEQ
namespace Inspector

/-- `must`: the two values are structurally identical here (answer must be true as far as this position
goes); `mustNot`: they differ definitively; `either`: the property leaves it open (floats that differ by
no more than the tolerance, pointer-keyed maps of independent objects). -/
inductive Tri
  | must | mustNot | either
deriving Repr, DecidableEq, Inhabited

def Tri.and : Tri → Tri → Tri
  | .mustNot, _ | _, .mustNot => .mustNot
  | .either, _ | _, .either => .either
  | .must, .must => .must

/-- Is the field with dotted path `π` looked at under the options (C11)? Ancestors are tested on the
way down, so "reached through listed ancestors" and "inside excluded fields" come out by recursion. -/
def specLooksAt (opts : Option DeqOpts) (π : String) : Bool :=
  match opts with
  | none => true
  | some o =>
    if !o.exclude.isEmpty then !(o.exclude.contains π)
    else if !o.filter.isEmpty then o.filter.contains π
    else true

def specPrec (opts : Option DeqOpts) : Int :=
  match opts with
  | some o => if o.precision > 0 then o.precision else 1048
  | none => 1048

def dotted (π name : String) : String := if π.isEmpty then name else π ++ "." ++ name

structure EqEnv where
  opts : Option DeqOpts := none
  ident : Bool := false

def eqScalar (prec : Int) : Val → Val → Tri
  | .float a, .float b =>
    if a == b then .must else if (a - b).natAbs > prec.toNat then .mustNot else .either
  | .bool a, .bool b => if a == b then .must else .mustNot
  | .int a, .int b => if a == b then .must else .mustNot
  | .uint a, .uint b => if a == b then .must else .mustNot
  | .str a, .str b => if a == b then .must else .mustNot
  | _, _ => .either

mutual
/-- Position described by node `n` (pointer level included) at dotted path `π`, already known to be looked at. -/
def eqS (env : EqEnv) (n : Node) (π : String) (a b : Val) : Tri :=
  match a with
  | .nilptr => if b.isNilPtr then .must else .mustNot
  | .ptr aw =>
    (match b with
     | .ptr bw => eqS env (n.withPtr false) π aw bw
     | _ => .mustNot)
  | .bool _ | .int _ | .uint _ | .float _ | .str _ => eqScalar (specPrec env.opts) a b
  | .bytes _ ad _ =>
    (match b with
     | .bytes _ bd _ => if ad == bd then .must else .mustNot
     | _ => .either)
  | .struct afs =>
    (match n, b with
     | .struct _ chld, .struct bfs => eqFields env chld π afs bfs
     | _, _ => .either)
  | .map _ aks avs =>
    (match n, b with
     | .map _ mk mv, .map _ bks bvs =>
       if aks.length != bks.length then .mustNot
       else if mk.ptr && !env.ident then (if aks.isEmpty then .must else .either)
       else eqMapVals env mv π aks avs bks bvs
     | _, _ => .either)
  | .slice _ aes _ =>
    (match n, b with
     | .slice _ e, .slice _ bes _ =>
       if aes.length != bes.length then .mustNot else eqElems env e π aes bes
     | _, _ => .either)
termination_by structural a

def eqFields (env : EqEnv) (chld : List Node) (π : String) (as bs : List Val) : Tri :=
  match as with
  | [] => .must
  | a :: as' =>
    match chld, bs with
    | ch :: chs, b :: bs' =>
      let π' := dotted π ch.name
      let here := if specLooksAt env.opts π' then eqS env ch π' a b else .must
      here.and (eqFields env chs π as' bs')
    | _, _ => .either
termination_by structural as

def eqMapVals (env : EqEnv) (mv : Node) (π : String) (aks avs bks bvs : List Val) : Tri :=
  match avs with
  | [] => .must
  | av :: avs' =>
    match aks with
    | ak :: aks' =>
      (match lookupKey bks bvs ak with
       | none => .mustNot
       | some bv => (eqS env mv π av bv).and (eqMapVals env mv π aks' avs' bks bvs))
    | [] => .either
termination_by structural avs

def eqElems (env : EqEnv) (e : Node) (π : String) (as bs : List Val) : Tri :=
  match as with
  | [] => .must
  | a :: as' =>
    match bs with
    | b :: bs' => (eqS env e π a b).and (eqElems env e π as' bs')
    | [] => .mustNot
termination_by structural as
end

def deqAccepts (t : Tri) (o : DeqOut) : Bool :=
  match t with
  | .must => o == .t
  | .mustNot => o == .f
  | .either => o == .t || o == .f

end Inspector
