package corr

import "sort"

func init() {
	Runners["C18"] = runC18
}

var jForms = []Form{FormVal, FormPtr, FormPtrPtr, FormVal, FormPtr, FormForeign, FormNil, FormNilP, FormNilPP}

func runC18(p *Plan) {
	r := NewRng(p.Seed)
	trees := scale(p.Tier, 150, 1200)
	for t := 0; t < trees; t++ {
		m := genTree(r, 3)
		if m == nil && r.Chance(2, 3) {
			m = map[string]any{"a": 1}
		}
		paths := treePaths(r, m, 4)
		sort.Slice(paths, func(i, j int) bool {
			return len(paths[i]) < len(paths[j]) || (len(paths[i]) == len(paths[j]) && joinKeys(paths[i]) < joinKeys(paths[j]))
		})
		if len(paths) > 25 {
			for i := len(paths) - 1; i > 0; i-- {
				j := r.Intn(i + 1)
				paths[i], paths[j] = paths[j], paths[i]
			}
			paths = paths[:25]
		}
		for _, path := range paths {
			f := jForms[r.Intn(len(jForms))]
			if r.Chance(2, 3) {
				f = jForms[r.Intn(3)]
			}
			OpJGet(p.Out, m, f, path)
			OpJLC(p.Out, m, f, path, false)
			OpJLC(p.Out, m, f, path, true)
			rights := []string{"0", "1", "-5", "a", "k1", "true", "zz", "1.5", "0x10", ""}
			OpJCmp(p.Out, m, f, path, 1+r.Intn(6), rights[r.Intn(len(rights))])
			src := GenSrc(r, KindNames[r.Intn(len(KindNames))])
			if src.Form == "pn" && r.Chance(3, 4) {
				src.Form = "p"
			}
			OpJSet(p.Out, m, f, path, src, []string{"none", "buf"}[r.Intn(2)])
			OpJLoop(p.Out, m, f, path, r.Bool(), []int{r.Intn(3), r.Intn(3), 0})
			p.Out.Count("pathlen:" + itoa(len(path)))
		}
		f := jForms[r.Intn(len(jForms))]
		OpJCopy(p.Out, m, f, "copy")
		OpJCopy(p.Out, m, jForms[r.Intn(3)], "copyto")
		OpJReset(p.Out, m, f)
	}
}

func joinKeys(p []string) string {
	s := ""
	for _, k := range p {
		s += k + "\x00"
	}
	return s
}
