#!/bin/sh
# fixedcheck.sh <property>... — development aid: runs the quick check, then re-judges the same ops with the
# fully repaired model (MODE fixedcheck): any "model-viol FIXED-MODEL" line is a counterexample to a theorem
# of the form "the repaired model satisfies the property's acceptance relation".
cd "$(dirname "$0")/.." || exit 2
for p in "$@"; do
  python3 scripts/check.py "$p" quick | tail -1
  for f in .work/*/*/run_${p}_1/ops.txt; do
    [ -f "$f" ] || continue
    (echo "MODE fixedcheck"; grep -v '^MODE ' "$f") | lean/.lake/build/bin/driver | cut -d' ' -f2,3,4 | sort | uniq -c | sort -rn | head -5 | sed "s/^/   $p fixed: /"
  done
done
