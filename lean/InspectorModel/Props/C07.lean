/-
Props/C07.lean — property theorems for C07 (values handed out through an accumulating buffer stay intact
and never overlap).

Model: Lib/Buffer.lean (arena of byte arrays, windows, `bufStep`); acceptance check applied to real
histories: `bufHistoryViolation` (Spec/BufSpec.lean), run by the driver on the observations of every `BH`
record. `tight` = `{ openCap := false }` is the repaired configuration (values handed out as
`b[off:len:len]`); the current tree is `{ openCap := true }` (`b[off:]`).

* `bufInv_init`, `bufInv_step`, `bufInv_history`: the invariant `BufInv` (Proofs/C07.lean: every window
  inside its array; the windows of distinct live handles — byte slices and strings, SPARE CAPACITY
  INCLUDED — pairwise disjoint, and disjoint from the buffer's free region) holds initially and is
  preserved by every operation and every growth choice of the runtime, hence along every history.
* `other_handles_untouched`, `value_kept_until_reset`: an operation not aimed at a live handle leaves
  its window and bytes alone; so a value keeps its content for as long as the buffer is not reset and
  nothing is aimed at that value, however much is accumulated, overwritten or grown elsewhere.
* `history_accepted`: the executable acceptance check accepts the observations of every history of the
  repaired model.
* `history_refines_independent_values`: full functional statement — along every history the repaired
  buffer shows every live value exactly as the reference semantics `absStep`, in which every handed-out
  value is a value of its own (hand-out = copy of the input; an operation changes its target only).
* Hypothesis `runLive` / `opLive` (Bool, Spec/BufSpec.lean): the client does not write, append or Set
  *through a value handed out before the last Reset*. It is necessary (`stale_write_breaks`): after a
  Reset the buffer legitimately reuses those bytes.
* `open_mode_overlaps`, `open_mode_set_overlaps`: the current tree violates the property
  (known finding `buffer-open-capacity`).
-/
import InspectorModel.Proofs.C07
namespace Inspector.C07

/-- Reset forgets every handed-out value and keeps the array. -/
theorem reset_keeps_array (cfg : BufCfg) (s : BufSt) (nc : Nat) :
    (bufStep cfg s .reset nc).arrays = s.arrays := rfl

/-! ### 1. The invariant -/

/-- A fresh buffer of any capacity satisfies the invariant. -/
theorem bufInv_init (c : Nat) : BufInv (initBuf c) := C07.bufInv_init' c

/-- Every operation of the repaired model preserves the invariant, whatever capacity `newCap` the runtime
picks when an append has to grow. -/
theorem bufInv_step (s : BufSt) (inv : BufInv s) (op : BufOp) (newCap : Nat) :
    BufInv (bufStep tight s op newCap) := C07.bufInv_step' inv op newCap

/-- … hence every history (a list of operations, each with the runtime's growth choice) does. -/
theorem bufInv_history (c : Nat) (steps : List (BufOp × Nat)) :
    BufInv (steps.foldl (fun s st => bufStep tight s st.1 st.2) (initBuf c)) := by
  rw [← bufRun_eq_foldl]; exact bufInv_run (C07.bufInv_init' c) steps

/-- The invariant has an executable form (`bufInvB`, Proofs/C07.lean) for concrete states. -/
theorem bufInv_of_check (s : BufSt) (h : bufInvB s = true) : BufInv s := bufInvB_sound h

/-- Distinct live handed-out values never overlap, spare capacity included (strings too, so no range a
client can write reaches a string). -/
theorem handles_never_overlap (c : Nat) (steps : List (BufOp × Nat)) (i j : Nat) (hi hj : Handle) (hne : i ≠ j)
    (h1 : (bufRun tight (initBuf c) steps).handles[i]? = some hi)
    (h2 : (bufRun tight (initBuf c) steps).handles[j]? = some hj)
    (s1 : hi.stale = false) (s2 : hj.stale = false) :
    hi.win.arr ≠ hj.win.arr ∨ hi.win.off + hi.win.cap ≤ hj.win.off ∨ hj.win.off + hj.win.cap ≤ hi.win.off :=
  (bufInv_run (C07.bufInv_init' c) steps).disj i j hi hj hne h1 h2 s1 s2

/-- No live handed-out value reaches into the bytes the buffer will write next (its free region). -/
theorem handles_avoid_free_region (c : Nat) (steps : List (BufOp × Nat)) (i : Nat) (hd : Handle) (b : Win)
    (h1 : (bufRun tight (initBuf c) steps).handles[i]? = some hd) (s1 : hd.stale = false)
    (hb : (bufRun tight (initBuf c) steps).buf = some b) :
    hd.win.arr ≠ b.arr ∨ hd.win.off + hd.win.cap ≤ b.off + b.len ∨ b.off + b.cap ≤ hd.win.off :=
  (bufInv_run (C07.bufInv_init' c) steps).free i hd b h1 s1 hb

/-! ### 2. Stability -/

/-- One step: an operation that is not aimed at the live handle `j` leaves it exactly as it was — same
window, same bytes (a Reset only marks it stale). Operations aimed at a handle can change that handle only. -/
theorem other_handles_untouched (s : BufSt) (inv : BufInv s) (op : BufOp) (newCap : Nat)
    (hlive : opLive s op = true)
    (j : Nat) (hd : Handle) (hj : s.handles[j]? = some hd) (hst : hd.stale = false)
    (hne : op.target ≠ some j) :
    (bufStep tight s op newCap).handles[j]? = some (if op.isReset then { hd with stale := true } else hd) ∧
    readWin (bufStep tight s op newCap).arrays hd.win = readWin s.arrays hd.win :=
  stable_step inv op newCap hlive j hd hj hst hne

/-- Histories: a handed-out value keeps its window and its content for as long as the buffer is not reset
and no operation is aimed at it — however much is accumulated afterwards, and whatever is overwritten,
appended to or Set on other handed-out values. -/
theorem value_kept_until_reset (c : Nat) (before after : List (BufOp × Nat))
    (hlive : runLive tight (bufRun tight (initBuf c) before) after = true)
    (j : Nat) (hd : Handle) (hj : (bufRun tight (initBuf c) before).handles[j]? = some hd)
    (hst : hd.stale = false)
    (hno : ∀ st ∈ after, st.1.isReset = false ∧ st.1.target ≠ some j) :
    (bufRun tight (initBuf c) (before ++ after)).handles[j]? = some hd ∧
    readWin (bufRun tight (initBuf c) (before ++ after)).arrays hd.win =
      readWin (bufRun tight (initBuf c) before).arrays hd.win := by
  rw [bufRun_append]
  exact stable_run (bufInv_run (C07.bufInv_init' c) before) after hlive j hd hj hst hno

/-! ### 3. The executable acceptance check -/

/-- C07 for the repaired buffer: for every initial capacity, every history and every growth choice of
the runtime, the acceptance check the driver applies to real histories accepts the model's observations. -/
theorem history_accepted (c : Nat) (steps : List (BufOp × Nat))
    (hlive : runLive tight (initBuf c) steps = true) :
    bufHistoryViolation (steps.map (·.1)) (bufRunObs tight (initBuf c) steps) = none := by
  have h := go_none (C07.bufInv_init' c) steps hlive 0
  have h0 : bufObs (initBuf c) = [] := by
    unfold initBuf bufObs; by_cases hc : (c == 0) = true <;> simp [hc]
  rw [h0] at h
  exact h

/-! ### 3b. Full strength: the repaired buffer implements independent values -/

/-- Refinement. `absStep` (Spec/BufSpec.lean) is the reference semantics in which every handed-out value
is a Go value of its own: Bufferize/BufferizeString/AssignBuf hand out a copy of their input, a client
write/append/Set changes the value it goes through and nothing else, Reset only ends the values' life.
Along every history (client operations through live values), for every initial capacity and every growth
choice of the runtime, each live value read through its window in the arena is exactly the reference
value (`Refines`, Proofs/C07.lean: same count, same kind, same liveness, same bytes). -/
theorem history_refines_independent_values (c : Nat) (steps : List (BufOp × Nat))
    (hlive : runLive tight (initBuf c) steps = true) :
    Refines (bufRun tight (initBuf c) steps) (absRun [] steps) :=
  refines_run (C07.bufInv_init' c) (refines_init c) steps hlive

/-- … in terms of what the harness observes: the contents of the watched values are the reference contents. -/
theorem observed_contents_are_reference (c : Nat) (steps : List (BufOp × Nat))
    (hlive : runLive tight (initBuf c) steps = true) :
    (bufObs (bufRun tight (initBuf c) steps)).map (fun o => o.map (·.2)) =
      (absRun [] steps).map (fun v => if v.stale then none else some v.content) :=
  refines_obs (history_refines_independent_values c steps hlive)

/-- One step of the same, from any state satisfying the invariant. -/
theorem step_refines_independent_values (s : BufSt) (a : List AVal) (inv : BufInv s) (R : Refines s a)
    (op : BufOp) (newCap : Nat) (hlive : opLive s op = true) :
    Refines (bufStep tight s op newCap) (absStep a op) := refines_step inv R op newCap hlive

/-! ### 4. The current tree -/

/-- Known finding `buffer-open-capacity`: in the current configuration (`b[off:]`) appending to one
handed-out slice overwrites the next one; the acceptance check objects at step 2, and accepts the same
history in the repaired configuration. -/
theorem open_mode_overlaps :
    let steps : List (BufOp × Nat) := [(.bufferize [1, 2], 0), (.bufferize [3, 4], 0), (.appendTo 0 [9], 0)]
    handleContents (bufRun { openCap := true } (initBuf 8) (steps.take 2)) = [[1, 2], [3, 4]] ∧
    handleContents (bufRun { openCap := true } (initBuf 8) steps) = [[1, 2, 9], [9, 4]] ∧
    runLive { openCap := true } (initBuf 8) steps = true ∧
    bufHistoryViolation (steps.map (·.1)) (bufRunObs { openCap := true } (initBuf 8) steps) = some 2 ∧
    handleContents (bufRun tight (initBuf 8) steps) = [[1, 2, 9], [3, 4]] ∧
    bufHistoryViolation (steps.map (·.1)) (bufRunObs tight (initBuf 8) steps) = none := by decide

/-- Same finding through an unbuffered Set on a handed-out field (`ToBytes(p[:0], …)` reuses the spare
capacity): the neighbouring value is overwritten. -/
theorem open_mode_set_overlaps :
    let steps : List (BufOp × Nat) := [(.bufferize [1, 2], 0), (.bufferizeStr [3, 4], 0), (.setNoBuf 0 [7, 7, 7], 0)]
    handleContents (bufRun { openCap := true } (initBuf 8) steps) = [[7, 7, 7], [7, 4]] ∧
    bufHistoryViolation (steps.map (·.1)) (bufRunObs { openCap := true } (initBuf 8) steps) = some 2 ∧
    handleContents (bufRun tight (initBuf 8) steps) = [[7, 7, 7], [3, 4]] := by decide

/-- The hypothesis `runLive` is needed: writing through a value handed out before a Reset reaches the
bytes the buffer has legitimately reused (client misuse, not a defect of the buffer). -/
theorem stale_write_breaks :
    let steps : List (BufOp × Nat) := [(.bufferize [1, 2], 0), (.reset, 0), (.bufferize [3, 4], 0), (.overwrite 0 0 9, 0)]
    runLive tight (initBuf 8) steps = false ∧
    handleContents (bufRun tight (initBuf 8) steps) = [[9, 4], [9, 4]] ∧
    bufHistoryViolation (steps.map (·.1)) (bufRunObs tight (initBuf 8) steps) = some 3 := by decide

section NonVacuity
/-- A history over a buffer of capacity 4 that grows twice, is reset, re-assigns a stale variable, and has
client writes, appends and unbuffered Sets on live values. -/
def exSteps : List (BufOp × Nat) :=
  [(.bufferize [1, 2], 0), (.bufferizeStr [3, 4, 5], 16), (.assignBuf [6] false, 0), (.appendTo 0 [7], 8),
   (.overwrite 2 0 8, 0), (.setNoBuf 0 [9, 9, 9, 9, 9], 12), (.assignBufTo 2 [10, 11], 0)]
def exAfterReset : List (BufOp × Nat) :=
  [(.reset, 0), (.assignBufTo 1 [12], 0), (.bufferize [13, 14], 0), (.overwrite 3 0 15, 0)]

example : runLive tight (initBuf 4) (exSteps ++ exAfterReset) = true := by decide
example : bufInvB (bufRun tight (initBuf 4) (exSteps ++ exAfterReset)) = true := by decide
example : handleContents (bufRun tight (initBuf 4) exSteps) = [[9, 9, 9, 9, 9], [3, 4, 5], [10, 11]] := by decide
example : bufObs (bufRun tight (initBuf 4) (exSteps ++ exAfterReset)) = [none, some (1, [12]), none, some (2, [15, 14])] := by decide
/-- The string handed out second survives everything `exSteps` does after it (hypotheses of
`value_kept_until_reset` for `before = exSteps.take 2`, `after = exSteps.drop 2`, `j = 1`). -/
example : runLive tight (bufRun tight (initBuf 4) (exSteps.take 2)) (exSteps.drop 2) = true ∧
    (bufRun tight (initBuf 4) (exSteps.take 2)).handles[1]? = some { win := { arr := 1, off := 2, len := 3, cap := 3 }, isStr := true } ∧
    (exSteps.drop 2).all (fun st => !st.1.isReset && !(st.1.target == some 1)) = true := by decide
example : (absRun [] (exSteps ++ exAfterReset)).map (fun v => (v.content, v.isStr, v.stale)) =
    [([9, 9, 9, 9, 9], false, true), ([12], true, false), ([10, 11], false, true), ([15, 14], false, false)] := by decide
/-- The nil buffer (`NewByteBuffer(0)`) and the empty value. -/
example : handleContents (bufRun tight (initBuf 0) [(.assignBuf [] true, 0), (.bufferize [], 0), (.bufferize [1], 0), (.appendTo 1 [2], 0)])
    = [[], [2], [1]] := by decide
end NonVacuity

/-- The tree as it is now: since `fix: hand out buffered byte slices with their own capacity` the default
configuration — the one the driver replays real histories with — is the repaired one, so every theorem above is
a statement about the model of the current code. -/
theorem current_is_tight : ({} : BufCfg) = { openCap := false } := rfl

end Inspector.C07
