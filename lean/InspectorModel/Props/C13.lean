/-
Props/C13.lean — property theorems for C13 (generation is deterministic and target-independent).

The part of C13 that is a statement about the two parsers: the go/ast parser (directory and single-file
targets, parser_ast.go) and the go/types parser (package target, parser_loader.go), as modelled in
Gen/Parsers.lean, produce THE SAME parsed type tree for a declared type — under the decidable hypothesis
`DeclOK` (Proofs/C13Hyps.lean). For the ORIGINAL go/types parser (`Pkg.dropsFirstQualOnly`, `strings.Replace(…, 1)`)
its essential clause is that no slice/map literal mentions more than one declared type; without that clause the
parsers differ (`repo_not_correct`, finding `parser-typename-qualification`, witness `kvPkgOrig`). For the parser as
it is since the `fix:` commit (`strings.Replace(…, -1)`, flag off — the default of `Pkg`) `DeclOK` no longer
carries that clause (`agreeOK_slice_current`, `agreeOK_map_current`): `current_kv_ok`, `parsers_agree_current`,
and `current_agrees_on_kv` is now an instance of the theorem.
-/
import InspectorModel.Proofs.C13
set_option linter.unusedSimpArgs false
namespace Inspector.C13

/-- Rendering a type whose tokens contain no package-qualified name does not depend on whether a
qualifier was dropped before: `strings.Replace(…, pkgDot, "", 1)` is then the identity. -/
theorem render_no_qual (p : Pkg) (ts : List TTok) (h : ∀ t ∈ ts, ∃ s, t = .lit s) (a b : Bool) :
    renderDropFirst p ts a = renderDropFirst p ts b := by
  induction ts generalizing a b with
  | nil => rfl
  | cons t rest ih =>
    obtain ⟨s, hs⟩ := h t (by simp)
    subst hs
    simp only [renderDropFirst]
    rw [ih (fun t ht => h t (by simp [ht])) a b]

/-- With at most one declared type mentioned, `strings.Replace(t.String(), pkgDot, "", 1)` yields the type as
the source spells it (which is what `composeAstTypeName` builds on the go/ast side). -/
theorem typeString_single_named (p : Pkg) (e : TExpr) (h : quals p e ≤ 1) : typeStringLocal p e = plain e :=
  typeStringLocal_plain p e (Or.inr h)

/-- The repaired parser (`strings.Replace(t.String(), pkgDot, "", -1)`) yields the source spelling whatever the
number of declared types mentioned. -/
theorem typeString_current (p : Pkg) (e : TExpr) (hp : p.dropsFirstQualOnly = false) :
    typeStringLocal p e = plain e :=
  typeStringLocal_plain p e (Or.inl hp)

/-- **C13, parser agreement.** For every package `p`, every declared type `name` and every `f`: if the
declaration satisfies `DeclOK p name f` (see `AgreeOK` for the clauses: resolvable within fuel `f`, for the
original go/types parser `p.dropsFirstQualOnly` at most one declared type per slice/map literal, struct literals
only as definitions of declared types, no declared
pointer types, no `**T`, no empty identifiers), then with any fuel `≥ 2 f + 2` the go/ast parser model and the
go/types parser model return the same tree. (The go/types model spends up to two units of fuel per level —
`parsePkgE` → `parsePkgU` — hence the factor 2.) -/
theorem parsers_agree (p : Pkg) (name : String) (f fuel : Nat) (h : DeclOK p name f = true)
    (hfuel : 2 * f + 2 ≤ fuel) : parseAstDecl p name fuel = parsePkgDecl p name fuel := by
  unfold parseAstDecl parsePkgDecl
  unfold DeclOK at h
  cases hl : p.lookup name with
  | none => rfl
  | some d =>
    simp only [hl] at h
    simp only []
    obtain ⟨g, rfl⟩ : ∃ g, fuel = g + 1 := ⟨fuel - 1, by omega⟩
    rw [parsePkgE, hl]
    simp only []
    rw [ast_stable p f true d h (g + 1) (by omega)]
    have hu := (agree_all p f).2.2.1 d g name p.name h (by omega)
    rw [hu]
    generalize parseAstE p f d = a
    cases a <;> rfl

/-- The fuel is immaterial once it suffices: the go/ast parser's answer does not change with more fuel … -/
theorem parseAstDecl_stable (p : Pkg) (name : String) (f fuel : Nat) (h : DeclOK p name f = true)
    (hfuel : f ≤ fuel) : parseAstDecl p name fuel = parseAstDecl p name f := by
  unfold parseAstDecl
  unfold DeclOK at h
  cases hl : p.lookup name with
  | none => rfl
  | some d =>
    simp only [hl] at h
    simp only []
    rw [ast_stable p f true d h fuel hfuel]

/-- … hence neither does the go/types parser's, and the two agree at independently chosen fuels. -/
theorem parsers_agree_any_fuel (p : Pkg) (name : String) (f fuelAst fuelPkg : Nat) (h : DeclOK p name f = true)
    (ha : f ≤ fuelAst) (hp : 2 * f + 2 ≤ fuelPkg) :
    parseAstDecl p name fuelAst = parsePkgDecl p name fuelPkg := by
  rw [← parsers_agree p name f fuelPkg h hp, parseAstDecl_stable p name f fuelAst h ha,
    parseAstDecl_stable p name f fuelPkg h (by omega)]

/-- The form the driver evaluates (`opParsers`: fuel 64, trees compared with `==`): whenever
`DeclOK pk name 31` holds, the comparison `ma == mp` of the two model trees is `true`, so the verdict
`known parser-typename-qualification` can only arise on a declaration that violates `DeclOK`. -/
theorem parsers_agree_driver (pk : Pkg) (name : String) (ma mp : Node) (h : DeclOK pk name 31 = true)
    (ha : parseAstDecl pk name 64 = some ma) (hp : parsePkgDecl pk name 64 = some mp) : (ma == mp) = true := by
  have := parsers_agree pk name 31 64 h (by omega)
  rw [ha, hp] at this
  cases this
  exact Node.beq_refl ma

/-! ## the tree at the pinned commit (original go/types parser): the quals clause is needed -/

/-- `type K string; type V int32; type T struct{ F map[K]V }`. -/
def kvPkg : Pkg :=
  { name := "pk", path := "example.com/pk",
    decls := [("K", .name "string"), ("V", .name "int32"), ("T", .struct [("F", .map (.name "K") (.name "V"))])] }

/-- The same package through the original go/types parser (first qualifier removed only). -/
def kvPkgOrig : Pkg := { kvPkg with dropsFirstQualOnly := true }

/-- Finding `parser-typename-qualification` (repaired in /repo): on `T` the go/ast parser records `typn = "map[K]V"` for field `F`,
the go/types parser `typn = "map[K]example.com/pk.V"` (only the first qualifier is removed); the declaration
violates `DeclOK` at every fuel that would otherwise suffice, in the `quals ≤ 1` clause only. -/
theorem repo_not_correct : parseAstDecl kvPkgOrig "T" 64 ≠ parsePkgDecl kvPkgOrig "T" 64 := by
  simp [parseAstDecl, parsePkgDecl, kvPkgOrig, kvPkg, Pkg.lookup, List.find?, parseAstE, parseAstFields, parsePkgE,
    parsePkgU, parsePkgFields, Node.typn, Node.info, setName, setTypn, setPkg, withComposed, composeTypn,
    typeStringLocal, typeToks, renderDropFirst, Node.ptr]

theorem repo_not_correct_typn :
    (parseAstDecl kvPkgOrig "T" 64).map (fun n => match n with | .struct _ [c] => c.typn | _ => "") = some "map[K]V" ∧
    (parsePkgDecl kvPkgOrig "T" 64).map (fun n => match n with | .struct _ [c] => c.typn | _ => "") =
      some "map[K]example.com/pk.V" := by
  constructor <;>
  simp [parseAstDecl, parsePkgDecl, kvPkgOrig, kvPkg, Pkg.lookup, List.find?, parseAstE, parseAstFields, parsePkgE,
    parsePkgU, parsePkgFields, Node.typn, Node.info, setName, setTypn, setPkg, withComposed, composeTypn,
    typeStringLocal, typeToks, renderDropFirst, Node.ptr]

theorem repo_not_correct_violates :
    DeclOK kvPkgOrig "T" 31 = false ∧ quals kvPkgOrig (.map (.name "K") (.name "V")) = 2 := by
  decide

/-! ## the tree as it is now: the quals clause is gone -/

/-- For the parser as it is (`dropsFirstQualOnly` off) the quals clause of `AgreeOK` is vacuous: a slice literal
is admitted exactly when its element is … -/
theorem agreeOK_slice_current (p : Pkg) (hp : p.dropsFirstQualOnly = false) (f : Nat) (top : Bool) (x : TExpr) :
    AgreeOK p (f + 1) top (.slice x) = AgreeOK p f false x := by
  simp [AgreeOK, hp]

/-- … and a map literal exactly when its key and value are, however many declared types they mention. -/
theorem agreeOK_map_current (p : Pkg) (hp : p.dropsFirstQualOnly = false) (f : Nat) (top : Bool) (k v : TExpr) :
    AgreeOK p (f + 1) top (.map k v) = (AgreeOK p f false k && AgreeOK p f false v) := by
  simp [AgreeOK, hp]

/-- The declaration on which the original parser failed satisfies the hypothesis for the parser as it is
(`kvPkg` has the default flag: off), although its map literal mentions two declared types. -/
theorem current_kv_ok : DeclOK kvPkg "T" 31 = true := by decide

/-- … so the parser as it is agrees on `T`: an instance of `parsers_agree`. -/
theorem current_agrees_on_kv : parseAstDecl kvPkg "T" 64 = parsePkgDecl kvPkg "T" 64 :=
  parsers_agree kvPkg "T" 31 64 current_kv_ok (by decide)

/-- **C13, parser agreement, for the tree as it is.** `parsers_agree` at a package read by the repaired go/types
parser (`p.dropsFirstQualOnly = false`, the default of `Pkg`): `DeclOK` then demands nothing about the number of
declared types in a slice/map literal (`agreeOK_slice_current`, `agreeOK_map_current`); what remains is
resolvability within the fuel, struct literals only as definitions of declared types, no declared pointer types,
no `**T`, no empty identifiers — each still needed (`section ClausesNeeded`, packages with the default flag). -/
theorem parsers_agree_current (p : Pkg) (_hp : p.dropsFirstQualOnly = false) (name : String) (f fuel : Nat)
    (h : DeclOK p name f = true) (hfuel : 2 * f + 2 ≤ fuel) :
    parseAstDecl p name fuel = parsePkgDecl p name fuel :=
  parsers_agree p name f fuel h hfuel

/-- The other two declarations of the same package satisfy the hypothesis, for either parser. -/
theorem kv_others_ok : DeclOK kvPkg "K" 31 = true ∧ DeclOK kvPkg "V" 31 = true := by decide
theorem kvOrig_others_ok : DeclOK kvPkgOrig "K" 31 = true ∧ DeclOK kvPkgOrig "V" 31 = true := by decide

/-! ### the other clauses of `AgreeOK` are needed too (the model parsers differ when one is dropped) -/

section ClausesNeeded

/-- Evaluate both model parsers on a closed package. -/
macro "eval_parsers" : tactic =>
  `(tactic| simp [parseAstDecl, parsePkgDecl, Pkg.lookup, List.find?, parseAstE, parseAstFields, parsePkgE,
      parsePkgU, parsePkgFields, underlyingOf, Node.typn, Node.info, setName, setTypn, setPkg, withComposed,
      composeTypn, typeStringLocal, typeToks, renderDropFirst, dropLeadingStar_star, Node.ptr, Node.withPtr])

/-- `type T struct{ F struct{ X int } }`: an anonymous struct field. -/
def anonStructPkg : Pkg :=
  { name := "pk", path := "example.com/pk", decls := [("T", .struct [("F", .struct [("X", .name "int")])])] }
theorem anon_struct_differs : parseAstDecl anonStructPkg "T" 64 ≠ parsePkgDecl anonStructPkg "T" 64 := by
  unfold anonStructPkg; eval_parsers
theorem anon_struct_violates : DeclOK anonStructPkg "T" 31 = false := by decide

/-- `type S struct{ A int }; type P *S; type T struct{ F []P }`: a declared pointer type inside a literal
(go/ast composes `[]*P`, go/types prints `[]P`). -/
def namedPtrPkg : Pkg :=
  { name := "pk", path := "example.com/pk",
    decls := [("S", .struct [("A", .name "int")]), ("P", .star (.name "S")), ("T", .struct [("F", .slice (.name "P"))])] }
theorem named_ptr_differs : parseAstDecl namedPtrPkg "T" 64 ≠ parsePkgDecl namedPtrPkg "T" 64 := by
  unfold namedPtrPkg; eval_parsers
theorem named_ptr_violates : DeclOK namedPtrPkg "T" 31 = false := by decide

/-- `type T struct{ F **int }`. -/
def ptrPtrPkg : Pkg :=
  { name := "pk", path := "example.com/pk", decls := [("T", .struct [("F", .star (.star (.name "int")))])] }
theorem ptr_ptr_differs : parseAstDecl ptrPtrPkg "T" 64 ≠ parsePkgDecl ptrPtrPkg "T" 64 := by
  unfold ptrPtrPkg
  simp [parseAstDecl, parsePkgDecl, Pkg.lookup, List.find?, parseAstE, parseAstFields, parsePkgE,
      parsePkgU, parsePkgFields, underlyingOf, Node.typn, Node.info, setName, setTypn, setPkg, withComposed,
      composeTypn, typeStringLocal, typeToks, renderDropFirst, Node.ptr, Node.withPtr]
  rw [show ("**int" : String) = "*" ++ "*int" by decide, dropLeadingStar_star]
  decide
theorem ptr_ptr_violates : DeclOK ptrPtrPkg "T" 31 = false := by decide

/-- A recursive type (`type T struct{ Next *T }`) exhausts any fuel: the hypothesis fails at the driver's fuel. -/
def recPkg : Pkg :=
  { name := "pk", path := "example.com/pk", decls := [("T", .struct [("Next", .star (.name "T"))])] }
theorem rec_violates : DeclOK recPkg "T" 31 = false := by decide

end ClausesNeeded

/-! ## non-vacuity -/

section NonVacuity

/-- The declarations of /repo/testobj/testobj.go (`TestPermission`, `TestFlag`, `TestHistory`, `TestFinance`,
`TestObject`) plus two shapes of testobj1.go (`TestFloatPtrSlice`, a `*[]*TestHistory` field and a
`*map[*float64]*TestHistory` field). -/
def testobjPkg : Pkg :=
  { name := "testobj", path := "github.com/koykov/inspector/testobj",
    decls :=
      [("TestPermission", .map (.name "int32") (.name "bool")),
       ("TestFlag", .map (.name "string") (.name "int32")),
       ("TestFloatPtrSlice", .slice (.star (.name "float32"))),
       ("TestHistory", .struct [("DateUnix", .name "int64"), ("Cost", .name "float64"), ("Comment", .slice (.name "byte"))]),
       ("TestFinance", .struct [("MoneyIn", .name "float64"), ("AllowBuy", .name "bool"),
                                ("History", .slice (.name "TestHistory"))]),
       ("TestObject", .struct
          [("Id", .name "string"), ("Name", .slice (.name "byte")), ("Status", .name "int32"),
           ("Permission", .star (.name "TestPermission")),
           ("HistoryTree", .map (.name "string") (.star (.name "TestHistory"))),
           ("Flags", .name "TestFlag"),
           ("Finance", .star (.name "TestFinance")),
           ("Floats", .star (.name "TestFloatPtrSlice")),
           ("Hs", .star (.slice (.star (.name "TestHistory")))),
           ("Hm", .star (.map (.star (.name "float64")) (.star (.name "TestHistory"))))])] }

/-- Every declaration of the package satisfies the hypothesis at the fuel the driver uses. -/
theorem testobj_ok : (testobjPkg.decls.all fun d => DeclOK testobjPkg d.1 31) = true := by decide

/-- … so the theorem applies: the two parsers agree on `TestObject` (and on every other declaration). -/
theorem testobj_agree : parseAstDecl testobjPkg "TestObject" 64 = parsePkgDecl testobjPkg "TestObject" 64 :=
  parsers_agree testobjPkg "TestObject" 31 64 (by decide) (by decide)

/-- The common tree is a proper one (not the out-of-fuel placeholder): computed directly, field `HistoryTree`
has `typn = "map[string]*TestHistory"` in both, and `Hm` is a pointer with `typn = "map[*float64]*TestHistory"`. -/
theorem testobj_tree :
    (parsePkgDecl testobjPkg "TestObject" 26).map
        (fun n => match n with | .struct i ch => (i.typn, ch.map (fun c => (c.name, c.ptr, c.typn))) | _ => ("", [])) =
      some ("TestObject",
        [("Id", false, "string"), ("Name", false, "[]byte"), ("Status", false, "int32"),
         ("Permission", true, "TestPermission"), ("HistoryTree", false, "map[string]*TestHistory"),
         ("Flags", false, "TestFlag"), ("Finance", true, "TestFinance"), ("Floats", true, "TestFloatPtrSlice"),
         ("Hs", true, "[]*TestHistory"), ("Hm", true, "map[*float64]*TestHistory")]) := by
  rw [← parsers_agree_any_fuel testobjPkg "TestObject" 12 12 26 (by decide) (by decide) (by decide)]
  unfold testobjPkg
  simp [parseAstDecl, Pkg.lookup, List.find?, parseAstE, parseAstFields, Node.typn, Node.name, Node.info, setName,
    setTypn, setPkg, withComposed, composeTypn, Node.ptr, Node.withPtr]

end NonVacuity

end Inspector.C13
