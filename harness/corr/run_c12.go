package corr

import "reflect"

func init() {
	Runners["C12"] = runC12
	Runners["C02"] = runC02
}

var threeForms = []Form{FormVal, FormPtr, FormPtrPtr}

func runC12(p *Plan) {
	p.Mode("forms")
	r := NewRng(p.Seed)
	nRandom := scale(p.Tier, 2, 8)
	perValue := scale(p.Tier, 25, 100)
	for _, e := range p.Types {
		tr := r.Fork(hashStr(e.Name))
		vals := valuesFor(p, e, tr, nRandom)
		for _, vc := range vals {
			ps := EnumPaths(tr, vc.v, perValue)
			for i, path := range ps.Paths {
				el, found := NavReflect(vc.v, path)
				cands := OperandsNear(tr, el, found)
				op := 1 + tr.Intn(6)
				right := cands[len(cands)-1-tr.Intn(min(len(cands), 8))]
				want := []bool{tr.Bool()}
				ctl := []int{0, []int{0, 2, 1}[tr.Intn(3)], 0}
				forms := threeForms
				if tr.Chance(1, 6) {
					forms = []Form{FormForeign, FormNil}
				}
				for _, f := range forms {
					OpGet(p.Out, e, vc.v, f, path, false)
					OpGet(p.Out, e, vc.v, f, path, true) // the Get wrapper has a header of its own
					OpCmp(p.Out, e, vc.v, f, path, op, right)
					OpLC(p.Out, e, vc.v, f, path, tr.Bool())
					OpLoop(p.Out, e, vc.v, f, path, want, ctl, false)
				}
				p.Out.Count("path:" + ps.Kinds[i])
			}
			// DeepEqual across forms, Copy's source across forms
			b := DeepCopy(vc.v)
			for _, fl := range threeForms {
				for _, fr := range threeForms {
					OpDeq(p.Out, e, vc.v, b, fl, fr, false, nil)
				}
				OpCopy(p.Out, e, vc.v, fl)
			}
			OpDeqFormsNaN(p.Out, e, vc.v)
			OpDeq(p.Out, e, vc.v, b, FormForeign, FormPtr, false, nil)
			OpDeq(p.Out, e, vc.v, b, FormPtr, FormForeign, false, nil)
			OpDeq(p.Out, e, vc.v, b, FormPtr, FormNil, false, nil)
			// two arguments of an unrelated type (or two untyped nils) are refused too: they are not "equal"
			OpDeq(p.Out, e, vc.v, b, FormForeign, FormForeign, false, nil)
			OpDeq(p.Out, e, vc.v, b, FormNil, FormNil, false, nil)
			OpDeq(p.Out, e, vc.v, b, FormForeign, FormNil, false, nil)
			// operations that must write through their argument
			zero := NewGen(tr, ProfNil).Val(e.Type, 0)
			OpReset(p.Out, e, vc.v, FormVal)
			OpReset(p.Out, e, vc.v, FormForeign)
			OpReset(p.Out, e, vc.v, FormNil)
			OpCopyTo(p.Out, e, vc.v, zero, FormPtr, FormVal, "roomy")
			OpCopyTo(p.Out, e, vc.v, zero, FormVal, FormForeign, "roomy")
			OpCopyTo(p.Out, e, vc.v, zero, FormForeign, FormPtr, "roomy")
			OpCopy(p.Out, e, vc.v, FormForeign)
			OpSet(p.Out, e, vc.v, FormForeign, []string{"A"}, GenSrc(tr, "int32"), "none")
		}
	}
}

var junkSegs = []string{"", "-1", "0", "1", "99999999999999999999", "NoSuchField", "zz", "nil", "0x", "1e9", "  ", "\x00", "日本", "-0", "+1", "0b1", "1_0", "true", "F", "A", "Z", "S", "N", "B"}

var allForms = []Form{FormVal, FormPtr, FormPtrPtr, FormNilP, FormNilPP, FormNilPP2, FormNil, FormForeign}

func junkPath(r *Rng, base []string) []string {
	p := append([]string(nil), base...)
	switch r.Intn(5) {
	case 0:
		p = append(p, junkSegs[r.Intn(len(junkSegs))])
	case 1:
		if len(p) > 0 {
			p[r.Intn(len(p))] = junkSegs[r.Intn(len(junkSegs))]
		}
	case 2:
		if len(p) > 0 {
			p = p[:r.Intn(len(p))]
		}
	case 3:
		n := 1 + r.Intn(6)
		for i := 0; i < n; i++ {
			p = append(p, junkSegs[r.Intn(len(junkSegs))])
		}
	}
	return p
}

func pickForm(r *Rng) Form {
	if r.Chance(1, 2) {
		return FormPtr
	}
	return allForms[r.Intn(len(allForms))]
}

func runC02(p *Plan) {
	p.Mode("nopanic")
	r := NewRng(p.Seed)
	nRandom := scale(p.Tier, 3, 12)
	perValue := scale(p.Tier, 30, 120)
	modes := []string{"none", "empty", "filled"}
	for _, e := range p.Types {
		tr := r.Fork(hashStr(e.Name))
		vals := valuesFor(p, e, tr, nRandom)
		for _, vc := range vals {
			ps := EnumPaths(tr, vc.v, perValue)
			for i, base := range ps.Paths {
				path := base
				if tr.Chance(1, 2) {
					path = junkPath(tr, base)
				}
				el, found := NavReflect(vc.v, path)
				cands := OperandsNear(tr, el, found)
				right := cands[tr.Intn(len(cands))]
				op := []int{0, 1, 2, 3, 4, 5, 6, 7, 8, 9, -1, 100}[tr.Intn(12)]
				if tr.Chance(1, 5) {
					rf := []Form{FormVal, FormPtr, FormPtrPtr, FormNilP}[tr.Intn(4)]
					if rf != FormNilP || len(path) > 0 {
						OpReflectGet(p.Out, e, vc.v, rf, path)
					}
				}
				switch tr.Intn(6) {
				case 0:
					OpGet(p.Out, e, vc.v, pickForm(tr), path, tr.Bool())
				case 1:
					OpCmp(p.Out, e, vc.v, pickForm(tr), path, op, right)
				case 2:
					OpLC(p.Out, e, vc.v, pickForm(tr), path, tr.Bool())
				case 3:
					OpLoop(p.Out, e, vc.v, pickForm(tr), path, []bool{tr.Bool()}, []int{tr.Intn(3), tr.Intn(3), 0}, false)
				default:
					kind := KindNames[tr.Intn(len(KindNames))]
					src := GenSrc(tr, kind)
					if tr.Chance(1, 10) {
						src = SrcSpec{Kind: "foreign", Form: []string{"foreign", "foreignp"}[tr.Intn(2)]}
					}
					if found && tr.Chance(1, 3) {
						// the addressed element is a struct / map / slice: a typed-nil pointer to its own type
						t := el.Type()
						for t.Kind() == reflect.Ptr {
							t = t.Elem()
						}
						if (t.Kind() == reflect.Struct || t.Kind() == reflect.Map || t.Kind() == reflect.Slice) && !isByteSlice(t) {
							src = SrcSpec{Kind: "foreign", Form: "ownnilp", Own: t}
							ev := el
							for ev.Kind() == reflect.Ptr && !ev.IsNil() {
								ev = ev.Elem()
							}
							if ev.Kind() != reflect.Ptr && tr.Bool() {
								src = SrcSpec{Kind: "foreign", Form: "ownp", Own: t, OwnV: ev}
							}
						}
					}
					f := pickForm(tr)
					if f == FormVal {
						f = FormPtr
					}
					OpSet(p.Out, e, vc.v, f, path, src, modes[tr.Intn(3)])
				}
				p.Out.Count("path:" + ps.Kinds[i])
			}
			other := vals[tr.Intn(len(vals))].v
			OpDeq(p.Out, e, vc.v, other, pickForm(tr), pickForm(tr), false, nil)
			OpDeq(p.Out, e, vc.v, vc.v, FormPtr, FormPtr, true, nil)
			OpCopy(p.Out, e, vc.v, pickForm(tr))
			fd := pickForm(tr)
			OpCopyTo(p.Out, e, vc.v, other, pickForm(tr), fd, bufClasses[tr.Intn(4)])
			OpReset(p.Out, e, vc.v, pickForm(tr))
			p.Out.Count("value:" + vc.prof)
		}
	}
	// ReflectInspector over the declared shapes that have no generated inspector (named scalars, named / byte map
	// keys, … — it needs no generated code)
	for _, e := range p.ReflectOnly {
		tr := r.Fork(hashStr(e.Name) ^ 0x5eed)
		for _, vc := range valuesFor(p, e, tr, 1) {
			ps := EnumPaths(tr, vc.v, scale(p.Tier, 10, 40))
			for _, base := range ps.Paths {
				path := base
				if tr.Chance(1, 3) {
					path = junkPath(tr, base)
				}
				rf := []Form{FormVal, FormPtr, FormPtrPtr, FormNilP}[tr.Intn(4)]
				if rf != FormNilP || len(path) > 0 {
					OpReflectGet(p.Out, e, vc.v, rf, path)
					p.Out.Count("reflect-only:" + e.Fam)
				}
			}
		}
	}
	// C02 speaks about the built-in inspectors and Assign/AssignBuf as well: the same records their own
	// properties use (typed-nil pointers, nil subtrees, foreign arguments included), judged for panics only.
	runC16(p)
	runC17(p)
	runC18(p)
	runC19(p)
}
