package corr

func init() {
	Runners["C01"] = runC01
}

var readForms = []Form{FormPtr, FormVal, FormPtrPtr}

// valuesFor yields the value battery of one type: the five profiles, several random ones.
func valuesFor(p *Plan, e *TypeEntry, r *Rng, nRandom int) []*valueCase {
	var out []*valueCase
	for _, prof := range []Profile{ProfFull, ProfNil, ProfEmpty, ProfSparse} {
		g := NewGen(r.Fork(uint64(prof)), prof)
		out = append(out, &valueCase{g.Val(e.Type, 0), profName(prof)})
	}
	for i := 0; i < nRandom; i++ {
		g := NewGen(r.Fork(uint64(100+i)), ProfRandom)
		out = append(out, &valueCase{g.Val(e.Type, 0), "random"})
	}
	return out
}

func profName(p Profile) string {
	return [...]string{"full", "nil", "empty", "random", "sparse", "empty-noptr"}[p]
}

func runC01(p *Plan) {
	r := NewRng(p.Seed)
	nRandom := scale(p.Tier, 3, 12)
	perValue := scale(p.Tier, 60, 250)
	for _, e := range p.Types {
		tr := r.Fork(hashStr(e.Name))
		for _, vc := range valuesFor(p, e, tr, nRandom) {
			ps := EnumPaths(tr, vc.v, perValue)
			for i, path := range ps.Paths {
				f := readForms[0]
				if tr.Chance(1, 4) {
					f = readForms[1+tr.Intn(2)]
				}
				OpGet(p.Out, e, vc.v, f, path, tr.Chance(1, 8))
				p.Out.Count("path:" + ps.Kinds[i])
				p.Out.Count("value:" + vc.prof)
			}
		}
	}
}
