/-
Props/C08.lean — property theorems for C08 (Reset empties a value; Reset-then-CopyTo reuse leaves no trace).

`reset_correct`: for the repaired emitter model, every well-formed type tree, every well-typed value and every
argument form, the observation the driver derives from `resetM` satisfies the driver's acceptance
`resetAccepts` (through a pointer: the value is empty, `isEmptyV`).
`cycle_correct`: for every well-typed initial destination and every sequence of well-typed sources whose
maps have pairwise distinct keys, the observed history of Reset-then-CopyTo cycles (`cycleModelWith`,
Spec/CopyObs.lean) satisfies `cycleAccepts`: after every Reset the destination is empty, after every CopyTo
it equals that cycle's source up to nil/empty identification (`approxEq`).
As in Props/C06.lean the observation is normalised with `dropCaps` (the driver: `canon ∘ dropCaps`, with
`canon` a `partial def`); the `_norm` variants say what is needed of the normalisation.

The model of the current tree is rejected on `reset-nil-ptr-panics` (`repo_not_correct`) — that is the tree at
the pinned commit (`GenCfg.original`). `section CurrentTree`: `GenCfg.repo` has both switches Reset reads off
(`resetM_repo`, Proofs/ResetCurrent.lean), so the first half holds of the emitter as it stands: `resetN_current`,
`reset_norm_current`, `reset_current`; since the Copy `fix:` commits the same holds of the second half
(`cycleModelWith_repo`, Proofs/CopyCurrent.lean): `cycle_step_current`, `cycle_norm_current`, `cycle_current`.
-/
import InspectorModel.Proofs.C08
import InspectorModel.Proofs.ResetCurrent
import InspectorModel.Proofs.CopyCurrent
import InspectorModel.Spec.CopyObs
set_option linter.unusedSimpArgs false
set_option linter.unusedVariables false
namespace Inspector.C08
open Inspector.CopyPf

/-- A by-value destination is refused with the must-be-pointer error before anything is written. -/
theorem copyTo_by_value_refused (cfg : GenCfg) (n : Node) (r l : Val) :
    (match copyToM cfg n .ptr .val r l with | .mustPointer => true | _ => false) = true := rfl

/-- The emitted reset code at any node, repaired emitter: no panic, the result is well-typed and empty —
every scalar zero, every string, byte slice, slice and map of length zero, at every depth reachable
through non-nil pointers. -/
theorem resetN_correct (n : Node) (v : Val) (hwf : NodeWF n = true) (hwt : WT n v = true) :
    ∃ r, resetN GenCfg.fixed n v = .ok r ∧ WT n r = true ∧ isEmptyV r = true :=
  resetN_ok v n hwf hwt

theorem reset_correct_norm (norm : Val → Val) (hnorm : ∀ v, isEmptyV (norm v) = isEmptyV v)
    (n : Node) (v : Val) (f : Form) (hwf : NodeWF n = true) (hwt : WT n v = true) :
    resetAccepts f (resetObsOfWith norm (resetM GenCfg.fixed n f v)) = true := by
  obtain ⟨r, hr, _, he⟩ := resetN_ok v n hwf hwt
  cases f <;> simp [resetM, resetObsOfWith, resetAccepts, hr, hnorm, he]

/-- C08, first half: Reset through every argument form, as the driver judges it. -/
theorem reset_correct (n : Node) (v : Val) (f : Form) (hwf : NodeWF n = true) (hwt : WT n v = true) :
    resetAccepts f (resetObsOfWith dropCaps (resetM GenCfg.fixed n f v)) = true :=
  reset_correct_norm dropCaps (fun v => isEmptyV_dropCapsFuel v 64) n v f hwf hwt

/-- One Reset-then-CopyTo cycle on a well-typed destination: neither step panics, the destination is empty
in between, afterwards it is well-typed again (so the next cycle can start) and equals the source up to
nil/empty identification. -/
theorem cycle_step (n : Node) (d s : Val) (hwf : NodeWF n = true) (hwd : WT n d = true) (hws : WT n s = true)
    (hk : KeysOK true n s = true) :
    ∃ r c, resetN GenCfg.fixed n d = .ok r ∧ isEmptyV r = true ∧
      copyN GenCfg.fixed n true r s = .ok c 0 ∧ WT n c = true ∧ approxEq s c = true := by
  obtain ⟨r, hr, hwr, her⟩ := resetN_ok d n hwf hwd
  obtain ⟨c, hc, hwc, ha, _⟩ := copyN_ok s n true r true hwf hws hwr (dstOK_of_empty r her) hk
  exact ⟨r, c, hr, her, hc, hwc, ha rfl her⟩

theorem cycle_correct_norm (norm : Val → Val) (n : Node) (hwf : NodeWF n = true)
    (hn1 : ∀ v, isEmptyV (norm v) = isEmptyV v)
    (hn2 : ∀ s v, WT n v = true → approxEq s (norm v) = approxEq s v) :
    ∀ (srcs : List Val) (d : Val), WT n d = true → (∀ s ∈ srcs, WT n s = true ∧ KeysOK true n s = true) →
      cycleAccepts srcs (cycleModelWith norm GenCfg.fixed n d srcs) = true
  | [], _, _, _ => by simp [cycleModelWith, cycleAccepts]
  | s :: rest, d, hwd, hs => by
    obtain ⟨hws, hk⟩ := hs s (by simp)
    obtain ⟨r, c, hr, her, hc, hwc, ha⟩ := cycle_step n d s hwf hwd hws hk
    have ih := cycle_correct_norm norm n hwf hn1 hn2 rest c hwc (fun x hx => hs x (by simp [hx]))
    simp [cycleModelWith, hr, hc, cycleAccepts, hn1, her, hn2 s c hwc, ha, ih]

/-- C08, second half: every history of Reset-then-CopyTo cycles on one destination, as the driver judges it. -/
theorem cycle_correct (n : Node) (hwf : NodeWF n = true) (srcs : List Val) (d : Val) (hwd : WT n d = true)
    (hs : ∀ s ∈ srcs, WT n s = true ∧ KeysOK true n s = true) :
    cycleAccepts srcs (cycleModelWith dropCaps GenCfg.fixed n d srcs) = true :=
  cycle_correct_norm dropCaps n hwf (fun v => isEmptyV_dropCapsFuel v 64)
    (fun s v hv => approxEq_dropCapsFuel s v 64 (WT_keysFlat v n hwf hv)) srcs d hwd hs

section NonVacuity
def intN (name : String := "") (ptr : Bool := false) : Node := .basic { typn := "int", typu := "int", name := name, ptr := ptr }
def strN (name : String := "") (ptr : Bool := false) : Node := .basic { typn := "string", typu := "string", name := name, ptr := ptr }
def innerN (name : String := "") (ptr : Bool := false) : Node := .struct { typn := "Inner", name := name, ptr := ptr } [intN "A"]

/-- `type T struct { A int; P *int; I *Inner; L []*Inner; M map[string]int }`. -/
def exNode : Node :=
  .struct { typn := "T" } [intN "A", intN "P" true, innerN "I" true,
    .slice { typn := "[]*Inner", name := "L" } (innerN "" true),
    .map { typn := "map[string]int", name := "M" } strN intN]

def dense : Val :=
  .struct [.int 5, .ptr (.int 7), .ptr (.struct [.int 3]), .slice false [.ptr (.struct [.int 1]), .nilptr] 4,
    .map false [.str (strBytes "k"), .str (strBytes "l")] [.int 1, .int 2]]
def sparse : Val := .struct [.int 0, .nilptr, .nilptr, .slice true [] 0, .map true [] []]
def small : Val :=
  .struct [.int 1, .nilptr, .ptr (.struct [.int 0]), .slice false [.nilptr] 1, .map false [.str (strBytes "k")] [.int 9]]

example : NodeWF exNode = true ∧ WT exNode dense = true ∧ WT exNode sparse = true ∧ WT exNode small = true ∧
    KeysOK true exNode dense = true ∧ KeysOK true exNode sparse = true ∧ KeysOK true exNode small = true := by decide
/-- dense → sparse → small → dense into a destination that starts dense: accepted for the repaired model. -/
example : cycleAccepts [sparse, small, dense] (cycleModelWith dropCaps GenCfg.fixed exNode dense [sparse, small, dense]) = true := by
  decide
example : resetAccepts .ptr (resetObsOfWith dropCaps (resetM GenCfg.fixed exNode .ptr dense)) = true := by decide

/-- A pointer-keyed map with a nil pointer key through two cycles (the second into the reset, non-nil, empty map). -/
def ptrKeyN : Node := .map { typn := "PM" } (intN "" true) intN
def ptrKeyV : Val := .map false [.ptr (.int 1), .nilptr, .ptr (.int 2)] [.int 5, .int 6, .int 7]
example : NodeWF ptrKeyN = true ∧ WT ptrKeyN ptrKeyV = true ∧ KeysOK true ptrKeyN ptrKeyV = true ∧
    cycleAccepts [ptrKeyV, ptrKeyV] (cycleModelWith dropCaps GenCfg.fixed ptrKeyN (.map true [] []) [ptrKeyV, ptrKeyV]) = true := by
  decide

/-- `reset-nil-ptr-panics`: Reset of a value with a nil `*int` field (or a nil pointer element) dereferences it. -/
theorem repo_not_correct :
    resetAccepts .ptr (resetObsOfWith dropCaps (resetM GenCfg.original exNode .ptr sparse)) = false ∧
    resetAccepts .ptr (resetObsOfWith dropCaps (resetM { GenCfg.original with resetNilPtrPanics := false } exNode .ptr sparse)) = true ∧
    cycleAccepts [dense] (cycleModelWith dropCaps GenCfg.original exNode sparse [dense]) = false := by
  decide

/-- The copy-side classes show in cycles too (`copy-nil-elem-panics` here: `dense` has a nil `*Inner` element). -/
theorem repo_not_correct_cycle :
    cycleAccepts [dense] (cycleModelWith dropCaps { GenCfg.original with resetNilPtrPanics := false } exNode dense [dense]) = false := by
  decide
end NonVacuity

/-! ### The tree as it is now

After the `fix:` commits that concern Reset (nil pointer-to-scalar fields / nil pointer elements, typed-nil
roots) no switch that `resetN`/`resetM` consult (`resetNilPtrPanics`, `nilRootPanics`) is left on in
`GenCfg.repo`: the model of the current tree *is* the repaired model, for every argument form. Since the six
`fix:` commits that concern Copy the same is true of `copyN` (`CopyCurrent.copyN_repo`), hence of the observed
Reset-then-CopyTo history `cycleModelWith` (`cycleModelWith_repo`). -/
section CurrentTree

theorem resetN_repo (n : Node) (v : Val) : resetN GenCfg.repo n v = resetN GenCfg.fixed n v :=
  ResetCurrent.resetN_repo n v

theorem resetM_repo (n : Node) (f : Form) (v : Val) : resetM GenCfg.repo n f v = resetM GenCfg.fixed n f v :=
  ResetCurrent.resetM_repo n f v

/-- The emitted reset code at any node, emitter as it stands: no panic, the result is well-typed and empty. -/
theorem resetN_current (n : Node) (v : Val) (hwf : NodeWF n = true) (hwt : WT n v = true) :
    ∃ r, resetN GenCfg.repo n v = .ok r ∧ WT n r = true ∧ isEmptyV r = true := by
  rw [resetN_repo]; exact resetN_correct n v hwf hwt

theorem reset_norm_current (norm : Val → Val) (hnorm : ∀ v, isEmptyV (norm v) = isEmptyV v)
    (n : Node) (v : Val) (f : Form) (hwf : NodeWF n = true) (hwt : WT n v = true) :
    resetAccepts f (resetObsOfWith norm (resetM GenCfg.repo n f v)) = true := by
  rw [resetM_repo]; exact reset_correct_norm norm hnorm n v f hwf hwt

/-- C08, first half, for the emitter as it stands: Reset through every argument form, as the driver judges it. -/
theorem reset_current (n : Node) (v : Val) (f : Form) (hwf : NodeWF n = true) (hwt : WT n v = true) :
    resetAccepts f (resetObsOfWith dropCaps (resetM GenCfg.repo n f v)) = true := by
  rw [resetM_repo]; exact reset_correct n v f hwf hwt

/-- The witness on which the tree at the pinned commit was rejected is accepted now. -/
example : resetAccepts .ptr (resetObsOfWith dropCaps (resetM GenCfg.repo exNode .ptr sparse)) = true := by decide

theorem cycleModelWith_repo (norm : Val → Val) (n : Node) (srcs : List Val) (d : Val) :
    cycleModelWith norm GenCfg.repo n d srcs = cycleModelWith norm GenCfg.fixed n d srcs :=
  CopyCurrent.cycleModelWith_repo norm n srcs d

/-- One Reset-then-CopyTo cycle on a well-typed destination, emitter as it stands. -/
theorem cycle_step_current (n : Node) (d s : Val) (hwf : NodeWF n = true) (hwd : WT n d = true) (hws : WT n s = true)
    (hk : KeysOK true n s = true) :
    ∃ r c, resetN GenCfg.repo n d = .ok r ∧ isEmptyV r = true ∧
      copyN GenCfg.repo n true r s = .ok c 0 ∧ WT n c = true ∧ approxEq s c = true := by
  obtain ⟨r, c, h1, h2, h3, h4, h5⟩ := cycle_step n d s hwf hwd hws hk
  exact ⟨r, c, by rw [resetN_repo]; exact h1, h2, by rw [CopyCurrent.copyN_repo]; exact h3, h4, h5⟩

theorem cycle_norm_current (norm : Val → Val) (n : Node) (hwf : NodeWF n = true)
    (hn1 : ∀ v, isEmptyV (norm v) = isEmptyV v)
    (hn2 : ∀ s v, WT n v = true → approxEq s (norm v) = approxEq s v)
    (srcs : List Val) (d : Val) (hwd : WT n d = true) (hs : ∀ s ∈ srcs, WT n s = true ∧ KeysOK true n s = true) :
    cycleAccepts srcs (cycleModelWith norm GenCfg.repo n d srcs) = true := by
  rw [cycleModelWith_repo]; exact cycle_correct_norm norm n hwf hn1 hn2 srcs d hwd hs

/-- C08, second half, for the emitter as it stands: every history of Reset-then-CopyTo cycles on one
destination, as the driver judges it. -/
theorem cycle_current (n : Node) (hwf : NodeWF n = true) (srcs : List Val) (d : Val) (hwd : WT n d = true)
    (hs : ∀ s ∈ srcs, WT n s = true ∧ KeysOK true n s = true) :
    cycleAccepts srcs (cycleModelWith dropCaps GenCfg.repo n d srcs) = true := by
  rw [cycleModelWith_repo]; exact cycle_correct n hwf srcs d hwd hs

/-- The histories on which the tree at the pinned commit was rejected are accepted now. -/
example : cycleAccepts [dense] (cycleModelWith dropCaps GenCfg.repo exNode sparse [dense]) = true ∧
    cycleAccepts [dense] (cycleModelWith dropCaps GenCfg.repo exNode dense [dense]) = true ∧
    cycleAccepts [sparse, small, dense] (cycleModelWith dropCaps GenCfg.repo exNode dense [sparse, small, dense]) = true := by
  decide

end CurrentTree

end Inspector.C08
