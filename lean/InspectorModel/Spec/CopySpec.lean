/-
Spec/CopySpec.lean — C06 / C08: emptiness, and equality up to nil-versus-empty / nil-versus-pointer-to-empty.
-/
import InspectorModel.Spec.StructEq
import InspectorModel.Gen.Reset
namespace Inspector

mutual
/-- Every scalar zero, every string, byte slice, slice and map of length zero, at every depth
reachable through non-nil pointers. -/
def isEmptyV : Val → Bool
  | .bool b => !b
  | .int i => i == 0
  | .uint n => n == 0
  | .float f => f == 0
  | .str s => s.isEmpty
  | .bytes _ d _ => d.isEmpty
  | .struct fs => allEmpty fs
  | .map _ ks _ => ks.isEmpty
  | .slice _ es _ => es.isEmpty
  | .nilptr => true
  | .ptr w => isEmptyV w
def allEmpty : List Val → Bool
  | [] => true
  | v :: vs => isEmptyV v && allEmpty vs
end

mutual
/-- Structural identity once nil and all-empty parts are identified (nil versus empty collection, nil
pointer versus pointer to an all-zero value). -/
def approxEq (a b : Val) : Bool :=
  match a with
  | .nilptr => (match b with | .nilptr => true | .ptr w => isEmptyV w | _ => false)
  | .ptr aw => (match b with | .nilptr => isEmptyV aw | .ptr bw => approxEq aw bw | _ => false)
  | .bool x => (match b with | .bool y => x == y | _ => false)
  | .int x => (match b with | .int y => x == y | _ => false)
  | .uint x => (match b with | .uint y => x == y | _ => false)
  | .float x => (match b with | .float y => x == y | _ => false)
  | .str x => (match b with | .str y => x == y | _ => false)
  | .bytes _ x _ => (match b with | .bytes _ y _ => x == y | _ => false)
  | .struct afs => (match b with | .struct bfs => approxEqList afs bfs | _ => false)
  | .slice _ aes _ => (match b with | .slice _ bes _ => approxEqList aes bes | _ => false)
  | .map _ aks avs =>
    (match b with
     | .map _ bks bvs => aks.length == bks.length && approxEqMap aks avs bks bvs
     | _ => false)
termination_by structural a
def approxEqList (as bs : List Val) : Bool :=
  match as with
  | [] => bs.isEmpty
  | a :: as' => (match bs with | b :: bs' => approxEq a b && approxEqList as' bs' | [] => false)
termination_by structural as
def approxEqMap (aks avs bks bvs : List Val) : Bool :=
  match avs with
  | [] => true
  | av :: avs' =>
    (match aks with
     | ak :: aks' =>
       (match lookupKey bks bvs ak with
        | some bv => approxEq av bv && approxEqMap aks' avs' bks bvs
        | none => false)
     | [] => false)
termination_by structural avs
end

mutual
/-- Does the type contain a map keyed by pointers? Go compares such keys by identity: a copy that shares
nothing has different keys, so "equal to the source" is not expressible for these types (outside C06). -/
def hasPtrKeyMap : Node → Bool
  | .basic _ => false
  | .struct _ chld => hasPtrKeyMapList chld
  | .map _ k v => k.ptr || hasPtrKeyMap v
  | .slice _ e => hasPtrKeyMap e
def hasPtrKeyMapList : List Node → Bool
  | [] => false
  | n :: ns => hasPtrKeyMap n || hasPtrKeyMapList ns
end

/-- C06: the copy is structurally identical to the source (nil/empty collections identified by `eqS`
through lengths), shares nothing, DeepEqual says so. -/
def copyAccepts (n : Node) (src : Val) (copy : Val) (shared : Nat) (deqSaysEqual srcUnchanged : Bool) : Bool :=
  if hasPtrKeyMap n then shared == 0 && srcUnchanged && eqS {} n "" src copy != .mustNot
  else shared == 0 && srcUnchanged && deqSaysEqual && eqS {} n "" src copy == .must

end Inspector
