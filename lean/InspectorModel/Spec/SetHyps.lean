/-
Spec/SetHyps.lean — decidable side conditions of the C03 theorem (`Props/C03.lean`), to be evaluated by
the driver on every real input:

* `ValOK v`   : the value is one a Go program can hold: a nil map / nil slice has no entries, and the
                non-pointer keys of a map are pairwise distinct (hereditarily).
* `SrcWT s`   : the dynamic kind of the assigned value describes the value (`int` holds an integer, …).
* `DepthOK n` : nesting of the type is at most `dropCaps`'s fuel (64 value levels), so that `dropCaps`
                really is the structural normal form the specification means.
-/
import InspectorModel.Lib.Assign
namespace Inspector.C03

def isPtrVal : Val → Bool
  | .ptr _ => true
  | .nilptr => true
  | _ => false

/-- No earlier key equals a later one (orientation of `lookupKey`: `k == key`). Pointer keys are exempt:
two distinct pointers may have equal targets. -/
def keysDistinct : List Val → Bool
  | [] => true
  | k :: ks => (isPtrVal k || ks.all (fun k' => !(k == k'))) && keysDistinct ks

mutual
def ValOK : Val → Bool
  | .struct fs => ValOKs fs
  | .map nl ks vs => (!nl || (ks.isEmpty && vs.isEmpty)) && keysDistinct ks && ValOKs ks && ValOKs vs
  | .slice nl es _ => (!nl || es.isEmpty) && ValOKs es
  | .ptr w => ValOK w
  | _ => true
termination_by structural v => v
def ValOKs : List Val → Bool
  | [] => true
  | v :: vs => ValOK v && ValOKs vs
termination_by structural vs => vs
end

/-- The source operand's dynamic kind describes its value (a nil pointer of any kind is fine). -/
def SrcWT (s : Src) : Bool :=
  match s.v with
  | .nilptr => true
  | .bool _ => s.kind.family == .bool || s.kind.family == .foreign
  | .int _ => s.kind.family == .signed || s.kind.family == .foreign
  | .uint _ => s.kind.family == .unsigned || s.kind.family == .foreign
  | .float _ => s.kind.family == .float || s.kind.family == .foreign
  | .str _ | .bytes _ _ _ => s.kind.family == .text || s.kind.family == .foreign
  | _ => s.kind.family == .foreign

mutual
/-- Nesting depth of a value (constructor levels). -/
def vdepth : Val → Nat
  | .struct fs => vdepths fs + 1
  | .map _ ks vs => max (vdepths ks) (vdepths vs) + 1
  | .slice _ es _ => vdepths es + 1
  | .ptr w => vdepth w + 1
  | _ => 1
termination_by structural v => v
def vdepths : List Val → Nat
  | [] => 0
  | v :: vs => max (vdepth v) (vdepths vs)
termination_by structural vs => vs
end

mutual
/-- Upper bound of the depth of any value of the type a node describes (pointer level included). -/
def ndepth : Node → Nat
  | .basic _ => 2
  | .struct _ chld => ndepths chld + 2
  | .map _ k v => max (ndepth k) (ndepth v) + 2
  | .slice _ e => ndepth e + 2
def ndepths : List Node → Nat
  | [] => 0
  | n :: ns => max (ndepth n) (ndepths ns)
end

/-- The type nests at most 32 levels (64 value levels with pointers): every well-typed value, and every value
Set can leave behind, is then within `dropCaps`'s fuel. -/
def DepthOK (n : Node) : Bool := decide (ndepth n ≤ 64)

end Inspector.C03
