package corr

import (
	"reflect"

	"github.com/koykov/inspector"
)

// resTok renders what an inspector handed out through `any`.
func resTok(x any) string {
	if x == nil {
		return "none"
	}
	v := reflect.ValueOf(x)
	return "some " + ShapeOfType(v.Type(), false) + " " + Ser(v)
}

func callGetTo(ins inspector.Inspector, arg any, path []string) (out string) {
	defer func() {
		if r := recover(); r != nil {
			out = "panic"
		}
	}()
	var buf any
	if err := ins.GetTo(arg, &buf, path...); err != nil {
		return "err"
	}
	return resTok(buf)
}

func callGet(ins inspector.Inspector, arg any, path []string) (out string) {
	defer func() {
		if r := recover(); r != nil {
			out = "panic"
		}
	}()
	x, err := ins.Get(arg, path...)
	if err != nil {
		return "err"
	}
	return resTok(x)
}

// OpGet emits one `G` record: GetTo (or Get when viaGet) on value v through form f.
func OpGet(o *Out, e *TypeEntry, v reflect.Value, f Form, path []string, viaGet bool) {
	vtok := Ser(v)
	arg, root := MakeArg(e.Type, DeepCopy(v), f)
	var res string
	op := "GT"
	if viaGet {
		op = "G"
		res = callGet(e.Ins, arg, path)
	} else {
		res = callGetTo(e.Ins, arg, path)
	}
	mut := "0"
	if Ser(root()) != vtok {
		mut = "1"
	}
	vid := o.DeclareVal(e, vtok)
	o.Op(op + " " + e.Tid + " " + string(f) + " " + vid + " | " + PathToks(path) + " | " + mut + " " + res)
}

// OpReflectGet emits one `GR` record: ReflectInspector.Get on value v through form f (C02: "… and reflect inspectors").
func OpReflectGet(o *Out, e *TypeEntry, v reflect.Value, f Form, path []string) {
	vtok := Ser(v)
	arg, root := MakeArg(e.Type, DeepCopy(v), f)
	res := callGet(inspector.ReflectInspector{}, arg, path)
	mut := "0"
	if Ser(root()) != vtok {
		mut = "1"
	}
	vid := o.DeclareVal(e, vtok)
	o.Op("GR " + e.Tid + " " + string(f) + " " + vid + " | " + PathToks(path) + " | " + mut + " " + res)
}
