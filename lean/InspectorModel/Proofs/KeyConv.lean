/-
Proofs/KeyConv.lean — helper lemmas: the conversion snippets (`convSeg`) against the property's reading
of a key / index / operand text (`specKey`).
-/
import InspectorModel.Spec.Nav
namespace Inspector

/-- What the snippet registered for a scalar kind does with a segment. -/
def convByKind (kd : Kind) (s : Seg) : Conv :=
  match kd with
  | .bool => (match s.pb with | some b => .ok (.bool b) | none => .err)
  | .sint b => (match s.pi with | some i => .ok (.int (wrapS b i)) | none => .err)
  | .uint b => (match s.pu with | some u => .ok (.uint (wrapU b u)) | none => .err)
  | .float b => (match s.pf with | .ok fx => .ok (.float (if b == 32 then roundF32 fx else fx)) | .inexact => .opaque | .err => .err)
  | .string => .ok (.str s.text)

theorem wrapS_of_inRange (b : Nat) (i : Int) (hb : 0 < b) (h : inRangeS b i = true) : wrapS b i = i := by
  unfold inRangeS at h
  simp only [Bool.and_eq_true, decide_eq_true_eq] at h
  unfold wrapS
  obtain ⟨h1, h2⟩ := h
  have hp : (2 : Int) ^ b = 2 * (2 : Int) ^ (b - 1) := by
    have : b = (b - 1) + 1 := by omega
    conv => lhs; rw [this, Int.pow_succ]
    omega
  have hpos : (0 : Int) < (2 : Int) ^ (b - 1) := Int.pow_pos (by decide)
  simp only []
  by_cases hi : 0 ≤ i
  · have hm : i % (2 : Int) ^ b = i := Int.emod_eq_of_lt hi (by omega)
    rw [hm]
    have : ¬ (i ≥ (2 : Int) ^ b / 2) := by
      rw [hp]; omega
    simp [this]
  · have hneg : i < 0 := by omega
    have hm : i % (2 : Int) ^ b = i + (2 : Int) ^ b := by
      have h0 : 0 ≤ i + (2 : Int) ^ b := by rw [hp]; omega
      have h1' : i + (2 : Int) ^ b < (2 : Int) ^ b := by omega
      have := Int.emod_eq_of_lt h0 h1'
      rw [← this]
      simp
    rw [hm]
    have : (i + (2 : Int) ^ b ≥ (2 : Int) ^ b / 2) := by
      rw [hp]; omega
    simp [this]

theorem wrapU_of_inRange (b : Nat) (u : Nat) (h : inRangeU b u = true) : wrapU b (u : Int) = u := by
  unfold inRangeU at h
  simp only [decide_eq_true_eq] at h
  unfold wrapU
  have h0 : (0 : Int) ≤ (u : Int) := Int.natCast_nonneg u
  have h1 : (u : Int) < (2 : Int) ^ b := by exact_mod_cast h
  rw [Int.emod_eq_of_lt h0 h1]
  simp

/-- Under every name that denotes a scalar kind — except `byte`, whose snippet takes the first byte of the
text — the registered snippet is the conversion by kind. -/
theorem convByName_of_kind (t : String) (s : Seg) (kd : Kind) (h : kindOfName t = some kd) (hb : t ≠ "byte") :
    convByName t s = some (convByKind kd s) := by
  unfold kindOfName at h
  split at h <;> first
    | (injection h with h; subst h; simp [convByName, convByKind] <;>
        first | (cases s.pb <;> rfl) | (cases s.pi <;> rfl) | (cases s.pu <;> rfl) | (cases s.pf <;> rfl) | rfl)
    | (exact absurd rfl hb)
    | (cases h)

/-- A name that is not one of the builtin names has no snippet of its own. -/
theorem convByName_none_of_not_builtin (t : String) (s : Seg) (h : isBuiltinName t = false) :
    convByName t s = none := by
  unfold isBuiltinName at h
  split at h
  all_goals first | (exact absurd h (by decide)) | skip
  unfold convByName
  split <;> simp_all

end Inspector
