/-
Lib/Assign.lean — model of Assign/AssignBuf (assign.go, assign_builtin.go) and of x2bytes.ToBytes as
far as the chain uses it. The chain order and the per-function source/destination tables are the
parameters `chainOrder` / the `assignTo*` functions below; `Extracted/AssignFacts.lean` (regenerated
from the source on every run) must agree with them (Props/C19.lean).
-/
import InspectorModel.Core.Seg
namespace Inspector

/-- Dynamic type of a value passed through `any`, as the type switches of assign_builtin.go see it. -/
inductive DynKind
  | bool | int | int8 | int16 | int32 | int64 | uint | uint8 | uint16 | uint32 | uint64
  | float32 | float64 | string | bytes
  | foreign
deriving Repr, DecidableEq, Inhabited

def DynKind.ofName : String → DynKind
  | "bool" => .bool | "int" => .int | "int8" => .int8 | "int16" => .int16 | "int32" => .int32 | "int64" => .int64
  | "uint" => .uint | "uint8" => .uint8 | "byte" => .uint8 | "uint16" => .uint16 | "uint32" => .uint32 | "uint64" => .uint64
  | "float32" => .float32 | "float64" => .float64 | "string" => .string | "[]byte" => .bytes
  | _ => .foreign

def DynKind.name : DynKind → String
  | .bool => "bool" | .int => "int" | .int8 => "int8" | .int16 => "int16" | .int32 => "int32" | .int64 => "int64"
  | .uint => "uint" | .uint8 => "uint8" | .uint16 => "uint16" | .uint32 => "uint32" | .uint64 => "uint64"
  | .float32 => "float32" | .float64 => "float64" | .string => "string" | .bytes => "[]byte" | .foreign => "foreign"

inductive Family
  | bool | signed | unsigned | float | text | foreign
deriving Repr, DecidableEq, Inhabited

def DynKind.family : DynKind → Family
  | .bool => .bool
  | .int | .int8 | .int16 | .int32 | .int64 => .signed
  | .uint | .uint8 | .uint16 | .uint32 | .uint64 => .unsigned
  | .float32 | .float64 => .float
  | .string | .bytes => .text
  | .foreign => .foreign

def DynKind.bits : DynKind → Nat
  | .int8 | .uint8 => 8
  | .int16 | .uint16 => 16
  | .int32 | .uint32 | .float32 => 32
  | _ => 64

/-- A source operand: dynamic kind, value or pointer form, the value (`nilptr` for a nil pointer),
and — for floats — the text `strconv.AppendFloat(f,'f',-1,64)` renders (oracle), for text — the
`ParseFloat(s,64)` oracle. -/
structure Src where
  kind : DynKind
  isPtr : Bool := false
  v : Val
  ftext : Bytes := []
  pf : PF := .err
deriving Inhabited

/-- Text content of a text source. -/
def srcText (s : Src) : Option Bytes :=
  match s.v with
  | .str t => some t
  | .bytes _ d _ => some d
  | _ => none

def isDigit (b : UInt8) : Bool := 48 ≤ b.toNat && b.toNat ≤ 57

def digitsVal : Bytes → Nat → Nat
  | [], acc => acc
  | b :: bs, acc => digitsVal bs (acc * 10 + (b.toNat - 48))

/-- `^[-+]?\d+$` followed by `ParseInt(s, 10, 64)`. -/
def atoiM (t : Bytes) : Option Int :=
  let (neg, rest) : Bool × Bytes := match t with
    | 45 :: r => (true, r)
    | 43 :: r => (false, r)
    | r => (false, r)
  if rest.isEmpty || !rest.all isDigit then none else
  let n : Int := digitsVal rest 0
  let i := if neg then -n else n
  if inRangeS 64 i then some i else none

/-- `^[+]?\d+$` followed by `ParseUint(s, 10, 64)`. -/
def atouM (t : Bytes) : Option Nat :=
  let rest : Bytes := match t with
    | 43 :: r => r
    | r => r
  -- ParseUint does not accept a sign at all: "+5" passes the regexp and then fails to parse
  if rest.isEmpty || !rest.all isDigit then none else
  if rest.length != t.length then none else
  let n := digitsVal rest 0
  if inRangeU 64 n then some n else none

/-- `^[-+]?\d*\.?\d+([eE][-+]?\d+)?$`. -/
def matchDecFloat (t : Bytes) : Bool :=
  let t1 : Bytes := match t with | 45 :: r => r | 43 :: r => r | r => r
  -- split off the exponent
  let mant := t1.takeWhile fun b => b != 101 && b != 69
  let expo := t1.drop mant.length
  let expOk : Bool := match expo with
    | [] => true
    | _ :: e =>
      let e1 : Bytes := match e with | 45 :: r => r | 43 :: r => r | r => r
      !e1.isEmpty && e1.all isDigit
  -- mantissa: \d*\.?\d+
  let ip := mant.takeWhile isDigit
  let after := mant.drop ip.length
  let mantOk : Bool := match after with
    | [] => !ip.isEmpty
    | 46 :: frac => !frac.isEmpty && frac.all isDigit
    | _ => false
  mantOk && expOk

/-- `atof`: the recogniser, then ParseFloat through the oracle. -/
def atofM (s : Src) : Option (Option Int) :=
  match srcText s with
  | none => none
  | some t =>
    if !matchDecFloat t then none else
    match s.pf with
    | .ok fx => some (some fx)
    | .inexact => some none
    | .err => none

/-- x2bytes.ToBytes(nil-or-prefix, src): the bytes appended, or `none` (ErrUnknownType). Chain:
Bytes, Str, Bool, Int, Uint, Float. A nil pointer source is dereferenced: `panic`. -/
inductive Render
  | ok (b : Bytes)
  | unknown
  | panic

def renderSrc (s : Src) : Render :=
  if s.kind == .foreign then .unknown else
  match s.v with
  | .nilptr => .panic
  | .str t => .ok t
  | .bytes _ d _ => .ok d
  | .bool b => .ok (strBytes (if b then "true" else "false"))
  | .int i => .ok (renderInt i)
  | .uint n => .ok (renderNat n)
  | .float _ => .ok s.ftext
  | _ => .unknown

/-- Result of the chain on one destination. -/
inductive AssignR
  | ok (v : Val)        -- stored value
  | no                  -- no conversion applies: false, destination untouched
  | inexact             -- stored a float the fixed-point model cannot name (driver skips)
  | panic
deriving Inhabited

/-- `noBuf`: `buf == nil`. In that case AssignToStr *appends* to the old content (`appendsOld`). -/
structure AssignCfg where
  strAppendsOld : Bool := true
  /-- a nil pointer source is dereferenced -/
  nilSrcPanics : Bool := true
deriving Repr, Inhabited

def scalarNonZero : Val → Bool
  | .int i => i != 0
  | .uint n => n != 0
  | .float f => f != 0
  | _ => false

/-- The whole chain (inspector.go:73-79 order: Bytes, Str, Bool, Int, Uint, Float) for destination
kind `dk` holding `old`. -/
def assignM (acfg : AssignCfg) (dk : DynKind) (old : Val) (s : Src) (noBuf : Bool) : AssignR :=
  if s.v.isNilPtr && s.kind != .foreign && !acfg.nilSrcPanics then .no else
  match dk with
  | .bytes =>
    (match s.kind.family with
     | .text => (match s.v with | .nilptr => .panic | .str t => .ok (.bytes false t t.length) | .bytes nl d c => .ok (.bytes nl d c) | _ => .no)
     | _ =>
       match renderSrc s with
       | .ok b => .ok (.bytes false b b.length)
       | .unknown => .no
       | .panic => .panic)
  | .string =>
    (match s.kind.family with
     | .text => (match s.v with | .nilptr => .panic | .str t => .ok (.str t) | .bytes _ d _ => .ok (.str d) | _ => .no)
     | _ =>
       match renderSrc s with
       | .ok b =>
         if noBuf && acfg.strAppendsOld then (match old with | .str o => .ok (.str (o ++ b)) | _ => .ok (.str b))
         else .ok (.str b)
       | .unknown => .no
       | .panic => .panic)
  | .bool =>
    (match s.kind.family with
     | .foreign => .no
     | _ =>
       match s.v with
       | .nilptr => .panic
       | .bool b => .ok (.bool b)
       | .str t => .ok (.bool (t == strBytes "true"))
       | .bytes _ d _ => .ok (.bool (d == strBytes "true"))
       | v => .ok (.bool (scalarNonZero v)))
  | .int | .int8 | .int16 | .int32 | .int64 =>
    (match s.kind.family with
     | .signed => (match s.v with | .nilptr => .panic | .int i => .ok (.int (wrapS dk.bits i)) | _ => .no)
     | .unsigned | .float => if s.v.isNilPtr then .panic else .no       -- AssignToUint/AssignToFloat dereference the source first
     | .text =>
       (match s.v with
        | .nilptr => .panic
        | _ => match srcText s with
          | some t => (match atoiM t with | some i => .ok (.int (wrapS dk.bits i)) | none => .no)
          | none => .no)
     | _ => .no)
  | .uint | .uint8 | .uint16 | .uint32 | .uint64 =>
    (match s.kind.family with
     | .unsigned => (match s.v with | .nilptr => .panic | .uint n => .ok (.uint (wrapU dk.bits n)) | _ => .no)
     | .signed | .float => if s.v.isNilPtr then .panic else .no
     | .text =>
       (match s.v with
        | .nilptr => .panic
        | _ => match srcText s with
          | some t => (match atouM t with | some n => .ok (.uint (wrapU dk.bits n)) | none => .no)
          | none => .no)
     | _ => .no)
  | .float32 | .float64 =>
    let cv (f : Int) : Int := if dk == .float32 then roundF32 f else f
    (match s.kind.family with
     | .signed | .unsigned => if s.v.isNilPtr then .panic else .no     -- AssignToInt/AssignToUint dereference the source first
     | .float => (match s.v with | .nilptr => .panic | .float f => .ok (.float (cv f)) | _ => .no)
     | .text =>
       (match s.v with
        | .nilptr => .panic
        | _ => match atofM s with
          | some (some fx) => .ok (.float (cv fx))
          | some none => .inexact
          | none => .no)
     | _ => .no)
  | .foreign =>
    -- AssignToInt / AssignToUint / AssignToFloat read the source before they look at the destination
    if s.v.isNilPtr && (s.kind.family == .signed || s.kind.family == .unsigned || s.kind.family == .float || s.kind.family == .text) then .panic
    else .no

end Inspector
