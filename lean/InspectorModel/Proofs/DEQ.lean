/-
Proofs/DEQ.lean — the repaired DeepEqual emitter model (`Gen/DEQ.lean`, `GenCfg.fixed`) against the structural
reading of C05 / C11 (`Spec/StructEq.lean`): helper lemmas and the main mutual induction.
-/
import InspectorModel.Proofs.DEQHyps
import InspectorModel.Spec.StructEq
import InspectorModel.Proofs.C04
set_option linter.unusedSimpArgs false
set_option linter.unusedVariables false
namespace Inspector

/-! ### Paths and the decision function -/

def Kind.isFloat : Kind → Bool
  | .float _ => true
  | _ => false

theorem isFloat_of_kind (t : String) (k : Kind) (h : kindOfName t = some k) :
    (t == "float32" || t == "float64") = k.isFloat := by
  unfold kindOfName at h
  split at h <;> first | (injection h with h; subst h; decide) | cases h

/-- `DEQMustCheck` (options.go) is the specification's "is this field looked at". -/
theorem mustCheck_eq_looksAt (π : String) (opts : Option DeqOpts) : deqMustCheck π opts = specLooksAt opts π := by
  unfold deqMustCheck specLooksAt
  cases opts with
  | none => rfl
  | some o =>
    simp only []
    cases he : o.exclude <;> cases hf : o.filter <;> simp

/-- The path the emitter builds for a named struct field is the dotted field path. -/
theorem deqPath_field (π : String) (ch : Node) (h : ch.name.length > 0) :
    deqPath π ch false = dotted π ch.name := by
  unfold deqPath dotted
  by_cases hp : π = ""
  · subst hp
    simp
  · have h1 : π.length > 0 := by
      by_cases h0 : π.length = 0
      · exact absurd (String.length_eq_zero_iff.mp h0) hp
      · omega
    have h2 : π.isEmpty = false := by
      rw [String.isEmpty_eq_false_iff]; exact hp
    simp [h1, h, h2]

theorem deqPath_field_len (π : String) (ch : Node) (h : ch.name.length > 0) :
    (deqPath π ch false).length > 0 := by
  unfold deqPath
  simp only [Bool.false_eq_true, if_false]
  rw [String.length_append]
  omega

/-- A map value / slice element (no name) keeps the path of its container. -/
theorem deqPath_elem (π : String) (e : Node) (h : e.name.length = 0) : deqPath π e false = π := by
  unfold deqPath
  have : e.name = "" := String.length_eq_zero_iff.mp h
  simp [this]

theorem deqPath_root (n : Node) : deqPath "" n true = "" := by
  unfold deqPath
  simp

/-! ### The relation between the specification's verdict and the emitted code's control flow -/

/-- Verdict of the specification for one position against what the emitted code does there:
`cont` = nothing decided (equal so far), `retFalse` = `return false`. A panic is never accepted. -/
def accR : Tri → DeqR → Bool
  | .must, .cont => true
  | .mustNot, .retFalse => true
  | .either, .cont => true
  | .either, .retFalse => true
  | _, _ => false

/-- The verdict for a struct field (`ps`) that the options tell not to look at is `must`. -/
def look (opts : Option DeqOpts) (ps : Bool) (π : String) (t : Tri) : Tri :=
  if ps && !deqMustCheck π opts then .must else t

abbrev fixedEnv (opts : Option DeqOpts) (ident : Bool) : DeqEnv := { cfg := GenCfg.fixed, opts := opts, ident := ident }
abbrev specEnv (opts : Option DeqOpts) (ident : Bool) : EqEnv := { opts := opts, ident := ident }

theorem accR_seq (h t : Tri) (rh rt : DeqR) (h1 : accR h rh = true) (h2 : accR t rt = true) :
    accR (h.and t) (rh.andThen fun _ => rt) = true := by
  revert h1 h2
  cases h <;> cases rh <;> cases t <;> cases rt <;> decide

theorem accR_ne_panic (t : Tri) (r : DeqR) (h : accR t r = true) : r ≠ .panic := by
  cases t <;> cases r <;> simp_all [accR]

theorem equalFloat_spec (a b : Int) (opts : Option DeqOpts) :
    equalFloat a b opts = decide ((a - b).natAbs ≤ (specPrec opts).toNat) := by
  unfold equalFloat specPrec
  cases opts <;> rfl

/-- Leaf comparison of a scalar. -/
theorem basic_ok (opts : Option DeqOpts) (i : Info) (ps : Bool) (π : String) (l r : Val) (k : Kind)
    (hk : kindOfName i.typu = some k) (hl : wtScalar k l = true) (hr : wtScalar k r = true) :
    accR (look opts ps π (eqScalar (specPrec opts) l r)) (deqBasic opts (.basic i) ps π l r) = true := by
  have hf := isFloat_of_kind _ _ hk
  unfold deqBasic look isFloatNode
  simp only [Node.typu, Node.info, hf]
  cases k <;> cases l <;> simp [wtScalar] at hl <;> cases r <;> simp [wtScalar] at hr <;>
    cases ps <;> cases hm : deqMustCheck π opts <;>
    simp [eqScalar, scalarNe, Kind.isFloat, equalFloat_spec] <;>
    (try (split <;> simp_all)) <;> (try rfl) <;> (split <;> rfl)

/-- On a node held by value the node-level code is the value-level code. -/
theorem deqN_eq_deqV (env : DeqEnv) (n : Node) (ps d0 : Bool) (pp : String) (l r : Val) (hp : n.ptr = false) :
    deqN env n ps d0 pp l r =
      deqV env n ps (ps && decide ((deqPath pp n d0).length > 0)) (deqPath pp n d0) l r := by
  cases l <;> simp [deqN, deqV, hp]

theorem eqS_withPtr (env : EqEnv) (n : Node) (p : Bool) (π : String) (a b : Val) :
    eqS env (n.withPtr p) π a b = eqS env n π a b := by
  cases a <;> cases n <;> simp [eqS, Node.withPtr] <;> cases b <;> rfl

def isScal : Val → Bool
  | .bool _ | .int _ | .uint _ | .float _ | .str _ => true
  | _ => false

theorem wrap_eq (ps : Bool) (π : String) (hlen : ps = true → π.length > 0) :
    (ps && decide (π.length > 0)) = ps := by
  cases ps
  · rfl
  · simp [hlen rfl]

theorem wtScalar_isScal (k : Kind) (v : Val) (h : wtScalar k v = true) : isScal v = true := by
  cases k <;> cases v <;> simp_all [wtScalar, isScal]

theorem WT_basic_isScal (i : Info) (v : Val) (h : WT ((Node.basic i).withPtr false) v = true) : isScal v = true := by
  cases hk : kindOfName i.typu with
  | none => cases v <;> simp [WT, Node.withPtr, hk, Node.ptr, Node.info] at h
  | some k =>
    apply wtScalar_isScal k
    cases v <;> simp [WT, Node.withPtr, hk, Node.ptr, Node.info] at h <;> simpa [WT, Node.withPtr, hk] using h

section Cases
variable (opts : Option DeqOpts) (ident : Bool)

theorem case_scalar (l r : Val) (n : Node) (ps wrap : Bool) (π : String) (hs : isScal l = true)
    (hl : WT (n.withPtr false) l = true) (hr : WT (n.withPtr false) r = true) :
    accR (look opts ps π (eqS (specEnv opts ident) n π l r)) (deqV (fixedEnv opts ident) n ps wrap π l r) = true := by
  cases n with
  | basic i =>
    cases hk : kindOfName i.typu with
    | none => cases l <;> simp [isScal] at hs <;> simp [WT, Node.withPtr, hk] at hl
    | some k =>
      have hl' : wtScalar k l = true := by
        cases l <;> simp [isScal] at hs <;> simpa [WT, Node.withPtr, hk] using hl
      have hr' : wtScalar k r = true := by
        cases r <;> simp [WT, Node.withPtr, hk, Node.ptr, Node.info] at hr <;> simpa [WT, Node.withPtr, hk] using hr
      have := basic_ok opts i ps π l r k hk hl' hr'
      cases l <;> simp [isScal] at hs <;> simpa [deqV, eqS] using this
  | _ => cases l <;> simp [isScal] at hs <;> simp [WT, Node.withPtr] at hl

theorem case_bytes (nl : Bool) (ld : Bytes) (c : Nat) (r : Val) (n : Node) (ps wrap : Bool) (π : String)
    (hnb : ps = false → n.isBytes = false)
    (hl : WT (n.withPtr false) (.bytes nl ld c) = true) (hr : WT (n.withPtr false) r = true) :
    accR (look opts ps π (eqS (specEnv opts ident) n π (.bytes nl ld c) r))
      (deqV (fixedEnv opts ident) n ps wrap π (.bytes nl ld c) r) = true := by
  cases n with
  | slice i e =>
    have hb : i.typn = "[]byte" := by
      have := hl
      simp [WT, Node.withPtr] at this
      exact this.1
    have hps : ps = true := by
      cases ps
      · have := hnb rfl
        simp [Node.isBytes, hb] at this
      · rfl
    subst hps
    cases r <;> simp [WT, Node.withPtr, hb, Node.ptr, Node.info] at hr
    rename_i rn rd rc
    simp only [deqV, eqS, look, bytesData]
    cases hm : deqMustCheck π opts <;> by_cases hd : ld = rd <;> simp [hm, hd, accR]
  | basic i => have := WT_basic_isScal _ _ hl; simp [isScal] at this
  | _ => simp [WT, Node.withPtr] at hl

theorem case_struct (lfs : List Val)
    (ih : ∀ (rfs : List Val) (chld : List Node) (π : String), EmitOKs chld = true → FieldNamesOK chld = true →
      WTs chld lfs = true → WTs chld rfs = true →
      accR (eqFields (specEnv opts ident) chld π lfs rfs) (deqFields (fixedEnv opts ident) chld π lfs rfs) = true)
    (r : Val) (n : Node) (ps wrap : Bool) (π : String) (hw : wrap = ps)
    (hemit : EmitOK n = true) (hnames : PathNamesOK n = true)
    (hl : WT (n.withPtr false) (.struct lfs) = true) (hr : WT (n.withPtr false) r = true) :
    accR (look opts ps π (eqS (specEnv opts ident) n π (.struct lfs) r))
      (deqV (fixedEnv opts ident) n ps wrap π (.struct lfs) r) = true := by
  cases n with
  | struct i chld =>
    obtain ⟨rfs, hrr, hrs⟩ := WT_struct_inv _ _ _ rfl hr
    subst hrr
    have hls : WTs chld lfs = true := by simpa [WT, Node.withPtr] using hl
    have := ih rfs chld π (by simpa [EmitOK] using hemit) (by simpa [PathNamesOK] using hnames) hls hrs
    subst hw
    simp only [deqV, eqS, look]
    by_cases hm : (wrap && !deqMustCheck π opts) = true
    · simp [hm, accR]
    · simp only [hm, if_false, Bool.false_eq_true]
      exact this
  | basic i => have := WT_basic_isScal _ _ hl; simp [isScal] at this
  | _ => simp [WT, Node.withPtr] at hl

/-- What the specification says about the key loop of a map: nothing definite for pointer-typed keys of
independent objects (unless there is no key at all), the per-key verdicts otherwise. -/
def mapSpec (opts : Option DeqOpts) (ident : Bool) (mk mv : Node) (π : String) (lks lvs rks rvs : List Val) : Tri :=
  if (mk.ptr && !ident) = true then (if lks.isEmpty then .must else .either)
  else eqMapVals (specEnv opts ident) mv π lks lvs rks rvs

theorem accR_either_seq (x rest : DeqR) (h1 : x ≠ .panic) (h2 : rest ≠ .panic) :
    accR .either (x.andThen fun _ => rest) = true := by
  cases x
  · cases rest <;> first | rfl | exact absurd rfl h2
  · rfl
  · exact absurd rfl h1

theorem case_map (lks lvs : List Val)
    (ih : ∀ (rks rvs : List Val) (mk mv : Node) (π : String),
      lks.length = lvs.length → mv.isBytes = false → mv.name.length = 0 → EmitOK mv = true → PathNamesOK mv = true →
      WTall mv lvs = true → WTall mv rvs = true →
      accR (mapSpec opts ident mk mv π lks lvs rks rvs)
        (deqMapVals (fixedEnv opts ident) mk mv π lks lvs rks rvs) = true)
    (nl : Bool) (r : Val) (n : Node) (ps wrap : Bool) (π : String) (hw : wrap = ps)
    (hemit : EmitOK n = true) (hnames : PathNamesOK n = true)
    (hl : WT (n.withPtr false) (.map nl lks lvs) = true) (hr : WT (n.withPtr false) r = true) :
    accR (look opts ps π (eqS (specEnv opts ident) n π (.map nl lks lvs) r))
      (deqV (fixedEnv opts ident) n ps wrap π (.map nl lks lvs) r) = true := by
  cases n with
  | map i mk mv =>
    obtain ⟨rnl, rks, rvs, hrr, hrlen, _, hrv⟩ := WT_map_inv _ _ _ _ rfl hr
    subst hrr
    obtain ⟨_, _, _, hll, hllen, _, hlv⟩ := WT_map_inv _ _ _ _ rfl hl
    injection hll with h1 h2 h3
    subst h1 h2 h3
    simp only [EmitOK, Bool.and_eq_true, Bool.not_eq_true'] at hemit
    simp only [PathNamesOK, Bool.and_eq_true, beq_iff_eq] at hnames
    subst hw
    simp only [deqV, eqS, look]
    by_cases hm : (wrap && !deqMustCheck π opts) = true
    · simp [hm, accR]
    · simp only [hm, if_false, Bool.false_eq_true]
      by_cases hne : (lks.length != rks.length) = true
      · simp [hne, accR]
      · simp only [hne, if_false, Bool.false_eq_true]
        exact ih rks rvs mk mv π hllen hemit.2 hnames.1 hemit.1.2 hnames.2 hlv hrv
  | basic i => have := WT_basic_isScal _ _ hl; simp [isScal] at this
  | _ => simp [WT, Node.withPtr] at hl

theorem case_slice (les : List Val)
    (ih : ∀ (res : List Val) (e : Node) (π : String), les.length = res.length →
      e.isBytes = false → e.name.length = 0 → EmitOK e = true → PathNamesOK e = true →
      WTall e les = true → WTall e res = true →
      accR (eqElems (specEnv opts ident) e π les res) (deqElems (fixedEnv opts ident) e π les res) = true)
    (nl : Bool) (c : Nat) (r : Val) (n : Node) (ps wrap : Bool) (π : String) (hw : wrap = ps)
    (hemit : EmitOK n = true) (hnames : PathNamesOK n = true)
    (hl : WT (n.withPtr false) (.slice nl les c) = true) (hr : WT (n.withPtr false) r = true) :
    accR (look opts ps π (eqS (specEnv opts ident) n π (.slice nl les c) r))
      (deqV (fixedEnv opts ident) n ps wrap π (.slice nl les c) r) = true := by
  cases n with
  | slice i e =>
    have hb : (i.typn == "[]byte") = false := by
      simp [WT, Node.withPtr] at hl
      simpa using hl.1.1
    obtain ⟨rnl, res, rc, hrr, hre⟩ := WT_slice_inv { i with ptr := false } e r rfl hb hr
    subst hrr
    obtain ⟨_, _, _, hll, hle⟩ := WT_slice_inv { i with ptr := false } e _ rfl hb hl
    injection hll with h1 h2 h3
    subst h1 h2 h3
    simp only [EmitOK, hb, Bool.false_or, Bool.and_eq_true, Bool.not_eq_true'] at hemit
    simp only [PathNamesOK, Bool.and_eq_true, beq_iff_eq] at hnames
    subst hw
    simp only [deqV, eqS, look]
    by_cases hm : (wrap && !deqMustCheck π opts) = true
    · simp [hm, accR]
    · simp only [hm, if_false, Bool.false_eq_true]
      by_cases hne : (les.length != res.length) = true
      · simp [hne, accR]
      · simp only [hne, if_false, Bool.false_eq_true]
        exact ih res e π (by simpa using hne) hemit.2 hnames.1 hemit.1 hnames.2 hle hre
  | basic i => have := WT_basic_isScal _ _ hl; simp [isScal] at this
  | _ => simp [WT, Node.withPtr] at hl

theorem WT_not_ptr (n : Node) (v : Val) (h : WT n v = true) (h1 : v ≠ .nilptr) (h2 : ∀ w, v ≠ .ptr w) : n.ptr = false := by
  rcases WT_ptr_cases n v h with ⟨_, hv | ⟨w, hv, _⟩⟩ | ⟨hp, _, _⟩
  · exact absurd hv h1
  · exact absurd hv (h2 w)
  · exact hp

/-- Node-level verdict from the value-level verdict, node held by value. -/
theorem deqN_of_deqV (X : Tri) (n : Node) (ps d0 : Bool) (pp π : String) (l r : Val)
    (hπ : deqPath pp n d0 = π) (hlen : ps = true → π.length > 0) (hp : n.ptr = false)
    (h : accR X (deqV (fixedEnv opts ident) n ps ps π l r) = true) :
    accR X (deqN (fixedEnv opts ident) n ps d0 pp l r) = true := by
  rw [deqN_eq_deqV _ _ _ _ _ _ _ hp, hπ, wrap_eq ps π hlen]
  exact h

mutual
theorem deqN_ok : ∀ (l r : Val) (n : Node) (ps d0 : Bool) (pp π : String),
    deqPath pp n d0 = π → (ps = true → π.length > 0) → (ps = false → n.isBytes = false) →
    EmitOK n = true → PathNamesOK n = true → WT n l = true → WT n r = true →
    accR (look opts ps π (eqS (specEnv opts ident) n π l r)) (deqN (fixedEnv opts ident) n ps d0 pp l r) = true
  | .nilptr, r, n, ps, d0, pp, π, hπ, hlen, hnb, hemit, hnames, hl, hr => by
    have hp : n.ptr = true := by rw [WT_nilptr] at hl; exact hl
    have hw := wrap_eq ps π hlen
    simp only [deqN, hπ, hw, hp, look, eqS, GenCfg.fixed]
    by_cases hm : (ps && !deqMustCheck π opts) = true
    · simp [hm, accR]
    · simp only [hm, if_false, Bool.false_eq_true, Bool.not_false, Bool.and_true, if_true]
      cases hr' : r.isNilPtr <;> simp [accR]
  | .ptr lw, r, n, ps, d0, pp, π, hπ, hlen, hnb, hemit, hnames, hl, hr => by
    rw [WT_ptr] at hl
    simp only [Bool.and_eq_true] at hl
    have hp : n.ptr = true := hl.1
    have hw := wrap_eq ps π hlen
    rcases WT_ptr_cases n r hr with ⟨_, hv | ⟨rw, hv, hrw⟩⟩ | ⟨hp', _, _⟩
    · subst hv
      simp only [deqN, hπ, hw, hp, look, eqS, GenCfg.fixed]
      by_cases hm : (ps && !deqMustCheck π opts) = true
      · simp [hm, accR]
      · simp [hm, accR]
    · subst hv
      have ih := deqV_ok lw rw n ps ps π rfl hnb hemit hnames hl.2 hrw
      simp only [deqN, hπ, hw, hp, look, eqS, GenCfg.fixed]
      by_cases hm : (ps && !deqMustCheck π opts) = true
      · simp [hm, accR]
      · simp only [hm, if_false, Bool.false_eq_true, Bool.not_false, Bool.and_true, Bool.not_true, if_true]
        rw [eqS_withPtr]
        simp only [look, hm, if_false, Bool.false_eq_true] at ih
        exact ih
    · rw [hp] at hp'; cases hp'
  | .struct lfs, r, n, ps, d0, pp, π, hπ, hlen, hnb, hemit, hnames, hl, hr => by
    have hp : n.ptr = false := WT_not_ptr n _ hl (by simp) (by simp)
    rw [← withPtr_false_of_not_ptr n hp] at hl hr
    exact deqN_of_deqV opts ident _ n ps d0 pp π _ r hπ hlen hp
      (case_struct opts ident lfs (fun rfs chld π h1 h2 h3 h4 => deqFields_ok lfs rfs chld π h1 h2 h3 h4)
        r n ps ps π rfl hemit hnames hl hr)
  | .map nl lks lvs, r, n, ps, d0, pp, π, hπ, hlen, hnb, hemit, hnames, hl, hr => by
    have hp : n.ptr = false := WT_not_ptr n _ hl (by simp) (by simp)
    rw [← withPtr_false_of_not_ptr n hp] at hl hr
    exact deqN_of_deqV opts ident _ n ps d0 pp π _ r hπ hlen hp
      (case_map opts ident lks lvs
        (fun rks rvs mk mv π h2 h3 h4 h5 h6 h7 h8 => deqMapVals_ok lvs lks rks rvs mk mv π h2 h3 h4 h5 h6 h7 h8)
        nl r n ps ps π rfl hemit hnames hl hr)
  | .slice nl les c, r, n, ps, d0, pp, π, hπ, hlen, hnb, hemit, hnames, hl, hr => by
    have hp : n.ptr = false := WT_not_ptr n _ hl (by simp) (by simp)
    rw [← withPtr_false_of_not_ptr n hp] at hl hr
    exact deqN_of_deqV opts ident _ n ps d0 pp π _ r hπ hlen hp
      (case_slice opts ident les
        (fun res e π h1 h2 h3 h4 h5 h6 h7 => deqElems_ok les res e π h1 h2 h3 h4 h5 h6 h7)
        nl c r n ps ps π rfl hemit hnames hl hr)
  | .bytes nl ld c, r, n, ps, d0, pp, π, hπ, hlen, hnb, hemit, hnames, hl, hr => by
    have hp : n.ptr = false := WT_not_ptr n _ hl (by simp) (by simp)
    rw [← withPtr_false_of_not_ptr n hp] at hl hr
    exact deqN_of_deqV opts ident _ n ps d0 pp π _ r hπ hlen hp
      (case_bytes opts ident nl ld c r n ps ps π hnb hl hr)
  | .bool x, r, n, ps, d0, pp, π, hπ, hlen, hnb, hemit, hnames, hl, hr => by
    have hp : n.ptr = false := WT_not_ptr n _ hl (by simp) (by simp)
    rw [← withPtr_false_of_not_ptr n hp] at hl hr
    exact deqN_of_deqV opts ident _ n ps d0 pp π _ r hπ hlen hp (case_scalar opts ident _ r n ps ps π rfl hl hr)
  | .int x, r, n, ps, d0, pp, π, hπ, hlen, hnb, hemit, hnames, hl, hr => by
    have hp : n.ptr = false := WT_not_ptr n _ hl (by simp) (by simp)
    rw [← withPtr_false_of_not_ptr n hp] at hl hr
    exact deqN_of_deqV opts ident _ n ps d0 pp π _ r hπ hlen hp (case_scalar opts ident _ r n ps ps π rfl hl hr)
  | .uint x, r, n, ps, d0, pp, π, hπ, hlen, hnb, hemit, hnames, hl, hr => by
    have hp : n.ptr = false := WT_not_ptr n _ hl (by simp) (by simp)
    rw [← withPtr_false_of_not_ptr n hp] at hl hr
    exact deqN_of_deqV opts ident _ n ps d0 pp π _ r hπ hlen hp (case_scalar opts ident _ r n ps ps π rfl hl hr)
  | .float x, r, n, ps, d0, pp, π, hπ, hlen, hnb, hemit, hnames, hl, hr => by
    have hp : n.ptr = false := WT_not_ptr n _ hl (by simp) (by simp)
    rw [← withPtr_false_of_not_ptr n hp] at hl hr
    exact deqN_of_deqV opts ident _ n ps d0 pp π _ r hπ hlen hp (case_scalar opts ident _ r n ps ps π rfl hl hr)
  | .str x, r, n, ps, d0, pp, π, hπ, hlen, hnb, hemit, hnames, hl, hr => by
    have hp : n.ptr = false := WT_not_ptr n _ hl (by simp) (by simp)
    rw [← withPtr_false_of_not_ptr n hp] at hl hr
    exact deqN_of_deqV opts ident _ n ps d0 pp π _ r hπ hlen hp (case_scalar opts ident _ r n ps ps π rfl hl hr)

theorem deqV_ok : ∀ (l r : Val) (n : Node) (ps wrap : Bool) (π : String),
    wrap = ps → (ps = false → n.isBytes = false) →
    EmitOK n = true → PathNamesOK n = true → WT (n.withPtr false) l = true → WT (n.withPtr false) r = true →
    accR (look opts ps π (eqS (specEnv opts ident) n π l r)) (deqV (fixedEnv opts ident) n ps wrap π l r) = true
  | .nilptr, r, n, ps, wrap, π, hw, hnb, hemit, hnames, hl, hr => by
    rw [WT_nilptr, withPtr_ptr] at hl; cases hl
  | .ptr lw, r, n, ps, wrap, π, hw, hnb, hemit, hnames, hl, hr => by
    rw [WT_ptr, withPtr_ptr] at hl; cases hl
  | .struct lfs, r, n, ps, wrap, π, hw, hnb, hemit, hnames, hl, hr =>
    case_struct opts ident lfs (fun rfs chld π h1 h2 h3 h4 => deqFields_ok lfs rfs chld π h1 h2 h3 h4)
      r n ps wrap π hw hemit hnames hl hr
  | .map nl lks lvs, r, n, ps, wrap, π, hw, hnb, hemit, hnames, hl, hr =>
    case_map opts ident lks lvs
      (fun rks rvs mk mv π h2 h3 h4 h5 h6 h7 h8 => deqMapVals_ok lvs lks rks rvs mk mv π h2 h3 h4 h5 h6 h7 h8)
      nl r n ps wrap π hw hemit hnames hl hr
  | .slice nl les c, r, n, ps, wrap, π, hw, hnb, hemit, hnames, hl, hr =>
    case_slice opts ident les
      (fun res e π h1 h2 h3 h4 h5 h6 h7 => deqElems_ok les res e π h1 h2 h3 h4 h5 h6 h7)
      nl c r n ps wrap π hw hemit hnames hl hr
  | .bytes nl ld c, r, n, ps, wrap, π, hw, hnb, hemit, hnames, hl, hr =>
    case_bytes opts ident nl ld c r n ps wrap π hnb hl hr
  | .bool x, r, n, ps, wrap, π, hw, hnb, hemit, hnames, hl, hr => case_scalar opts ident _ r n ps wrap π rfl hl hr
  | .int x, r, n, ps, wrap, π, hw, hnb, hemit, hnames, hl, hr => case_scalar opts ident _ r n ps wrap π rfl hl hr
  | .uint x, r, n, ps, wrap, π, hw, hnb, hemit, hnames, hl, hr => case_scalar opts ident _ r n ps wrap π rfl hl hr
  | .float x, r, n, ps, wrap, π, hw, hnb, hemit, hnames, hl, hr => case_scalar opts ident _ r n ps wrap π rfl hl hr
  | .str x, r, n, ps, wrap, π, hw, hnb, hemit, hnames, hl, hr => case_scalar opts ident _ r n ps wrap π rfl hl hr

theorem deqFields_ok : ∀ (ls rs : List Val) (chld : List Node) (π : String),
    EmitOKs chld = true → FieldNamesOK chld = true → WTs chld ls = true → WTs chld rs = true →
    accR (eqFields (specEnv opts ident) chld π ls rs) (deqFields (fixedEnv opts ident) chld π ls rs) = true
  | [], rs, chld, π, hemit, hnames, hl, hr => by simp [eqFields, deqFields, accR]
  | l :: ls, rs, chld, π, hemit, hnames, hl, hr => by
    cases chld with
    | nil => simp [WTs] at hl
    | cons ch chs =>
      cases rs with
      | nil => simp [WTs] at hr
      | cons r rs' =>
        simp only [WTs, Bool.and_eq_true] at hl hr
        simp only [EmitOKs, Bool.and_eq_true] at hemit
        simp only [FieldNamesOK, Bool.and_eq_true, decide_eq_true_eq] at hnames
        have hname : ch.name.length > 0 := hnames.1.1
        have hπ := deqPath_field π ch hname
        have h1 := deqN_ok l r ch true false π (dotted π ch.name) hπ
          (fun _ => by rw [← hπ]; exact deqPath_field_len π ch hname) (fun h => by cases h)
          hemit.1 hnames.1.2 hl.1 hr.1
        have h2 := deqFields_ok ls rs' chs π hemit.2 hnames.2 hl.2 hr.2
        have hcfg : GenCfg.fixed.deqPtrLeafNilUnchecked = false := rfl
        simp only [eqFields, deqFields, hcfg, Bool.and_false, Bool.false_eq_true, if_false]
        simp only [look, Bool.true_and, mustCheck_eq_looksAt] at h1
        have h1' : accR (if specLooksAt opts (dotted π ch.name) = true then
            eqS (specEnv opts ident) ch (dotted π ch.name) l r else Tri.must)
            (deqN (fixedEnv opts ident) ch true false π l r) = true := by
          cases hla : specLooksAt opts (dotted π ch.name) <;> simp [hla] at h1 ⊢ <;> exact h1
        exact accR_seq _ _ _ _ h1' h2

theorem deqMapVals_ok : ∀ (lvs lks rks rvs : List Val) (mk mv : Node) (π : String),
    lks.length = lvs.length → mv.isBytes = false → mv.name.length = 0 →
    EmitOK mv = true → PathNamesOK mv = true → WTall mv lvs = true → WTall mv rvs = true →
    accR (mapSpec opts ident mk mv π lks lvs rks rvs)
      (deqMapVals (fixedEnv opts ident) mk mv π lks lvs rks rvs) = true
  | [], lks, rks, rvs, mk, mv, π, hlen, hnb, hname, hemit, hnames, hl, hr => by
    cases lks with
    | nil => unfold mapSpec; split <;> simp [eqMapVals, deqMapVals, accR]
    | cons _ _ => simp at hlen
  | lv :: lvs, lks, rks, rvs, mk, mv, π, hlen, hnb, hname, hemit, hnames, hl, hr => by
    cases lks with
    | nil => simp at hlen
    | cons lk lks' =>
      simp only [WTall, Bool.and_eq_true] at hl
      have h2 := deqMapVals_ok lvs lks' rks rvs mk mv π (by simpa using hlen) hnb hname hemit hnames hl.2 hr
      have step : ∀ rv, lookupKey rks rvs lk = some rv →
          accR (eqS (specEnv opts ident) mv π lv rv) (deqN (fixedEnv opts ident) mv false false π lv rv) = true := by
        intro rv hlk
        have hrv := lookupKey_WT mv rks rvs lk rv hr hlk
        have h1 := deqN_ok lv rv mv false false π π (deqPath_elem π mv hname) (fun h => by cases h) (fun _ => hnb)
          hemit hnames hl.1 hrv
        simpa only [look, Bool.false_and, Bool.false_eq_true, if_false] using h1
      unfold mapSpec at h2 ⊢
      by_cases hk : (mk.ptr && !ident) = true
      · have hk' : (mk.ptr && !(fixedEnv opts ident).ident) = true := hk
        simp only [hk, if_true, List.isEmpty_cons, Bool.false_eq_true, if_false] at h2 ⊢
        have hrest : deqMapVals (fixedEnv opts ident) mk mv π lks' lvs rks rvs ≠ .panic := accR_ne_panic _ _ h2
        simp only [deqMapVals, hk', Bool.true_and]
        by_cases hnil : lk.isNilPtr = true
        · simp only [hnil, Bool.not_true, Bool.false_eq_true, if_false]
          cases hlk : lookupKey rks rvs lk with
          | none => rfl
          | some rv =>
            have h1 := accR_ne_panic _ _ (step rv hlk)
            have := accR_either_seq _ _ h1 hrest
            simp only []
            generalize deqN (fixedEnv opts ident) mv false false π lv rv = x at this ⊢
            cases x <;> exact this
        · have hnil' : lk.isNilPtr = false := by simpa using hnil
          simp only [hnil', Bool.not_false, if_true]
          rfl
      · have hk1 : (mk.ptr && !ident) = false := by simpa using hk
        have hk' : (mk.ptr && !(fixedEnv opts ident).ident) = false := hk1
        simp only [hk1, Bool.false_eq_true, if_false] at h2 ⊢
        simp only [eqMapVals, deqMapVals, hk', Bool.false_and, Bool.false_eq_true, if_false]
        cases hlk : lookupKey rks rvs lk with
        | none => simp [accR]
        | some rv =>
          have := accR_seq _ _ _ _ (step rv hlk) h2
          simp only []
          generalize deqN (fixedEnv opts ident) mv false false π lv rv = x at this ⊢
          cases x <;> exact this

theorem deqElems_ok : ∀ (ls rs : List Val) (e : Node) (π : String),
    ls.length = rs.length → e.isBytes = false → e.name.length = 0 → EmitOK e = true → PathNamesOK e = true →
    WTall e ls = true → WTall e rs = true →
    accR (eqElems (specEnv opts ident) e π ls rs) (deqElems (fixedEnv opts ident) e π ls rs) = true
  | [], rs, e, π, hlen, hnb, hname, hemit, hnames, hl, hr => by
    simp [eqElems, deqElems, accR]
  | l :: ls, rs, e, π, hlen, hnb, hname, hemit, hnames, hl, hr => by
    cases rs with
    | nil => simp at hlen
    | cons r rs' =>
      simp only [WTall, Bool.and_eq_true] at hl hr
      have h1 := deqN_ok l r e false false π π (deqPath_elem π e hname) (fun h => by cases h) (fun _ => hnb)
        hemit hnames hl.1 hr.1
      have h2 := deqElems_ok ls rs' e π (by simpa using hlen) hnb hname hemit hnames hl.2 hr.2
      simp only [look, Bool.false_and, Bool.false_eq_true, if_false] at h1
      have := accR_seq _ _ _ _ h1 h2
      simp only [eqElems, deqElems]
      generalize deqN (fixedEnv opts ident) e false false π l r = x at this ⊢
      cases x <;> exact this
end

end Cases

/-- What `deqM` answers for two recognised, non-nil arguments, from the verdict for the root node. -/
theorem deqAccepts_of_accR (t : Tri) (env : DeqEnv) (n : Node) (a b : Val)
    (h : accR t (deqN env n false true "" a b) = true) :
    deqAccepts t (deqM env n .ptr .ptr a b) = true := by
  unfold deqM
  simp only [deqArgOf]
  generalize deqN env n false true "" a b = x at h ⊢
  revert h
  cases t <;> cases x <;> decide

/-- C05 / C11 for the repaired emitter, root node of any shape but `[]byte`. -/
theorem deqM_correct (n : Node) (a b : Val) (opts : Option DeqOpts) (ident : Bool)
    (hroot : n.isBytes = false) (hok : EmitOK n = true) (hnames : PathNamesOK n = true)
    (hwa : WT n a = true) (hwb : WT n b = true) :
    deqAccepts (eqS { opts := opts, ident := ident } n "" a b)
      (deqM { cfg := GenCfg.fixed, opts := opts, ident := ident } n .ptr .ptr a b) = true := by
  have h := deqN_ok opts ident a b n false true "" "" (deqPath_root n) (fun h => by cases h) (fun _ => hroot)
    hok hnames hwa hwb
  simp only [look, Bool.false_and, Bool.false_eq_true, if_false] at h
  exact deqAccepts_of_accR _ _ _ _ _ h

end Inspector
