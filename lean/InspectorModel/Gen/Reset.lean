/-
Gen/Reset.lean — behavioural model of `writeNodeReset` (compiler.go:1382-1443) and the Reset header
(compiler.go:522-541). Structural recursion in the value.
-/
import InspectorModel.Gen.Copy
namespace Inspector

inductive ResetR
  | ok (v : Val)
  | panic
deriving Inhabited

def ResetR.bind (r : ResetR) (f : Val → ResetR) : ResetR :=
  match r with
  | .ok v => f v
  | .panic => .panic

/-- The zero literal the emitter writes for a basic node (`""` when the type is none of the listed ones: nothing is emitted). -/
def resetBasic (n : Node) (v : Val) : Val :=
  let typ := if n.typu.length == 0 then n.typn else n.typu
  match typ with
  | "int" | "int8" | "int16" | "int32" | "int64" => .int 0
  | "uint" | "uint8" | "uint16" | "uint32" | "uint64" | "byte" => .uint 0
  | "float32" | "float64" => .float 0
  | "bool" => .bool false
  | "string" => .str []
  | _ => v

mutual
/-- `writeNodeReset` for node `n` holding `v`. `guarded`: the caller already established non-nil
(struct children of pointer-to-struct/map/slice type are wrapped in `if v != nil`). -/
def resetN (cfg : GenCfg) (n : Node) (v : Val) : ResetR :=
  match v with
  | .nilptr =>
    -- struct children that are pointers to struct/map/slice are guarded; everything else is dereferenced
    if n.isBasicTyp then (if cfg.resetNilPtrPanics then .panic else .ok .nilptr)
    else .ok .nilptr
  | .ptr w => (resetN cfg (n.withPtr false) w).bind fun w' => .ok (.ptr w')
  | .bool _ | .int _ | .uint _ | .float _ | .str _ => .ok (resetBasic n v)
  | .bytes nl d c => if d.isEmpty then .ok (.bytes nl d c) else .ok (.bytes false [] c)
  | .struct fs =>
    (match n with
     | .struct _ chld => (resetFields cfg chld fs).bind fun v' => .ok v'
     | _ => .panic)
  | .map nl ks _ => if ks.isEmpty then .ok (.map nl [] []) else .ok (.map false [] [])
  | .slice nl es c =>
    if es.isEmpty then .ok (.slice nl [] c) else
    (match n with
     | .slice _ e =>
       if e.isBasicTyp then .ok (.slice false [] c)
       else (resetElems cfg e es).bind fun _ => .ok (.slice false [] c)
     | _ => .panic)
termination_by structural v

def resetFields (cfg : GenCfg) (chld : List Node) (fs : List Val) : ResetR :=
  match fs with
  | [] => .ok (.struct [])
  | f :: fs' =>
    match chld with
    | ch :: chs =>
      (resetN cfg ch f).bind fun f' =>
        (resetFields cfg chs fs').bind fun rest =>
          match rest with
          | .struct r => .ok (.struct (f' :: r))
          | _ => .panic
    | [] => .panic
termination_by structural fs

/-- Elements are reset in place before truncation; only a panic is observable afterwards.
A nil pointer element is dereferenced (no guard for elements). -/
def resetElems (cfg : GenCfg) (e : Node) (es : List Val) : ResetR :=
  match es with
  | [] => .ok (.struct [])
  | x :: es' =>
    let one : ResetR :=
      match x with
      | .nilptr => if cfg.resetNilPtrPanics then .panic else .ok .nilptr
      | _ => resetN cfg e x
    one.bind fun _ => resetElems cfg e es'
termination_by structural es
end

inductive ResetOut
  | ok (v : Val)
  | panic
  | unsupported
  | mustPointer
deriving Inhabited

def resetM (cfg : GenCfg) (n : Node) (f : Form) (v : Val) : ResetOut :=
  match f with
  | .val => .mustPointer
  | .untypedNil | .foreign => .unsupported
  | .ptr | .ptrptr =>
    (match resetN cfg n v with
     | .ok v' => .ok v'
     | .panic => .panic)
  | .nilPtr | .ptrNilPtr =>
    -- origin == nil: the first write through it panics; a map or slice root reads `len(*origin)`
    if cfg.nilRootPanics then .panic else .unsupported
  | .nilPtrPtr => if cfg.nilRootPanics then .panic else .unsupported

end Inspector
