package corr

import "reflect"

func init() {
	Runners["C19"] = runC19
}

func runC19(p *Plan) {
	r := NewRng(p.Seed)
	reps := scale(p.Tier, 6, 40)
	modes := []string{"none", "empty", "filled"}
	srcKinds := append([]string{}, KindNames...)
	for _, dk := range KindNames {
		for _, sk := range srcKinds {
			for i := 0; i < reps; i++ {
				old := GenSrc(r, dk).V
				src := GenSrc(r, sk)
				OpAssign(p.Out, dk, old, src, modes[r.Intn(3)])
				p.Out.Count("dst:" + dk)
				p.Out.Count("srcform:" + src.Form)
			}
		}
		// every text of the corpus into every destination kind, as a string and as bytes
		for ti, txt := range assignTexts {
			for _, sk := range []string{"string", "[]byte"} {
				if p.Tier == "quick" && (ti+len(dk))%2 == 0 && sk == "[]byte" {
					continue
				}
				v := reflect.New(kindTypes[sk]).Elem()
				if sk == "string" {
					v.SetString(txt)
				} else {
					v.SetBytes([]byte(txt))
				}
				OpAssign(p.Out, dk, GenSrc(r, dk).V, SrcSpec{Kind: sk, Form: []string{"v", "p"}[r.Intn(2)], V: v}, modes[r.Intn(3)])
				p.Out.Count("text-sweep")
			}
		}
		// no conversion applies: every buffer mode and both forms, over a destination that holds something
		for _, form := range []string{"foreign", "foreignp"} {
			for _, mode := range modes {
				for i := 0; i < 2; i++ {
					OpAssign(p.Out, dk, nonZeroOld(r, dk), SrcSpec{Kind: "foreign", Form: form}, mode)
					p.Out.Count("foreign-src:" + mode)
				}
			}
		}
	}
}

// nonZeroOld draws a previous destination content that is not the zero value (non-empty for text kinds) whenever
// the generator can produce one: a failed conversion that clears the destination must be visible.
func nonZeroOld(r *Rng, dk string) reflect.Value {
	v := GenSrc(r, dk).V
	for i := 0; i < 20 && v.IsZero(); i++ {
		v = GenSrc(r, dk).V
	}
	if (dk == "[]byte" || dk == "string") && v.Len() == 0 {
		v = reflect.New(kindTypes[dk]).Elem()
		if dk == "string" {
			v.SetString("previous")
		} else {
			v.SetBytes([]byte("previous"))
		}
	}
	return v
}
