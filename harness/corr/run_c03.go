package corr

import "reflect"

func init() {
	Runners["C03"] = runC03
}

func runC03(p *Plan) {
	r := NewRng(p.Seed)
	nRandom := scale(p.Tier, 2, 10)
	perValue := scale(p.Tier, 50, 200)
	perPath := scale(p.Tier, 3, 8)
	modes := []string{"none", "none", "empty", "filled"}
	for _, e := range p.Conly {
		OpSetUint8Slices(p.Out, e)
	}
	for _, e := range p.Types {
		tr := r.Fork(hashStr(e.Name))
		for _, vc := range valuesFor(p, e, tr, nRandom) {
			ps := EnumPaths(tr, vc.v, perValue)
			// histories on one object with a shared buffer: a bytes leaf A and another text leaf B
			var bytesLeaves, textLeaves [][]string
			for _, path := range ps.Paths {
				if el, found := NavReflect(vc.v, path); found && el.Kind() != reflect.Ptr {
					switch kindNameOf(el) {
					case "[]byte":
						bytesLeaves = append(bytesLeaves, path)
						textLeaves = append(textLeaves, path)
					case "string":
						textLeaves = append(textLeaves, path)
					}
				}
			}
			for h := 0; h < 2 && len(bytesLeaves) > 0 && len(textLeaves) > 1; h++ {
				a := bytesLeaves[tr.Intn(len(bytesLeaves))]
				b := textLeaves[tr.Intn(len(textLeaves))]
				// two spellings of one map key ("4", "0x4") denote the same element: take leaves below different
				// top-level fields of a struct root only
				if e.Type.Kind() == reflect.Struct && len(a) > 0 && len(b) > 0 && a[0] != b[0] {
					OpSetHistory(p.Out, e, vc.v, a, b)
					p.Out.Count("history:set-set-set")
				}
			}
			for i, path := range ps.Paths {
				el, found := NavReflect(vc.v, path)
				own := ""
				if found {
					for el.Kind() == reflect.Ptr && !el.IsNil() {
						el = el.Elem()
					}
					own = kindNameOf(el)
				}
				for j := 0; j < perPath; j++ {
					kind := KindNames[tr.Intn(len(KindNames))]
					switch {
					case own != "" && j == 0:
						kind = own
					case own != "" && tr.Chance(1, 3):
						kind = []string{"string", "[]byte"}[tr.Intn(2)] // decimal text
					}
					src := GenSrc(tr, kind)
					if src.Form == "pn" && tr.Chance(2, 3) {
						src.Form = "p"
					}
					if tr.Chance(1, 25) {
						src = SrcSpec{Kind: "foreign", Form: "foreign"}
					}
					if found && own == "" && tr.Chance(1, 4) {
						// the path ends on a struct / map / slice: a pointer to a copy of its current value (the emitted
						// `value.(*T)` arm replaces the node by it), or a typed-nil pointer of that type (ignored)
						t := el.Type()
						for t.Kind() == reflect.Ptr {
							t = t.Elem()
						}
						if (t.Kind() == reflect.Struct || t.Kind() == reflect.Map || t.Kind() == reflect.Slice) && !isByteSlice(t) {
							src = SrcSpec{Kind: "foreign", Form: "ownnilp", Own: t}
							if el.Kind() != reflect.Ptr && tr.Bool() {
								src = SrcSpec{Kind: "foreign", Form: "ownp", Own: t, OwnV: el}
							}
						}
					}
					f := FormPtr
					if tr.Chance(1, 6) {
						f = FormPtrPtr
					}
					OpSet(p.Out, e, vc.v, f, path, src, modes[tr.Intn(4)])
					p.Out.Count("path:" + ps.Kinds[i])
					p.Out.Count("srckind:" + kind)
				}
			}
		}
	}
}
