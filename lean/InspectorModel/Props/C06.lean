/-
Props/C06.lean — property theorems for C06 (Copy / CopyTo produce an equal, independent copy).

`copy_correct` / `copyTo_correct`: for the repaired emitter model (`GenCfg.fixed`), every well-formed type
tree, every well-typed source whose maps have pairwise distinct keys (pointer-keyed maps: the nil pointer at most
once, `KeysOK false`), every argument form and — for CopyTo —
every well-typed destination whose slices and maps are empty and whose pointers are nil, the observation
the driver derives from the model's outcome (`copyObsOfWith`, Spec/CopyObs.lean) satisfies the driver's
acceptance relation `cpAccepts`, i.e. `copyAccepts` of Spec/CopySpec.lean: no panic, nothing shared, source
unchanged, DeepEqual(source, copy) answers true and the copy is structurally identical to the source
(`eqS … = must`; for types with pointer-keyed maps, where Go compares keys by identity, `≠ mustNot`).
The observation is the one the driver computes, except that values are normalised with `dropCaps` instead
of `canon ∘ dropCaps` (`canon`, Driver/Parse.lean, additionally sorts map entries and is a `partial def`:
nothing can be proved about it). `copy_correct_norm` isolates what `canon` would have to satisfy.

The model of the tree at the pinned commit (`GenCfg.original`) is rejected on the six known classes
(`repo_not_correct_*`). `section CurrentTree`: since the `fix:` commits `GenCfg.repo` has every switch Copy / CopyTo
(and the DeepEqual run of the observation) read off (Proofs/CopyCurrent.lean), so every theorem holds of the emitter
as it stands: `copyN_current`, `accepts_of_copyN_current`, `copy_norm_current`, `copy_current`,
`copyTo_norm_current`, `copyTo_current`, `copy_refusal_current`, `copyTo_refusal_current`.
-/
import InspectorModel.Proofs.CopyDeq
import InspectorModel.Proofs.CopyDropCaps
import InspectorModel.Spec.CopyObs
import InspectorModel.Proofs.CopyCurrent
set_option linter.unusedSimpArgs false
set_option linter.unusedVariables false
namespace Inspector.C06
open Inspector.CopyPf

/-- A by-value destination is refused with the must-be-pointer error before anything is written. -/
theorem copyTo_by_value_refused (cfg : GenCfg) (n : Node) (r l : Val) :
    (match copyToM cfg n .ptr .val r l with | .mustPointer => true | _ => false) = true := rfl

/-- The emitted copy code at any node (root or not), repaired emitter: it does not panic, copies no
pointer as a pointer (sharing count 0), yields a well-typed value, DeepEqual of source and copy continues
("equal"), and the copy is structurally identical to the source. -/
theorem copyN_correct (n : Node) (d0 : Bool) (l r : Val) (hwf : NodeWF n = true) (hwr : WT n r = true)
    (hwl : WT n l = true) (hd : dstOK false l = true) (hk : KeysOK false n r = true) :
    ∃ v, copyN GenCfg.fixed n d0 l r = .ok v 0 ∧ WT n v = true ∧
      (eqS {} n "" r v != .mustNot) = true ∧
      (hasPtrKeyMap n = false → eqS {} n "" r v = .must ∧
        deqM { cfg := GenCfg.fixed, ident := false } n .ptr .ptr r v = .t) := by
  obtain ⟨v, hv, hwv, _, he⟩ := copyN_ok r n d0 l false hwf hwr hwl (dstOK_mono l hd) hk
  have ht := he hd ""
  refine ⟨v, hv, hwv, triOK_ne _ _ ht, ?_⟩
  intro hp
  rw [hp] at ht
  have hm := triOK_false _ ht
  refine ⟨hm, ?_⟩
  have hc := (deq_of_must r n "" v hwr hm).1 false true ""
  show deqM deqEnv n .ptr .ptr r v = .t
  simp only [deqM, deqArgOf, hc]

/-- Acceptance of the observation of a successful copy, for any normalisation that `eqS` does not see. -/
theorem accepts_of_copyN (norm : Val → Val) (n : Node) (d0 : Bool) (l r : Val) (hwf : NodeWF n = true)
    (hwr : WT n r = true) (hwl : WT n l = true) (hd : dstOK false l = true) (hk : KeysOK false n r = true)
    (hnorm : ∀ v, WT n v = true → eqS {} n "" r (norm v) = eqS {} n "" r v) :
    ∃ v, copyN GenCfg.fixed n d0 l r = .ok v 0 ∧
      cpAccepts n r none (copyObsOfWith norm GenCfg.fixed n r (.ok v 0)) = true := by
  obtain ⟨v, hv, hwv, hne, hmust⟩ := copyN_correct n d0 l r hwf hwr hwl hd hk
  refine ⟨v, hv, ?_⟩
  simp only [copyObsOfWith, cpAccepts, copyAccepts, hnorm v hwv]
  by_cases hp : hasPtrKeyMap n = true
  · simp [hp, hne]
  · have hp' : hasPtrKeyMap n = false := by simpa using hp
    obtain ⟨hm, hdq⟩ := hmust hp'
    have hdq' : deqM { cfg := GenCfg.fixed, ident := GenCfg.fixed.copyPtrShared } n .ptr .ptr r v = .t := hdq
    simp only [hp', hdq', hm, showDeqOut]
    decide

theorem dropCaps_norm (n : Node) (r : Val) (hwf : NodeWF n = true) :
    ∀ v, WT n v = true → eqS {} n "" r (dropCaps v) = eqS {} n "" r v :=
  fun v hv => eqS_dropCapsFuel r {} n "" v 64 (WT_keysFlat v n hwf hv)

/-- C06, Copy, with the normalisation left open (`canon ∘ dropCaps` in the driver): all that is needed of
it is that the specification's structural comparison does not see it on well-typed values. -/
theorem copy_correct_norm (norm : Val → Val) (n : Node) (v : Val) (f : Form) (hwf : NodeWF n = true)
    (hwt : WT n v = true) (hk : KeysOK false n v = true)
    (hnorm : ∀ c, WT n c = true → eqS {} n "" v (norm c) = eqS {} n "" v c) :
    (copyNilRoot f || cpAccepts n v (copyRefusal f) (copyObsOfWith norm GenCfg.fixed n v (copyM GenCfg.fixed n f v))) = true := by
  obtain ⟨c, hc, hacc⟩ := accepts_of_copyN norm n true (zeroVal n) v hwf hwt (WT_zeroVal n hwf) (zeroVal_dstOK false n) hk hnorm
  cases f <;> simp [copyNilRoot, rootOf, copyRefusal, copyM, copySrcOfC, copySrcOf, hc, hacc] <;> rfl

/-- C06 for Copy, repaired emitter: the driver's acceptance of the model's outcome, for every argument form. -/
theorem copy_correct (n : Node) (v : Val) (f : Form) (hwf : NodeWF n = true) (hwt : WT n v = true)
    (hk : KeysOK false n v = true) :
    (copyNilRoot f || cpAccepts n v (copyRefusal f) (copyObsOfWith dropCaps GenCfg.fixed n v (copyM GenCfg.fixed n f v))) = true :=
  copy_correct_norm dropCaps n v f hwf hwt hk (dropCaps_norm n v hwf)

theorem copyTo_correct_norm (norm : Val → Val) (n : Node) (src dst : Val) (fs fd : Form) (hwf : NodeWF n = true)
    (hws : WT n src = true) (hwd : WT n dst = true) (hd : dstOK false dst = true) (hk : KeysOK false n src = true)
    (hnorm : ∀ c, WT n c = true → eqS {} n "" src (norm c) = eqS {} n "" src c) :
    (copyToNilRoot fs fd || cpAccepts n src (copyToRefusal fs fd)
      (copyObsOfWith norm GenCfg.fixed n src (copyToM GenCfg.fixed n fs fd src dst))) = true := by
  obtain ⟨c, hc, hacc⟩ := accepts_of_copyN norm n true dst src hwf hws hwd hd hk hnorm
  cases fs <;> cases fd <;>
    simp [copyToNilRoot, rootOf, copyToRefusal, copyToM, copySrcOfC, copySrcOf, hc, hacc] <;> rfl

/-- C06 for CopyTo into an empty destination (maps and slices of length zero, pointers nil; scalars,
strings and byte slices arbitrary), repaired emitter, every pair of argument forms. -/
theorem copyTo_correct (n : Node) (src dst : Val) (fs fd : Form) (hwf : NodeWF n = true)
    (hws : WT n src = true) (hwd : WT n dst = true) (hd : dstOK false dst = true) (hk : KeysOK false n src = true) :
    (copyToNilRoot fs fd || cpAccepts n src (copyToRefusal fs fd)
      (copyObsOfWith dropCaps GenCfg.fixed n src (copyToM GenCfg.fixed n fs fd src dst))) = true :=
  copyTo_correct_norm dropCaps n src dst fs fd hwf hws hwd hd hk (dropCaps_norm n src hwf)

/-- Refused argument forms need no hypothesis on the values at all: Copy of a foreign / untyped-nil
argument answers "unsupported", for every type tree and value. -/
theorem copy_refusal_correct (norm : Val → Val) (n : Node) (v : Val) (f : Form) (t : String) (hr : copyRefusal f = some t) :
    cpAccepts n v (copyRefusal f) (copyObsOfWith norm GenCfg.fixed n v (copyM GenCfg.fixed n f v)) = true := by
  cases f <;> simp [copyRefusal] at hr <;> subst hr <;> rfl

/-- CopyTo with a refused pair of argument forms (foreign / untyped-nil source or destination: "unsupported";
destination by value: "must be pointer") is refused as expected whatever source and destination hold. -/
theorem copyTo_refusal_correct (norm : Val → Val) (n : Node) (src dst : Val) (fs fd : Form) (t : String)
    (hr : copyToRefusal fs fd = some t) :
    (copyToNilRoot fs fd || cpAccepts n src (copyToRefusal fs fd)
      (copyObsOfWith norm GenCfg.fixed n src (copyToM GenCfg.fixed n fs fd src dst))) = true := by
  cases fs <;> cases fd <;> simp [copyToRefusal] at hr <;> subst hr <;> rfl

section NonVacuity
def intN (name : String := "") (ptr : Bool := false) : Node := .basic { typn := "int", typu := "int", name := name, ptr := ptr }
def strN (name : String := "") (ptr : Bool := false) : Node := .basic { typn := "string", typu := "string", name := name, ptr := ptr }
def innerN (name : String := "") (ptr : Bool := false) : Node := .struct { typn := "Inner", name := name, ptr := ptr } [intN "A"]

/-- `type T struct { A int; S *string; P *int; L []*Inner; M map[string]*Inner; Q *map[string]int; B []byte }`. -/
def exNode : Node :=
  .struct { typn := "T" } [
    intN "A", strN "S" true, intN "P" true,
    .slice { typn := "[]*Inner", name := "L" } (innerN "" true),
    .map { typn := "map[string]*Inner", name := "M" } (strN) (innerN "" true),
    .map { typn := "map[string]int", name := "Q", ptr := true } (strN) (intN),
    .slice { typn := "[]byte", name := "B" } (.basic { typn := "byte", typu := "byte" })]

def exVal : Val :=
  .struct [.int 5, .ptr (.str (strBytes "s")), .ptr (.int 7),
    .slice false [.ptr (.struct [.int 1]), .nilptr] 4,
    .map false [.str (strBytes "k"), .str (strBytes "l")] [.ptr (.struct [.int 2]), .nilptr],
    .ptr (.map false [] []),
    .bytes false (strBytes "xy") 8]

/-- An "empty" destination as the harness builds them: nil pointers, empty non-nil collections, arbitrary scalars. -/
def exDst : Val :=
  .struct [.int 99, .nilptr, .nilptr, .slice false [] 3, .map false [] [], .nilptr, .bytes false (strBytes "old") 3]

example : NodeWF exNode = true ∧ WT exNode exVal = true ∧ KeysOK false exNode exVal = true ∧
    WT exNode exDst = true ∧ dstOK false exDst = true := by decide
/-- The repaired model's copy of `exVal` is accepted; -/
example : cpAccepts exNode exVal none (copyObsOfWith dropCaps GenCfg.fixed exNode exVal (copyM GenCfg.fixed exNode .ptr exVal)) = true := by
  decide
/-- … the tree's at the pinned commit is not (several classes at once here: the isolated witnesses follow). -/
example : cpAccepts exNode exVal none (copyObsOfWith dropCaps GenCfg.original exNode exVal (copyM GenCfg.original exNode .ptr exVal)) = false := by
  decide

/-- CopyTo into the "empty" destination `exDst` (stale scalar, string-less, `old` bytes) is accepted as well. -/
example : cpAccepts exNode exVal none (copyObsOfWith dropCaps GenCfg.fixed exNode exVal (copyToM GenCfg.fixed exNode .ptr .ptr exVal exDst)) = true := by
  decide
/-- The theorems instantiated. -/
example : cpAccepts exNode exVal none (copyObsOfWith dropCaps GenCfg.fixed exNode exVal (copyM GenCfg.fixed exNode .val exVal)) = true := by
  simpa [copyNilRoot, rootOf, copyRefusal] using copy_correct exNode exVal .val (by decide) (by decide) (by decide)

def accepted (cfg : GenCfg) (n : Node) (v : Val) : Bool :=
  cpAccepts n v none (copyObsOfWith dropCaps cfg n v (copyM cfg n .ptr v))

/-- `map[*int]int` with a nil pointer key (one key in Go, found by `m[nil]`) next to two non-nil pointer keys
with equal targets (distinct keys in Go, equal `Val`s): the hypotheses hold and the copy is accepted. -/
def ptrKeyN : Node := .map { typn := "PM" } (intN "" true) intN
def ptrKeyV : Val := .map false [.ptr (.int 1), .nilptr, .ptr (.int 1)] [.int 5, .int 6, .int 7]
example : NodeWF ptrKeyN = true ∧ WT ptrKeyN ptrKeyV = true ∧ KeysOK false ptrKeyN ptrKeyV = true ∧
    accepted GenCfg.fixed ptrKeyN ptrKeyV = true := by decide
/-- Why `KeysOK false` asks that the nil pointer is a key at most once: a `Val` with two nil keys (not a Go
map) is well-typed, its copy has one entry, and the acceptance relation rejects it. -/
example : WT ptrKeyN (.map false [.nilptr, .nilptr] [.int 5, .int 6]) = true ∧
    KeysOK false ptrKeyN (.map false [.nilptr, .nilptr] [.int 5, .int 6]) = false ∧
    accepted GenCfg.fixed ptrKeyN (.map false [.nilptr, .nilptr] [.int 5, .int 6]) = false := by decide

/-- `copy-root-slice-lost`: `type L []int`; Copy of `L{1}` returns an empty slice. -/
theorem repo_not_correct_root_slice_lost :
    accepted GenCfg.original (.slice { typn := "L" } intN) (.slice false [.int 1] 1) = false ∧
    accepted { GenCfg.original with copyRootSliceLost := false } (.slice { typn := "L" } intN) (.slice false [.int 1] 1) = true := by
  decide

/-- `copy-root-map-panics`: `type M map[string]int`; Copy of a non-empty `M` stores into a nil map. -/
theorem repo_not_correct_root_map_panics :
    accepted GenCfg.original (.map { typn := "M" } strN intN) (.map false [.str (strBytes "a")] [.int 1]) = false ∧
    accepted { GenCfg.original with copyRootMapPanics := false } (.map { typn := "M" } strN intN) (.map false [.str (strBytes "a")] [.int 1]) = true := by
  decide

/-- `copy-ptr-shared`: `struct { P *int }`; the copy's `P` is the source's pointer. -/
theorem repo_not_correct_ptr_shared :
    accepted GenCfg.original (.struct { typn := "T" } [intN "P" true]) (.struct [.ptr (.int 1)]) = false ∧
    accepted { GenCfg.original with copyPtrShared := false } (.struct { typn := "T" } [intN "P" true]) (.struct [.ptr (.int 1)]) = true := by
  decide

/-- `copy-nil-elem-panics`: `struct { L []*Inner }` with a nil element. -/
theorem repo_not_correct_nil_elem_panics :
    accepted GenCfg.original (.struct { typn := "T" } [.slice { typn := "[]*Inner", name := "L" } (innerN "" true)])
      (.struct [.slice false [.nilptr] 1]) = false ∧
    accepted { GenCfg.original with copyNilElemPanics := false } (.struct { typn := "T" } [.slice { typn := "[]*Inner", name := "L" } (innerN "" true)])
      (.struct [.slice false [.nilptr] 1]) = true := by
  decide

/-- `copy-nil-dest-panics`: `struct { S *string }` with `S` set: written through the copy's nil `S`. -/
theorem repo_not_correct_nil_dest_panics :
    accepted GenCfg.original (.struct { typn := "T" } [strN "S" true]) (.struct [.ptr (.str (strBytes "a"))]) = false ∧
    accepted { GenCfg.original with copyNilDestPanics := false } (.struct { typn := "T" } [strN "S" true]) (.struct [.ptr (.str (strBytes "a"))]) = true := by
  decide

/-- `copy-empty-ptr-coll-dropped`: `struct { Q *map[string]int }` with `Q` pointing to an empty map: the copy's `Q` is nil. -/
theorem repo_not_correct_empty_ptr_coll_dropped :
    accepted GenCfg.original (.struct { typn := "T" } [.map { typn := "map[string]int", name := "Q", ptr := true } strN intN])
      (.struct [.ptr (.map false [] [])]) = false ∧
    accepted { GenCfg.original with copyEmptyPtrCollDropped := false } (.struct { typn := "T" } [.map { typn := "map[string]int", name := "Q", ptr := true } strN intN])
      (.struct [.ptr (.map false [] [])]) = true := by
  decide
end NonVacuity

/-! ### The tree as it is now

After the six generator `fix:` commits that concern Copy (root slice lost, root map into nil map, shared
pointer targets, nil pointer elements, nil destination pointers, pointers to empty collections) and the
typed-nil-root fix, no switch that `copyN` / `copyM` / `copyToM` consult is left on in `GenCfg.repo`, nor one the
observation `copyObsOfWith` consults (`copyPtrShared` and the DeepEqual switches): the model of the current tree
*is* the repaired model, for every argument form. -/
section CurrentTree
open Inspector.CopyCurrent

theorem copyN_repo (n : Node) (d0 : Bool) (l r : Val) : copyN GenCfg.repo n d0 l r = copyN GenCfg.fixed n d0 l r :=
  CopyCurrent.copyN_repo n d0 l r

theorem copyM_repo (n : Node) (f : Form) (r : Val) : copyM GenCfg.repo n f r = copyM GenCfg.fixed n f r :=
  CopyCurrent.copyM_repo n f r

theorem copyToM_repo (n : Node) (fs fd : Form) (r l : Val) :
    copyToM GenCfg.repo n fs fd r l = copyToM GenCfg.fixed n fs fd r l :=
  CopyCurrent.copyToM_repo n fs fd r l

theorem copyObsOfWith_repo (norm : Val → Val) (n : Node) (src : Val) (o : CopyOut) :
    copyObsOfWith norm GenCfg.repo n src o = copyObsOfWith norm GenCfg.fixed n src o :=
  CopyCurrent.copyObsOfWith_repo norm n src o

/-- The emitted copy code at any node (root or not), emitter as it stands. -/
theorem copyN_current (n : Node) (d0 : Bool) (l r : Val) (hwf : NodeWF n = true) (hwr : WT n r = true)
    (hwl : WT n l = true) (hd : dstOK false l = true) (hk : KeysOK false n r = true) :
    ∃ v, copyN GenCfg.repo n d0 l r = .ok v 0 ∧ WT n v = true ∧
      (eqS {} n "" r v != .mustNot) = true ∧
      (hasPtrKeyMap n = false → eqS {} n "" r v = .must ∧
        deqM { cfg := GenCfg.repo, ident := false } n .ptr .ptr r v = .t) := by
  rw [copyN_repo]
  obtain ⟨v, h1, h2, h3, h4⟩ := copyN_correct n d0 l r hwf hwr hwl hd hk
  refine ⟨v, h1, h2, h3, fun hp => ?_⟩
  rw [DEQCurrent.deqM_repo_mk]
  exact h4 hp

/-- Acceptance of the observation of a successful copy, emitter as it stands. -/
theorem accepts_of_copyN_current (norm : Val → Val) (n : Node) (d0 : Bool) (l r : Val) (hwf : NodeWF n = true)
    (hwr : WT n r = true) (hwl : WT n l = true) (hd : dstOK false l = true) (hk : KeysOK false n r = true)
    (hnorm : ∀ v, WT n v = true → eqS {} n "" r (norm v) = eqS {} n "" r v) :
    ∃ v, copyN GenCfg.repo n d0 l r = .ok v 0 ∧
      cpAccepts n r none (copyObsOfWith norm GenCfg.repo n r (.ok v 0)) = true := by
  rw [copyN_repo]
  obtain ⟨v, h1, h2⟩ := accepts_of_copyN norm n d0 l r hwf hwr hwl hd hk hnorm
  exact ⟨v, h1, by rw [copyObsOfWith_repo]; exact h2⟩

/-- C06, Copy, emitter as it stands, with the normalisation left open. -/
theorem copy_norm_current (norm : Val → Val) (n : Node) (v : Val) (f : Form) (hwf : NodeWF n = true)
    (hwt : WT n v = true) (hk : KeysOK false n v = true)
    (hnorm : ∀ c, WT n c = true → eqS {} n "" v (norm c) = eqS {} n "" v c) :
    (copyNilRoot f || cpAccepts n v (copyRefusal f) (copyObsOfWith norm GenCfg.repo n v (copyM GenCfg.repo n f v))) = true := by
  rw [copyM_repo, copyObsOfWith_repo]; exact copy_correct_norm norm n v f hwf hwt hk hnorm

/-- C06 for Copy, emitter as it stands: the driver's acceptance of the model's outcome, for every argument form. -/
theorem copy_current (n : Node) (v : Val) (f : Form) (hwf : NodeWF n = true) (hwt : WT n v = true)
    (hk : KeysOK false n v = true) :
    (copyNilRoot f || cpAccepts n v (copyRefusal f) (copyObsOfWith dropCaps GenCfg.repo n v (copyM GenCfg.repo n f v))) = true := by
  rw [copyM_repo, copyObsOfWith_repo]; exact copy_correct n v f hwf hwt hk

theorem copyTo_norm_current (norm : Val → Val) (n : Node) (src dst : Val) (fs fd : Form) (hwf : NodeWF n = true)
    (hws : WT n src = true) (hwd : WT n dst = true) (hd : dstOK false dst = true) (hk : KeysOK false n src = true)
    (hnorm : ∀ c, WT n c = true → eqS {} n "" src (norm c) = eqS {} n "" src c) :
    (copyToNilRoot fs fd || cpAccepts n src (copyToRefusal fs fd)
      (copyObsOfWith norm GenCfg.repo n src (copyToM GenCfg.repo n fs fd src dst))) = true := by
  rw [copyToM_repo, copyObsOfWith_repo]; exact copyTo_correct_norm norm n src dst fs fd hwf hws hwd hd hk hnorm

/-- C06 for CopyTo into an empty destination, emitter as it stands, every pair of argument forms. -/
theorem copyTo_current (n : Node) (src dst : Val) (fs fd : Form) (hwf : NodeWF n = true)
    (hws : WT n src = true) (hwd : WT n dst = true) (hd : dstOK false dst = true) (hk : KeysOK false n src = true) :
    (copyToNilRoot fs fd || cpAccepts n src (copyToRefusal fs fd)
      (copyObsOfWith dropCaps GenCfg.repo n src (copyToM GenCfg.repo n fs fd src dst))) = true := by
  rw [copyToM_repo, copyObsOfWith_repo]; exact copyTo_correct n src dst fs fd hwf hws hwd hd hk

/-- Refused argument forms, emitter as it stands. -/
theorem copy_refusal_current (norm : Val → Val) (n : Node) (v : Val) (f : Form) (t : String) (hr : copyRefusal f = some t) :
    cpAccepts n v (copyRefusal f) (copyObsOfWith norm GenCfg.repo n v (copyM GenCfg.repo n f v)) = true := by
  rw [copyM_repo, copyObsOfWith_repo]; exact copy_refusal_correct norm n v f t hr

theorem copyTo_refusal_current (norm : Val → Val) (n : Node) (src dst : Val) (fs fd : Form) (t : String)
    (hr : copyToRefusal fs fd = some t) :
    (copyToNilRoot fs fd || cpAccepts n src (copyToRefusal fs fd)
      (copyObsOfWith norm GenCfg.repo n src (copyToM GenCfg.repo n fs fd src dst))) = true := by
  rw [copyToM_repo, copyObsOfWith_repo]; exact copyTo_refusal_correct norm n src dst fs fd t hr

/-- The witnesses on which the tree at the pinned commit was rejected are accepted now. -/
example : accepted GenCfg.repo exNode exVal = true ∧
    accepted GenCfg.repo (.slice { typn := "L" } intN) (.slice false [.int 1] 1) = true ∧
    accepted GenCfg.repo (.map { typn := "M" } strN intN) (.map false [.str (strBytes "a")] [.int 1]) = true ∧
    accepted GenCfg.repo (.struct { typn := "T" } [intN "P" true]) (.struct [.ptr (.int 1)]) = true ∧
    accepted GenCfg.repo (.struct { typn := "T" } [strN "S" true]) (.struct [.ptr (.str (strBytes "a"))]) = true := by
  decide

end CurrentTree

end Inspector.C06
