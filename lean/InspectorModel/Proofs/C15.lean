/-
Proofs/C15.lean — on the path class of C15 the reference GetTo hands out aliases the live element.
-/
import InspectorModel.Gen.Alias
import InspectorModel.Core.WF
set_option linter.unusedSimpArgs false
namespace Inspector

mutual
/-- No struct type carries the name of a builtin type (Go allows `type int struct{}`; no sane declaration
does it, and the emitter's `isBuiltin` test on the element's type name would then take the element of a
struct slice by value). Evaluated by the driver on every alias record. -/
def AliasOK : Node → Bool
  | .basic _ => true
  | .struct i chld => !isBuiltinName i.typn && AliasOKs chld
  | .map _ k v => AliasOK k && AliasOK v
  | .slice _ e => AliasOK e
def AliasOKs : List Node → Bool
  | [] => true
  | n :: ns => AliasOK n && AliasOKs ns
end

theorem AliasOKs_mem (chld : List Node) (ch : Node) (h : AliasOKs chld = true) (hm : ch ∈ chld) : AliasOK ch = true := by
  induction chld with
  | nil => cases hm
  | cons c cs ih =>
    simp only [AliasOKs, Bool.and_eq_true] at h
    cases hm with
    | head => exact h.1
    | tail _ hm => exact ih h.2 hm

theorem findField_mem (chld : List Node) (fs : List Val) (name : Bytes) (ch : Node) (fv : Val)
    (hf : findField chld fs name = some (ch, fv)) : ch ∈ chld := by
  induction chld generalizing fs with
  | nil => cases fs <;> simp [findField] at hf
  | cons c cs ih =>
    cases fs with
    | nil => simp [findField] at hf
    | cons f fs' =>
      simp only [findField] at hf
      split at hf
      · injection hf with hf; injection hf with h1 h2; subst h1; exact List.mem_cons_self
      · exact List.mem_cons_of_mem _ (ih fs' hf)

/-- Along struct fields, non-nil pointers and struct-slice indices, ending on an existing leaf, the handed-out
reference is live memory of the object. -/
theorem aliasN_live (p : List Seg) : ∀ (n : Node) (v : Val),
    AliasOK n = true → inAliasClass n v p = true → aliasN n v p true = some true := by
  induction p with
  | nil =>
    intro n v hok h
    unfold inAliasClass at h
    unfold aliasN
    by_cases hnil : (n.ptr && v.isNilPtr) = true
    · simp [hnil] at h
    · simp only [hnil, Bool.false_eq_true, if_false]
      have hl : (if n.ptr = true then true else true) = true := by cases n.ptr <;> rfl
      cases n with
      | basic i => simp
      | slice i e =>
        simp only []
        by_cases hb : (i.typn == "[]byte") = true
        · simp [hb]
        · simp only [hb, Bool.false_eq_true, if_false]; rw [hl]
      | map i k mv => simp only []; rw [hl]
      | struct i chld => simp only []; rw [hl]
  | cons s rest ih =>
    intro n v hok h
    unfold inAliasClass at h
    unfold aliasN
    by_cases hnil : (n.ptr && v.isNilPtr) = true
    · simp [hnil] at h
    · simp only [hnil, Bool.false_eq_true, if_false] at h ⊢
      cases n with
      | basic i => simp at h
      | map i k mv => simp at h
      | slice i e =>
        simp only [] at h ⊢
        by_cases hb : (i.typn == "[]byte") = true
        · simp [hb] at h
        · simp only [hb, Bool.false_eq_true, if_false] at h ⊢
          cases e with
          | struct ei echld =>
            simp only [] at h
            cases hw : derefIf (Node.slice i (Node.struct ei echld)).ptr v with
            | slice nl es c =>
              simp only [hw] at h ⊢
              cases hpi : s.pi with
              | none => simp [hpi] at h
              | some idx =>
                simp only [hpi] at h ⊢
                by_cases hr : (0 ≤ idx ∧ idx < (es.length : Int))
                · simp only [hr, and_self, if_true] at h ⊢
                  cases hx : nth? es idx.toNat with
                  | none => simp [hx] at h
                  | some x =>
                    simp only [hx] at h ⊢
                    have hoke : AliasOK (Node.struct ei echld) = true := by simpa [AliasOK] using hok
                    have hnb : isBuiltinName ei.typn = false := by
                      simp only [AliasOK, Bool.and_eq_true, Bool.not_eq_true'] at hoke
                      exact hoke.1
                    have hl : (!((Node.struct ei echld).ptr || isBuiltinName (Node.struct ei echld).typn) || (Node.struct ei echld).ptr) = true := by
                      simp only [Node.typn, Node.info, hnb, Bool.or_false]
                      cases (Node.struct ei echld).ptr <;> rfl
                    rw [hl]
                    exact ih _ x hoke h
                · simp [hr] at h
            | _ => simp [hw] at h
          | _ => simp at h
      | struct i chld =>
        simp only [] at h ⊢
        cases hw : derefIf (Node.struct i chld).ptr v with
        | struct fs =>
          simp only [hw] at h ⊢
          cases hff : findField chld fs s.text with
          | none => simp [hff] at h
          | some cf =>
            obtain ⟨ch, fv⟩ := cf
            simp only [hff] at h ⊢
            have hlive : (if (Node.struct i chld).ptr = true then true else true) = true := by
              cases (Node.struct i chld).ptr <;> rfl
            by_cases hl : ch.isLeaf = true
            · simp only [hl, if_true, Bool.and_eq_true, Bool.not_eq_true'] at h ⊢
              have h2 : (ch.ptr && fv.isNilPtr) = false := h.2
              have h3 : ¬ (ch.ptr = true ∧ fv.isNilPtr = true) := by
                intro hc; simp [hc.1, hc.2] at h2
              rw [if_neg h3, hlive]
              rfl
            · simp only [hl, Bool.false_eq_true, if_false] at h ⊢
              have hokc : AliasOK ch = true :=
                AliasOKs_mem chld ch (by simp only [AliasOK, Bool.and_eq_true] at hok; exact hok.2) (findField_mem _ _ _ _ _ hff)
              rw [hlive]
              exact ih ch fv hokc h
        | _ => simp [hw] at h

end Inspector
