/-
Spec/CopyHyp.lean — decidable hypotheses of the C06 / C08 theorems (evaluated by the driver on every input):
what a CopyTo destination must look like, and that the keys of every map of a source are pairwise distinct
(which every Go map satisfies; the association-list representation of `Val.map` does not enforce it; for
pointer-keyed maps, where a `Val` does not carry pointer identity: that the nil pointer is a key at most once).
-/
import InspectorModel.Spec.CopySpec
namespace Inspector

mutual
/-- A destination CopyTo can fill without leaving old content behind: every map and slice reachable
through struct fields (and, with `allowPtr`, through non-nil pointers) has length zero. Scalars, strings
and byte slices are unconstrained (they are overwritten). `allowPtr = false`: no non-nil pointer at all
(C06: "empty destination" — a non-nil pointer in the destination survives where the source has nil). -/
def dstOK (allowPtr : Bool) : Val → Bool
  | .struct fs => dstOKs allowPtr fs
  | .map _ ks _ => ks.isEmpty
  | .slice _ es _ => es.isEmpty
  | .ptr w => allowPtr && dstOK allowPtr w
  | _ => true
def dstOKs (allowPtr : Bool) : List Val → Bool
  | [] => true
  | v :: vs => dstOK allowPtr v && dstOKs allowPtr vs
end

/-- No later key equals `k` (orientation of the test as in `lookupKey` / `mapSet`: stored key `==` probe). -/
def keyFresh (k : Val) : List Val → Bool
  | [] => true
  | y :: ys => !(k == y) && keyFresh k ys

def distinctKeys : List Val → Bool
  | [] => true
  | k :: ks => keyFresh k ks && distinctKeys ks

/-- At most one key is the nil pointer (the one pointer key whose identity a `Val` does carry). -/
def nilKeysOnce : List Val → Bool
  | [] => true
  | k :: ks => (!k.isNilPtr || ks.all (fun y => !y.isNilPtr)) && nilKeysOnce ks

mutual
/-- The keys of every map in the value are pairwise distinct. `strict = false` asks of pointer-keyed maps
only that the nil pointer occurs at most once among the keys (two distinct non-nil pointers with equal
targets are distinct Go keys but equal `Val`s; C06 does not need them distinct, C08's `approxEq` does). -/
def KeysOK (strict : Bool) : Node → Val → Bool
  | n, .ptr w => KeysOK strict (n.withPtr false) w
  | .struct _ ch, .struct fs => KeysOKs strict ch fs
  | .map _ k v, .map _ ks vs => ((!strict && k.ptr && nilKeysOnce ks) || distinctKeys ks) && KeysOKall strict v vs
  | .slice _ e, .slice _ es _ => KeysOKall strict e es
  | _, _ => true
termination_by structural _ v => v
def KeysOKs (strict : Bool) : List Node → List Val → Bool
  | n :: ns, v :: vs => KeysOK strict n v && KeysOKs strict ns vs
  | _, _ => true
termination_by structural _ vs => vs
def KeysOKall (strict : Bool) : Node → List Val → Bool
  | _, [] => true
  | n, v :: vs => KeysOK strict n v && KeysOKall strict n vs
termination_by structural _ vs => vs
end

end Inspector
