/-
Proofs/Reflect.lean — C02 for ReflectInspector.Get: with the bounds test (`reflectIndexPanics` off) no navigation
step panics, whatever the tree, the value (nil pointers and nil collections anywhere) and the path.
-/
import InspectorModel.Lib.Reflect
set_option linter.unusedSimpArgs false
namespace Inspector.Reflect

theorem step_no_panic : ∀ (v : Val) (n : Node) (key : Bytes), (match reflectStep false n v key with | .panic => false | _ => true) = true
  | .nilptr, _, _ => rfl
  | .ptr w, n, key => by
    unfold reflectStep
    exact step_no_panic w (n.withPtr false) key
  | .struct fs, n, key => by
    unfold reflectStep
    cases n <;> simp only [] <;> (try rfl)
    cases findField ‹List Node› fs key with
    | none => rfl
    | some cf => rfl
  | .map nl ks vs, n, key => by
    unfold reflectStep
    cases n <;> simp only [] <;> (try rfl)
    rcases reflectLookup ks vs key with ⟨o, b⟩
    cases o <;> cases b <;> rfl
  | .bytes _ _ _, _, _ => rfl
  | .slice nl es c, n, key => by
    unfold reflectStep
    cases n <;> simp only [] <;> (try rfl)
    cases atoiM key with
    | none => rfl
    | some idx =>
      simp only []
      by_cases hi : 0 ≤ idx ∧ idx < es.length
      · rw [if_pos hi]
        cases nth? es idx.toNat <;> rfl
      · rw [if_neg hi]; rfl
  | .bool _, _, _ => rfl
  | .int _, _, _ => rfl
  | .uint _, _, _ => rfl
  | .float _, _, _ => rfl
  | .str _, _, _ => rfl

theorem getN_no_panic (p : List Bytes) : ∀ (n : Node) (v : Val),
    (match reflectGetN false n v p with | .panic => false | _ => true) = true := by
  induction p with
  | nil => intro n v; rfl
  | cons k rest ih =>
    intro n v
    unfold reflectGetN
    have hs := step_no_panic v n k
    cases h : reflectStep false n v k with
    | next n' v' => exact ih n' v'
    | nil => rfl
    | panic => rw [h] at hs; cases hs
    | unknown => rfl

end Inspector.Reflect
