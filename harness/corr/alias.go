package corr

import (
	"reflect"
	"strconv"
	"testing"

	"github.com/koykov/inspector"
)

// stripToLeaf follows pointers from what GetTo handed out down to a settable value: a scalar / string / bytes leaf,
// or a struct, slice or map (paths of C15's class may end on those).
func stripToLeaf(x any) (reflect.Value, bool) {
	if x == nil {
		return reflect.Value{}, false
	}
	v := reflect.ValueOf(x)
	for v.Kind() == reflect.Ptr {
		if v.IsNil() {
			return reflect.Value{}, false
		}
		v = v.Elem()
	}
	if !v.CanSet() {
		return reflect.Value{}, false
	}
	switch v.Kind() {
	case reflect.Bool, reflect.Int, reflect.Int8, reflect.Int16, reflect.Int32, reflect.Int64, reflect.Uint, reflect.Uint8, reflect.Uint16,
		reflect.Uint32, reflect.Uint64, reflect.Float32, reflect.Float64, reflect.String, reflect.Slice, reflect.Map:
		return v, true
	case reflect.Struct:
		if v.NumField() > 0 {
			return v, true
		}
	}
	return reflect.Value{}, false
}

// writeSentinel changes the value so that its serialisation differs, whatever it held.
func writeSentinel(v reflect.Value) {
	switch v.Kind() {
	case reflect.Bool:
		v.SetBool(!v.Bool())
	case reflect.Int, reflect.Int8, reflect.Int16, reflect.Int32, reflect.Int64:
		if v.Int() == 77 {
			v.SetInt(78)
		} else {
			v.SetInt(77)
		}
	case reflect.Uint, reflect.Uint8, reflect.Uint16, reflect.Uint32, reflect.Uint64:
		if v.Uint() == 77 {
			v.SetUint(78)
		} else {
			v.SetUint(77)
		}
	case reflect.Float32, reflect.Float64:
		v.SetFloat(v.Float() + 8)
	case reflect.String:
		v.SetString(v.String() + "#")
	case reflect.Slice:
		if isByteSlice(v.Type()) {
			v.SetBytes(append([]byte("#"), v.Bytes()...))
		} else if v.Len() == 0 {
			v.Set(reflect.MakeSlice(v.Type(), 1, 1))
		} else {
			v.Set(reflect.MakeSlice(v.Type(), 0, 0))
		}
	case reflect.Map:
		m := reflect.MakeMap(v.Type())
		if v.Len() == 0 {
			m.SetMapIndex(reflect.Zero(v.Type().Key()), reflect.Zero(v.Type().Elem()))
		}
		v.Set(m)
	case reflect.Struct:
		// the first field that can be changed
		for i := 0; i < v.NumField(); i++ {
			f := v.Field(i)
			if !f.CanSet() {
				continue
			}
			if f.Kind() == reflect.Ptr {
				// change the struct's own memory (the pointer), not what the pointer shares with other copies
				if f.IsNil() {
					f.Set(reflect.New(f.Type().Elem()))
				} else {
					f.Set(reflect.Zero(f.Type()))
				}
				return
			}
			writeSentinel(f)
			return
		}
	}
}

type nopIter struct{ n int }

func (it *nopIter) RequireKey() bool                { return false }
func (it *nopIter) SetKey(any, inspector.Inspector) {}
func (it *nopIter) SetVal(any, inspector.Inspector) { it.n++ }
func (it *nopIter) Iterate() inspector.LoopCtl      { return inspector.LoopCtlNone }

// OpAlias emits one `GW` record: GetTo through a pointer, a write through the reference it returned,
// and whether the write shows in the object; plus heap allocations per call of the read operations.
func OpAlias(o *Out, e *TypeEntry, v reflect.Value, path []string, measure bool) {
	vtok := Ser(v)
	arg, root := MakeArg(e.Type, DeepCopy(v), FormPtr)
	alias := "na"
	func() {
		defer func() {
			if r := recover(); r != nil {
				alias = "panic"
			}
		}()
		var buf any
		if err := e.Ins.GetTo(arg, &buf, path...); err != nil {
			alias = "err"
			return
		}
		leaf, ok := stripToLeaf(buf)
		if !ok {
			return
		}
		writeSentinel(leaf)
		if Ser(root()) != vtok {
			alias = "alias1"
		} else {
			alias = "alias0"
		}
	}()
	allocs := "-"
	if measure && alias != "panic" {
		arg2, root2 := MakeArg(e.Type, DeepCopy(v), FormPtr)
		arg3, _ := MakeArg(e.Type, DeepCopy(v), FormPtr)
		var buf any
		var res bool
		var n int
		it := &nopIter{}
		var lbuf []byte
		right := "0"
		if el, ok := NavReflect(v, path); ok {
			if t, ok2 := ScalarText(el); ok2 {
				right = t
			}
		}
		a := func(f func()) string {
			defer func() { _ = recover() }()
			return strconv.Itoa(int(testing.AllocsPerRun(20, f)))
		}
		allocs = "getto=" + a(func() { _ = e.Ins.GetTo(arg2, &buf, path...) }) +
			" cmp=" + a(func() { _ = e.Ins.Compare(arg2, inspector.OpEq, right, &res, path...) }) +
			" len=" + a(func() { _ = e.Ins.Length(arg2, &n, path...) }) +
			" cap=" + a(func() { _ = e.Ins.Capacity(arg2, &n, path...) }) +
			" deq=" + a(func() { _ = e.Ins.DeepEqual(arg2, arg3) }) +
			" loop=" + a(func() { _ = e.Ins.Loop(arg2, it, &lbuf, path...) })
		// SetWithBuffer of a scalar and of text into a pre-sized buffer
		if el, ok := NavReflect(v, path); ok {
			for el.Kind() == reflect.Ptr && !el.IsNil() {
				el = el.Elem()
			}
			if kindNameOf(el) != "" {
				pre := inspector.NewByteBuffer(4096)
				var scalar any = int32(7)
				// for text elements: longer than what the element can hold — storing it must come out of the pre-sized
				// buffer, not out of a fresh array (a number that long would only exercise strconv's error value)
				var text any = "12"
				if k := kindNameOf(el); k == "string" || k == "[]byte" {
					text = "1234567890123456789012345678901234567890"
				}
				// a bytes element is emptied before every call (no allocation): it must not be able to keep the text in
				// capacity left over from the previous call
				clear := func() {}
				if live, ok := NavReflect(root2(), path); ok && live.CanSet() && kindNameOf(live) == "[]byte" {
					zero := reflect.Zero(live.Type())
					clear = func() { live.Set(zero) }
				}
				allocs += " setscalar=" + a(func() { pre.Reset(); _ = e.Ins.SetWithBuffer(arg2, scalar, pre, path...) }) +
					" settext=" + a(func() { clear(); pre.Reset(); _ = e.Ins.SetWithBuffer(arg2, text, pre, path...) })
			}
		}
	}
	vid := o.DeclareVal(e, vtok)
	o.Op("GW " + e.Tid + " p " + vid + " | " + PathToks(path) + " | " + alias + " | " + allocs)
}
