package corr

import (
	"reflect"
	"sort"
	"strconv"
)

// KeyText renders a map key the way a path segment has to spell it.
func KeyText(k reflect.Value) string {
	for k.Kind() == reflect.Ptr {
		if k.IsNil() {
			return "nil"
		}
		k = k.Elem()
	}
	switch k.Kind() {
	case reflect.String:
		return k.String()
	case reflect.Bool:
		return strconv.FormatBool(k.Bool())
	case reflect.Int, reflect.Int8, reflect.Int16, reflect.Int32, reflect.Int64:
		return strconv.FormatInt(k.Int(), 10)
	case reflect.Uint, reflect.Uint8, reflect.Uint16, reflect.Uint32, reflect.Uint64:
		return strconv.FormatUint(k.Uint(), 10)
	case reflect.Float32, reflect.Float64:
		return strconv.FormatFloat(k.Float(), 'f', -1, 64)
	}
	return "?"
}

// PathSet enumerates paths into a value: every resolving path plus, at every position, the miss
// variants of the properties' quantifier (unknown field, absent key, index -1/len/len+1/huge,
// unparsable segment, nil pointer on the way, one segment too many).
type PathSet struct {
	R     *Rng
	Paths [][]string
	Kinds []string // classification of the last interesting step, for the distribution in the evidence
	limit int
}

func EnumPaths(r *Rng, v reflect.Value, limit int) *PathSet {
	ps := &PathSet{R: r, limit: limit}
	ps.walk(v.Type(), v, nil, "root", 0)
	// sample down deterministically
	if len(ps.Paths) > limit {
		idx := make([]int, len(ps.Paths))
		for i := range idx {
			idx[i] = i
		}
		for i := len(idx) - 1; i > 0; i-- {
			j := r.Intn(i + 1)
			idx[i], idx[j] = idx[j], idx[i]
		}
		idx = idx[:limit]
		sort.Ints(idx)
		var p [][]string
		var k []string
		for _, i := range idx {
			p = append(p, ps.Paths[i])
			k = append(k, ps.Kinds[i])
		}
		ps.Paths, ps.Kinds = p, k
	}
	return ps
}

func (ps *PathSet) add(p []string, kind string) {
	if len(ps.Paths) > ps.limit*40 {
		return
	}
	ps.Paths = append(ps.Paths, append([]string(nil), p...))
	ps.Kinds = append(ps.Kinds, kind)
}

func ext(p []string, s string) []string {
	q := make([]string, len(p)+1)
	copy(q, p)
	q[len(p)] = s
	return q
}

func (ps *PathSet) walk(t reflect.Type, v reflect.Value, p []string, kind string, depth int) {
	ps.add(p, kind)
	if depth > 6 {
		return
	}
	for t.Kind() == reflect.Ptr {
		if v.IsValid() {
			if v.IsNil() {
				v = reflect.Value{}
				kind = "nilptr-on-way"
			} else {
				v = v.Elem()
			}
		}
		t = t.Elem()
	}
	sub := func(k string) string {
		if !v.IsValid() {
			return "nilptr-on-way"
		}
		return k
	}
	switch t.Kind() {
	case reflect.Struct:
		for i := 0; i < t.NumField(); i++ {
			var fv reflect.Value
			if v.IsValid() {
				fv = v.Field(i)
			}
			ps.walk(t.Field(i).Type, fv, ext(p, t.Field(i).Name), sub("field"), depth+1)
		}
		ps.add(ext(p, "NoSuchField"), sub("unknown-field"))
		ps.add(ext(ext(p, "NoSuchField"), "0"), sub("unknown-field"))
	case reflect.Map:
		var keys []reflect.Value
		if v.IsValid() {
			keys = v.MapKeys()
			sort.Slice(keys, func(i, j int) bool { return KeyText(keys[i]) < KeyText(keys[j]) })
		}
		for i, k := range keys {
			if i >= 3 {
				break
			}
			ps.walk(t.Elem(), v.MapIndex(k), ext(p, KeyText(k)), "map-key", depth+1)
		}
		absent := "77777"
		kt := t.Key()
		for kt.Kind() == reflect.Ptr {
			kt = kt.Elem()
		}
		switch kt.Kind() {
		case reflect.String:
			absent = "no-such-key"
		case reflect.Bool:
			absent = "false"
		case reflect.Int8, reflect.Uint8:
			absent = "101"
		}
		// an absent key: descend with an invalid value so that longer paths behind it are produced too
		ps.walk(t.Elem(), reflect.Value{}, ext(p, absent), sub("absent-key"), depth+1)
		if kt.Kind() != reflect.String {
			ps.add(ext(p, "zz"), sub("unparsable-key"))
			ps.add(ext(ext(p, "zz"), "0"), sub("unparsable-key"))
			ps.add(ext(p, ""), sub("unparsable-key"))
			if kt.Kind() >= reflect.Int && kt.Kind() <= reflect.Uint64 {
				// the edges of the key type's parser: a minus sign (an error for unsigned keys), the largest
				// unsigned 64-bit number (an error for signed keys, wraps for narrow unsigned ones)
				ps.add(ext(p, "-1"), sub("negative-key"))
				ps.add(ext(p, "18446744073709551615"), sub("huge-key"))
			}
			if len(keys) > 0 && (kt.Kind() >= reflect.Int && kt.Kind() <= reflect.Uint64) {
				k := keys[0]
				for k.Kind() == reflect.Ptr && !k.IsNil() {
					k = k.Elem()
				}
				var hexs string
				if k.Kind() == reflect.Ptr {
					// a nil pointer key: no text denotes it
					hexs = "0x0"
				} else if k.Kind() >= reflect.Int && k.Kind() <= reflect.Int64 {
					if k.Int() >= 0 {
						hexs = "0x" + strconv.FormatInt(k.Int(), 16)
					} else {
						hexs = "-0x" + strconv.FormatInt(-k.Int(), 16)
					}
				} else {
					hexs = "0x" + strconv.FormatUint(k.Uint(), 16)
				}
				ps.walk(t.Elem(), v.MapIndex(keys[0]), ext(p, hexs), "map-key-base0", depth+1)
			}
		}
	case reflect.Slice:
		if isByteSlice(t) {
			ps.add(ext(p, "0"), sub("past-bytes"))
			return
		}
		n := 0
		if v.IsValid() {
			n = v.Len()
		}
		for i := 0; i < n && i < 3; i++ {
			ps.walk(t.Elem(), v.Index(i), ext(p, strconv.Itoa(i)), "index", depth+1)
		}
		if n > 0 {
			ps.walk(t.Elem(), v.Index(n-1), ext(p, "0x"+strconv.FormatInt(int64(n-1), 16)), "index-base0", depth+1)
			ps.walk(t.Elem(), v.Index(0), ext(p, "00"), "index-base0", depth+1)
		}
		ps.walk(t.Elem(), reflect.Value{}, ext(p, strconv.Itoa(n)), sub("index-len"), depth+1)
		ps.add(ext(p, strconv.Itoa(n+1)), sub("index-len+1"))
		ps.add(ext(p, "-1"), sub("index-neg"))
		ps.add(ext(ext(p, "-1"), "0"), sub("index-neg"))
		ps.add(ext(p, "99999999999999999999"), sub("index-huge"))
		ps.add(ext(p, "1x"), sub("unparsable-index"))
		ps.add(ext(p, ""), sub("unparsable-index"))
	default:
		ps.add(ext(p, "0"), sub("past-scalar"))
	}
}
