package corr

func init() {
	Runners["C07"] = runC07
}

func runC07(p *Plan) {
	r := NewRng(p.Seed)
	n := scale(p.Tier, 1500, 20000)
	for i := 0; i < n; i++ {
		initCap := []int{0, 0, 4, 16, 64, 1024}[r.Intn(6)]
		steps := 2 + r.Intn(scale(p.Tier, 10, 30))
		OpBufferHistory(p.Out, r, initCap, steps)
		p.Out.Count("initcap:" + itoa(initCap))
		p.Out.Count("steps:" + itoa(steps/4*4))
	}
	// CopyTo of the built-in sequence types through a buffer that is in use before and after the copy
	// ("… by Copy/CopyTo … keeps its content … however much is accumulated afterwards")
	es := []*TypeEntry{p.Builtin("strings-s"), p.Builtin("strings-b")}
	if es[0] != nil && es[1] != nil {
		for i := 0; i < scale(p.Tier, 300, 3000); i++ {
			e, eo := es[r.Intn(2)], es[r.Intn(2)]
			OpCopyTo2(p.Out, e, eo, genSeq(r, e.Type, 1+r.Intn(4)), genSeq(r, eo.Type, r.Intn(3)), []Form{FormVal, FormPtr}[r.Intn(2)], FormPtr, bufClasses[r.Intn(4)])
			p.Out.Count("strings-copyto")
		}
	}
	// … and of map[string]any trees: nested maps are copied by a recursive worker that shares the one buffer
	for i := 0; i < scale(p.Tier, 200, 2000); i++ {
		m := genTree(r, 3)
		if m == nil {
			m = map[string]any{"a": "x", "nested": map[string]any{"b": []byte("yz")}}
		}
		OpJCopy(p.Out, m, []Form{FormVal, FormPtr}[r.Intn(2)], "copyto")
		p.Out.Count("samap-copyto")
	}
}
