/-
Proofs/C02Assign.lean — C02, the Assign chain as Set uses it: with the nil-source repair it never dereferences.
-/
import InspectorModel.Proofs.C02Copy
import InspectorModel.Gen.Set
import InspectorModel.Gen.Loop
set_option linter.unusedSimpArgs false
set_option linter.unusedVariables false
namespace Inspector

def AssignR.isPanic : AssignR → Bool
  | .panic => true
  | _ => false

def Render.isPanic : Render → Bool
  | .panic => true
  | _ => false

theorem renderSrc_np (s : Src) (h : s.v.isNilPtr = false) : (renderSrc s).isPanic = false := by
  unfold renderSrc
  split
  · rfl
  · cases hv : s.v <;> simp_all [Val.isNilPtr, Render.isPanic]

/-- With the nil-source repair, the Assign chain never dereferences: whatever destination kind, old value,
source and buffer. -/
theorem assignM_np (a : Bool) (dk : DynKind) (old : Val) (s : Src) (noBuf : Bool) :
    (assignM { strAppendsOld := a, nilSrcPanics := false } dk old s noBuf).isPanic = false := by
  unfold assignM
  simp only [Bool.not_false, Bool.and_true]
  by_cases h1 : (s.v.isNilPtr && s.kind != .foreign) = true
  · simp only [h1, if_true]; rfl
  · simp only [h1, Bool.false_eq_true, if_false]
    by_cases hn : s.v.isNilPtr = true
    · -- a nil pointer of a foreign type: no arm of any switch matches
      have hk : s.kind = .foreign := by
        simp only [hn, Bool.true_and] at h1
        simpa using h1
      have hv : s.v = .nilptr := by
        cases hv : s.v <;> simp_all [Val.isNilPtr]
      have hr : renderSrc s = .unknown := by simp [renderSrc, hk]
      cases dk <;> simp [hk, hv, hr, DynKind.family, AssignR.isPanic, Val.isNilPtr]
    · have hn' : s.v.isNilPtr = false := by simpa using hn
      have fin : ∀ (c : Prop) [Decidable c] (x y : AssignR), x.isPanic = false → y.isPanic = false →
          (if c then x else y).isPanic = false := by
        intro c _ x y hx hy; split <;> assumption
      cases hv : s.v
      case nilptr => rw [hv] at hn'; cases hn'
      all_goals
        cases dk <;> cases hf : s.kind.family <;>
          simp only [renderSrc, srcText, hv, Val.isNilPtr, Bool.false_and, Bool.false_eq_true, if_false] <;>
          (repeat' split) <;> first | rfl | (rename_i hq; split at hq <;> cases hq)


end Inspector
