#!/usr/bin/env python3
"""check.py <property> <quick|thorough> — one check run (DESIGN.md 3.2):
prepare → proof obligations (lake build + axiom audit) → correspondence → verdicts → evidence → exit code."""
import hashlib, json, os, re, subprocess, sys, time

sys.path.insert(0, os.path.dirname(os.path.abspath(__file__)))
import vlib
from vlib import VERIF, LEAN, log

ALLOWED_AXIOMS = {"propext", "Classical.choice", "Quot.sound"}
FORBIDDEN = re.compile(r"\b(sorry|admit|native_decide|bv_decide|implemented_by|unsafe)\b|^\s*axiom\s|maxHeartbeats\s+0")

# property → how it is checked
PROPS = {
    # id: dict(runner=<harness -prop>, lean=<Props module>, model_dirs=[...])
}


def load_props():
    return json.load(open(os.path.join(VERIF, "scripts", "props.json")))


def strip_comments(src):
    src = re.sub(r"/-.*?-/", "", src, flags=re.S)
    return "\n".join(l.split("--")[0] for l in src.splitlines())


def grep_forbidden():
    hits = []
    for d, _, fs in os.walk(os.path.join(LEAN, "InspectorModel")):
        for f in fs:
            if f.endswith(".lean"):
                p = os.path.join(d, f)
                for i, l in enumerate(strip_comments(open(p).read()).splitlines(), 1):
                    if FORBIDDEN.search(l):
                        hits.append("%s:%d: %s" % (os.path.relpath(p, VERIF), i, l.strip()))
    for f in os.listdir(os.path.join(LEAN, "Driver")):
        p = os.path.join(LEAN, "Driver", f)
        for i, l in enumerate(strip_comments(open(p).read()).splitlines(), 1):
            if re.search(r"\b(sorry|admit|native_decide|implemented_by)\b", l):
                hits.append("%s:%d: %s" % (os.path.relpath(p, VERIF), i, l.strip()))
    return hits


def theorems_of(module):
    path = os.path.join(LEAN, module.replace(".", "/") + ".lean")
    if not os.path.exists(path):
        return []
    src = strip_comments(open(path).read())
    ns = ""
    m = re.search(r"^namespace\s+(\S+)", src, flags=re.M)
    if m:
        ns = m.group(1) + "."
    return [ns + t for t in re.findall(r"^\s*theorem\s+([A-Za-z0-9_'.]+)", src, flags=re.M)]


def proof_obligations(pid, module, extra_modules=(), prep=None, tier="quick"):
    """lake build of the property module, forbidden-token grep, #print axioms of every property theorem."""
    res = {"module": module, "theorems": [], "failed": [], "log": ""}
    with vlib.Lock():
        if prep is not None:
            vlib.install_extracted(prep)
        ok, out = vlib.lake_build([module] + list(extra_modules) + ["driver"])
        res["build_ok"] = ok
        if not ok:
            res["log"] = out[-3000:]
            res["failed"].append("lake build " + module)
            # which theorems fail? everything in the module is undischarged
            res["theorems"] = [{"name": t, "ok": False, "axioms": []} for t in theorems_of(module)]
            return res
        hits = grep_forbidden()
        if hits:
            res["failed"].append("forbidden tokens: " + "; ".join(hits[:5]))
        thms = theorems_of(module)
        audit = os.path.join(vlib.WORK, "audit_%s.lean" % pid)
        with open(audit, "w") as f:
            f.write("import %s\n" % module)
            for t in thms:
                f.write("#print axioms %s\n" % t)
        p = vlib.run(["lake", "env", "lean", audit], cwd=LEAN, env=os.environ.copy(), check=False)
        txt = p.stdout or ""
        for t in thms:
            m = re.search(r"'%s' (does not depend on any axioms|depends on axioms: \[([^\]]*)\])" % re.escape(t), txt)
            if not m:
                res["theorems"].append({"name": t, "ok": False, "axioms": ["<no #print axioms output>"]})
                res["failed"].append("axioms of " + t)
                continue
            ax = [a.strip() for a in (m.group(2) or "").replace("\n", " ").split(",") if a.strip()]
            good = set(ax) <= ALLOWED_AXIOMS
            res["theorems"].append({"name": t, "ok": good, "axioms": ax})
            if not good:
                res["failed"].append("axioms of %s: %s" % (t, ax))
        # thorough tier: the compiled module (and everything it imports) through the toolchain's independent
        # re-checker of .olean files
        res["leanchecker"] = "not run (quick tier)"
        if tier == "thorough":
            p = vlib.run(["lake", "env", "leanchecker", module], cwd=LEAN, env=os.environ.copy(), check=False)
            res["leanchecker"] = "ok" if p.returncode == 0 else "FAILED: " + (p.stdout or "")[-600:]
            if p.returncode != 0:
                res["failed"].append("leanchecker " + module)
    return res


def run_correspondence(prep, pid, tier, seed, outdir, runner=None):
    ops = os.path.join(outdir, "ops.txt")
    dist = os.path.join(outdir, "dist.json")
    verd = os.path.join(outdir, "verdicts.txt")
    binary = prep["corr"]
    if pid == "C20" and prep.get("corr_race") and os.path.exists(prep["corr_race"]):
        binary = prep["corr_race"]
    p = vlib.run([binary, "-prop", runner or pid, "-tier", tier, "-seed", str(seed), "-out", ops, "-dist", dist, "-genmod", prep.get("genmod", "")],
                 cwd=outdir, check=False, timeout=3000)
    if p.returncode != 0 or "WARNING: DATA RACE" in (p.stdout or ""):
        open(os.path.join(outdir, "harness.log"), "w").write(p.stdout or "")
        return None, ("DATA RACE reported by the race detector: " if "DATA RACE" in (p.stdout or "") else "harness failed: ") + (p.stdout or "")[:3000]
    drv = os.path.join(LEAN, ".lake", "build", "bin", "driver")
    with open(ops) as fi, open(verd, "w") as fo:
        r = subprocess.run([drv], stdin=fi, stdout=fo, stderr=subprocess.PIPE, text=True)
    if r.returncode != 0:
        return None, "driver failed: " + r.stderr[-2000:]
    return (ops, dist, verd), None


def hex2s(h):
    try:
        return bytes.fromhex(h).decode("utf8", "replace")
    except ValueError:
        return h


def describe(line, types):
    """Human-readable form of an op line for replays and samples."""
    parts = line.split(" | ")
    head = parts[0].split()
    d = {"op": head[0], "line": line}
    if len(head) > 1 and head[1] in types:
        d["type"] = types[head[1]]["name"]
    segs = []
    if len(parts) > 1:
        for t in parts[1].split()[1:]:
            if t.startswith("h"):
                segs.append(hex2s(t.split(":")[0][1:]))
    d["path"] = segs
    d["impl_outcome"] = parts[-1]
    return d


def aggregate(pid, files, known):
    ops, dist, verd = files
    lines = open(ops).read().split("\n")
    types, vals = {}, {}
    for l in lines:
        if l.startswith("T "):
            a = l.split(" ", 2)
            nm = a[2].split()
            types[a[1]] = {"name": nm[1] if len(nm) > 1 else "?", "node": a[2]}
        elif l.startswith("V "):
            a = l.split(" ", 3)
            vals[a[1]] = a[3] if len(a) > 3 else ""
    agg = {"agree": 0, "known": {}, "model_viol": [], "dev_viol": [], "dev_ok": [], "skip": {}, "total": 0}
    nontrivial = set()
    for l in open(verd):
        a = l.rstrip("\n").split(" ", 2)
        if len(a) < 2:
            continue
        n, v = int(a[0]), a[1]
        rest = a[2] if len(a) > 2 else ""
        agg["total"] += 1
        opline = lines[n - 1]
        if v == "agree":
            agg["agree"] += 1
            h = opline.split(" | ")
            # distinct non-trivial = distinct (type, outcome class, path length) triples that did something
            key = (h[0].split()[1] if len(h[0].split()) > 1 else "", h[-1].split()[1] if len(h[-1].split()) > 1 else h[-1], h[1].split()[0] if len(h) > 1 and h[1].split() else "")
            nontrivial.add(key)
        elif v == "known":
            for cc in rest.split(","):
                for c in cc.split("+"):
                    e = agg["known"].setdefault(c, {"count": 0, "example": n})
                    e["count"] += 1
        elif v == "model-viol":
            agg["model_viol"].append((n, rest))
        elif v == "dev-viol" or v == "kf-other":
            agg["dev_viol"].append((n, rest))
        elif v == "dev-ok":
            agg["dev_ok"].append((n, rest))
        else:
            agg["skip"][rest] = agg["skip"].get(rest, 0) + 1
    agg["distinct_nontrivial"] = len(nontrivial)
    agg["lines"], agg["types"], agg["vals"] = lines, types, vals
    return agg


def write_replay(pid, kind, payload):
    os.makedirs(os.path.join(VERIF, "replays"), exist_ok=True)
    h = hashlib.sha256(json.dumps(payload, sort_keys=True).encode()).hexdigest()[:12]
    path = os.path.join(VERIF, "replays", "%s-%s-%s.json" % (pid, kind, h))
    json.dump(payload, open(path, "w"), indent=1)
    return path


def op_payload(pid, agg, n, model, why):
    line = agg["lines"][n - 1]
    d = describe(line, agg["types"])
    head = line.split(" | ")[0].split()
    tid = head[1] if len(head) > 1 else ""
    # every token of the head that names a recorded value (ops carry one, two or more: D, CT, CY …)
    vids = [t for t in head[2:] if t in agg["vals"]]
    tline = "T %s %s" % (tid, agg["types"].get(tid, {}).get("node", ""))
    vlines = ["V %s %s %s" % (v, tid, agg["vals"].get(v, "")) for v in vids]
    return {"property": pid, "kind": why, "op": d, "type_decl": tline,
            "value_decl": vlines[0] if vlines else "", "model_outcome": model,
            "replay_lines": [tline] + vlines + [line]}


def main():
    pid, tier = sys.argv[1], (sys.argv[2] if len(sys.argv) > 2 else os.environ.get("VERIF_TIER", "quick"))
    seed = int(os.environ.get("VERIF_SEED", "1"))
    t0 = time.time()
    props = load_props()
    if pid not in props:
        print("unknown property", pid)
        sys.exit(2)
    cfg = props[pid]
    known = [k for k in json.load(open(os.path.join(VERIF, "known_findings.json")))["findings"] if k["property"] == pid]
    open_classes = {k["class"] for k in known if k["status"] == "open"}
    violations = []
    notes = []

    # 1. prepare (generator run with the current compiler.go, harness build)
    prep = vlib.prepare(tier, seed) if cfg.get("needs_generated", True) else vlib.prepare_lib(tier)
    for e in prep.get("errors", []):
        notes.append("prepare: " + e[:300])

    # 2. proof obligations
    po = proof_obligations(pid, cfg["lean_module"], cfg.get("extra_modules", ()), prep if cfg.get("needs_generated", True) else None, tier)
    obligations = len(po["theorems"]) + 1  # +1: the module builds from the current Extracted/* facts
    discharged = sum(1 for t in po["theorems"] if t["ok"]) + (1 if po["build_ok"] else 0)

    # 3. correspondence
    outdir = os.path.join(prep["work"], "run_%s_%d" % (pid, seed))
    os.makedirs(outdir, exist_ok=True)
    agg = None
    if prep.get("corr") and os.path.exists(prep["corr"]):
        files, err = run_correspondence(prep, pid, tier, seed, outdir, cfg.get("runner"))
        if err:
            notes.append(err)
            if pid == "C20" and err.startswith("DATA RACE"):
                # the detector's report names the two calls and the shared word: that is the failing schedule
                pl = {"property": pid, "kind": "two concurrent inspector calls on disjoint data touch the same memory (Go race detector)",
                      "race_report": err[:6000], "replay_cmd": "%s -prop C20 -tier %s -seed %d -out /dev/null -dist /dev/null" % (prep.get("corr_race"), tier, seed)}
                violations.append("VIOLATION property=%s replay=%s" % (pid, write_replay(pid, "race", pl)))
        else:
            agg = aggregate(pid, files, known)
    else:
        notes.append("harness binary missing")

    # 4. verdict
    known_lines = []
    if agg:
        for c, e in sorted(agg["known"].items()):
            if c in open_classes:
                kf = [k for k in known if k["class"] == c][0]
                known_lines.append("KNOWN-FINDING: property=%s class=%s %s (%d inputs this run)" % (pid, c, kf["what"], e["count"]))
            else:
                pl = op_payload(pid, agg, e["example"], "", "violation in a class that known_findings.json does not list as open: " + c)
                violations.append(("VIOLATION property=%s replay=%s" % (pid, write_replay(pid, "unlisted", pl))))
        for n, model in agg["model_viol"][:3]:
            pl = op_payload(pid, agg, n, model, "model and implementation agree on an outcome the property rejects; no listed finding explains it")
            violations.append("VIOLATION property=%s replay=%s" % (pid, write_replay(pid, "viol", pl)))
        for n, model in agg["dev_viol"][:3]:
            pl = op_payload(pid, agg, n, model, "implementation deviates from the model and its outcome is rejected by the property")
            violations.append("VIOLATION property=%s replay=%s" % (pid, write_replay(pid, "viol", pl)))
        tie_broken = bool(agg["dev_ok"]) and not agg["dev_viol"] and not agg["model_viol"]
        if tie_broken:
            n, model = agg["dev_ok"][0]
            pl = op_payload(pid, agg, n, model, "correspondence broken: implementation deviates from the model on %d inputs; every deviating outcome is still accepted by the property" % len(agg["dev_ok"]))
            pl["no_longer_checks"] = "correspondence model<->implementation for " + pid
            violations.append("VIOLATION property=%s replay=%s no-failing-input-found" % (pid, write_replay(pid, "tie", pl)))
        skipped = sum(agg["skip"].values())
        if agg["total"] == 0 or skipped > agg["total"] // 2:
            pl = {"property": pid, "kind": "correspondence explored nothing", "skips": agg["skip"], "no_longer_checks": "correspondence for " + pid}
            violations.append("VIOLATION property=%s replay=%s no-failing-input-found" % (pid, write_replay(pid, "empty", pl)))
    if po["failed"] and not any("no-failing-input-found" not in v for v in violations):
        pl = {"property": pid, "kind": "proof obligation no longer checks", "no_longer_checks": po["failed"], "log": po["log"]}
        violations.append("VIOLATION property=%s replay=%s no-failing-input-found" % (pid, write_replay(pid, "proof", pl)))
    if agg is None and not violations:
        pl = {"property": pid, "kind": "correspondence could not run", "notes": notes, "no_longer_checks": "correspondence for " + pid}
        violations.append("VIOLATION property=%s replay=%s no-failing-input-found" % (pid, write_replay(pid, "norun", pl)))
    extra_cov = {}
    if pid == "C13":
        import c13
        ncmp, fnd = c13.compare(prep, vlib.REPO)
        extra_cov = {"file_comparisons": ncmp, "file_findings": fnd[:20]}
        for f in fnd[:3]:
            violations.append("VIOLATION property=%s replay=%s" % (pid, write_replay(pid, "files", {"property": pid, "kind": f["kind"], "file": f["file"], "detail": f["detail"]})))
    if pid == "C14":
        import c14
        nf, fnd, gerrs = c14.facts(prep)
        extra_cov = {"file_facts_checked": nf, "file_findings": fnd[:20], "generator_errors": gerrs}
        for f in fnd[:3]:
            violations.append("VIOLATION property=%s replay=%s" % (pid, write_replay(pid, "files", dict(f, property=pid))))
        for f, msg in sorted(prep.get("fresh_rejected", {}).items())[:3]:
            pl = {"property": pid, "kind": "the inspector regenerated for a type of /repo/testobj is rejected by the Go compiler",
                  "declaration": "type in /repo/testobj whose inspector file is " + f, "file": f, "compiler_error": msg,
                  "replay_cmd": "inspc -pkg github.com/koykov/inspector/testobj -dst <dir> && go build <dir>"}
            violations.append("VIOLATION property=%s replay=%s" % (pid, write_replay(pid, "fresh", pl)))
        if gerrs.get("decl-unforced"):
            known_lines.append("KNOWN-FINDING: property=C14 class=generator-stops-at-first-failure an un-forced Compile() over the enumerated declarations stops with: %s" % gerrs["decl-unforced"][:120])
    # 5. evidence
    dist = {}
    if agg and os.path.exists(os.path.join(outdir, "dist.json")):
        dist = json.load(open(os.path.join(outdir, "dist.json")))
    samples = []
    if agg:
        cnt = 0
        for l in agg["lines"]:
            if l and l[0] not in "TV" and not l.startswith("CFG"):
                samples.append(describe(l, agg["types"]))
                cnt += 1
                if cnt >= 3:
                    break
    samples += [{"theorem": t["name"], "axioms": t["axioms"]} for t in po["theorems"][:40]]
    ev = {
        "property_id": pid, "tier": tier, "seed": seed, "level": "proof",
        "coverage": {
            "obligations": obligations, "discharged": discharged,
            "checker_cmd": "cd /verif/lean && lake build %s && lake env lean <#print axioms of every theorem in %s>" % (cfg["lean_module"], cfg["lean_module"]) + ("; lake env leanchecker %s: %s" % (cfg["lean_module"], po.get("leanchecker", "-")) if tier == "thorough" else ""),
            "trusted_base": cfg.get("trusted_base", []) + ["Lean 4.33.0 kernel", "axioms: propext, Classical.choice, Quot.sound only (audited per theorem on this run)",
                                                              "hand-written Lean model tied to /repo by the differential correspondence of this run",
                                                              "Go harness (reflection-based value construction, canonicalisation), strconv oracle"],
            "theorems": po["theorems"],
            "evaluations": agg["total"] if agg else 0,
            "distinct_nontrivial": agg["distinct_nontrivial"] if agg else 0,
            "rule": cfg.get("rule", "type-directed values x enumerated paths (resolving + miss variants) from VERIF_SEED; distinct = (type, outcome class, path length) triples on which model and implementation agreed"),
            "samples": samples,
            "programs": prep.get("alive", 0),
            "shapes_enumerated": prep.get("shapes_enumerated", 0),
            "shapes_rejected_by_go_compiler": len(prep.get("rejected", {})),
            "agree": agg["agree"] if agg else 0,
            "known_finding_hits": {c: e["count"] for c, e in agg["known"].items()} if agg else {},
            "deviations_property_ok": len(agg["dev_ok"]) if agg else 0,
            "deviations_property_violated": len(agg["dev_viol"]) if agg else 0,
            "skipped": agg["skip"] if agg else {},
            "input_distribution": dist.get("distribution", {}),
            "notes": notes,
            **extra_cov,
        },
        "assumptions": cfg.get("assumptions", []),
        "wall_s": round(time.time() - t0, 1),
        "violations": len(violations),
    }
    os.makedirs(os.path.join(VERIF, "evidence"), exist_ok=True)
    json.dump(ev, open(os.path.join(VERIF, "evidence", pid + ".json"), "w"), indent=1)

    for l in known_lines:
        print(l)
    for v in violations:
        print(v)
    print("%s %s: theorems %d/%d, ops %d, agree %d, known %s, deviations %d, wall %.1fs" % (
        pid, tier, discharged, obligations, ev["coverage"]["evaluations"], ev["coverage"]["agree"],
        ev["coverage"]["known_finding_hits"], (len(agg["dev_ok"]) + len(agg["dev_viol"])) if agg else -1, ev["wall_s"]))
    sys.exit(1 if violations else 0)


if __name__ == "__main__":
    main()
