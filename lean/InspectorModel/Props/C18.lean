/-
Props/C18.lean — property theorems for C18 (map[string]any inspector).
-/
import InspectorModel.Lib.StrAnyMap
import InspectorModel.Spec.StrAnyMapSpec
namespace Inspector.C18

/-- The empty path addresses the node itself. -/
theorem get_empty (j : JVal) : (match samapGet j [] with | .node _ => true | _ => false) = true := rfl

end Inspector.C18
