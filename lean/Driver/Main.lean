/-
Driver/Main.lean — reads op records (inputs + the implementation's outcome), evaluates model, spec and
known-finding classes, prints one verdict per op:
  <line> agree | known <class> | dev-ok <model> | dev-viol <model> | kf-other <class> | skip <why>
-/
import InspectorModel
import Driver.Parse
import Std.Data.HashMap
open Inspector Inspector.Driver

structure St where
  types : Std.HashMap String Node := {}
  vals : Std.HashMap String Val := {}
  cfg : GenCfg := {}

def splitBar (line : String) : List (List String) :=
  (line.splitOn " | ").map fun part => (part.splitOn " ").filter (· ≠ "")

/-- Single-defect repairs of the repo configuration: (class name, configuration with that one defect fixed). -/
def kfFlags (c : GenCfg) : List (String × GenCfg) :=
  (if c.fallThroughAlways then [("container-fallthrough", { c with fallThroughAlways := false })] else []) ++
  (if c.negIndexPanics then [("negative-index", { c with negIndexPanics := false })] else []) ++
  (if c.nilInterceptAnyDepth then [("nil-intercept", { c with nilInterceptAnyDepth := false })] else [])

def allFixed (c : GenCfg) : GenCfg :=
  (kfFlags c).foldl (fun _acc _x => GenCfg.fixed) c

/-- Verdict for one op. `model cfg` is the model's outcome under a configuration, `accepts` the
property's acceptance relation, `impl` what the implementation did.
 * impl = model(repo), accepted                      → agree
 * impl = model(repo), not accepted, a listed defect explains it (repairing it changes the outcome) → known <classes>
 * impl = model(repo), not accepted, no listed defect explains it → model-viol (unlisted violation)
 * impl ≠ model(repo), accepted                      → dev-ok   (tie broken, property still holds here)
 * impl ≠ model(repo), not accepted                  → dev-viol (concrete failing input) -/
def classify {α : Type} [BEq α] (cfg : GenCfg) (model : GenCfg → α) (accepts : α → Bool) (impl : α) (sh : α → String) : String :=
  let m := model cfg
  if impl == m then
    if accepts m then "agree"
    else
      let cls := (kfFlags cfg).filter (fun (_, c') => !(model c' == m))
      if !cls.isEmpty then "known " ++ ",".intercalate (cls.map (·.1))
      else if !(model (allFixed cfg) == m) then "known combination"
      else "model-viol " ++ sh m
  else
    if accepts impl then "dev-ok " ++ sh m
    else "dev-viol " ++ sh m

def opGet (st : St) (head : List String) (pathToks : List String) (outToks : List String) : String :=
  match head with
  | [_, tid, form, vid] =>
    match st.types[tid]?, st.vals[vid]?, parseForm form, parsePath pathToks with
    | some n, some v, some f, some (p, _) =>
      match outToks with
      | _mut :: out =>
        match parseGetOut out with
        | some impl =>
          let r := nav n v p
          let okOf (o : GetOut) : Bool :=
            match rootOf f with
            | .ok => getAccepts r o
            | _ => true      -- nil / foreign roots: C02 and C12 territory
          classify st.cfg (fun c => getM c n f v p) okOf impl showGetOut
        | none => "skip unparsable-outcome"
      | [] => "skip no-outcome"
    | _, _, _, _ => "skip unresolved-input"
  | _ => "skip bad-head"

def parseCmpOut : String → Option CmpOut
  | "untouched" => some .untouched
  | "set0" => some (.set false)
  | "set1" => some (.set true)
  | "err" => some .err
  | "panic" => some .panic
  | _ => none

def showCmpOut : CmpOut → String
  | .untouched => "untouched"
  | .set b => if b then "set1" else "set0"
  | .err => "err"
  | .panic => "panic"

instance : BEq CmpOut := ⟨fun a b => decide (a = b)⟩

def opCmp (st : St) (head pathToks argToks outToks : List String) : String :=
  match head, argToks, outToks with
  | [_, tid, form, vid], [opTok, rightTok], [_mut, outTok] =>
    match st.types[tid]?, st.vals[vid]?, parseForm form, parsePath pathToks, opTok.toInt?, parseSeg rightTok, parseCmpOut outTok with
    | some n, some v, some f, some (p, _), some op, some right, some impl =>
      if right.pf == .inexact then "skip inexact-operand" else
      let okOf (o : CmpOut) : Bool :=
        match rootOf f with
        | .ok => cmpAccepts n v p op right o
        | _ => true
      classify st.cfg (fun c => cmpM c n f v p op right) okOf impl showCmpOut
    | _, _, _, _, _, _, _ => "skip unresolved-input"
  | _, _, _ => "skip bad-record"

def handle (st : St) (line : String) : St × Option String :=
  match splitBar line with
  | ("T" :: tid :: toks) :: _ =>
    match parseNode toks with
    | some (n, _) => ({ st with types := st.types.insert tid n }, none)
    | none => (st, some "skip bad-type")
  | ("V" :: vid :: tid :: toks) :: _ =>
    match parseVal toks, st.types[tid]? with
    | some (v, _), some n => ({ st with vals := st.vals.insert vid (coerce n v) }, none)
    | some (v, _), none => ({ st with vals := st.vals.insert vid v }, none)
    | none, _ => (st, none)       -- values the model cannot name (inexact floats): ops on them are skipped
  | ["CFG", k, v] :: _ =>
    if k == "fallThroughAlways" then ({ st with cfg := { st.cfg with fallThroughAlways := v == "1" } }, none)
    else (st, none)
  | [head, path, out] =>
    match head.head? with
    | some "GT" | some "G" => (st, some (opGet st head path out))
    | _ => (st, some "skip unknown-op")
  | [head, path, arg, out] =>
    match head.head? with
    | some "C" => (st, some (opCmp st head path arg out))
    | _ => (st, some "skip unknown-op")
  | _ => (st, some "skip malformed")

partial def loop (h : IO.FS.Stream) (st : St) (lineNo : Nat) : IO Unit := do
  let line ← h.getLine
  if line.isEmpty then return ()
  let line := line.trimAsciiEnd.toString
  let (st', out) := handle st line
  match out with
  | some o => IO.println s!"{lineNo} {o}"
  | none => pure ()
  loop h st' (lineNo + 1)

def main : IO Unit := do
  loop (← IO.getStdin) {} 1
