/-
Proofs/C08.lean — the repaired reset emitter model: Reset of a well-typed value does not panic and leaves a
well-typed, empty value.
-/
import InspectorModel.Proofs.CopyDropCaps
set_option linter.unusedSimpArgs false
set_option linter.unusedVariables false
namespace Inspector.CopyPf

@[simp] theorem rbind_ok (v : Val) (f : Val → ResetR) : (ResetR.ok v).bind f = f v := rfl

/-- What is proved of Reset of `v` at every node. -/
def ResetQ (v : Val) : Prop :=
  ∀ (n : Node), NodeWF n = true → WT n v = true →
    ∃ r, resetN GenCfg.fixed n v = .ok r ∧ WT n r = true ∧ isEmptyV r = true

/-- For a well-formed basic node the emitted zero literal is the zero value of its kind. -/
theorem resetBasic_zero (i : Info) (k : Kind) (v : Val) (hk : kindOfName i.typu = some k) :
    resetBasic (.basic i) v = zeroOfKind k := by
  unfold kindOfName at hk
  split at hk
  all_goals first
    | (cases hk; rename_i h; simp [resetBasic, Node.typu, Node.typn, Node.info, h, zeroOfKind]; done)
    | cases hk

theorem WT_zeroOfKind (i : Info) (k : Kind) (hi : i.ptr = false) (hk : kindOfName i.typu = some k) :
    WT (.basic i) (zeroOfKind k) = true := by
  have := wtScalar_zero k
  cases k <;> simp_all [WT, zeroOfKind, Node.ptr, Node.info]

theorem resetFields_ok : ∀ (fs : List Val) (chld : List Node), (∀ x ∈ fs, ResetQ x) → NodeWFs chld = true →
    WTs chld fs = true →
    ∃ rs, resetFields GenCfg.fixed chld fs = .ok (.struct rs) ∧ WTs chld rs = true ∧ allEmpty rs = true
  | [], chld, _, _, hwt => by
    cases chld with
    | nil => exact ⟨[], by simp [resetFields], by simp [WTs], by simp [allEmpty]⟩
    | cons c cs => simp [WTs] at hwt
  | f :: fs, [], _, _, hwt => by simp [WTs] at hwt
  | f :: fs, ch :: chs, hq, hwf, hwt => by
    simp only [NodeWFs, WTs, Bool.and_eq_true] at hwf hwt
    obtain ⟨r, hr, hwr, her⟩ := hq f (by simp) ch hwf.1 hwt.1
    obtain ⟨rs, hrs, hwrs, hers⟩ := resetFields_ok fs chs (fun x hx => hq x (by simp [hx])) hwf.2 hwt.2
    exact ⟨r :: rs, by simp [resetFields, hr, hrs], by simp [WTs, hwr, hwrs], by simp [allEmpty, her, hers]⟩

theorem resetElems_ok (e : Node) (hwf : NodeWF e = true) : ∀ (es : List Val), (∀ x ∈ es, ResetQ x) →
    WTall e es = true → ∃ r, resetElems GenCfg.fixed e es = .ok r
  | [], _, _ => ⟨.struct [], by simp [resetElems]⟩
  | x :: es, hq, hwt => by
    simp only [WTall, Bool.and_eq_true] at hwt
    obtain ⟨r, hr⟩ := resetElems_ok e hwf es (fun y hy => hq y (by simp [hy])) hwt.2
    obtain ⟨rx, hrx, _, _⟩ := hq x (by simp) e hwf hwt.1
    refine ⟨r, ?_⟩
    cases x <;> simp [resetElems, hrx, hr] <;> simp [resetElems] at hrx

theorem resetN_ok : ∀ v, ResetQ v := by
  apply size_ind
  intro v ih n hwf hwt
  cases v with
  | nilptr =>
    refine ⟨.nilptr, ?_, hwt, rfl⟩
    by_cases hb : n.isBasicTyp = true <;> simp [resetN, hb]
  | ptr w =>
    rw [WT_ptr, Bool.and_eq_true] at hwt
    obtain ⟨r, hr, hwr, her⟩ := ih w (size_ptr w) (n.withPtr false) (by rw [NodeWF_withPtr]; exact hwf) hwt.2
    refine ⟨.ptr r, by simp [resetN, hr], ?_, by simpa [isEmptyV] using her⟩
    rw [WT_ptr, hwt.1, hwr]; rfl
  | bytes nl d c =>
    cases n with
    | slice i e =>
      have h : i.ptr = false ∧ (i.typn == "[]byte") = true := by
        simp [WT] at hwt; exact ⟨hwt.1.1, by simpa using hwt.1.2⟩
      by_cases hd : d.isEmpty = true
      · exact ⟨.bytes nl d c, by simp [resetN, hd], hwt, by simpa [isEmptyV] using hd⟩
      · exact ⟨.bytes false [] c, by simp [resetN, hd], by simp [WT, h.1, h.2], by simp [isEmptyV]⟩
    | basic i => rcases WT_basic_scalar i _ hwt with h | ⟨w, h⟩ | h <;> simp [isScalarV] at h
    | _ => simp [WT] at hwt
  | struct fs =>
    cases n with
    | struct i chld =>
      have hi : i.ptr = false := by simp [WT] at hwt; exact hwt.1
      obtain ⟨_, hfs, hws⟩ := WT_struct_inv i chld _ hi hwt
      cases hfs
      simp only [NodeWF] at hwf
      obtain ⟨rs, hrs, hwrs, hers⟩ := resetFields_ok fs chld (fun x hx => ih x (size_struct fs x hx)) hwf hws
      exact ⟨.struct rs, by simp [resetN, hrs], by simp [WT, hi, hwrs], by simpa [isEmptyV] using hers⟩
    | basic i => rcases WT_basic_scalar i _ hwt with h | ⟨w, h⟩ | h <;> simp [isScalarV] at h
    | _ => simp [WT] at hwt
  | map nl ks vs =>
    cases n with
    | map i mk mv =>
      have hi : i.ptr = false := by simp [WT] at hwt; exact hwt.1.1.1
      by_cases hk : ks.isEmpty = true
      · exact ⟨.map nl [] [], by simp [resetN, hk], by simp [WT, hi, WTall], by simp [isEmptyV]⟩
      · exact ⟨.map false [] [], by simp [resetN, hk], by simp [WT, hi, WTall], by simp [isEmptyV]⟩
    | basic i => rcases WT_basic_scalar i _ hwt with h | ⟨w, h⟩ | h <;> simp [isScalarV] at h
    | _ => simp [WT] at hwt
  | slice nl es c =>
    cases n with
    | slice i e =>
      have hi : i.ptr = false ∧ (i.typn == "[]byte") = false := by
        simp [WT] at hwt; exact ⟨hwt.1.1.1, by simpa using hwt.1.1.2⟩
      obtain ⟨_, _, _, hm, hwe⟩ := WT_slice_inv i e _ hi.1 hi.2 hwt
      cases hm
      simp only [NodeWF] at hwf
      have hw : ∀ nl', WT (.slice i e) (.slice nl' [] c) = true := by
        intro nl'; simp [WT, hi.1, WTall]; simpa using hi.2
      by_cases hes : es.isEmpty = true
      · exact ⟨.slice nl [] c, by simp [resetN, hes], hw nl, by simp [isEmptyV]⟩
      · refine ⟨.slice false [] c, ?_, hw false, by simp [isEmptyV]⟩
        by_cases hb : e.isBasicTyp = true
        · simp [resetN, hes, hb]
        · obtain ⟨r, hr⟩ := resetElems_ok e hwf es (fun x hx => ih x (size_slice nl es c x hx)) hwe
          simp [resetN, hes, hb, hr]
    | basic i => rcases WT_basic_scalar i _ hwt with h | ⟨w, h⟩ | h <;> simp [isScalarV] at h
    | _ => simp [WT] at hwt
  | _ =>
    -- scalars and strings
    all_goals
      have hn : ∃ i, n = .basic i ∧ i.ptr = false := by
        cases n <;> simp [WT] at hwt <;> exact ⟨_, rfl, hwt.1⟩
      obtain ⟨i, rfl, hi⟩ := hn
      obtain ⟨k, hk, _⟩ := WT_basic_inv i _ hi hwt
      exact ⟨zeroOfKind k, by simp [resetN, resetBasic_zero i k _ hk], WT_zeroOfKind i k hi hk, zeroOfKind_empty k⟩

end Inspector.CopyPf
