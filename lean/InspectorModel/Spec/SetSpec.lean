/-
Spec/SetSpec.lean — C03: after Set the addressed element reads back as the converted value, and no
element off the path changes (containers and entries on the path itself may be created).
-/
import InspectorModel.Spec.Nav
import InspectorModel.Spec.Conv
import InspectorModel.Gen.Set
namespace Inspector

/-- Struct fields: the named one is compared by `f`, every other one must be unchanged. -/
def offFields (f : Node → Val → Val → Bool) : List Node → List Val → List Val → Seg → Bool
  | ch :: chs, b :: bs, a :: as, s =>
    (if strBytes ch.name == s.text then f ch b a else b == a) && offFields f chs bs as s
  | [], [], [], _ => true
  | _, _, _, _ => false

/-- Map entries of `before`: each is still there; the one under `key` is compared by `f`, the others are unchanged. -/
def offEntries (f : Val → Val → Bool) (aks avs : List Val) (key : Val) : List Val → List Val → Bool
  | bk :: bks', bv :: bvs' =>
    (match lookupKey aks avs bk with
     | some av => if bk == key then f bv av else bv == av
     | none => false) && offEntries f aks avs key bks' bvs'
  | _, _ => true

def offElems (f : Val → Val → Bool) (idx : Int) : List Val → List Val → Nat → Bool
  | b :: bs, a :: as, i =>
    (if (i : Int) == idx then f b a else b == a) && offElems f idx bs as (i + 1)
  | [], [], _ => true
  | _, _, _ => false

/-- `after` differs from `before` only at or below positions the path passes through.
`before` may be nil where `after` was created on the way: it is then compared as the zero value. -/
def offPathEq (n : Node) (before after : Val) (p : List Seg) : Bool :=
  match p with
  | [] => true
  | s :: rest =>
    if n.isLeaf then true else
    -- pointer level: a nil `before` whose `after` was created on the way is compared as the zero value
    let lvl : Except Bool (Val × Val) :=
      if n.ptr then
        match before, after with
        | .nilptr, .nilptr => .error true
        | .nilptr, .ptr a => .ok (dropCaps (zeroVal (n.withPtr false)), a)
        | .ptr b, .ptr a => .ok (b, a)
        | _, _ => .error false
      else .ok (before, after)
    match lvl with
    | .error r => r
    | .ok (before, after) =>
    match n, before, after with
    | .struct _ chld, .struct bfs, .struct afs => offFields (fun ch b a => offPathEq ch b a rest) chld bfs afs s
    | .map _ k mv, .map _ bks bvs, .map _ aks avs =>
      (match specKey k s with
       | .key key =>
         -- every other entry is unchanged; no other entry appears
         offEntries (fun b a => offPathEq mv b a rest) aks avs key bks bvs &&
           aks.all (fun a => a == key || (lookupKey bks bvs a).isSome)
       | .never =>
         -- pointer keys: the text denotes no existing entry; existing entries stay, fresh ones may appear
         (bks.zip bvs).all fun (bk, bv) => (aks.zip avs).any fun (ak, av) => ak == bk && av == bv
       | .perr => dropCaps before == dropCaps after   -- an unparsable key denotes nothing: nothing may change
       | .unspec => true)
    | .slice _ e, .slice _ bes _, .slice _ aes _ =>
      (match s.pi with
       | some idx => bes.length == aes.length && offElems (fun b a => offPathEq e b a rest) idx bes aes 0
       | none => dropCaps before == dropCaps after)
    | _, _, _ => false

/-- C03 acceptance of the destination after the call. -/
def setAccepts (n : Node) (before : Val) (p : List Seg) (src : Src) (o : SetOut) : Bool :=
  -- a nil pointer as the assigned value is outside C03's quantifier (C02 speaks about it)
  if src.v.isNilPtr && src.kind != .foreign then true else
  match o with
  | .panic => false
  | .ok after | .err after =>
    let frame := offPathEq n (dropCaps before) (dropCaps after) p
    let stored :=
      match nav n before p with
      | .found res false =>
        if res.node.isLeaf && !res.node.ptr then
          (match specConv (leafKind res.node) src with
           | .store v =>
             (match nav n after p with
              | .found res' _ => valContentEq res'.val v
              | _ => false)
           | _ => true)
        else true
      | _ => true
    frame && stored

end Inspector
