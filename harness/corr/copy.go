package corr

import (
	"errors"
	"reflect"
	"strconv"
	"strings"
	"unsafe"

	"github.com/koykov/inspector"
)

// memSet is the mutable memory reachable from a value: pointer targets, maps, slice/string data ranges.
type memSet struct {
	ptrs   map[uintptr]bool
	maps   map[uintptr]bool
	ranges [][2]uintptr
}

func newMemSet() *memSet { return &memSet{ptrs: map[uintptr]bool{}, maps: map[uintptr]bool{}} }

func (ms *memSet) overlaps(lo, hi uintptr) bool {
	for _, r := range ms.ranges {
		if lo < r[1] && r[0] < hi {
			return true
		}
	}
	return false
}

func strData(v reflect.Value) (uintptr, uintptr) {
	s := v.String()
	if len(s) <= 1 {
		return 0, 0 // the runtime serves one-byte strings from a static table: same address, nothing shared
	}
	p := uintptr(unsafe.Pointer(unsafe.StringData(s)))
	return p, p + uintptr(len(s))
}

// walkMem visits every pointer / map / slice / string of v; with count=false it records them, with
// count=true it counts those that are also in ms.
func walkMem(v reflect.Value, ms *memSet, count bool, n *int) {
	switch v.Kind() {
	case reflect.Interface:
		if !v.IsNil() {
			walkMem(v.Elem(), ms, count, n)
		}
	case reflect.Ptr:
		if v.IsNil() {
			return
		}
		if count {
			if ms.ptrs[v.Pointer()] {
				*n++
				return
			}
		} else {
			ms.ptrs[v.Pointer()] = true
		}
		walkMem(v.Elem(), ms, count, n)
	case reflect.Struct:
		for i := 0; i < v.NumField(); i++ {
			walkMem(v.Field(i), ms, count, n)
		}
	case reflect.String:
		lo, hi := strData(v)
		if lo == 0 {
			return
		}
		if count {
			if ms.overlaps(lo, hi) {
				*n++
			}
		} else {
			ms.ranges = append(ms.ranges, [2]uintptr{lo, hi})
		}
	case reflect.Slice:
		if v.IsNil() || v.Cap() == 0 {
			return
		}
		lo := v.Pointer()
		hi := lo + uintptr(v.Cap())*v.Type().Elem().Size()
		if count {
			if ms.overlaps(lo, hi) {
				*n++
				return
			}
		} else {
			ms.ranges = append(ms.ranges, [2]uintptr{lo, hi})
		}
		if !isByteSlice(v.Type()) {
			for i := 0; i < v.Len(); i++ {
				walkMem(v.Index(i), ms, count, n)
			}
		}
	case reflect.Map:
		if v.IsNil() {
			return
		}
		if count {
			if ms.maps[v.Pointer()] {
				*n++
				return
			}
		} else {
			ms.maps[v.Pointer()] = true
		}
		it := v.MapRange()
		for it.Next() {
			if it.Key().Kind() != reflect.String { // string keys are immutable: sharing them shares nothing mutable
				walkMem(it.Key(), ms, count, n)
			}
			walkMem(it.Value(), ms, count, n)
		}
	}
}

// SharedCount counts the positions of cpy that reach memory also reachable from src.
func SharedCount(src, cpy reflect.Value) int {
	ms := newMemSet()
	walkMem(src, ms, false, nil)
	n := 0
	walkMem(cpy, ms, true, &n)
	return n
}

func errTok(err error) string {
	switch {
	case errors.Is(err, inspector.ErrUnsupportedType):
		return "unsupported"
	case errors.Is(err, inspector.ErrMustPointerType):
		return "mustpointer"
	}
	return "err"
}

// derefAll strips pointer levels of a result handed out through `any`.
func derefAll(v reflect.Value, t reflect.Type) (reflect.Value, bool) {
	for v.Kind() == reflect.Ptr || v.Kind() == reflect.Interface {
		if v.IsNil() {
			return v, false
		}
		v = v.Elem()
	}
	return v, v.Type() == t
}

func deqTok(ins inspector.Inspector, a, b any) (out string) {
	defer func() {
		if r := recover(); r != nil {
			out = "panic"
		}
	}()
	if ins.DeepEqual(a, b) {
		return "t"
	}
	return "f"
}

// OpCopy emits one `CP` record: Copy(x) through form f.
func OpCopy(o *Out, e *TypeEntry, v reflect.Value, f Form) {
	vtok := Ser(v)
	arg, root := MakeArg(e.Type, DeepCopy(v), f)
	var out string
	func() {
		defer func() {
			if r := recover(); r != nil {
				out = "panic"
			}
		}()
		res, err := e.Ins.Copy(arg)
		if err != nil {
			out = errTok(err)
			return
		}
		cv, ok := derefAll(reflect.ValueOf(res), e.Type)
		if !ok {
			out = "badresult"
			return
		}
		shared := SharedCount(root(), cv)
		same := b01(Ser(root()) == vtok)
		out = "ok " + strconv.Itoa(shared) + " " + deqTok(e.Ins, arg, res) + " " + same + " " + Ser(cv)
	}()
	vid := o.DeclareVal(e, vtok)
	o.Op("CP " + e.Tid + " " + string(f) + " " + vid + " | - | " + out)
}

// bufFor builds an accumulating buffer of the requested capacity class.
func bufFor(class string, need int) *inspector.ByteBuffer {
	switch class {
	case "nil":
		return inspector.NewByteBuffer(0)
	case "tight":
		return inspector.NewByteBuffer(need)
	case "small":
		return inspector.NewByteBuffer(need/2 + 1)
	default:
		return inspector.NewByteBuffer(need*2 + 64)
	}
}

func byteNeed(v reflect.Value) int { return strings.Count(Ser(v), "") / 2 }

// usedBufFor: like bufFor, but the roomier classes already hold something when the copy starts (C07: "however
// much is accumulated" — before as well as afterwards).
func usedBufFor(class string, need int) *inspector.ByteBuffer {
	b := bufFor(class, need)
	if class != "nil" && class != "tight" {
		b.BufferizeString("hdr:")
	}
	return b
}

// accumulateMore keeps using the buffer after the copy was made: whatever was handed out must stay as it is.
func accumulateMore(b *inspector.ByteBuffer, need int) {
	b.BufferizeString(strings.Repeat("X", need+24))
	b.Bufferize([]byte("tail"))
}

// OpCopyTo emits one `CT` record: CopyTo(src, dst, buf) with dst reaching value d through form fd.
func OpCopyTo(o *Out, e *TypeEntry, src, d reflect.Value, fs, fd Form, bufClass string) {
	stok, dtok := Ser(src), Ser(d)
	sarg, sroot := MakeArg(e.Type, DeepCopy(src), fs)
	darg, droot := MakeArg(e.Type, DeepCopy(d), fd)
	var out string
	func() {
		defer func() {
			if r := recover(); r != nil {
				out = "panic"
			}
		}()
		buf := usedBufFor(bufClass, byteNeed(src))
		if err := e.Ins.CopyTo(sarg, darg, buf); err != nil {
			out = errTok(err)
			return
		}
		accumulateMore(buf, byteNeed(src))
		shared := SharedCount(sroot(), droot())
		same := b01(Ser(sroot()) == stok)
		dq := "t"
		if fd == FormPtr || fd == FormPtrPtr {
			dq = deqTok(e.Ins, sarg, darg)
		}
		out = "ok " + strconv.Itoa(shared) + " " + dq + " " + same + " " + Ser(droot())
	}()
	vs := o.DeclareVal(e, stok)
	vd := o.DeclareVal(e, dtok)
	o.Op("CT " + e.Tid + " " + string(fs) + " " + string(fd) + " " + vs + " " + vd + " | " + bufClass + " | " + out)
}

// OpReset emits one `RS` record.
func OpReset(o *Out, e *TypeEntry, v reflect.Value, f Form) {
	vtok := Ser(v)
	arg, root := MakeArg(e.Type, DeepCopy(v), f)
	var out string
	func() {
		defer func() {
			if r := recover(); r != nil {
				out = "panic"
			}
		}()
		if err := e.Ins.Reset(arg); err != nil {
			out = errTok(err)
			return
		}
		out = "ok " + Ser(root())
	}()
	vid := o.DeclareVal(e, vtok)
	o.Op("RS " + e.Tid + " " + string(f) + " " + vid + " | - | " + out)
}

// OpCycle emits one `CY` record: a history of Reset-then-CopyTo cycles on one long-lived destination,
// the buffer reset alongside. Each step reports the destination after Reset and after CopyTo.
func OpCycle(o *Out, e *TypeEntry, d0 reflect.Value, srcs []reflect.Value, bufClass string) {
	vd := o.DeclareVal(e, Ser(d0))
	head := "CY " + e.Tid + " " + vd
	dst := reflect.New(e.Type)
	dst.Elem().Set(DeepCopy(d0))
	buf := bufFor(bufClass, 64)
	var steps []string
	for _, s := range srcs {
		head += " " + o.DeclareVal(e, Ser(s))
		step := ""
		stop := false
		func() {
			defer func() {
				if r := recover(); r != nil {
					step += "panic"
					stop = true
				}
			}()
			if err := e.Ins.Reset(dst.Interface()); err != nil {
				step += errTok(err)
				stop = true
				return
			}
			buf.Reset()
			step += "r " + Ser(dst.Elem()) + " ; "
			sp := reflect.New(e.Type)
			sp.Elem().Set(DeepCopy(s))
			if err := e.Ins.CopyTo(sp.Interface(), dst.Interface(), buf); err != nil {
				step += errTok(err)
				stop = true
				return
			}
			step += "c " + Ser(dst.Elem())
		}()
		steps = append(steps, step)
		if stop {
			break
		}
	}
	o.Op(head + " | " + bufClass + " | " + strings.Join(steps, " | "))
}

// OpCopyTo2 emits one `CT` record for built-in inspectors: source and destination may be of different types.
func OpCopyTo2(o *Out, es, ed *TypeEntry, src, d reflect.Value, fs, fd Form, bufClass string) {
	stok, dtok := Ser(src), Ser(d)
	sarg, sroot := MakeArg(es.Type, DeepCopy(src), fs)
	darg, droot := MakeArg(ed.Type, DeepCopy(d), fd)
	var out string
	func() {
		defer func() {
			if r := recover(); r != nil {
				out = "panic"
			}
		}()
		buf := usedBufFor(bufClass, byteNeed(src))
		if err := es.Ins.CopyTo(sarg, darg, buf); err != nil {
			out = errTok(err)
			return
		}
		accumulateMore(buf, byteNeed(src))
		shared := SharedCount(sroot(), droot())
		same := b01(Ser(sroot()) == stok)
		out = "ok " + strconv.Itoa(shared) + " - " + same + " " + Ser(droot())
	}()
	vs := o.DeclareVal(es, stok)
	vd := o.DeclareVal(ed, dtok)
	o.Op("CT " + es.Tid + " " + string(fs) + " " + string(fd) + " " + vs + " " + vd + " | " + ed.Builtin + " | " + out)
}
