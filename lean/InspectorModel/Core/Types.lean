/-
Core/Types.lean — the universe: parsed type trees (`Node`, mirror of node.go) and Go values as trees (`Val`).
-/
import InspectorModel.Core.Basic
namespace Inspector

/-- Scalar kinds as the emitter sees them (by the `typu` string). -/
inductive Kind
  | bool
  | sint (bits : Nat)
  | uint (bits : Nat)
  | float (bits : Nat)
  | string
deriving Repr, DecidableEq, Inhabited

def kindOfName : String → Option Kind
  | "bool" => some .bool
  | "int" => some (.sint 64)
  | "int8" => some (.sint 8)
  | "int16" => some (.sint 16)
  | "int32" => some (.sint 32)
  | "int64" => some (.sint 64)
  | "uint" => some (.uint 64)
  | "uint8" => some (.uint 8)
  | "byte" => some (.uint 8)
  | "uint16" => some (.uint 16)
  | "uint32" => some (.uint 32)
  | "uint64" => some (.uint 64)
  | "float32" => some (.float 32)
  | "float64" => some (.float 64)
  | "string" => some .string
  | _ => none

/-- `Compiler.isBuiltin`. -/
def isBuiltinName : String → Bool
  | "int" | "int8" | "int16" | "int32" | "int64"
  | "uint" | "uint8" | "uint16" | "uint32" | "uint64"
  | "float32" | "float64" | "string" | "[]byte" | "byte" | "bool" => true
  | _ => false

/-- The scalar attributes of a `node` (node.go), minus `pkgi` which no emitter branches on. -/
structure Info where
  typn : String := ""
  typu : String := ""
  name : String := ""
  pkg : String := ""
  ptr : Bool := false
  hasb : Bool := false
  hasc : Bool := false
deriving Repr, DecidableEq, Inhabited

/-- Parsed type tree. `typ` of node.go is the constructor; `chld/mapk/mapv/slct` are the arguments. -/
inductive Node
  | basic (i : Info)
  | struct (i : Info) (chld : List Node)
  | map (i : Info) (k : Node) (v : Node)
  | slice (i : Info) (e : Node)
deriving Repr, Inhabited

namespace Node
def info : Node → Info
  | basic i => i
  | struct i _ => i
  | map i _ _ => i
  | slice i _ => i

def ptr (n : Node) : Bool := n.info.ptr
def name (n : Node) : String := n.info.name
def typn (n : Node) : String := n.info.typn
def typu (n : Node) : String := n.info.typu

def isBasicTyp : Node → Bool
  | basic _ => true
  | _ => false

/-- `node.typ == typeSlice && node.typn == "[]byte"`. -/
def isBytes : Node → Bool
  | slice i _ => i.typn == "[]byte"
  | _ => false

/-- The emitters' `isBasic := ch.typ == typeBasic || (ch.typ == typeSlice && ch.typn == "[]byte")`. -/
def isLeaf (n : Node) : Bool := n.isBasicTyp || n.isBytes

def kind (n : Node) : Option Kind := kindOfName n.info.typu

def withPtr (n : Node) (p : Bool) : Node :=
  match n with
  | basic i => basic { i with ptr := p }
  | struct i c => struct { i with ptr := p } c
  | map i k v => map { i with ptr := p } k v
  | slice i e => slice { i with ptr := p } e
end Node

mutual
def Node.beq : Node → Node → Bool
  | .basic a, .basic b => a == b
  | .struct a ca, .struct b cb => a == b && Node.beqList ca cb
  | .map a k1 v1, .map b k2 v2 => a == b && Node.beq k1 k2 && Node.beq v1 v2
  | .slice a e1, .slice b e2 => a == b && Node.beq e1 e2
  | _, _ => false
def Node.beqList : List Node → List Node → Bool
  | [], [] => true
  | a :: as, b :: bs => Node.beq a b && Node.beqList as bs
  | _, _ => false
end
instance : BEq Node := ⟨Node.beq⟩

/-- Go values as trees. Integers are unbounded here; every Go conversion is an explicit `wrap`.
Floats are exact fixed-point numbers in units of 2⁻²⁰ (DESIGN.md 4.2). -/
inductive Val
  | bool (b : Bool)
  | int (i : Int)
  | uint (n : Nat)
  | float (fx : Int)
  | str (s : Bytes)
  | bytes (isNil : Bool) (data : Bytes) (cap : Nat)
  | struct (fields : List Val)
  | map (isNil : Bool) (keys : List Val) (vals : List Val)
  | slice (isNil : Bool) (elems : List Val) (cap : Nat)
  | nilptr
  | ptr (v : Val)
deriving Repr, Inhabited

namespace Val
mutual
def beq : Val → Val → Bool
  | .bool a, .bool b => a == b
  | .int a, .int b => a == b
  | .uint a, .uint b => a == b
  | .float a, .float b => a == b
  | .str a, .str b => a == b
  | .bytes n1 d1 c1, .bytes n2 d2 c2 => n1 == n2 && d1 == d2 && c1 == c2
  | .struct f1, .struct f2 => beqList f1 f2
  | .map n1 k1 v1, .map n2 k2 v2 => n1 == n2 && beqList k1 k2 && beqList v1 v2
  | .slice n1 e1 c1, .slice n2 e2 c2 => n1 == n2 && beqList e1 e2 && c1 == c2
  | .nilptr, .nilptr => true
  | .ptr a, .ptr b => beq a b
  | _, _ => false
def beqList : List Val → List Val → Bool
  | [], [] => true
  | a :: as, b :: bs => beq a b && beqList as bs
  | _, _ => false
end
instance : BEq Val := ⟨beq⟩

/-- Strip every pointer level: what a reference "denotes". `nilptr` stays. -/
def strip : Val → Val
  | .ptr v => strip v
  | v => v

def isNilPtr : Val → Bool
  | .nilptr => true
  | _ => false
end Val

/-- Zero value of a kind. -/
def zeroOfKind : Kind → Val
  | .bool => .bool false
  | .sint _ => .int 0
  | .uint _ => .uint 0
  | .float _ => .float 0
  | .string => .str []

mutual
/-- Go zero value of the type a node describes (pointer level included). -/
def zeroVal : Node → Val
  | .basic i => if i.ptr then .nilptr else
      match kindOfName i.typu with
      | some k => zeroOfKind k
      | none => .int 0
  | .struct i ch => if i.ptr then .nilptr else .struct (zeroVals ch)
  | .map i _ _ => if i.ptr then .nilptr else .map true [] []
  | .slice i _ => if i.ptr then .nilptr else
      if i.typn == "[]byte" then .bytes true [] 0 else .slice true [] 0
def zeroVals : List Node → List Val
  | [] => []
  | n :: ns => zeroVal n :: zeroVals ns
end

/-- Scalar value of the right constructor and range for a kind. -/
def wtScalar : Kind → Val → Bool
  | .bool, .bool _ => true
  | .sint b, .int i => inRangeS b i
  | .uint b, .uint n => inRangeU b n
  | .float _, .float _ => true
  | .string, .str _ => true
  | _, _ => false

mutual
/-- Decidable well-typedness of a value against a node, pointer level included. -/
def WT : Node → Val → Bool
  | n, .nilptr => n.ptr
  | n, .ptr v => n.ptr && WT (n.withPtr false) v
  | .basic i, v => !i.ptr &&
      (match kindOfName i.typu with
       | some k => wtScalar k v
       | none => false)
  | .struct i ch, .struct fs => !i.ptr && WTs ch fs
  | .map i k v, .map _ ks vs => !i.ptr && ks.length == vs.length && WTall k ks && WTall v vs
  | .slice i e, .slice _ es cap => !i.ptr && i.typn != "[]byte" && decide (es.length ≤ cap) && WTall e es
  | .slice i _, .bytes _ d cap => !i.ptr && i.typn == "[]byte" && decide (d.length ≤ cap)
  | _, _ => false
termination_by structural _ v => v
def WTs : List Node → List Val → Bool
  | [], [] => true
  | n :: ns, v :: vs => WT n v && WTs ns vs
  | _, _ => false
termination_by structural _ vs => vs
def WTall : Node → List Val → Bool
  | _, [] => true
  | n, v :: vs => WT n v && WTall n vs
termination_by structural _ vs => vs
end

end Inspector
