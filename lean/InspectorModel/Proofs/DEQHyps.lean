/-
Proofs/DEQHyps.lean — decidable hypotheses of the DeepEqual theorems (C05 / C11) that are not already in
Core/WF.lean. Definitions only (no proofs), so that the driver can import and evaluate them.
-/
import InspectorModel.Core.WF
import InspectorModel.Gen.DEQ
namespace Inspector

mutual
/-- The naming discipline both parsers produce and on which the dotted field paths of DeepEqual rest:
every struct field has a non-empty name, map values and slice elements have none
(parser_loader.go:117 / parser_ast.go:133 set `name` for struct fields only). Without it the path the
emitter hands to `DEQMustCheck` is not the dotted field path. -/
def PathNamesOK : Node → Bool
  | .basic _ => true
  | .struct _ chld => FieldNamesOK chld
  | .map _ _ v => v.name.length == 0 && PathNamesOK v
  | .slice _ e => e.name.length == 0 && PathNamesOK e
def FieldNamesOK : List Node → Bool
  | [] => true
  | n :: ns => decide (n.name.length > 0) && PathNamesOK n && FieldNamesOK ns
end

/-- No two keys of one map are equal (a Go map never has; the association-list representation could). -/
def keysDistinct : List Val → Bool
  | [] => true
  | k :: ks => !(ks.any (fun x => x == k)) && keysDistinct ks

mutual
/-- Every map inside the value has pairwise distinct keys. -/
def MapKeysOK : Val → Bool
  | .ptr v => MapKeysOK v
  | .struct fs => MapKeysOKs fs
  | .map _ ks vs => keysDistinct ks && MapKeysOKs vs
  | .slice _ es _ => MapKeysOKs es
  | _ => true
def MapKeysOKs : List Val → Bool
  | [] => true
  | v :: vs => MapKeysOK v && MapKeysOKs vs
end

end Inspector
