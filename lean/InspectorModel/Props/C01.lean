/-
Props/C01.lean — property theorems for C01 (Get/GetTo return exactly the element the path denotes).
-/
import InspectorModel.Gen.Get
import InspectorModel.Spec.Nav
namespace Inspector.C01

/-- Empty path: GetTo hands out the root itself (compiler.go:383). -/
theorem empty_path (cfg : GenCfg) (n : Node) (v : Val) :
    getM cfg n .ptr v [] = (Res.mk n v).out := rfl

end Inspector.C01
