-- regenerated on every run (harness/cmd/globals, go/ssa): writers of package-level state
namespace Inspector
/-- (entry point, function, variable): stores to package-level variables reachable from a runtime entry point -/
def runtimeGlobalWrites : List (String × String × String) := []
/-- (entry point, function, variable, how): memory of a package-level variable handed out by a function reachable from a runtime entry point -/
def runtimeGlobalEscapes : List (String × String × String × String) := []
/-- (function, variable): writers that no runtime entry point reaches (init, Register*, generation time) -/
def initTimeGlobalWrites : List (String × String) := [
  ("gen/decl_ins.init", "decl_ins.init$guard"),
  ("gen/fresh/testobj_ins.init", "testobj_ins.init$guard"),
  ("github.com/koykov/inspector.RegisterAssignFn", "inspector.assignFnRegistry"),
  ("github.com/koykov/inspector.RegisterInspector", "inspector.inspectorRegistry"),
  ("github.com/koykov/inspector.RegisterStrToXFn", "inspector.convSnippetRegistry"),
  ("github.com/koykov/inspector.init", "inspector.ErrDstNotExists"),
  ("github.com/koykov/inspector.init", "inspector.ErrMustPointerType"),
  ("github.com/koykov/inspector.init", "inspector.ErrNoConfig"),
  ("github.com/koykov/inspector.init", "inspector.ErrNoConvFunc"),
  ("github.com/koykov/inspector.init", "inspector.ErrNoGOPATH"),
  ("github.com/koykov/inspector.init", "inspector.ErrNotImplement"),
  ("github.com/koykov/inspector.init", "inspector.ErrUnknownEncodingType"),
  ("github.com/koykov/inspector.init", "inspector.ErrUnknownInspector"),
  ("github.com/koykov/inspector.init", "inspector.ErrUnknownTarget"),
  ("github.com/koykov/inspector.init", "inspector.ErrUnsupportedType"),
  ("github.com/koykov/inspector.init", "inspector.assignFnRegistry"),
  ("github.com/koykov/inspector.init", "inspector.convSnippetRegistry"),
  ("github.com/koykov/inspector.init", "inspector.init$guard"),
  ("github.com/koykov/inspector.init", "inspector.inspectorRegistry"),
  ("github.com/koykov/inspector.init", "inspector.reIsDecFloat"),
  ("github.com/koykov/inspector.init", "inspector.reIsDecInt"),
  ("github.com/koykov/inspector.init", "inspector.reIsDecUint"),
  ("github.com/koykov/inspector.init", "inspector.reMap"),
  ("github.com/koykov/inspector.init", "inspector.reSlc"),
  ("github.com/koykov/inspector.init", "inspector.reUp"),
  ("github.com/koykov/inspector.init", "inspector.reVnd"),
  ("github.com/koykov/inspector.tmpIdx", "inspector.tmpCntr"),
  ("github.com/koykov/inspector/testobj_ins.init", "testobj_ins.init$guard")]
def runtimeEntryPoints : Nat := 16802
def functionsReachable : Nat := 16868
end Inspector
