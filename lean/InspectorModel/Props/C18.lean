/-
Props/C18.lean — property theorems for C18 (map[string]any inspector follows key paths through nested maps).

For the repaired runtime model (`LibCfg.fixed`; only Capacity and the leaf comparison depend on the
configuration), every tree, every key path, operator, operand and source: the outcome of Get / Length /
Capacity / Compare / Set / Copy is accepted by the independent specification (Spec/StrAnyMapSpec.lean), with the
pairing the driver uses (Driver/LibOps.lean `samapOp*`).

The model represents a Go map as an association list and a leaf as kind + value; the theorems need the
representation invariants of real Go values, explicit as decidable predicates (Proofs/C18.lean):
`JMapsOK` (as many values as keys, distinct keys, a nil map is empty) and `JLeavesOK` (a `.str` value has a text
kind, a `.bytes` value has kind `[]byte`). `hypothesis_needed_*` below show that each is needed.
The model of the current tree is rejected on the class `samap-cap-is-len` (`repo_not_correct`).
-/
import InspectorModel.Proofs.C18
namespace Inspector.C18

/-- The empty path addresses the node itself. -/
theorem get_empty (j : JVal) : (match samapGet j [] with | .node _ => true | _ => false) = true := rfl

/-! ### Get -/

/-- Get hands out the node the path leads to, nothing for an absent key, the unsupported-type error through a non-map. -/
theorem get_correct (j : JVal) (p : List Bytes) (hw : JMapsOK j = true) :
    samapGetAccepts j p (samapGet j p) = true := by
  rw [samapGet_eq_jnav]
  unfold samapGetAccepts
  cases h : jnav j p with
  | found x => exact jeq_refl x (jnav_JMapsOK p j x h hw)
  | absent => rfl
  | nonMap => rfl
  | unspec => rfl

/-- The driver's guard (`acc` of `samapOpGet`): a stored untyped nil is observed as "nothing". -/
def getAcc (j : JVal) (p : List Bytes) (o : JGet) : Bool :=
  let norm (o : JGet) : JGet := match o with | .node .nil => .none | x => x
  match jnav j p with
  | .found .nil => (match norm o with | .none => true | _ => false)
  | _ => samapGetAccepts j p o

theorem get_correct_driver (j : JVal) (p : List Bytes) (hw : JMapsOK j = true) :
    getAcc j p (samapGet j p) = true := by
  have h := get_correct j p hw
  unfold getAcc
  rw [samapGet_eq_jnav] at h ⊢
  cases hn : jnav j p with
  | found x =>
    cases x with
    | nil => rfl
    | _ => simp only [hn] at h; exact h
  | _ => simp only [hn] at h; exact h

/-- Get panics only for a nil pointer to a map on the way. -/
theorem get_panic_only (j : JVal) (p : List Bytes) (h : (match jnav j p with | .unspec => false | _ => true) = true) :
    (match samapGet j p with | .panic => false | _ => true) = true := by
  rw [samapGet_eq_jnav]
  cases hn : jnav j p <;> simp [hn] at h ⊢

/-! ### Length / Capacity -/

theorem len_correct (j : JVal) (p : List Bytes) (hw : JLeavesOK j = true) :
    samapLcAccepts false j p (samapLen j p) = true := samapLen_ok p j hw

theorem cap_correct (j : JVal) (p : List Bytes) (hw : JLeavesOK j = true) :
    samapLcAccepts true j p (samapCap LibCfg.fixed j p) = true := samapCap_ok p j hw

/-- As the driver pairs them (`samapOpLC`). -/
theorem lc_correct (isCap : Bool) (j : JVal) (p : List Bytes) (hw : JLeavesOK j = true) :
    samapLcAccepts isCap j p (if isCap then samapCap LibCfg.fixed j p else samapLen j p) = true := by
  cases isCap
  · exact len_correct j p hw
  · exact cap_correct j p hw

/-! ### Compare -/

/-- Compare answers with the static comparison of the leaf the path leads to; absent keys leave the result
alone; through a non-map the unsupported-type error is returned. (The driver skips inexact float operands;
the theorem needs no such guard.) -/
theorem cmp_correct (j : JVal) (p : List Bytes) (op : Op) (right : Seg) (hw : JMapsOK j = true) :
    samapCmpAccepts j p op right (samapCmp LibCfg.fixed j p op right) = true := samapCmp_ok op right p j hw

/-- The leaf step on its own (C16's Compare statement): every operand, operator and operand text. -/
theorem leaf_cmp_correct (s : Src) (op : Op) (right : Seg) :
    staticCmpAccepts s op right (staticCmp LibCfg.fixed s op right) = true := staticCmp_correct s op right

/-! ### Set -/

/-- A nil pointer to a map on the way (`jnav … = .unspec`): outside the property (a listed finding of C02). -/
def nilPtrOnPath (j : JVal) (p : List Bytes) : Bool :=
  match jnav j p with | .unspec => true | _ => false

/-- The driver's judgement in `fixedcheck` mode: a panic is passed on to its own class, anything else must be accepted. -/
def setAcc (j : JVal) (p : List Bytes) (src : Src) (o : JSet) : Bool :=
  match o with
  | .panic => true
  | o => samapSetAccepts j p src o

theorem set_correct_driver (j : JVal) (p : List Bytes) (src : Src) (hw : JMapsOK j = true) :
    setAcc j p src (samapSet j p src) = true := by
  cases p with
  | nil => simp [samapSet, setAcc, samapSetAccepts, samapFrame_nil]
  | cons k rest =>
    have hc := samapSet_claim src rest k j hw
    unfold setAcc
    cases hres : samapSet j (k :: rest) src with
    | panic => rfl
    | ok after =>
      rw [hres] at hc
      obtain ⟨hf, hs⟩ := hc
      simp only [samapSetAccepts, hf, Bool.true_and]
      cases hl : samapLeafOf src with
      | none => rfl
      | some x =>
        have := hs x hl
        simp only []
        cases hn : jnav after (k :: rest) <;> simp only [hn] at this ⊢ <;> first | exact this | simp [this]
    | unsupported after =>
      rw [hres] at hc
      obtain ⟨hf, hs⟩ := hc
      simp only [samapSetAccepts, hf, Bool.true_and]
      cases hl : samapLeafOf src with
      | none => rfl
      | some x => simp only [hs]

/-- Set panics only for a nil pointer as the value or a nil pointer to a map on the way. -/
theorem set_panic_only (j : JVal) (p : List Bytes) (src : Src) (h : (match samapSet j p src with | .panic => true | _ => false) = true) :
    src.v.isNilPtr = true ∨ nilPtrOnPath j p = true := by
  cases hres : samapSet j p src with
  | panic =>
    rcases samapSet_panic src p j hres with h1 | h1
    · exact Or.inl h1
    · right; unfold nilPtrOnPath; rw [h1]
  | ok _ => simp [hres] at h
  | unsupported _ => simp [hres] at h

/-- Set creates or replaces exactly the addressed leaf (creating intermediate maps), nothing else changes. -/
theorem set_correct (j : JVal) (p : List Bytes) (src : Src) (hw : JMapsOK j = true) (hnp : nilPtrOnPath j p = false) :
    samapSetAccepts j p src (samapSet j p src) = true := by
  have h := set_correct_driver j p src hw
  unfold setAcc at h
  cases hres : samapSet j p src with
  | panic =>
    rcases samapSet_panic src p j hres with h1 | h1
    · simpa [samapSetAccepts] using h1
    · unfold nilPtrOnPath at hnp; rw [h1] at hnp; cases hnp
  | ok after => rw [hres] at h; exact h
  | unsupported after => rw [hres] at h; exact h

/-! ### Copy -/

/-- Copy yields a tree equal to the source; the second component (pointers copied as pointers, the only
thing source and copy share) is exactly the number of pointer-to-scalar leaves. -/
theorem copy_correct_general (j c : JVal) (s : Nat) (hw : JMapsOK j = true) (h : samapCpy j = some (c, s)) :
    jeq j c = true ∧ s = ptrLeafCount j := samapCpy_ok j c s hw h

/-- As the driver judges it (`samapOpCopy`, root map not nil): `s ≤ ptrLeafCount … && jeq … c`. -/
theorem copy_correct (ks : List Bytes) (vs : List JVal) (c : JVal) (s : Nat)
    (hw : JMapsOK (.map 0 0 false ks vs) = true) (h : samapCpy (.map 0 0 false ks vs) = some (c, s)) :
    (decide (s ≤ ptrLeafCount (.map 0 0 false ks vs)) && jeq (.map 0 0 false ks vs) c) = true := by
  obtain ⟨h1, h2⟩ := samapCpy_ok _ c s hw h
  simp [h1, h2]

/-- Independence: on the trees the property quantifies over (no pointer-to-scalar leaves) nothing is shared. -/
theorem copy_independent (j c : JVal) (s : Nat) (hw : JMapsOK j = true) (h : samapCpy j = some (c, s))
    (hq : ptrLeafCount j = 0) : s = 0 := by
  rw [(samapCpy_ok j c s hw h).2, hq]

/-- Copy panics only for a nil pointer (to a map, or a nil `*string` / `*[]byte` leaf) somewhere in the tree. -/
theorem copy_panic_only (j : JVal) (h : (samapCpy j).isNone = true) : jHasNil j = true :=
  samapCpy_none j (by simpa using h)

section NonVacuity
def key (t : String) : Bytes := strBytes t
/-- `{"a": 5, "m": &map[string]any{"s": "xy"}, "b": []byte("ab") with cap 8}` -/
def exJ : JVal :=
  .map 0 0 false [key "a", key "m", key "b"]
    [.leaf { kind := .int, v := .int 5 },
     .map 1 0 false [key "s"] [.leaf { kind := .string, v := .str (strBytes "xy") }],
     .leaf { kind := .bytes, v := .bytes false (strBytes "ab") 8 }]
def srcStr : Src := { kind := .string, v := .str (strBytes "new") }

example : JMapsOK exJ = true ∧ JLeavesOK exJ = true := by decide
example : nilPtrOnPath exJ [key "m", key "t"] = false ∧ jHasNil exJ = false := by decide
example : (match samapGet exJ [key "m", key "s"] with | .node (.leaf s) => s.v == .str (strBytes "xy") | _ => false) = true := by decide
example : samapLen exJ [key "m"] = .val 1 := by decide
example : samapCap LibCfg.fixed exJ [key "b"] = .val 8 := by decide
example : (match samapSet exJ [key "m", key "t"] srcStr with
    | .ok after => (match samapGet after [key "m", key "t"] with | .node (.leaf s) => s.v == .str (strBytes "new") | _ => false)
    | _ => false) = true := by decide
example : (match samapCpy exJ with | some (c, s) => jeq exJ c && s == 0 | none => false) = true := by decide

/-- Known finding `samap-cap-is-len`: Capacity with a non-empty path answers with the length. -/
theorem repo_not_correct :
    samapLcAccepts true exJ [key "b"] (samapCap LibCfg.original exJ [key "b"]) = false := by decide

/-- `JMapsOK` is needed: with a repeated key (not a Go map) the tree is not even equal to itself. -/
example : let j : JVal := .map 0 0 false [key "a", key "a"] [.leaf { kind := .int, v := .int 1 }, .leaf { kind := .int, v := .int 2 }]
    samapGetAccepts j [] (samapGet j []) = false := by decide
/-- `JMapsOK` is needed: a "nil map with entries" (not a Go value) is navigated by the spec but not by Compare. -/
example : let j : JVal := .map 0 0 true [key "a"] [.leaf { kind := .int, v := .int 1 }]
    samapCmpAccepts j [key "a"] 1 { text := strBytes "1", pi := some 1 } (samapCmp LibCfg.fixed j [key "a"] 1 { text := strBytes "1", pi := some 1 }) = false := by decide
/-- `JLeavesOK` is needed: an `int` leaf carrying a string value (not a Go value). -/
example : let j : JVal := .leaf { kind := .int, v := .str (strBytes "x") }
    samapLcAccepts false j [] (samapLen j []) = false := by decide
end NonVacuity

/-! ### The tree as it is now

After `fix: StringAnyMapInspector.Capacity descended into Length` the only switch of this inspector left on in
`LibCfg.repo` concerns nil pointers (C02). Get, Length, Set and Copy never consulted a switch; Capacity of the
current tree is the repaired Capacity. -/
section CurrentTree

theorem cap_repo_eq (p : List Bytes) : ∀ (j : JVal), samapCap LibCfg.repo j p = samapCap LibCfg.fixed j p := by
  induction p with
  | nil => intro j; rfl
  | cons k rest ih =>
    intro j
    unfold samapCap
    cases j with
    | map hold nilAt mapNil ks vs =>
      simp only []
      split
      · rfl
      · cases JVal.lookup ks vs k with
        | none => rfl
        | some x =>
          have h1 : LibCfg.repo.samapCapIsLen = false := rfl
          have h2 : LibCfg.fixed.samapCapIsLen = false := rfl
          simp only [h1, h2, Bool.false_eq_true, if_false]
          exact ih x
    | _ => rfl

theorem cap_current (j : JVal) (p : List Bytes) (hw : JLeavesOK j = true) :
    samapLcAccepts true j p (samapCap LibCfg.repo j p) = true := by
  rw [cap_repo_eq p j]; exact cap_correct j p hw

end CurrentTree

end Inspector.C18
