/-
Proofs/C03Main.lean — C03 for the repaired set-mode emitter model: `setN GenCfg.fixed` never panics on
well-typed values, changes nothing off the path (`offPathEq`), stays within the depth bound, and leaves
the converted value at the addressed element.
-/
import InspectorModel.Proofs.C03Frame
set_option linter.unusedSimpArgs false
set_option linter.unusedVariables false
namespace Inspector.C03

/-! ### the map write-back of the repaired emitter -/

mutual
theorem staleView_self : ∀ (pieces : List Bytes) (x : Val), staleView pieces x x = x
  | _, .struct fs => by simp [staleView, staleViews_self _ fs]
  | _, .bytes _ _ _ => by simp [staleView]
  | _, .ptr _ | _, .map _ _ _ | _, .slice _ _ _ => by simp [staleView]
  | _, .bool _ | _, .int _ | _, .uint _ | _, .float _ | _, .str _ | _, .nilptr => by simp [staleView]
theorem staleViews_self : ∀ (pieces : List Bytes) (xs : List Val), staleViews pieces xs xs = xs
  | _, [] => by simp [staleViews]
  | p, x :: xs => by simp [staleViews, staleView_self p x, staleViews_self p xs]
end

/-- The write-back `m[k] = x` after the nested block of a map value, as `setN` has it inline (the body of
`withKey` after the nested call): `r` is what the nested block left in the local `x` (initially
`present.getD zero`) and how it ended; `v` is the map variable's value before. Definitionally the
expression in `setN`; named here so that lemmas can be stated. -/
def mapWriteBack (cfg : GenCfg) (iptr kptr : Bool) (mv : Node) (v : Val) (isNil : Bool) (ks vs : List Val)
    (key : Val) (present : Option Val) (x : Val) (r : SetR) (src : Src) (noBuf : Bool) : SetR :=
  let rewrap (w : Val) : Val := if iptr then .ptr w else w
  let store (nv : Val) : Val :=
    if kptr then .map false (ks ++ [.ptr key]) (vs ++ [nv])
    else let (ks', vs') := mapSet ks vs key nv; .map false ks' vs'
  match r.flow with
  | .cont =>
    if isNil && cfg.setNilMapStorePanics then ⟨v, .panic⟩
    else ⟨rewrap (store r.v), .ret⟩
  | .ret | .err =>
    if isNil then ⟨v, r.flow⟩
    else if mapValIsRef mv && present.isSome && !(cfg.setLostUpdate && isNilColl x) then ⟨rewrap (store r.v), r.flow⟩
    else if !cfg.setLostUpdate && (writesBack mv || !(r.v == x)) then ⟨rewrap (store r.v), r.flow⟩
    else if present.isSome then
      ⟨rewrap (store (staleView (if noBuf && src.kind.family != .text then renderPieces src else []) x r.v)), r.flow⟩
    else ⟨v, r.flow⟩
  | .panic => ⟨v, .panic⟩

/-- `m[key] = nv` (value keys), or `m[&key] = nv` (pointer keys: a fresh key). -/
def storeV (kptr : Bool) (ks vs : List Val) (key nv : Val) : Val :=
  if kptr then .map false (ks ++ [.ptr key]) (vs ++ [nv])
  else .map false (mapSet ks vs key nv).1 (mapSet ks vs key nv).2

theorem mapWriteBack_fixed (iptr kptr : Bool) (mv : Node) (v : Val) (isNil : Bool) (ks vs : List Val)
    (key : Val) (present : Option Val) (x : Val) (r : SetR) (src : Src) (nb : Bool)
    (hfl : r.flow ≠ .panic) (hnil : isNil = true → present = none) :
    (mapWriteBack GenCfg.fixed iptr kptr mv v isNil ks vs key present x r src nb).flow ≠ .panic ∧
    ((mapWriteBack GenCfg.fixed iptr kptr mv v isNil ks vs key present x r src nb).v =
        (if iptr then .ptr (storeV kptr ks vs key r.v) else storeV kptr ks vs key r.v) ∨
     ((mapWriteBack GenCfg.fixed iptr kptr mv v isNil ks vs key present x r src nb).v = v ∧ present = none)) := by
  unfold mapWriteBack
  have hs : ∀ nv, (if kptr = true then Val.map false (ks ++ [Val.ptr key]) (vs ++ [nv])
      else match mapSet ks vs key nv with | (ks', vs') => Val.map false ks' vs') = storeV kptr ks vs key nv := by
    intro nv; unfold storeV; rfl
  simp only [hs]
  cases hf : r.flow with
  | panic => exact absurd hf hfl
  | cont =>
    simp only [GenCfg.fixed, Bool.and_false, Bool.false_eq_true, if_false]
    exact ⟨by simp, Or.inl trivial⟩
  | ret =>
    simp only [GenCfg.fixed, Bool.not_false, Bool.true_and]
    by_cases hn : isNil = true
    · simp only [hn, if_true]
      exact ⟨by simp, Or.inr ⟨trivial, hnil hn⟩⟩
    · simp only [hn, Bool.false_eq_true, if_false]
      split
      · exact ⟨by simp, Or.inl rfl⟩
      · split
        · exact ⟨by simp, Or.inl rfl⟩
        · rename_i _ heq
          have hxe : r.v = x := by
            have h2 : (writesBack mv || !(r.v == x)) = false := by simpa using heq
            have h3 : (!(r.v == x)) = false := by
              cases hb : writesBack mv <;> simp [hb] at h2 ⊢ <;> simpa using h2
            simpa using h3
          split
          · refine ⟨by simp, Or.inl ?_⟩
            rw [hxe, staleView_self]
          · rename_i hps
            exact ⟨by simp, Or.inr ⟨rfl, by simpa using hps⟩⟩
  | err =>
    simp only [GenCfg.fixed, Bool.not_false, Bool.true_and]
    by_cases hn : isNil = true
    · simp only [hn, if_true]
      exact ⟨by simp, Or.inr ⟨trivial, hnil hn⟩⟩
    · simp only [hn, Bool.false_eq_true, if_false]
      split
      · exact ⟨by simp, Or.inl rfl⟩
      · split
        · exact ⟨by simp, Or.inl rfl⟩
        · rename_i _ heq
          have hxe : r.v = x := by
            have h2 : (writesBack mv || !(r.v == x)) = false := by simpa using heq
            have h3 : (!(r.v == x)) = false := by
              cases hb : writesBack mv <;> simp [hb] at h2 ⊢ <;> simpa using h2
            simpa using h3
          split
          · refine ⟨by simp, Or.inl ?_⟩
            rw [hxe, staleView_self]
          · rename_i hps
            exact ⟨by simp, Or.inr ⟨rfl, by simpa using hps⟩⟩

/-! ### pointer level -/

theorem deref_cases (n : Node) (v : Val) (hwt : WT n v = true) (hnn : (n.ptr && v.isNilPtr) = false) :
    (n.ptr = true ∧ v = .ptr (derefIf n.ptr v)) ∨ (n.ptr = false ∧ v = derefIf n.ptr v) := by
  rcases WT_ptr_cases n v hwt with ⟨hp, hv⟩ | ⟨hp, _, _⟩
  · left
    rcases hv with hv | ⟨w, hv, _⟩
    · subst hv; simp [hp, Val.isNilPtr] at hnn
    · subst hv; simp [hp, derefIf]
  · right; simp [hp, derefIf]

theorem frame_lift (n : Node) (v w w' : Val) (p : List Seg) (bp : Bool) (hbp : n.ptr = bp)
    (hv : (bp = true ∧ v = .ptr w) ∨ (bp = false ∧ v = w)) :
    offPathEq n (D v) (D (if bp = true then .ptr w' else w')) p = offPathEq (n.withPtr false) (D w) (D w') p := by
  rcases hv with ⟨hp, hv⟩ | ⟨hp, hv⟩
  · subst hv
    simp only [hp, if_true, D]
    exact offPathEq_ptr_ptr n _ _ _ (hbp.trans hp)
  · subst hv
    simp only [hp, Bool.false_eq_true, if_false]
    rw [withPtr_false_of_not_ptr n (hbp.trans hp)]

/-- What theorem A says about one result. -/
def AOk (n : Node) (v : Val) (p : List Seg) (r : SetR) : Prop :=
  r.flow ≠ .panic ∧ vdepth r.v ≤ max (vdepth v) (ndepth n) ∧ offPathEq n (D v) (D r.v) p = true

theorem AOk_same (n : Node) (v : Val) (p : List Seg) (fl : SFlow) (hfl : fl ≠ .panic)
    (hwf : NodeWF n = true) (hwt : WT n v = true) (hok : ValOK v = true) : AOk n v p ⟨v, fl⟩ :=
  ⟨hfl, by simp only []; omega, offPathEq_refl p n v hwf hwt hok⟩

theorem AOk_leaf (n : Node) (v : Val) (p : List Seg) (fl : SFlow) (src : Src) (nb : Bool) (hfl : fl ≠ .panic)
    (hl : n.isLeaf = true) :
    AOk n v p (if (n.ptr && v.isNilPtr) = true then ⟨v, .ret⟩ else
      match assignLeaf GenCfg.fixed n v src nb with
      | some v' => ⟨v', fl⟩
      | none => ⟨v, .panic⟩) := by
  split
  · exact ⟨by simp, by simp only []; omega, offPathEq_leaf _ _ _ _ hl⟩
  · obtain ⟨v', hv', hd⟩ := assignLeaf_fixed n v src nb
    rw [hv']
    refine ⟨hfl, ?_, offPathEq_leaf _ _ _ _ hl⟩
    have : 2 ≤ ndepth n := by cases n <;> simp [ndepth]
    simp only []
    omega

theorem nth?_Ds (es : List Val) (j : Nat) : nth? (Ds es) j = (nth? es j).map D := by
  induction es generalizing j with
  | nil => simp [Ds, nth?]
  | cons v vs ih =>
    cases j with
    | zero => simp [Ds, nth?]
    | succ j => simp [Ds, nth?, ih]

theorem Ds_append (a b : List Val) : Ds (a ++ b) = Ds a ++ Ds b := by
  simp [Ds_eq_map]

theorem Ds_fixed (l : List Val) (h : ∀ k ∈ l, D k = k) : Ds l = l := by
  induction l with
  | nil => rfl
  | cons k ks ih =>
    simp only [Ds]
    rw [h k (by simp), ih (fun k' hk' => h k' (by simp [hk']))]

theorem D_fixed_of_Ds (l : List Val) (h : Ds l = l) : ∀ k ∈ l, D k = k := by
  induction l with
  | nil => intro k hk; cases hk
  | cons k ks ih =>
    simp only [Ds, List.cons.injEq] at h
    intro k' hk'
    cases hk' with
    | head => exact h.1
    | tail _ hk' => exact ih h.2 k' hk'

theorem ndepth_ge_2 (n : Node) : 2 ≤ ndepth n := by cases n <;> simp [ndepth]

/-! ### theorem A: no panic, depth, frame -/

theorem setN_frame (src : Src) (nb : Bool) (p : List Seg) : ∀ (n : Node) (v : Val) (pim root : Bool),
    NodeWF n = true → WT n v = true → ValOK v = true → ndepth n ≤ 64 →
    AOk n v p (setN GenCfg.fixed n pim root v p src nb) := by
  induction p with
  | nil =>
    intro n v pim root hwf hwt hok hd
    cases n with
    | basic i =>
      simp only [setN]
      exact AOk_leaf _ _ _ _ _ _ (by cases pim <;> simp) rfl
    | struct i c => simp only [setN]; exact AOk_same _ _ _ _ (by simp) hwf hwt hok
    | map i k mv => simp only [setN]; exact AOk_same _ _ _ _ (by simp) hwf hwt hok
    | slice i e => simp only [setN]; exact AOk_same _ _ _ _ (by simp) hwf hwt hok
  | cons s rest ih =>
    intro n v pim root hwf hwt hok hd
    cases n with
    | basic i =>
      simp only [setN]
      exact AOk_leaf _ _ _ _ _ _ (by cases pim <;> simp) rfl
    | struct i chld =>
      by_cases hnil : (i.ptr && v.isNilPtr) = true
      · simp only [setN, hnil, if_true]
        exact AOk_same _ _ _ _ (by simp) hwf hwt hok
      · have hnil' : (i.ptr && v.isNilPtr) = false := by simpa using hnil
        have hw := WT_deref _ _ hwt (by simpa [Node.ptr, Node.info] using hnil')
        rw [withPtr_struct] at hw
        obtain ⟨fs, hfs, hwts⟩ := WT_struct_inv _ _ _ rfl hw
        have hdc := deref_cases _ _ hwt (by simpa [Node.ptr, Node.info] using hnil')
        simp only [ptr_struct] at hfs hdc
        rw [hfs] at hdc
        have hokfs : ValOKs fs = true := by
          have := ValOK_deref i.ptr v hok
          rw [hfs] at this
          simpa [ValOK] using this
        simp only [setN, hnil', hfs, Bool.false_eq_true, if_false]
        cases hff : findField chld fs s.text with
        | none => exact AOk_same _ _ _ _ (by simp) hwf hwt hok
        | some cf =>
          obtain ⟨ch, fv⟩ := cf
          obtain ⟨hwtc, hmem⟩ := findField_WT _ _ _ _ _ hwts hff
          have hwfc : NodeWF ch = true := NodeWFs_mem _ _ (by simpa [NodeWF] using hwf) hmem
          have hzm := findField_mem _ _ _ _ _ hff
          have hfvmem : fv ∈ fs := (List.of_mem_zip hzm).2
          have hokfv : ValOK fv = true := ValOKs_mem _ _ hokfs hfvmem
          have hdfv := vdepth_le_of_mem _ _ hfvmem
          have hdch := ndepth_mem _ _ hmem
          simp only [ndepth] at hd
          -- common tail: the result is `rewrap (struct (replaceNth fs idx a))`
          have tail : ∀ (a : Val) (fl : SFlow), fl ≠ .panic → vdepth a ≤ max (vdepth fv) (ndepth ch) →
              offPathEq ch (D fv) (D a) rest = true →
              AOk (Node.struct i chld) v (s :: rest)
                ⟨if i.ptr = true then .ptr (.struct (replaceNth fs (chld.takeWhile fun c => !(strBytes c.name == s.text)).length a))
                  else .struct (replaceNth fs (chld.takeWhile fun c => !(strBytes c.name == s.text)).length a), fl⟩ := by
            intro a fl hfl hda hfa
            refine ⟨hfl, ?_, ?_⟩
            · have := vdepths_replaceNth fs (chld.takeWhile fun c => !(strBytes c.name == s.text)).length a
                (max (vdepths fs) (vdepth a)) (by omega) (by omega)
              rcases hdc with ⟨hp, hv⟩ | ⟨hp, hv⟩
              · rw [hv]; simp only [hp, if_true, vdepth, ndepth]; omega
              · rw [hv]; simp only [hp, Bool.false_eq_true, if_false, vdepth, ndepth]; omega
            · simp only []
              rw [frame_lift (Node.struct i chld) v (.struct fs) _ _ i.ptr rfl hdc, withPtr_struct]
              simp only [D]
              rw [offPathEq_struct_np _ _ _ _ _ _ rfl, Ds_replaceNth]
              apply offFields_replace _ _ ch (D a) chld (Ds fs) (D fv)
              · simp [WTs_length _ _ hwts]
              · intro c b hm
                obtain ⟨x, hx, hb⟩ := zip_Ds_mem _ _ _ _ hm
                subst hb
                have hmm := List.of_mem_zip hx
                exact offPathEq_refl rest c x (NodeWFs_mem _ _ (by simpa [NodeWF] using hwf) hmm.1)
                  (WTs_zip_mem _ _ _ _ hwts hx) (ValOKs_mem _ _ hokfs hmm.2)
              · rw [findField_Ds, hff]; rfl
              · exact hfa
          by_cases hl : ch.isLeaf = true
          · simp only [hl, if_true]
            obtain ⟨fv', hfv', hdv⟩ := assignLeaf_fixed ch fv src nb
            rw [hfv']
            have : 2 ≤ ndepth ch := by cases ch <;> simp [ndepth]
            exact tail fv' .ret (by simp) (by omega) (offPathEq_leaf _ _ _ _ hl)
          · have hl' : ch.isLeaf = false := by simpa using hl
            simp only [hl', Bool.false_eq_true, if_false]
            have ihr := ih ch (autoCreate ch fv) false false hwfc (autoCreate_WT _ _ hwfc hl' hwtc)
              (autoCreate_ValOK _ _ hokfv) (by omega)
            have hda := autoCreate_depth ch fv (max (vdepth fv) (ndepth ch)) (by omega) (by omega)
            obtain ⟨h1, h2, h3⟩ := ihr
            exact tail _ _ h1 (by omega) (autoCreate_frame _ _ _ _ hl' hwtc hokfv (by omega) h3)
    | map i k mv =>
      by_cases hnil : (i.ptr && v.isNilPtr) = true
      · simp only [setN, hnil, if_true]
        exact AOk_same _ _ _ _ (by simp) hwf hwt hok
      · have hnil' : (i.ptr && v.isNilPtr) = false := by simpa using hnil
        have hw := WT_deref _ _ hwt (by simpa [Node.ptr, Node.info] using hnil')
        rw [withPtr_map] at hw
        obtain ⟨nl, ks, vs, hm, hlen, hwk, hwv⟩ := WT_map_inv { i with ptr := false } k mv _ rfl hw
        have hdc := deref_cases _ _ hwt (by simpa [Node.ptr, Node.info] using hnil')
        simp only [ptr_map] at hm hdc
        rw [hm] at hdc
        obtain ⟨hne, hkd, hokk, hokv⟩ := ValOK_map nl ks vs (by
          have := ValOK_deref i.ptr v hok
          rw [hm] at this
          exact this)
        have hwf0 := hwf
        simp only [NodeWF, Bool.and_eq_true] at hwf
        obtain ⟨⟨hkb, hwfk⟩, hwfm⟩ := hwf
        cases k with
        | basic ki =>
          simp only [ndepth] at hd
          have hDks : Ds ks = ks := Ds_of_WTall_basic ki ks hwk
          have hmv2 := ndepth_ge_2 mv
          have wk : ∀ (key : Val) (present : Option Val), vdepth key = 1 →
              present = (if ki.ptr = true then none else lookupKey ks vs key) →
              (specKey (Node.basic ki) s = .unspec ∨ (ki.ptr = false ∧ specKey (Node.basic ki) s = .key key) ∨
                (ki.ptr = true ∧ specKey (Node.basic ki) s = .never)) →
              AOk (Node.map i (Node.basic ki) mv) v (s :: rest)
                (mapWriteBack GenCfg.fixed i.ptr ki.ptr mv v nl ks vs key present (present.getD (zeroVal mv))
                  (setN GenCfg.fixed mv true false (present.getD (zeroVal mv)) rest src nb) src nb) := by
            intro key present hdk hpres hspec
            have hx : WT mv (present.getD (zeroVal mv)) = true ∧ ValOK (present.getD (zeroVal mv)) = true ∧
                vdepth (present.getD (zeroVal mv)) ≤ max (vdepths vs) (ndepth mv) := by
              cases hpv : present with
              | none =>
                simp only [Option.getD_none]
                exact ⟨WT_zeroVal mv hwfm, ValOK_zeroVal mv, by have := vdepth_zeroVal mv; omega⟩
              | some x0 =>
                simp only [Option.getD_some]
                have hl : lookupKey ks vs key = some x0 := by
                  rw [hpv] at hpres
                  split at hpres
                  · cases hpres
                  · exact hpres.symm
                have hmem := lookupKey_mem _ _ _ _ hl
                exact ⟨lookupKey_WT mv ks vs key x0 hwv hl, ValOKs_mem _ _ hokv hmem,
                  by have := vdepth_le_of_mem _ _ hmem; omega⟩
            generalize hxe : present.getD (zeroVal mv) = x at hx ⊢
            have hxp : ∀ x0, present = some x0 → x = x0 := by
              intro x0 h0; rw [h0] at hxe; simpa using hxe.symm
            obtain ⟨hx1, hx2, hx3⟩ := hx
            have ihr := ih mv x true false hwfm hx1 hx2 (by omega)
            generalize setN GenCfg.fixed mv true false x rest src nb = r at ihr ⊢
            obtain ⟨h1, h2, h3⟩ := ihr
            have hnilp : nl = true → present = none := by
              intro hn
              rw [hpres, (hne hn).1]
              split <;> simp [lookupKey]
            obtain ⟨hof, hov⟩ := mapWriteBack_fixed i.ptr ki.ptr mv v nl ks vs key present x r src nb h1 hnilp
            generalize mapWriteBack GenCfg.fixed i.ptr ki.ptr mv v nl ks vs key present x r src nb = o at hof hov ⊢
            rcases hov with hov | ⟨hov, _⟩
            · refine ⟨hof, ?_, ?_⟩
              · -- depth
                rw [hov]
                have hB : vdepth (storeV ki.ptr ks vs key r.v) ≤ max (max (vdepths ks) (vdepths vs)) (ndepth mv) + 1 := by
                  unfold storeV
                  split
                  · have a1 := vdepths_append ks [Val.ptr key] (max (max (vdepths ks) (vdepths vs)) (ndepth mv)) (by omega)
                      (by simp only [vdepths, vdepth]; omega)
                    have a2 := vdepths_append vs [r.v] (max (max (vdepths ks) (vdepths vs)) (ndepth mv)) (by omega)
                      (by simp only [vdepths]; omega)
                    simp only [vdepth]; omega
                  · have a := vdepths_mapSet ks vs key r.v (max (max (vdepths ks) (vdepths vs)) (ndepth mv))
                      (by omega) (by omega) (by omega) (by omega)
                    simp only [vdepth]; omega
                rcases hdc with ⟨hp, hv⟩ | ⟨hp, hv⟩
                · rw [hv]; simp only [hp, if_true, vdepth, ndepth]; omega
                · rw [hv]; simp only [hp, Bool.false_eq_true, if_false, vdepth, ndepth]; omega
              · -- frame
                rw [hov, frame_lift (Node.map i (Node.basic ki) mv) v (.map nl ks vs) _ _ i.ptr rfl hdc, withPtr_map]
                rcases hspec with hu | ⟨hp, hk⟩ | ⟨hp, hk⟩
                · unfold storeV
                  split <;> simp only [D] <;> exact offPathEq_map_unspec _ _ _ _ _ _ _ _ _ _ _ rfl hu
                · simp only [storeV, hp, Bool.false_eq_true, if_false, D, hDks]
                  obtain ⟨hkd1, hkD, _⟩ := specKey_key_scalar _ _ _ hk
                  have hks' : Ds (mapSet ks vs key r.v).1 = (mapSet ks vs key r.v).1 := by
                    apply Ds_fixed
                    intro k' hk'
                    rcases mapSet_keys _ _ _ _ _ hk' with h | h
                    · rw [h]; exact hkD
                    · exact D_fixed_of_Ds ks hDks k' h
                  obtain ⟨e1, e2⟩ := mapSet_Ds ks vs key r.v
                  rw [hks', ← e1, ← e2]
                  rw [offPathEq_map_key { i with ptr := false } _ _ _ _ _ _ _ _ _ _ key rfl hk, Bool.and_eq_true]
                  have hnd := KeysNoDup_of ki ks hp hwk hkd
                  constructor
                  · apply offEntries_mapSet _ ks (Ds vs) key (D r.v) hnd
                    · intro b hbm
                      obtain ⟨y, hy, he⟩ := Ds_mem _ _ hbm
                      subst he
                      exact offPathEq_refl rest mv y hwfm (WTall_mem _ _ _ hwv hy) (ValOKs_mem _ _ hokv hy)
                    · intro x' hx'
                      rw [lookupKey_Ds] at hx'
                      cases hlk : lookupKey ks vs key with
                      | none => rw [hlk] at hx'; cases hx'
                      | some x0 =>
                        rw [hlk] at hx'
                        simp only [Option.map_some, Option.some.injEq] at hx'
                        have : x = x0 := hxp x0 (by rw [hpres, hlk]; simp [hp])
                        rw [← hx', ← this]
                        exact h3
                  · rw [List.all_eq_true]
                    intro a ha
                    rw [Bool.or_eq_true]
                    rcases mapSet_keys _ _ _ _ _ ha with h | h
                    · left; rw [h]; simp
                    · right; exact lookupKey_isSome_of_mem _ _ _ (by simp [hlen]) h
                · simp only [storeV, hp, if_true, D, hDks, Ds_append]
                  rw [offPathEq_map_never { i with ptr := false } _ _ _ _ _ _ _ _ _ _ rfl hk]
                  exact never_append ks (Ds vs) _ _ (by simp [hlen])
            · refine ⟨hof, ?_, ?_⟩
              · rw [hov]; omega
              · rw [hov]; exact offPathEq_refl _ _ _ hwf0 hwt hok
          simp only [setN, hnil', hm, ptr_basic, Node.typn, Node.typu, Node.info, Bool.false_eq_true, if_false]
          by_cases hstr : (ki.typn == "string") = true
          · have htn : ki.typn = "string" := by simpa using hstr
            have htu : ki.typu = "string" := by
              simp only [NodeWF, Bool.and_eq_true, Bool.or_eq_true, Bool.not_eq_true', beq_iff_eq] at hwfk
              rcases hwfk.2 with h2 | h2
              · rw [htn] at h2; cases h2
              · rw [← h2]; exact htn
            simp only [hstr, if_true]
            by_cases hp : ki.ptr = true
            · have hk : specKey (Node.basic ki) s = .never := by
                unfold specKey
                simp [Node.ptr, Node.info, Node.typu, hp, htu, kindOfName]
              simp only [hp, if_true]
              have h := wk (.str s.text) none rfl (by simp [hp]) (Or.inr (Or.inr ⟨hp, hk⟩))
              simp only [hp] at h
              exact h
            · have hp' : ki.ptr = false := by simpa using hp
              have hk : specKey (Node.basic ki) s = .key (.str s.text) := by
                unfold specKey
                simp [Node.ptr, Node.info, Node.typu, hp, htu, kindOfName]
              simp only [hp', Bool.false_eq_true, if_false]
              have h := wk (.str s.text) (lookupKey ks vs (.str s.text)) rfl (by simp [hp']) (Or.inr (Or.inl ⟨hp', hk⟩))
              simp only [hp'] at h
              exact h
          · have hstr' : (ki.typn == "string") = false := by simpa using hstr
            simp only [hstr', Bool.false_eq_true, if_false]
            cases hc : convSeg ki.typn ki.typu s with
            | none =>
              obtain ⟨kd, _, hcc⟩ := convSeg_wf ki s hwfk
              rcases hcc with ⟨_, _, hcc⟩ | ⟨_, key, hcc⟩ <;> (rw [hcc] at hc; cases hc)
            | some cv =>
              cases cv with
              | err => exact AOk_same _ _ _ _ (by simp) hwf0 hwt hok
              | «opaque» => exact AOk_same _ _ _ _ (by simp) hwf0 hwt hok
              | ok key =>
                simp only []
                have hdk := convSeg_ok_depth _ _ _ _ hc
                have hspec : specKey (Node.basic ki) s = .unspec ∨ (ki.ptr = false ∧ specKey (Node.basic ki) s = .key key) ∨
                    (ki.ptr = true ∧ specKey (Node.basic ki) s = .never) := by
                  rcases key_cases ki s hwfk with hk | ⟨hk, hc2⟩ | ⟨hk, hp, _⟩ | ⟨key2, hk, hp, hc2⟩
                  · exact Or.inl hk
                  · rw [hc2] at hc; cases hc
                  · exact Or.inr (Or.inr ⟨hp, hk⟩)
                  · rw [hc2] at hc
                    injection hc with hc; injection hc with hc
                    subst hc
                    exact Or.inr (Or.inl ⟨hp, hk⟩)
                by_cases hp : ki.ptr = true
                · simp only [hp, if_true]
                  have h := wk key none hdk (by simp [hp]) hspec
                  simp only [hp] at h
                  exact h
                · have hp' : ki.ptr = false := by simpa using hp
                  simp only [hp', Bool.false_eq_true, if_false]
                  have h := wk key (lookupKey ks vs key) hdk (by simp [hp']) hspec
                  simp only [hp'] at h
                  exact h
        | _ => simp [Node.isBasicTyp] at hkb
    | slice i e =>
      by_cases hb : (i.typn == "[]byte") = true
      · simp only [setN, hb, if_true]
        exact AOk_leaf _ _ _ _ _ _ (by simp) (by simpa using hb)
      · have hb' : (i.typn == "[]byte") = false := by simpa using hb
        by_cases hnil : (i.ptr && v.isNilPtr) = true
        · simp only [setN, hb', hnil, if_true, Bool.false_eq_true, if_false]
          exact AOk_same _ _ _ _ (by simp) hwf hwt hok
        · have hnil' : (i.ptr && v.isNilPtr) = false := by simpa using hnil
          have hw := WT_deref _ _ hwt (by simpa [Node.ptr, Node.info] using hnil')
          rw [withPtr_slice] at hw
          obtain ⟨nl, es, c, hes, hwte⟩ := WT_slice_inv { i with ptr := false } e _ rfl hb' hw
          have hdc := deref_cases _ _ hwt (by simpa [Node.ptr, Node.info] using hnil')
          simp only [ptr_slice] at hes hdc
          rw [hes] at hdc
          have hokes : ValOKs es = true := by
            have := ValOK_deref i.ptr v hok
            rw [hes] at this
            exact (ValOK_slice _ _ _ this).2
          have hwfe : NodeWF e = true := by simpa [NodeWF] using hwf
          simp only [ndepth] at hd
          simp only [setN, hb', hnil', hes, Bool.false_eq_true, if_false]
          cases hpi : s.pi with
          | none => exact AOk_same _ _ _ _ (by simp) hwf hwt hok
          | some idx =>
            simp only []
            by_cases hlt : (es.length : Int) > idx
            · by_cases hneg : idx < 0
              · rw [if_pos hlt, if_pos hneg]
                have hcfg : GenCfg.fixed.negIndexPanics = false := rfl
                simp only [hcfg, Bool.false_eq_true, if_false]
                exact AOk_same _ _ _ _ (by simp) hwf hwt hok
              · rw [if_pos hlt, if_neg hneg]
                obtain ⟨x, hx⟩ := nth?_some_of_lt es idx.toNat (by omega)
                have hwtx := nth?_WT e es _ x hwte hx
                have hxm := nth?_mem _ _ _ hx
                have hokx := ValOKs_mem _ _ hokes hxm
                have hdx := vdepth_le_of_mem _ _ hxm
                simp only [hx]
                have ihr := ih e x false false hwfe hwtx hokx (by omega)
                generalize setN GenCfg.fixed e false false x rest src nb = r at ihr ⊢
                obtain ⟨h1, h2, h3⟩ := ihr
                have tail : ∀ (fl : SFlow), fl ≠ .panic →
                    AOk (Node.slice i e) v (s :: rest)
                      ⟨if i.ptr = true then .ptr (.slice nl (replaceNth es idx.toNat r.v) c)
                        else .slice nl (replaceNth es idx.toNat r.v) c, fl⟩ := by
                  intro fl hfl
                  refine ⟨hfl, ?_, ?_⟩
                  · have := vdepths_replaceNth es idx.toNat r.v (max (vdepths es) (vdepth r.v)) (by omega) (by omega)
                    rcases hdc with ⟨hp, hv⟩ | ⟨hp, hv⟩
                    · rw [hv]; simp only [hp, if_true, vdepth, ndepth]; omega
                    · rw [hv]; simp only [hp, Bool.false_eq_true, if_false, vdepth, ndepth]; omega
                  · simp only []
                    rw [frame_lift (Node.slice i e) v (.slice nl es c) _ _ i.ptr rfl hdc, withPtr_slice]
                    simp only [D]
                    rw [offPathEq_slice_some { i with ptr := false } _ _ _ _ _ _ _ _ _ idx rfl hb' hpi, Ds_replaceNth, Bool.and_eq_true]
                    refine ⟨by simp, ?_⟩
                    apply offElems_replace _ _ (D r.v) (Ds es) idx.toNat 0 (D x)
                    · intro b hbm
                      obtain ⟨y, hy, he⟩ := Ds_mem _ _ hbm
                      subst he
                      exact offPathEq_refl rest e y hwfe (WTall_mem _ _ _ hwte hy) (ValOKs_mem _ _ hokes hy)
                    · rw [nth?_Ds, hx]; rfl
                    · exact h3
                    · simp only [Nat.zero_add]; omega
                cases hfl : r.flow with
                | cont => exact tail _ (by simp)
                | ret =>
                  have hcfg : GenCfg.fixed.setScalarElemLost = false := rfl
                  simp only [hcfg, Bool.not_false, Bool.or_true, if_true]
                  exact tail _ (by simp)
                | err =>
                  have hcfg : GenCfg.fixed.setScalarElemLost = false := rfl
                  simp only [hcfg, Bool.not_false, Bool.or_true, if_true]
                  exact tail _ (by simp)
                | panic => exact absurd hfl h1
            · rw [if_neg hlt]
              exact AOk_same _ _ _ _ (by simp) hwf hwt hok

end Inspector.C03
