#!/usr/bin/env python3
"""Development aid: after a `fix:` commit in /repo, re-seat the seeded changes that no longer apply.
For each /verif/seeded/<id>/patch.diff that `git apply --check` rejects: take its source part (everything
outside testobj_ins/ and testdata/), 3-way apply it, regenerate the shipped inspectors with the changed
generator, build, run the tests, and write the result to /tmp/rebased_<id>.diff (nothing is installed and
/repo is left clean). Conflicts are reported for resolution by hand. Not used by any check."""
import os, re, subprocess, sys
VERIF = os.path.dirname(os.path.dirname(os.path.abspath(__file__)))
REPO = "/repo"
ENV = dict(os.environ, GOFLAGS="-mod=mod", GOPROXY="off", GOSUMDB="off", GOTOOLCHAIN="local")

def sh(cmd, cwd=REPO, check=False):
    return subprocess.run(cmd, cwd=cwd, env=ENV, shell=isinstance(cmd, str), stdout=subprocess.PIPE, stderr=subprocess.STDOUT, text=True)

def clean():
    sh("git reset -q --hard HEAD; git clean -fdq -e inspc/inspc")

def srcpart(text):
    parts = re.split(r"(?m)^(?=diff --git )", text)
    return "".join(p for p in parts if p.startswith("diff --git") and not re.match(r"diff --git a/(testobj_ins|testdata)/", p))

def main():
    ids = sys.argv[1:] or sorted(os.listdir(os.path.join(VERIF, "seeded")))
    for i in ids:
        pf = os.path.join(VERIF, "seeded", i, "patch.diff")
        if not os.path.exists(pf):
            continue
        if sh(["git", "apply", "--check", pf]).returncode == 0 and not os.environ.get("FORCE"):
            continue
        src = "/tmp/src_%s.diff" % i
        if not (os.environ.get("KEEP_SRC") and os.path.exists(src)):
            open(src, "w").write(srcpart(open(pf).read()))
        clean()
        sh(["git", "apply", "-3", src])
        un = sh("git diff --name-only --diff-filter=U").stdout.split()
        if un:
            print("%s: CONFLICT in %s (resolve by hand: edit /repo, `git diff HEAD > %s`, rerun with KEEP_SRC=1 FORCE=1)" % (i, un, src))
            clean()
            continue
        if sh("go build ./").returncode != 0:
            print("%s: generator does not build" % i); clean(); continue
        r = sh(["python3", "scripts/regen_shipped.py"], cwd=VERIF)
        b = sh("go build ./... && go vet ./testobj_ins/ >/dev/null 2>&1; go build ./...")
        t = sh("go test -count=1 ./...")
        note = ""
        if b.returncode != 0 or t.returncode != 0:
            # the changed generator can no longer regenerate compiling shipped files: keep the source part alone
            # (the shipped files stay as they are; the change must still compile and pass the tests)
            sh("git checkout -q -- testobj_ins testdata")
            b = sh("go build ./...")
            t = sh("go test -count=1 ./...")
            note = " [source part only]"
        sh("git add -A -- . ':!inspc/inspc'")
        d = sh("git diff --cached").stdout
        sh("git reset -q")
        open("/tmp/rebased_%s.diff" % i, "w").write(d)
        print("%s: rebased (%d lines) build=%d tests=%s%s" % (i, d.count("\n"), b.returncode, "ok" if t.returncode == 0 else "FAIL: " + t.stdout[-300:], note))
        clean()

main()
