/-
Proofs/ResetCurrent.lean — the Reset emitter model (`Gen/Reset.lean`) reads one switch of its `GenCfg` inside the
mutual block (`resetNilPtrPanics`) and one in the header (`nilRootPanics`). Configurations that agree on them
give the same result; both are off in `GenCfg.repo` and in `GenCfg.fixed`, so the model of the tree as it is *is*
the repaired model for Reset (`resetM_repo`), for every argument form.
-/
import InspectorModel.Gen.Reset
set_option linter.unusedSimpArgs false
set_option linter.unusedVariables false
namespace Inspector.ResetCurrent

mutual
theorem resetN_cfg (c1 c2 : GenCfg) (h : c1.resetNilPtrPanics = c2.resetNilPtrPanics) (v : Val) :
    ∀ (n : Node), resetN c1 n v = resetN c2 n v := by
  intro n
  cases v with
  | nilptr => simp only [resetN, h]
  | ptr w =>
    have ih := resetN_cfg c1 c2 h w
    simp only [resetN, ih]
  | bool b => simp only [resetN]
  | int b => simp only [resetN]
  | uint b => simp only [resetN]
  | float b => simp only [resetN]
  | str b => simp only [resetN]
  | bytes nl d c => simp only [resetN]
  | struct fs =>
    have ih := resetFields_cfg c1 c2 h fs
    simp only [resetN, ih]
  | map nl ks vs => simp only [resetN]
  | slice nl es c =>
    have ih := resetElems_cfg c1 c2 h es
    simp only [resetN, ih]
termination_by sizeOf v

theorem resetFields_cfg (c1 c2 : GenCfg) (h : c1.resetNilPtrPanics = c2.resetNilPtrPanics) (fs : List Val) :
    ∀ (chld : List Node), resetFields c1 chld fs = resetFields c2 chld fs := by
  intro chld
  cases fs with
  | nil => simp only [resetFields]
  | cons f fs' =>
    have ih1 := resetN_cfg c1 c2 h f
    have ih2 := resetFields_cfg c1 c2 h fs'
    cases chld with
    | nil => simp only [resetFields]
    | cons ch chs => simp only [resetFields, ih1, ih2]
termination_by sizeOf fs

theorem resetElems_cfg (c1 c2 : GenCfg) (h : c1.resetNilPtrPanics = c2.resetNilPtrPanics) (es : List Val) :
    ∀ (e : Node), resetElems c1 e es = resetElems c2 e es := by
  intro e
  cases es with
  | nil => simp only [resetElems]
  | cons x es' =>
    have ih1 := resetN_cfg c1 c2 h x
    have ih2 := resetElems_cfg c1 c2 h es'
    cases x <;> simp only [resetElems, h, ih1, ih2]
termination_by sizeOf es
end

theorem resetM_cfg (c1 c2 : GenCfg) (h : c1.resetNilPtrPanics = c2.resetNilPtrPanics)
    (hroot : c1.nilRootPanics = c2.nilRootPanics) (n : Node) (f : Form) (v : Val) :
    resetM c1 n f v = resetM c2 n f v := by
  unfold resetM
  rw [resetN_cfg c1 c2 h v n, hroot]

theorem resetN_repo (n : Node) (v : Val) : resetN GenCfg.repo n v = resetN GenCfg.fixed n v :=
  resetN_cfg GenCfg.repo GenCfg.fixed rfl v n

/-- Reset of the tree as it is, for every argument form. -/
theorem resetM_repo (n : Node) (f : Form) (v : Val) : resetM GenCfg.repo n f v = resetM GenCfg.fixed n f v :=
  resetM_cfg GenCfg.repo GenCfg.fixed rfl rfl n f v

end Inspector.ResetCurrent
