/-
Proofs/C03Lists.lean — list-update lemmas for C03: `replaceNth`, `mapSet`, `lookupKey`, `findField`
against the frame relations `offFields`, `offEntries`, `offElems` of Spec/SetSpec.lean.
-/
import InspectorModel.Proofs.C03Base
set_option linter.unusedSimpArgs false
set_option linter.unusedVariables false
namespace Inspector.C03

/-! ### replaceNth -/

theorem Ds_replaceNth (fs : List Val) (i : Nat) (a : Val) : Ds (replaceNth fs i a) = replaceNth (Ds fs) i (D a) := by
  induction fs generalizing i with
  | nil => simp [replaceNth, Ds]
  | cons f fs ih =>
    cases i with
    | zero => simp [replaceNth, Ds]
    | succ j => simp [replaceNth, Ds, ih]

@[simp] theorem replaceNth_length (fs : List Val) (i : Nat) (a : Val) : (replaceNth fs i a).length = fs.length := by
  induction fs generalizing i with
  | nil => simp [replaceNth]
  | cons f fs ih =>
    cases i with
    | zero => simp [replaceNth]
    | succ j => simp [replaceNth, ih]

theorem nth?_replaceNth (fs : List Val) (i : Nat) (a : Val) (h : i < fs.length) : nth? (replaceNth fs i a) i = some a := by
  induction fs generalizing i with
  | nil => simp at h
  | cons f fs ih =>
    cases i with
    | zero => simp [replaceNth, nth?]
    | succ j => simp [replaceNth, nth?]; exact ih j (by simpa using h)

theorem vdepth_le_of_mem (xs : List Val) (x : Val) (h : x ∈ xs) : vdepth x ≤ vdepths xs := by
  induction xs with
  | nil => cases h
  | cons y ys ih =>
    simp only [vdepths]
    cases h with
    | head => omega
    | tail _ h => have := ih h; omega

theorem vdepths_le_iff (xs : List Val) (B : Nat) : vdepths xs ≤ B ↔ ∀ x ∈ xs, vdepth x ≤ B := by
  induction xs with
  | nil => simp [vdepths]
  | cons y ys ih =>
    simp only [vdepths, List.mem_cons, forall_eq_or_imp]
    rw [← ih]
    omega

theorem vdepths_replaceNth (fs : List Val) (i : Nat) (a : Val) (B : Nat) (h : vdepths fs ≤ B) (ha : vdepth a ≤ B) :
    vdepths (replaceNth fs i a) ≤ B := by
  induction fs generalizing i with
  | nil => simp [replaceNth, vdepths]
  | cons f fs ih =>
    simp only [vdepths] at h
    cases i with
    | zero => simp only [replaceNth, vdepths]; omega
    | succ j => simp only [replaceNth, vdepths]; have := ih j (by omega); omega

theorem vdepths_append (xs ys : List Val) (B : Nat) (h : vdepths xs ≤ B) (h2 : vdepths ys ≤ B) : vdepths (xs ++ ys) ≤ B := by
  rw [vdepths_le_iff] at *
  intro x hx
  rcases List.mem_append.mp hx with hx | hx
  · exact h x hx
  · exact h2 x hx

theorem nth?_mem (es : List Val) (i : Nat) (x : Val) (h : nth? es i = some x) : x ∈ es := by
  induction es generalizing i with
  | nil => simp [nth?] at h
  | cons v vs ih =>
    cases i with
    | zero => simp [nth?] at h; subst h; simp
    | succ j => simp [nth?] at h; exact List.mem_cons_of_mem _ (ih j h)

theorem lookupKey_mem (ks vs : List Val) (key x : Val) (h : lookupKey ks vs key = some x) : x ∈ vs := by
  induction ks generalizing vs with
  | nil => cases vs <;> simp [lookupKey] at h
  | cons k ks ih =>
    cases vs with
    | nil => simp [lookupKey] at h
    | cons v vs =>
      unfold lookupKey at h
      split at h
      · injection h with h; subst h; simp
      · exact List.mem_cons_of_mem _ (ih vs h)

theorem findField_mem (chld : List Node) (fs : List Val) (name : Bytes) (ch : Node) (fv : Val)
    (h : findField chld fs name = some (ch, fv)) : (ch, fv) ∈ chld.zip fs := by
  induction chld generalizing fs with
  | nil => cases fs <;> simp [findField] at h
  | cons c cs ih =>
    cases fs with
    | nil => simp [findField] at h
    | cons f fs =>
      unfold findField at h
      split at h
      · injection h with h; injection h with h1 h2; subst h1; subst h2; simp
      · simp only [List.zip_cons_cons]
        exact List.mem_cons_of_mem _ (ih fs h)

/-! ### struct fields -/

theorem findField_replaceNth (chld : List Node) (fs : List Val) (name : Bytes) (ch : Node) (fv a : Val)
    (h : findField chld fs name = some (ch, fv)) :
    findField chld (replaceNth fs (chld.takeWhile fun c => !(strBytes c.name == name)).length a) name = some (ch, a) := by
  induction chld generalizing fs with
  | nil => cases fs <;> simp [findField] at h
  | cons c cs ih =>
    cases fs with
    | nil => simp [findField] at h
    | cons f fs =>
      unfold findField at h
      by_cases hc : (strBytes c.name == name) = true
      · simp only [hc, if_true] at h
        injection h with h; injection h with h1 h2; subst h1
        simp [List.takeWhile, hc, replaceNth, findField]
      · have hc' : (strBytes c.name == name) = false := by simpa using hc
        simp only [hc', Bool.false_eq_true, if_false] at h
        have := ih fs h
        simp only [List.takeWhile, hc', Bool.not_false, List.length_cons, replaceNth, findField, Bool.false_eq_true, if_false]
        exact this

theorem offFields_refl (F : Node → Val → Val → Bool) (s : Seg) : ∀ (chld : List Node) (bs : List Val),
    chld.length = bs.length → (∀ c b, (c, b) ∈ chld.zip bs → F c b b = true) → offFields F chld bs bs s = true := by
  intro chld
  induction chld with
  | nil => intro bs hl _; cases bs <;> simp_all [offFields]
  | cons c cs ih =>
    intro bs hl hr
    cases bs with
    | nil => simp at hl
    | cons b bs =>
      simp only [offFields, Bool.and_eq_true]
      refine ⟨?_, ih bs (by simpa using hl) (fun c' b' hm => hr c' b' (by simp [hm]))⟩
      split
      · exact hr c b (by simp)
      · simp

theorem offFields_replace (F : Node → Val → Val → Bool) (s : Seg) (ch : Node) (a : Val) : ∀ (chld : List Node) (bs : List Val) (b0 : Val),
    chld.length = bs.length → (∀ c b, (c, b) ∈ chld.zip bs → F c b b = true) →
    findField chld bs s.text = some (ch, b0) → F ch b0 a = true →
    offFields F chld bs (replaceNth bs (chld.takeWhile fun c => !(strBytes c.name == s.text)).length a) s = true := by
  intro chld
  induction chld with
  | nil => intro bs b0 hl _ hf; cases bs <;> simp [findField] at hf
  | cons c cs ih =>
    intro bs b0 hl hr hf hF
    cases bs with
    | nil => simp at hl
    | cons b bs =>
      unfold findField at hf
      by_cases hc : (strBytes c.name == s.text) = true
      · simp only [hc, if_true] at hf
        injection hf with hf; injection hf with h1 h2; subst h1; subst h2
        simp only [List.takeWhile, hc, Bool.not_true, List.length_nil, replaceNth, offFields, if_true, Bool.and_eq_true]
        exact ⟨hF, offFields_refl F s cs bs (by simpa using hl) (fun c' b' hm => hr c' b' (by simp [hm]))⟩
      · have hc' : (strBytes c.name == s.text) = false := by simpa using hc
        simp only [hc', Bool.false_eq_true, if_false] at hf
        simp only [List.takeWhile, hc', Bool.not_false, List.length_cons, replaceNth, offFields, Bool.false_eq_true, if_false,
          Bool.and_eq_true]
        exact ⟨by simp, ih bs b0 (by simpa using hl) (fun c' b' hm => hr c' b' (by simp [hm])) hf hF⟩

theorem findField_Ds (chld : List Node) (fs : List Val) (name : Bytes) :
    findField chld (Ds fs) name = (findField chld fs name).map (fun cf => (cf.1, D cf.2)) := by
  induction chld generalizing fs with
  | nil => cases fs <;> simp [findField, Ds]
  | cons c cs ih =>
    cases fs with
    | nil => simp [findField, Ds]
    | cons f fs =>
      simp only [Ds, findField]
      split
      · simp
      · exact ih fs

theorem zip_Ds_mem (chld : List Node) (fs : List Val) (c : Node) (b : Val) (h : (c, b) ∈ chld.zip (Ds fs)) :
    ∃ x, (c, x) ∈ chld.zip fs ∧ b = D x := by
  induction chld generalizing fs with
  | nil => simp at h
  | cons c' cs ih =>
    cases fs with
    | nil => simp [Ds] at h
    | cons f fs =>
      simp only [Ds, List.zip_cons_cons, List.mem_cons, Prod.mk.injEq] at h
      rcases h with ⟨h1, h2⟩ | h
      · exact ⟨f, by simp [h1], h2⟩
      · obtain ⟨x, hx, hb⟩ := ih fs h
        exact ⟨x, by simp [hx], hb⟩

/-! ### slice elements -/

theorem offElems_refl (F : Val → Val → Bool) (idx : Int) : ∀ (bs : List Val) (off : Nat),
    (∀ b ∈ bs, F b b = true) → offElems F idx bs bs off = true := by
  intro bs
  induction bs with
  | nil => intro off _; simp [offElems]
  | cons b bs ih =>
    intro off hr
    simp only [offElems, Bool.and_eq_true]
    refine ⟨?_, ih (off + 1) (fun b' hb => hr b' (by simp [hb]))⟩
    split
    · exact hr b (by simp)
    · simp

theorem offElems_replace (F : Val → Val → Bool) (idx : Int) (a : Val) : ∀ (bs : List Val) (j off : Nat) (b0 : Val),
    (∀ b ∈ bs, F b b = true) → nth? bs j = some b0 → F b0 a = true → idx = ((off + j : Nat) : Int) →
    offElems F idx bs (replaceNth bs j a) off = true := by
  intro bs
  induction bs with
  | nil => intro j off b0 _ hn; simp [nth?] at hn
  | cons b bs ih =>
    intro j off b0 hr hn hF hidx
    cases j with
    | zero =>
      simp only [nth?] at hn
      injection hn with hn; subst hn
      simp only [replaceNth, offElems, Bool.and_eq_true]
      refine ⟨?_, offElems_refl F idx bs (off + 1) (fun b' hb => hr b' (by simp [hb]))⟩
      have : ((off : Int) == idx) = true := by simp [hidx]
      simp [this, hF]
    | succ j =>
      simp only [nth?] at hn
      simp only [replaceNth, offElems, Bool.and_eq_true]
      refine ⟨?_, ih j (off + 1) b0 (fun b' hb => hr b' (by simp [hb])) hn hF (by rw [hidx]; congr 1; omega)⟩
      have : ((off : Int) == idx) = false := by
        simp only [beq_eq_false_iff_ne, ne_eq, hidx]
        omega
      simp [this]

/-! ### map entries -/

theorem lookupKey_mapSet (ks vs : List Val) (key a k' : Val) :
    lookupKey (mapSet ks vs key a).1 (mapSet ks vs key a).2 k' =
      if key == k' then some a else lookupKey ks vs k' := by
  induction ks generalizing vs with
  | nil =>
    cases vs <;> simp [mapSet, lookupKey]
  | cons k ks ih =>
    cases vs with
    | nil => simp [mapSet, lookupKey]
    | cons v vs =>
      unfold mapSet
      by_cases hk : (k == key) = true
      · have hke : k = key := by simpa using hk
        subst hke
        simp only [beq_self_eq_true, if_true, lookupKey]
        by_cases h2 : k = k'
        · subst h2; simp
        · have : (k == k') = false := by simpa using h2
          simp [this, h2]
      · have hk' : (k == key) = false := by simpa using hk
        have hne : ¬ k = key := by simpa using hk
        simp only [hk', Bool.false_eq_true, if_false, lookupKey]
        by_cases h2 : (k == k') = true
        · have h2e : k = k' := by simpa using h2
          subst h2e
          have : (key == k) = false := by
            simp only [beq_eq_false_iff_ne, ne_eq]; exact fun h => hne h.symm
          simp [this]
        · have h2' : (k == k') = false := by simpa using h2
          simp only [h2', Bool.false_eq_true, if_false]
          exact ih vs

theorem mapSet_keys (ks vs : List Val) (key a : Val) (k' : Val) (h : k' ∈ (mapSet ks vs key a).1) : k' = key ∨ k' ∈ ks := by
  induction ks generalizing vs with
  | nil => cases vs <;> simp [mapSet] at h <;> exact Or.inl h
  | cons k ks ih =>
    cases vs with
    | nil => simp [mapSet] at h; exact Or.inl h
    | cons v vs =>
      unfold mapSet at h
      by_cases hk : (k == key) = true
      · simp only [hk, if_true] at h
        exact Or.inr h
      · have hk' : (k == key) = false := by simpa using hk
        simp only [hk', Bool.false_eq_true, if_false, List.mem_cons] at h
        rcases h with h | h
        · exact Or.inr (by simp [h])
        · rcases ih vs h with h | h
          · exact Or.inl h
          · exact Or.inr (by simp [h])

theorem mapSet_Ds (ks vs : List Val) (key a : Val) :
    (mapSet ks (Ds vs) key (D a)).1 = (mapSet ks vs key a).1 ∧ (mapSet ks (Ds vs) key (D a)).2 = Ds (mapSet ks vs key a).2 := by
  induction ks generalizing vs with
  | nil => cases vs <;> simp [mapSet, Ds]
  | cons k ks ih =>
    cases vs with
    | nil => simp [mapSet, Ds]
    | cons v vs =>
      simp only [Ds]
      unfold mapSet
      by_cases hk : (k == key) = true
      · simp [hk, Ds]
      · have hk' : (k == key) = false := by simpa using hk
        simp only [hk', Bool.false_eq_true, if_false, Ds]
        obtain ⟨h1, h2⟩ := ih vs
        simp [h1, h2]

theorem vdepths_mapSet (ks vs : List Val) (key a : Val) (B : Nat) (hk : vdepths ks ≤ B) (hv : vdepths vs ≤ B)
    (hkey : vdepth key ≤ B) (ha : vdepth a ≤ B) :
    vdepths (mapSet ks vs key a).1 ≤ B ∧ vdepths (mapSet ks vs key a).2 ≤ B := by
  induction ks generalizing vs with
  | nil => cases vs <;> simp only [mapSet, vdepths] <;> omega
  | cons k ks ih =>
    cases vs with
    | nil => simp only [mapSet, vdepths]; omega
    | cons v vs =>
      simp only [vdepths] at hk hv
      unfold mapSet
      by_cases hkk : (k == key) = true
      · simp only [hkk, if_true, vdepths]; omega
      · have hk' : (k == key) = false := by simpa using hkk
        simp only [hk', Bool.false_eq_true, if_false, vdepths]
        have := ih vs (by omega) (by omega)
        omega

theorem lookupKey_Ds (ks vs : List Val) (key : Val) :
    lookupKey ks (Ds vs) key = (lookupKey ks vs key).map D := by
  induction ks generalizing vs with
  | nil => cases vs <;> simp [lookupKey, Ds]
  | cons k ks ih =>
    cases vs with
    | nil => simp [lookupKey, Ds]
    | cons v vs =>
      simp only [Ds, lookupKey]
      split
      · simp
      · exact ih vs

/-- No earlier key equals a later one. -/
def KeysNoDup : List Val → Prop
  | [] => True
  | k :: ks => (∀ k' ∈ ks, k ≠ k') ∧ KeysNoDup ks

theorem lookupKey_of_mem (ks vs : List Val) (bk bv : Val) (hnd : KeysNoDup ks) (hm : (bk, bv) ∈ ks.zip vs) :
    lookupKey ks vs bk = some bv := by
  induction ks generalizing vs with
  | nil => simp at hm
  | cons k ks ih =>
    cases vs with
    | nil => simp at hm
    | cons v vs =>
      simp only [List.zip_cons_cons, List.mem_cons, Prod.mk.injEq] at hm
      simp only [lookupKey]
      rcases hm with ⟨h1, h2⟩ | hm
      · subst h1; subst h2; simp
      · have hmem : bk ∈ ks := (List.of_mem_zip hm).1
        have hne : k ≠ bk := hnd.1 bk hmem
        have : (k == bk) = false := by simpa using hne
        simp only [this, Bool.false_eq_true, if_false]
        exact ih vs hnd.2 hm

theorem lookupKey_isSome_of_mem (ks vs : List Val) (k : Val) (hl : ks.length = vs.length) (hm : k ∈ ks) :
    (lookupKey ks vs k).isSome = true := by
  induction ks generalizing vs with
  | nil => cases hm
  | cons k0 ks ih =>
    cases vs with
    | nil => simp at hl
    | cons v vs =>
      simp only [lookupKey]
      split
      · rfl
      · rename_i hne
        cases hm with
        | head => simp at hne
        | tail _ hm => exact ih vs (by simpa using hl) hm

theorem offEntries_of (F : Val → Val → Bool) (aks avs : List Val) (key : Val) : ∀ (bks bvs : List Val),
    (∀ bk bv, (bk, bv) ∈ bks.zip bvs →
      ∃ av, lookupKey aks avs bk = some av ∧ (if bk == key then F bv av else bv == av) = true) →
    offEntries F aks avs key bks bvs = true := by
  intro bks
  induction bks with
  | nil => intro bvs _; simp [offEntries]
  | cons bk bks ih =>
    intro bvs h
    cases bvs with
    | nil => simp [offEntries]
    | cons bv bvs =>
      simp only [offEntries, Bool.and_eq_true]
      refine ⟨?_, ih bvs (fun k v hm => h k v (by simp [hm]))⟩
      obtain ⟨av, hl, hc⟩ := h bk bv (by simp)
      rw [hl]
      exact hc

/-- Frame of a map after `m[key] = a` (`before` with distinct keys). -/
theorem offEntries_mapSet (F : Val → Val → Bool) (ks vs : List Val) (key a : Val)
    (hnd : KeysNoDup ks) (hr : ∀ b ∈ vs, F b b = true) (hF : ∀ x, lookupKey ks vs key = some x → F x a = true) :
    offEntries F (mapSet ks vs key a).1 (mapSet ks vs key a).2 key ks vs = true := by
  apply offEntries_of
  intro bk bv hm
  rw [lookupKey_mapSet]
  have hl := lookupKey_of_mem ks vs bk bv hnd hm
  by_cases hk : key = bk
  · subst hk
    refine ⟨a, by simp, ?_⟩
    simp only [beq_self_eq_true, if_true]
    exact hF bv hl
  · have hk2 : (key == bk) = false := by simpa using hk
    refine ⟨bv, by simp [hk2, hl], ?_⟩
    have : (bk == key) = false := by
      simp only [beq_eq_false_iff_ne, ne_eq]
      exact fun h => hk h.symm
    simp [this]

theorem offEntries_refl (F : Val → Val → Bool) (ks vs : List Val) (key : Val)
    (hnd : KeysNoDup ks) (hr : ∀ b ∈ vs, F b b = true) :
    offEntries F ks vs key ks vs = true := by
  apply offEntries_of
  intro bk bv hm
  refine ⟨bv, lookupKey_of_mem ks vs bk bv hnd hm, ?_⟩
  split
  · exact hr bv (List.of_mem_zip hm).2
  · simp

/-- `.never` frame: every old entry is still there after entries were appended. -/
theorem never_append (ks vs ks2 vs2 : List Val) (hl : ks.length = vs.length) :
    ((ks.zip vs).all fun (bk, bv) => ((ks ++ ks2).zip (vs ++ vs2)).any fun (ak, av) => ak == bk && av == bv) = true := by
  rw [List.all_eq_true]
  intro ⟨bk, bv⟩ hm
  rw [List.any_eq_true]
  refine ⟨(bk, bv), ?_, by simp⟩
  rw [List.zip_append hl]
  exact List.mem_append_left _ hm

end Inspector.C03
