package corr

import (
	"encoding/hex"
	"fmt"
	"math"
	"reflect"
	"sort"
	"strconv"
	"strings"
)

// FxUnit is the fixed-point unit of the model's floats: 2^-20 (DESIGN.md 4.2).
const FxUnit = 1 << 20

// FxOf returns the fixed-point integer of f and whether f is an exact multiple of 2^-20 of small magnitude.
func FxOf(f float64) (int64, bool) {
	if math.IsNaN(f) || math.IsInf(f, 0) {
		return 0, false
	}
	s := f * FxUnit
	if s != math.Trunc(s) || math.Abs(s) > 1<<52 {
		return 0, false
	}
	return int64(s), true
}

func FloatOfFx(fx int64) float64 { return float64(fx) / FxUnit }

var byteSliceType = reflect.TypeOf([]byte(nil))

func isByteSlice(t reflect.Type) bool {
	return t.Kind() == reflect.Slice && t.Elem().Kind() == reflect.Uint8
}

// Ser serialises a Go value as model `Val` tokens.
func Ser(v reflect.Value) string {
	var sb strings.Builder
	ser(&sb, v)
	return sb.String()
}

func ser(sb *strings.Builder, v reflect.Value) {
	switch v.Kind() {
	case reflect.Bool:
		if v.Bool() {
			sb.WriteString("b1")
		} else {
			sb.WriteString("b0")
		}
	case reflect.Int, reflect.Int8, reflect.Int16, reflect.Int32, reflect.Int64:
		sb.WriteString("i" + strconv.FormatInt(v.Int(), 10))
	case reflect.Uint, reflect.Uint8, reflect.Uint16, reflect.Uint32, reflect.Uint64:
		sb.WriteString("u" + strconv.FormatUint(v.Uint(), 10))
	case reflect.Float32, reflect.Float64:
		fx, ok := FxOf(v.Float())
		if ok {
			sb.WriteString("f" + strconv.FormatInt(fx, 10))
		} else {
			sb.WriteString("fx" + strconv.FormatFloat(v.Float(), 'g', -1, 64))
		}
	case reflect.String:
		sb.WriteString("s" + hex.EncodeToString([]byte(v.String())))
	case reflect.Slice:
		if isByteSlice(v.Type()) {
			if v.IsNil() {
				sb.WriteString("yn")
			} else {
				sb.WriteString("y" + strconv.Itoa(v.Cap()) + ":" + hex.EncodeToString(v.Bytes()))
			}
			return
		}
		if v.IsNil() {
			sb.WriteString("Ln")
			return
		}
		sb.WriteString("L" + strconv.Itoa(v.Len()) + ":" + strconv.Itoa(v.Cap()))
		for i := 0; i < v.Len(); i++ {
			sb.WriteByte(' ')
			ser(sb, v.Index(i))
		}
	case reflect.Map:
		if v.IsNil() {
			sb.WriteString("Mn")
			return
		}
		type kv struct{ k, v string }
		var kvs []kv
		it := v.MapRange()
		for it.Next() {
			kvs = append(kvs, kv{Ser(it.Key()), Ser(it.Value())})
		}
		sort.Slice(kvs, func(i, j int) bool {
			if kvs[i].k != kvs[j].k {
				return kvs[i].k < kvs[j].k
			}
			return kvs[i].v < kvs[j].v
		})
		sb.WriteString("M" + strconv.Itoa(len(kvs)))
		for _, e := range kvs {
			sb.WriteString(" " + e.k + " " + e.v)
		}
	case reflect.Struct:
		sb.WriteString("S" + strconv.Itoa(v.NumField()))
		for i := 0; i < v.NumField(); i++ {
			sb.WriteByte(' ')
			ser(sb, v.Field(i))
		}
	case reflect.Ptr:
		if v.IsNil() {
			sb.WriteString("Pn")
			return
		}
		sb.WriteString("P ")
		ser(sb, v.Elem())
	case reflect.Interface:
		if v.IsNil() {
			sb.WriteString("An")
			return
		}
		sb.WriteString("A " + ShapeOfType(v.Elem().Type(), true) + " ")
		ser(sb, v.Elem())
	default:
		sb.WriteString("?" + v.Kind().String())
	}
}

// ShapeOfType renders the structural shape of a type; names are kept for structs only.
// With ptrs=false leading pointer levels of t itself are dropped.
func ShapeOfType(t reflect.Type, ptrs bool) string {
	for !ptrs && t.Kind() == reflect.Ptr {
		t = t.Elem()
	}
	switch t.Kind() {
	case reflect.Ptr:
		return "*" + ShapeOfType(t.Elem(), true)
	case reflect.Struct:
		return "S:" + t.Name()
	case reflect.Map:
		return "M[" + ShapeOfType(t.Key(), true) + "]" + ShapeOfType(t.Elem(), true)
	case reflect.Slice:
		if isByteSlice(t) {
			return "Y"
		}
		return "L" + ShapeOfType(t.Elem(), true)
	case reflect.Interface:
		return "any"
	default:
		return t.Kind().String()
	}
}

// Deser rebuilds a Go value of type t from tokens (inverse of Ser); returns the remaining tokens.
func Deser(t reflect.Type, toks []string) (reflect.Value, []string, error) {
	if len(toks) == 0 {
		return reflect.Value{}, nil, fmt.Errorf("deser: out of tokens")
	}
	tok := toks[0]
	rest := toks[1:]
	v := reflect.New(t).Elem()
	switch t.Kind() {
	case reflect.Bool:
		v.SetBool(tok == "b1")
	case reflect.Int, reflect.Int8, reflect.Int16, reflect.Int32, reflect.Int64:
		n, err := strconv.ParseInt(tok[1:], 10, 64)
		if err != nil {
			return v, nil, err
		}
		v.SetInt(n)
	case reflect.Uint, reflect.Uint8, reflect.Uint16, reflect.Uint32, reflect.Uint64:
		n, err := strconv.ParseUint(tok[1:], 10, 64)
		if err != nil {
			return v, nil, err
		}
		v.SetUint(n)
	case reflect.Float32, reflect.Float64:
		n, err := strconv.ParseInt(tok[1:], 10, 64)
		if err != nil {
			return v, nil, err
		}
		v.SetFloat(FloatOfFx(n))
	case reflect.String:
		b, err := hex.DecodeString(tok[1:])
		if err != nil {
			return v, nil, err
		}
		v.SetString(string(b))
	case reflect.Slice:
		if isByteSlice(t) {
			if tok == "yn" {
				return v, rest, nil
			}
			parts := strings.SplitN(tok[1:], ":", 2)
			c, _ := strconv.Atoi(parts[0])
			b, err := hex.DecodeString(parts[1])
			if err != nil {
				return v, nil, err
			}
			if c < len(b) {
				c = len(b)
			}
			s := reflect.MakeSlice(t, len(b), c)
			reflect.Copy(s, reflect.ValueOf(b))
			v.Set(s)
			return v, rest, nil
		}
		if tok == "Ln" {
			return v, rest, nil
		}
		parts := strings.SplitN(tok[1:], ":", 2)
		n, _ := strconv.Atoi(parts[0])
		c, _ := strconv.Atoi(parts[1])
		if c < n {
			c = n
		}
		s := reflect.MakeSlice(t, n, c)
		for i := 0; i < n; i++ {
			e, r, err := Deser(t.Elem(), rest)
			if err != nil {
				return v, nil, err
			}
			s.Index(i).Set(e)
			rest = r
		}
		v.Set(s)
	case reflect.Map:
		if tok == "Mn" {
			return v, rest, nil
		}
		n, _ := strconv.Atoi(tok[1:])
		m := reflect.MakeMapWithSize(t, n)
		for i := 0; i < n; i++ {
			k, r, err := Deser(t.Key(), rest)
			if err != nil {
				return v, nil, err
			}
			e, r2, err := Deser(t.Elem(), r)
			if err != nil {
				return v, nil, err
			}
			m.SetMapIndex(k, e)
			rest = r2
		}
		v.Set(m)
	case reflect.Struct:
		for i := 0; i < t.NumField(); i++ {
			f, r, err := Deser(t.Field(i).Type, rest)
			if err != nil {
				return v, nil, err
			}
			v.Field(i).Set(f)
			rest = r
		}
	case reflect.Ptr:
		if tok == "Pn" {
			return v, rest, nil
		}
		e, r, err := Deser(t.Elem(), rest)
		if err != nil {
			return v, nil, err
		}
		p := reflect.New(t.Elem())
		p.Elem().Set(e)
		v.Set(p)
		rest = r
	default:
		return v, nil, fmt.Errorf("deser: unsupported kind %s", t.Kind())
	}
	return v, rest, nil
}

// Profile steers the value generator.
type Profile int

const (
	ProfFull       Profile = iota // every pointer set, every collection populated
	ProfNil                       // every pointer nil, every collection nil
	ProfEmpty                     // pointers set, collections empty (non-nil)
	ProfRandom                    // mixture, nil elements included
	ProfSparse                    // mostly nil/empty with a few populated parts
	ProfEmptyNoPtr                // pointers nil, collections empty (non-nil)
)

// Gen generates type-directed values. Scalars come from a running counter so that distinct
// positions hold distinct values wherever the kind's range allows it.
type Gen struct {
	R    *Rng
	Prof Profile
	cnt  int64
}

func NewGen(r *Rng, p Profile) *Gen { return &Gen{R: r, Prof: p, cnt: 2} }

func (g *Gen) next() int64 { g.cnt++; return g.cnt }

var sampleStrings = []string{"a", "bc", "Zed", "пр", "日本", "x y", "0", "nil", "true", "k1", "q", "long-ish-string-42"}

func (g *Gen) str() string {
	if g.Prof == ProfRandom && g.R.Chance(1, 8) {
		return ""
	}
	return sampleStrings[g.R.Intn(len(sampleStrings))] + strconv.FormatInt(g.next(), 10)
}

func bitsOf(k reflect.Kind) uint {
	switch k {
	case reflect.Int8, reflect.Uint8:
		return 8
	case reflect.Int16, reflect.Uint16:
		return 16
	case reflect.Int32, reflect.Uint32:
		return 32
	}
	return 64
}

func (g *Gen) scalar(v reflect.Value) {
	t := v.Type()
	boundary := g.Prof == ProfRandom && g.R.Chance(1, 6)
	switch t.Kind() {
	case reflect.Bool:
		v.SetBool(g.R.Bool())
	case reflect.Int, reflect.Int8, reflect.Int16, reflect.Int32, reflect.Int64:
		b := bitsOf(t.Kind())
		if boundary {
			switch g.R.Intn(4) {
			case 0:
				v.SetInt(-1 << (b - 1))
			case 1:
				v.SetInt(1<<(b-1) - 1)
			case 2:
				v.SetInt(0)
			default:
				v.SetInt(-1)
			}
			return
		}
		n := g.next()
		if b == 8 {
			n = n%250 - 125
		} else if g.R.Chance(1, 3) {
			n = -n
		}
		v.SetInt(n)
	case reflect.Uint, reflect.Uint8, reflect.Uint16, reflect.Uint32, reflect.Uint64:
		b := bitsOf(t.Kind())
		if boundary {
			if g.R.Bool() {
				v.SetUint(0)
			} else {
				v.SetUint(uint64(1)<<(b-1)<<1 - 1)
			}
			return
		}
		n := uint64(g.next())
		if b == 8 {
			n = n % 256
		}
		v.SetUint(n)
	case reflect.Float32, reflect.Float64:
		// multiples of 2^-20; |fx| < 2^22 keeps float32 exact (24-bit significand).
		fx := g.next()*4099 + int64(g.R.Intn(1<<12))
		if t.Kind() == reflect.Float32 {
			fx %= 1 << 22
			if g.R.Chance(1, 3) {
				// a larger float32: 24 significant bits shifted up, so that neighbours one fixed-point unit
				// away are NOT representable in binary32 (operands there exercise the float32 rounding)
				fx = (fx | 1<<21) << uint(4+g.R.Intn(14))
			}
		} else {
			fx %= 1 << 30
		}
		if g.R.Chance(1, 3) {
			fx = -fx
		}
		if boundary && g.R.Bool() {
			fx = 0
		}
		v.SetFloat(FloatOfFx(fx))
	case reflect.String:
		v.SetString(g.str())
	}
}

func (g *Gen) count() int {
	switch g.Prof {
	case ProfFull:
		return 2 + g.R.Intn(2)
	case ProfRandom:
		return g.R.Intn(4)
	case ProfSparse:
		if g.R.Chance(1, 3) {
			return 1 + g.R.Intn(2)
		}
		return 0
	}
	return 0
}

// Val generates a value of type t. depth bounds recursion through self-referential shapes (none in G).
func (g *Gen) Val(t reflect.Type, depth int) reflect.Value {
	v := reflect.New(t).Elem()
	g.fill(v, depth)
	return v
}

func (g *Gen) wantNil() bool {
	switch g.Prof {
	case ProfNil:
		return true
	case ProfRandom:
		return g.R.Chance(1, 4)
	case ProfSparse:
		return g.R.Chance(2, 3)
	}
	return false
}

func (g *Gen) fill(v reflect.Value, depth int) {
	t := v.Type()
	switch t.Kind() {
	case reflect.Ptr:
		if g.wantNil() || depth > 8 || g.Prof == ProfEmptyNoPtr {
			return
		}
		p := reflect.New(t.Elem())
		g.fill(p.Elem(), depth+1)
		v.Set(p)
	case reflect.Struct:
		for i := 0; i < t.NumField(); i++ {
			if t.Field(i).PkgPath != "" {
				continue
			}
			g.fill(v.Field(i), depth+1)
		}
	case reflect.Slice:
		if g.wantNil() {
			return
		}
		if isByteSlice(t) {
			n := 0
			if g.Prof != ProfEmpty && g.Prof != ProfEmptyNoPtr {
				n = 1 + g.R.Intn(6)
			}
			if g.Prof == ProfRandom && g.R.Chance(1, 6) {
				n = 0
			}
			extra := 0
			if g.R.Chance(1, 3) {
				extra = g.R.Intn(4)
			}
			s := reflect.MakeSlice(t, n, n+extra)
			src := []byte(g.str() + "......")
			for i := 0; i < n; i++ {
				s.Index(i).SetUint(uint64(src[i%len(src)]))
			}
			v.Set(s)
			return
		}
		n := g.count()
		extra := 0
		if g.R.Chance(1, 3) {
			extra = 1 + g.R.Intn(3)
		}
		s := reflect.MakeSlice(t, n, n+extra)
		for i := 0; i < n; i++ {
			g.fill(s.Index(i), depth+1)
		}
		v.Set(s)
	case reflect.Map:
		if g.wantNil() {
			return
		}
		n := g.count()
		m := reflect.MakeMapWithSize(t, n)
		for i := 0; i < n; i++ {
			k := reflect.New(t.Key()).Elem()
			if t.Key().Kind() == reflect.Ptr && i == 0 && g.Prof == ProfRandom && g.R.Chance(1, 5) {
				// a nil pointer is a legitimate key ("every pointer nil or set"): at most one per map
			} else {
				sub := &Gen{R: g.R, Prof: ProfFull, cnt: g.cnt}
				sub.fill(k, depth+1)
				g.cnt = sub.cnt
			}
			e := reflect.New(t.Elem()).Elem()
			g.fill(e, depth+1)
			m.SetMapIndex(k, e)
		}
		v.Set(m)
	default:
		g.scalar(v)
	}
}
