/-
Core/WF.lean — well-formedness of parsed type trees: what both parsers guarantee and the theorems assume.
-/
import InspectorModel.Core.Types
namespace Inspector

mutual
/-- A basic node names a scalar kind, and a builtin type name is its own underlying name; map keys are
basic nodes. (Both parsers produce only such trees; the driver evaluates this predicate on every tree
it reads and counts violations.) -/
def NodeWF : Node → Bool
  | .basic i => (kindOfName i.typu).isSome && (!isBuiltinName i.typn || i.typn == i.typu)
  | .struct _ chld => NodeWFs chld
  | .map _ k v => k.isBasicTyp && NodeWF k && NodeWF v
  | .slice _ e => NodeWF e
def NodeWFs : List Node → Bool
  | [] => true
  | n :: ns => NodeWF n && NodeWFs ns
end

/-- A bool-kinded scalar held by value is spelled `bool`: for a *named* bool type the emitter produces a
six-way comparison (`>` on bool) that the Go compiler rejects (C14 class `named-scalar`); behind a pointer
only the nil comparison is emitted, which compiles. -/
def boolSpelled (i : Info) : Bool := i.typu != "bool" || i.typn == "bool" || i.ptr

mutual
/-- Conditions every tree with a *compiling* inspector meets (consequences of `uncompilable = none`,
Gen/Select.lean): bool scalars are spelled `bool`, and `[]byte` never is a map value or a slice element
(C14 class `bytes-element`). The compare/length theorems assume it; the driver evaluates it on every op
whose theorem does. -/
def EmitOK : Node → Bool
  | .basic i => boolSpelled i
  | .struct _ chld => EmitOKs chld
  | .map _ k v => EmitOK k && EmitOK v && !v.isBytes
  | .slice i e => i.typn == "[]byte" || (EmitOK e && !e.isBytes)
def EmitOKs : List Node → Bool
  | [] => true
  | n :: ns => EmitOK n && EmitOKs ns
end

/-- The root of an inspector is a named struct, map or slice type held by value. -/
def RootOK (n : Node) : Bool := !n.ptr && !n.isLeaf

end Inspector
