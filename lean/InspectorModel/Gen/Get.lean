/-
Gen/Get.lean — behavioural model of the code `writeNode` (compiler.go:668-978) emits in get mode and of
the GetTo header (compiler.go:379-384), mirrored branch for branch, defects included.
One path segment is consumed per recursion level; recursion is structural in the path.
-/
import InspectorModel.Core.Lookup
namespace Inspector

/-- Control flow of the emitted function body: `*buf` so far, and whether `return` was executed. -/
inductive Flow
  | ret (b : Option Res)
  | cont (b : Option Res)
  | err
  | panic
deriving Inhabited

/-- Variant switch for the repaired emitter (fix: container fall-through only when the path ends here). -/
structure GenCfg where
  /-- `true`: the fall-through assignment runs whenever control reaches it (the original emitter). -/
  fallThroughAlways : Bool := false   -- repaired in /repo (fix: Get handed out the enclosing container …)
  /-- `true` (original emitter): the slice index test `len(s) > i` has no lower bound, so a negative
      index reaches `s[i]` and panics (get, compare, set, length, capacity). -/
  negIndexPanics : Bool := false   -- repaired in /repo (fix: negative slice index …)
  /-- `true` (original emitter): in compare mode the `right == "nil"` interception of a pointer-typed
      struct field runs although the path continues below that field. -/
  nilInterceptAnyDepth : Bool := false   -- repaired in /repo (fix: Compare with "nil" below a pointer field …)
  /-- `true` (original emitter): for a pointer-typed map value / slice element the nil guard
      (compiler.go:677-680) runs before the `right == "nil"` test, and no such test is emitted at all for
      pointer-to-struct/collection elements: `Compare(==, "nil")` on such an element leaves the result untouched. -/
  elemNilCmpMissing : Bool := false   -- repaired in /repo (fix: Compare("nil") on a pointer-typed map value or slice element)
  /-- `true` (original emitter): Length/Capacity of a root map/slice type on the empty path report 0
      (`if len(path) == 0 { return nil }` precedes the branch that would report the root's own len). -/
  lcRootZero : Bool := false   -- repaired in /repo (fix: Length/Capacity of a root map or slice type)
  /-- `true` (original emitter): Length/Capacity of a slice whose element type has no `hasc`
      (a slice of scalars) report 0 — the emitter returns before emitting anything. -/
  lcScalarSliceZero : Bool := false   -- repaired in /repo (fix: Length/Capacity of a slice of scalars)
  /-- `true` (original emitter): Length/Capacity on a path that stops on a nested struct index
      `path[d]` without a length test and panic. -/
  lcStructStopPanics : Bool := false   -- repaired in /repo (fix: Length/Capacity on a path that stops on a nested struct)
  /-- `true` (original emitter): for a map value / slice element that is itself a struct, map or slice,
      `if len(path) < d+2 { return nil }` returns before the element's own `len(path) == d+1` branch:
      Length/Capacity of a collection held in a map or slice store 0. -/
  lcElemStopZero : Bool := false   -- repaired in /repo (fix: Length/Capacity of a collection held in a map or slice)
  /-- `true` (original emitter): in DeepEqual the nil test emitted for a pointer-to-scalar (or `*[]byte`)
      struct field looks at the parent's variables: nil-ness of such fields is never compared and a nil
      field is dereferenced (panic). -/
  deqPtrLeafNilUnchecked : Bool := false   -- repaired in /repo (fix: DeepEqual tests the nil-ness of pointer-to-scalar fields on the field)
  /-- `true` (original emitter): the nil-ness test of a pointer-typed struct field is emitted before
      (outside) the `DEQMustCheck` wrapper, so an excluded / unlisted field still decides the result
      through its nil-ness. -/
  deqNilBeforeMustCheck : Bool := false   -- repaired in /repo (fix: DeepEqualWithOptions lets an excluded pointer field differ in nil-ness)
  /-- `true` (original emitter): copying a root slice type assigns the grown slice to the local
      pointer variable (`l = &buf0`), so the destination stays as it was (Copy returns an empty slice). -/
  copyRootSliceLost : Bool := false   -- repaired in /repo (fix: Copy/CopyTo of a root slice type left the destination unchanged)
  /-- `true` (original emitter): copying a non-empty root map type into a nil map stores into the nil map
      (`if l == nil` tests the root pointer, not the map). -/
  copyRootMapPanics : Bool := false   -- repaired in /repo (fix: Copy of a non-empty root map type stored into a nil map)
  /-- `true` (original emitter): pointer-to-scalar fields/elements/map values (`l = r`) and pointer map
      keys are copied as pointers: the copy shares their targets with the source. -/
  copyPtrShared : Bool := false   -- repaired in /repo (fix: Copy shared the targets of pointer-to-scalar fields, elements, map values and keys)
  /-- `true` (original emitter): a nil pointer-to-struct slice element or map value is dereferenced. -/
  copyNilElemPanics : Bool := false   -- repaired in /repo (fix: Copy dereferenced a nil pointer-to-struct slice element or map value)
  /-- `true` (original emitter): `*string` fields, and `*[]byte` / `*[]T` / `*map` fields whose destination
      pointer (or inner map) is nil, are written through without allocation (nil dereference). -/
  copyNilDestPanics : Bool := false   -- repaired in /repo (fix: Copy wrote through nil destination pointers)
  /-- `true` (original emitter): Reset dereferences nil pointer-to-scalar fields and nil pointer
      elements of slices. -/
  resetNilPtrPanics : Bool := false   -- repaired in /repo (fix: Reset dereferenced nil pointers)
  /-- `true` (original emitter): a non-nil pointer to an *empty* map or slice is not copied at all
      (`if len(*r) > 0 {` wraps the allocation): the copy holds a nil pointer where the source does not. -/
  copyEmptyPtrCollDropped : Bool := false   -- repaired in /repo (fix: Copy dropped a non-nil pointer to an empty map or slice)
  /-- `true` (original library): without a buffer AssignToStr renders a scalar *behind* the old content
      of the destination string (`Assign(&"abc", 5)` yields "abc5"). -/
  strAppendsOld : Bool := false   -- repaired in /repo (fix: AssignToStr without a buffer …)
  /-- `true` (original emitter): in set mode the leaf assignment of a field
      of a struct held by value in a map is followed by `return nil` before the write-back
      (`s[i] = x`, `m[k] = x`): the update is made to a local copy and lost. -/
  setLostUpdate : Bool := false   -- repaired in /repo (fix: Set below a struct or map held by value in a map was lost)
  /-- `true` (original emitter): in set mode the leaf assignment of an element of a slice of scalars is
      followed by `return nil` before the write-back `s[i] = x` (unreachable code): the update is lost.
      (Split off `setLostUpdate` when it was repaired.) -/
  setScalarElemLost : Bool := false   -- repaired in /repo (fix: Set on an element of a slice of scalars was lost)
  /-- `true` (original emitter): set mode stores into a nil map when the map is the root value or a
      map held as a map value (no auto-creation there): `assignment to entry in nil map`. -/
  setNilMapStorePanics : Bool := false   -- repaired in /repo (fix: Set stored into a nil map)
  /-- `true` (original emitter): set mode hands a nil pointer-to-scalar (or nil `*[]byte`) field to
      AssignBuf as the destination, which writes through it. -/
  setNilLeafPtrPanics : Bool := false   -- repaired in /repo (fix: Assign/AssignBuf dereferenced a nil destination pointer)
  /-- `true` (original emitter): Loop on a root *map* type returns at once for the empty path
      (only root slices are exempted from `if len(path) == 0 { return }`). -/
  loopRootMapSkipped : Bool := false   -- repaired in /repo (fix: Loop over a root map type …)
  /-- `true` (original emitter): a typed-nil root (`(*T)(nil)`, a `**T` whose target is nil, a nil `**T`)
      is dereferenced by every method; DeepEqual tests typed-nil `*T` roots itself (`lx == nil`) but
      dereferences a nil `**T` in its header (`lx, leq = *lp, true`). -/
  nilRootPanics : Bool := false   -- repaired in /repo (fix: typed-nil roots …)
  /-- `true` (original library): Assign/AssignBuf (hence Set) dereference a nil pointer passed as the
      source value (`*src.(*int)` in every arm of the type switches). -/
  assignNilSrcPanics : Bool := false   -- repaired in /repo (fix: Assign/AssignBuf dereferenced a nil pointer source)
  /-- `true` (original emitter): Loop renders a pointer-typed map key with `*k` without a nil test, so a nil
      pointer key panics when the iterator asks for keys (compiler.go:785-800). Repaired: the key text of a
      nil pointer key stays empty. -/
  loopNilKeyPanics : Bool := false   -- repaired in /repo (fix: Loop dereferenced a nil pointer map key)
deriving Repr, Inhabited

/-- The configuration that mirrors the tree as it is (flags flip when a `fix:` commit lands). -/
def GenCfg.repo : GenCfg := {}
/-- The tree as it was at the pinned commit (1c76ae3), before the `fix:` commits in /repo. -/
def GenCfg.original : GenCfg := { GenCfg.repo with strAppendsOld := true, negIndexPanics := true, loopRootMapSkipped := true, loopNilKeyPanics := true, nilRootPanics := true, resetNilPtrPanics := true, fallThroughAlways := true, nilInterceptAnyDepth := true, assignNilSrcPanics := true, lcStructStopPanics := true, lcElemStopZero := true, lcRootZero := true, lcScalarSliceZero := true, elemNilCmpMissing := true, deqPtrLeafNilUnchecked := true, deqNilBeforeMustCheck := true, setNilLeafPtrPanics := true, setNilMapStorePanics := true, copyRootSliceLost := true, copyRootMapPanics := true, copyPtrShared := true, copyNilElemPanics := true, copyNilDestPanics := true, copyEmptyPtrCollDropped := true, setScalarElemLost := true, setLostUpdate := true }
/-- Every listed defect repaired: the configuration the property theorems are proved for. -/
def GenCfg.fixed : GenCfg where
  fallThroughAlways := false
  negIndexPanics := false
  nilInterceptAnyDepth := false
  elemNilCmpMissing := false
  lcRootZero := false
  lcScalarSliceZero := false
  lcStructStopPanics := false
  lcElemStopZero := false
  deqPtrLeafNilUnchecked := false
  deqNilBeforeMustCheck := false
  copyRootSliceLost := false
  copyRootMapPanics := false
  copyPtrShared := false
  copyNilElemPanics := false
  copyNilDestPanics := false
  resetNilPtrPanics := false
  copyEmptyPtrCollDropped := false
  strAppendsOld := false
  setLostUpdate := false
  setScalarElemLost := false
  setNilMapStorePanics := false
  setNilLeafPtrPanics := false
  loopRootMapSkipped := false
  nilRootPanics := false
  assignNilSrcPanics := false
  loopNilKeyPanics := false

/-- After the nested block of a non-basic node: the "special case to take value by pointer"
(compiler.go:964-975). Not emitted for the root (`v != "x"`). -/
def getFallThrough (cfg : GenCfg) (n : Node) (root : Bool) (v : Val) (pathEndsHere : Bool) (b : Option Res) : Flow :=
  if root then .cont b
  else if cfg.fallThroughAlways then .cont (some ⟨n, v⟩)
  else if pathEndsHere then .ret (some ⟨n, v⟩) else .cont b

/-- The target of a pointer-typed node value, or the value itself. -/
def derefIf (isPtr : Bool) (v : Val) : Val :=
  if isPtr then (match v with | .ptr w => w | w => w) else v

def getN (cfg : GenCfg) (n : Node) (root : Bool) (v : Val) (p : List Seg) (buf : Option Res) : Flow :=
  match p with
  | [] =>
    match n with
    | .basic i => if i.ptr && v.isNilPtr then .ret buf else .ret (some ⟨n, v⟩)
    | _ => getFallThrough cfg n root v true buf
  | s :: rest =>
    match n with
    | .basic i => if i.ptr && v.isNilPtr then .ret buf else .ret (some ⟨n, v⟩)
    | .struct i chld =>
      if i.ptr && v.isNilPtr then .ret buf else
      match derefIf i.ptr v with
      | .struct fs =>
        match findField chld fs s.text with
        | none => getFallThrough cfg n root v false buf
        | some (ch, fv) =>
          if ch.isLeaf then .ret (some ⟨ch, fv⟩)
          else
            match getN cfg ch false fv rest buf with
            | .cont b => .ret b
            | f => f
      | _ => .panic
    | .map i k mv =>
      -- root maps are treated as pointers: `if x == nil { return }` on the (non-nil) root pointer
      if i.ptr && v.isNilPtr then .ret buf else
      match derefIf i.ptr v with
      | .map _ ks vs =>
        let nested (x : Val) : Flow :=
          match getN cfg mv false x rest buf with
          | .cont b => getFallThrough cfg n root v false b
          | f => f
        if k.typn == "string" then
          if k.ptr then getFallThrough cfg n root v false buf   -- `m[&path[d]]`: a fresh pointer never is a key
          else
            match lookupKey ks vs (.str s.text) with
            | some x => nested x
            | none => getFallThrough cfg n root v false buf
        else
          match convSeg k.typn k.typu s with
          | none => .panic
          | some .err => .err
          | some .opaque => nested (zeroVal mv)
          | some (.ok key) =>
            if k.ptr then nested (zeroVal mv)
            else
              match lookupKey ks vs key with
              | some x => nested x
              | none => nested (zeroVal mv)
      | _ => .panic
    | .slice i e =>
      if i.typn == "[]byte" then
        if i.ptr && v.isNilPtr then .ret buf else .ret (some ⟨n, v⟩)
      else
      if i.ptr && v.isNilPtr then .ret buf else
      match derefIf i.ptr v with
      | .slice _ es _ =>
        match s.pi with
        | none => .err
        | some idx =>
          if (es.length : Int) > idx then
            if idx < 0 then (if cfg.negIndexPanics then .panic else getFallThrough cfg n root v false buf)
            else
              match nth? es idx.toNat with
              | some x =>
                match getN cfg e false x rest buf with
                | .cont b => getFallThrough cfg n root v false b
                | f => f
              | none => .panic
          else getFallThrough cfg n root v false buf
      | _ => .panic

/-- How a value reaches an inspector through `any` (compiler.go:367-410). -/
inductive Form
  | val | ptr | ptrptr
  | nilPtr      -- (*T)(nil)
  | ptrNilPtr   -- **T whose target is a nil *T
  | nilPtrPtr   -- (**T)(nil)
  | untypedNil
  | foreign
deriving Repr, DecidableEq, Inhabited

/-- What the emitted argument-form switch leaves in `x`. -/
inductive RootX
  | ok          -- x points to the value
  | nilX        -- x == nil (typed-nil root)
  | early       -- `src == nil` or a foreign type: early return
  | panic       -- `x = *p` with p == nil
deriving Repr, DecidableEq, Inhabited

def rootOf : Form → RootX
  | .val | .ptr | .ptrptr => .ok
  | .nilPtr | .ptrNilPtr => .nilX
  | .nilPtrPtr => .panic
  | .untypedNil | .foreign => .early

/-- `rootOf` under a configuration: the repaired emitter refuses a typed-nil root like a foreign argument. -/
def rootOfC (cfg : GenCfg) (f : Form) : RootX :=
  match rootOf f with
  | .nilX | .panic => if cfg.nilRootPanics then rootOf f else .early
  | x => x

def flowOut : Flow → GetOut
  | .ret (some r) | .cont (some r) => r.out
  | .ret none | .cont none => .none
  | .err => .err
  | .panic => .panic

/-- GetTo (and Get, which only forwards to it). -/
def getM (cfg : GenCfg) (n : Node) (f : Form) (v : Val) (p : List Seg) : GetOut :=
  match rootOfC cfg f with
  | .early => .none
  | .panic => .panic
  | .nilX =>
    match p with
    | [] => .panic                         -- `*buf = &(*x)` with x == nil
    | s :: _ =>
      match n with
      | .map _ _ _ => .none                -- root maps are nil-checked
      | .struct _ chld =>                  -- `&x.F` / `x.F` is evaluated only in the arm of a matching name
        if chld.any (fun c => strBytes c.name == s.text) then .panic else .none
      | .slice _ _ => (match s.pi with | none => .err | some _ => .panic)   -- `len(*x)` after the index parse
      | .basic _ => .panic
  | .ok =>
    match p with
    | [] => (Res.mk n v).out
    | _ => flowOut (getN cfg n true v p none)

end Inspector
