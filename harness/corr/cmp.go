package corr

import (
	"fmt"
	"math"
	"reflect"
	"strconv"

	"github.com/koykov/inspector"
)

func callCmp(ins inspector.Inspector, arg any, op int, right string, init bool, path []string) (res bool, out string) {
	defer func() {
		if r := recover(); r != nil {
			out = "panic"
		}
	}()
	res = init
	if err := ins.Compare(arg, inspector.Op(op), right, &res, path...); err != nil {
		return res, "err"
	}
	return res, "ok"
}

// OpCmp emits one `C` record. Compare is run twice, with *result preset to false and to true, which
// tells "left untouched" from "set".
func OpCmp(o *Out, e *TypeEntry, v reflect.Value, f Form, path []string, op int, right string) {
	vtok := Ser(v)
	arg0, root0 := MakeArg(e.Type, DeepCopy(v), f)
	r0, s0 := callCmp(e.Ins, arg0, op, right, false, path)
	arg1, root1 := MakeArg(e.Type, DeepCopy(v), f)
	r1, s1 := callCmp(e.Ins, arg1, op, right, true, path)
	out := ""
	switch {
	case s0 == "panic" || s1 == "panic":
		out = "panic"
	case s0 == "err" && s1 == "err":
		out = "err"
	case s0 != s1:
		out = "nondet"
	case !r0 && r1:
		out = "untouched"
	case r0 == r1:
		out = "set" + b01(r0)
	default:
		out = "nondet"
	}
	mut := "0"
	if Ser(root0()) != vtok || Ser(root1()) != vtok {
		mut = "1"
	}
	vid := o.DeclareVal(e, vtok)
	o.Op("C " + e.Tid + " " + string(f) + " " + vid + " | " + PathToks(path) + " | " + strconv.Itoa(op) + " " + SegTok(right) + " | " + mut + " " + out)
}

// setFloatAt stores f into the non-pointer float element that path denotes in the settable value v (struct fields
// by name, slice elements by decimal index, map entries by the %v text of integer / string / bool keys, through
// non-nil pointers on the way); false when the path does not end on such an element.
func setFloatAt(v reflect.Value, path []string, f float64) bool {
	if len(path) == 0 {
		if (v.Kind() == reflect.Float32 || v.Kind() == reflect.Float64) && v.CanSet() {
			v.SetFloat(f)
			return true
		}
		return false
	}
	for v.Kind() == reflect.Ptr {
		if v.IsNil() {
			return false
		}
		v = v.Elem()
	}
	switch v.Kind() {
	case reflect.Struct:
		fv := v.FieldByName(path[0])
		if !fv.IsValid() {
			return false
		}
		return setFloatAt(fv, path[1:], f)
	case reflect.Slice:
		idx, err := strconv.Atoi(path[0])
		if err != nil || idx < 0 || idx >= v.Len() {
			return false
		}
		return setFloatAt(v.Index(idx), path[1:], f)
	case reflect.Map:
		switch v.Type().Key().Kind() {
		case reflect.Float32, reflect.Float64, reflect.Ptr, reflect.Slice, reflect.Array, reflect.Struct, reflect.Interface:
			return false
		}
		for _, k := range v.MapKeys() {
			if fmt.Sprintf("%v", k.Interface()) != path[0] {
				continue
			}
			c := reflect.New(v.Type().Elem()).Elem()
			c.Set(v.MapIndex(k))
			if setFloatAt(c, path[1:], f) {
				v.SetMapIndex(k, c)
				return true
			}
			return false
		}
	}
	return false
}

// OpCmpSpecial emits `FC` records: Compare on the non-pointer float element at path, holding NaN, +Inf or -Inf, for
// every operator and a handful of operand texts (class of the operand from the real ParseFloat). Nothing is
// emitted when the path does not end on such an element.
func OpCmpSpecial(o *Out, e *TypeEntry, v reflect.Value, path []string) {
	for _, l := range []float64{math.NaN(), math.Inf(1), math.Inf(-1)} {
		p := reflect.New(e.Type)
		p.Elem().Set(DeepCopy(v))
		if !setFloatAt(p.Elem(), path, l) {
			return
		}
		for _, right := range []string{"NaN", "Inf", "-Inf", "1.5", "x"} {
			rc := "err"
			if rv, err := strconv.ParseFloat(right, 64); err == nil {
				rc = fclass(rv)
			}
			for op := 0; op <= 7; op++ {
				r0, s0 := callCmp(e.Ins, p.Interface(), op, right, false, path)
				r1, s1 := callCmp(e.Ins, p.Interface(), op, right, true, path)
				out := "nondet"
				switch {
				case s0 == "panic" || s1 == "panic":
					out = "panic"
				case s0 == "err" && s1 == "err":
					out = "err"
				case s0 == "ok" && s1 == "ok" && !r0 && r1:
					out = "untouched"
				case s0 == "ok" && s1 == "ok" && r0 == r1:
					out = "set" + b01(r0)
				}
				o.Op("FC " + e.Tid + " | " + strconv.Itoa(op) + " " + fclass(l) + " " + rc + " | " + out)
				o.Count("special-float-element")
			}
		}
	}
}
