/-
Proofs/C16.lean — helper lemmas for C16: the repaired StaticInspector model (`LibCfg.fixed`) against
Spec/StaticSpec.lean.
-/
import InspectorModel.Proofs.C04
import InspectorModel.Proofs.C19
import InspectorModel.Spec.StaticSpec
set_option linter.unusedSimpArgs false
set_option linter.unusedVariables false
namespace Inspector

/-! ### Compare -/

/-- The six-way helper computes the native comparison on ordered scalars. -/
theorem staticCmpSix_native (op : Op) (l r : Val) (b lt gt : Bool) (h : nativeCmp op l r = some b)
    (hlt : valLt l r = some lt) (hgt : valLt r l = some gt) : staticCmpSix op l r = b := by
  unfold nativeCmp at h
  cases he : valEq l r with
  | none => simp [he] at h
  | some eq =>
    obtain ⟨t1, t2⟩ := val_tri l r eq lt gt he hlt hgt
    simp only [he, hlt, hgt] at h
    unfold staticCmpSix staticCmpSix.nativeCmpRaw
    simp only [he, hlt, hgt]
    by_cases h1 : (op == 1) = true
    · simp only [h1, if_true] at h ⊢; injection h
    · simp only [h1, if_false, Bool.false_eq_true] at h ⊢
      by_cases h2 : (op == 2) = true
      · simp only [h2, if_true] at h ⊢; injection h
      · simp only [h2, if_false, Bool.false_eq_true] at h ⊢
        by_cases h3 : (op == 3) = true
        · simp only [h3, if_true] at h ⊢; injection h
        · simp only [h3, if_false, Bool.false_eq_true] at h ⊢
          by_cases h4 : (op == 4) = true
          · simp only [h4, if_true] at h ⊢; injection h with h; rw [← h, t1]
          · simp only [h4, if_false, Bool.false_eq_true] at h ⊢
            by_cases h5 : (op == 5) = true
            · simp only [h5, if_true] at h ⊢; injection h
            · simp only [h5, if_false, Bool.false_eq_true] at h ⊢
              by_cases h6 : (op == 6) = true
              · simp only [h6, if_true] at h ⊢; injection h with h; rw [← h, t2]
              · simp only [h6, if_false, Bool.false_eq_true] at h ⊢
                cases h

/-- The two-way helper computes `==` / `!=`. -/
theorem staticCmpTwo_native (op : Op) (l r : Val) (b : Bool) (h : nativeCmp op l r = some b)
    (hop : (op == 1 || op == 2) = true) : staticCmpTwo op l r = b := by
  unfold nativeCmp at h
  unfold staticCmpTwo
  cases he : valEq l r with
  | none => simp [he] at h
  | some eq =>
    simp only [he] at h ⊢
    by_cases h1 : (op == 1) = true
    · simp only [h1, if_true] at h ⊢; injection h
    · simp only [h1, if_false, Bool.false_eq_true] at h ⊢
      have h2 : (op == 2) = true := by simpa [h1] using hop
      simp only [h2, if_true] at h ⊢; injection h

theorem CmpOut.set_beq (a b : Bool) : (CmpOut.set a == CmpOut.set b) = (a == b) := by
  cases a <;> cases b <;> rfl

theorem cmp_signed (k : DynKind) (hk : k.family = .signed) (ip : Bool) (v : Val) (ft : Bytes) (pf : PF) (op : Op) (right : Seg) :
    staticCmpAccepts ⟨k, ip, v, ft, pf⟩ op right (staticCmp LibCfg.fixed ⟨k, ip, v, ft, pf⟩ op right) = true := by
  obtain ⟨rt, rpi, rpu, rpf, rpb⟩ := right
  unfold staticCmpAccepts staticCmp
  cases k <;> simp [DynKind.family] at hk
  all_goals
    cases rpi <;> cases v <;>
      simp [LibCfg.fixed, DynKind.family, Val.isNilPtr, elemText]
  all_goals
    intro _ _
    generalize hn : nativeCmp op _ _ = nc
    cases nc with
    | none => simp
    | some b =>
      first
      | simp [CmpOut.set_beq, staticCmpSix_native _ _ _ _ _ _ hn rfl rfl]
      | (simp [nativeCmp, valEq] at hn; done)

theorem cmp_unsigned (k : DynKind) (hk : k.family = .unsigned) (ip : Bool) (v : Val) (ft : Bytes) (pf : PF) (op : Op) (right : Seg) :
    staticCmpAccepts ⟨k, ip, v, ft, pf⟩ op right (staticCmp LibCfg.fixed ⟨k, ip, v, ft, pf⟩ op right) = true := by
  obtain ⟨rt, rpi, rpu, rpf, rpb⟩ := right
  unfold staticCmpAccepts staticCmp
  cases k <;> simp [DynKind.family] at hk
  all_goals
    cases rpu <;> cases v <;>
      simp [LibCfg.fixed, DynKind.family, Val.isNilPtr, elemText]
  all_goals
    intro _ _
    generalize hn : nativeCmp op _ _ = nc
    cases nc with
    | none => simp
    | some b =>
      first
      | simp [CmpOut.set_beq, staticCmpSix_native _ _ _ _ _ _ hn rfl rfl]
      | (simp [nativeCmp, valEq] at hn; done)

theorem cmp_float (k : DynKind) (hk : k.family = .float) (ip : Bool) (v : Val) (ft : Bytes) (pf : PF) (op : Op) (right : Seg) :
    staticCmpAccepts ⟨k, ip, v, ft, pf⟩ op right (staticCmp LibCfg.fixed ⟨k, ip, v, ft, pf⟩ op right) = true := by
  obtain ⟨rt, rpi, rpu, rpf, rpb⟩ := right
  unfold staticCmpAccepts staticCmp
  cases k <;> simp [DynKind.family] at hk
  all_goals
    cases rpf <;> cases v <;>
      simp [LibCfg.fixed, DynKind.family, Val.isNilPtr, elemText]
  all_goals
    intro _ _
    generalize hn : nativeCmp op _ _ = nc
    cases nc with
    | none => simp
    | some b =>
      first
      | simp [CmpOut.set_beq, staticCmpSix_native _ _ _ _ _ _ hn rfl rfl]
      | (simp [nativeCmp, valEq] at hn; done)

theorem cmp_bool (ip : Bool) (v : Val) (ft : Bytes) (pf : PF) (op : Op) (right : Seg) :
    staticCmpAccepts ⟨.bool, ip, v, ft, pf⟩ op right (staticCmp LibCfg.fixed ⟨.bool, ip, v, ft, pf⟩ op right) = true := by
  obtain ⟨rt, rpi, rpu, rpf, rpb⟩ := right
  unfold staticCmpAccepts staticCmp
  cases rpb <;> cases v <;>
      simp [LibCfg.fixed, DynKind.family, Val.isNilPtr, elemText]
  all_goals
    intro hop
    have hop' : (op == 1 || op == 2) = true := by
      by_cases h1 : op = 1
      · simp [h1]
      · simp [hop h1]
    generalize hn : nativeCmp op _ _ = nc
    cases nc with
    | none => simp
    | some b => simp [CmpOut.set_beq, staticCmpTwo_native _ _ _ _ hn hop']

theorem cmp_bytes (ip : Bool) (v : Val) (ft : Bytes) (pf : PF) (op : Op) (right : Seg) :
    staticCmpAccepts ⟨.bytes, ip, v, ft, pf⟩ op right (staticCmp LibCfg.fixed ⟨.bytes, ip, v, ft, pf⟩ op right) = true := by
  obtain ⟨rt, rpi, rpu, rpf, rpb⟩ := right
  unfold staticCmpAccepts staticCmp
  cases v <;>
      simp [LibCfg.fixed, DynKind.family, Val.isNilPtr, elemText]
  all_goals
    intro hop
    have hop' : (op == 1 || op == 2) = true := by
      by_cases h1 : op = 1
      · simp [h1]
      · simp [hop h1]
    generalize hn : nativeCmp op _ _ = nc
    cases nc with
    | none => simp
    | some b => simp [CmpOut.set_beq, staticCmpTwo_native _ _ _ _ hn hop']

theorem cmp_string (ip : Bool) (v : Val) (ft : Bytes) (pf : PF) (op : Op) (right : Seg) :
    staticCmpAccepts ⟨.string, ip, v, ft, pf⟩ op right (staticCmp LibCfg.fixed ⟨.string, ip, v, ft, pf⟩ op right) = true := by
  obtain ⟨rt, rpi, rpu, rpf, rpb⟩ := right
  unfold staticCmpAccepts staticCmp
  cases v <;>
      simp [LibCfg.fixed, DynKind.family, Val.isNilPtr, elemText]
  all_goals
    intro _ _
    generalize hn : nativeCmp op _ _ = nc
    cases nc with
    | none => simp
    | some b => simp [CmpOut.set_beq, staticCmpSix_native _ _ _ _ _ _ hn rfl rfl]

/-- Compare of the repaired static inspector is the native comparison with the operand parsed for the kind. -/
theorem staticCmp_correct (s : Src) (op : Op) (right : Seg) :
    staticCmpAccepts s op right (staticCmp LibCfg.fixed s op right) = true := by
  obtain ⟨k, ip, v, ft, pf⟩ := s
  cases hk : k.family with
  | signed => exact cmp_signed k hk ip v ft pf op right
  | unsigned => exact cmp_unsigned k hk ip v ft pf op right
  | float => exact cmp_float k hk ip v ft pf op right
  | bool =>
    have : k = .bool := by cases k <;> simp [DynKind.family] at hk; rfl
    subst this; exact cmp_bool ip v ft pf op right
  | text =>
    cases k <;> simp [DynKind.family] at hk
    · exact cmp_string ip v ft pf op right
    · exact cmp_bytes ip v ft pf op right
  | foreign =>
    have : k = .foreign := (family_foreign k).1 hk
    subst this
    simp [staticCmpAccepts, staticCmp]

/-! ### Length / Capacity -/

theorem textSrcTyped_of_wt (s : Src) (h : s.wt = true) : textSrcTyped s = true := by
  obtain ⟨k, ip, v, ft, pf⟩ := s
  cases k <;> cases v <;> simp [Src.wt, textSrcTyped, DynKind.family] at h ⊢

theorem staticLc_correct (isCap : Bool) (s : Src) (h : textSrcTyped s = true) :
    staticLcAccepts isCap s (staticLc LibCfg.fixed isCap s) = true := by
  obtain ⟨k, ip, v, ft, pf⟩ := s
  cases k <;> cases v <;> simp [textSrcTyped] at h <;>
    simp [staticLcAccepts, staticLc, LibCfg.fixed, DynKind.family, Val.isNilPtr]
  all_goals cases isCap <;> simp

/-! ### Copy / CopyTo / Reset -/

theorem staticCopy_correct (s : Src) : staticCopyAccepts s (sobsOf (staticCopy LibCfg.fixed s)) = true := by
  obtain ⟨k, ip, v, ft, pf⟩ := s
  cases k <;> cases v <;>
    simp [staticCopyAccepts, staticCopy, sobsOf, LibCfg.fixed, Val.isNilPtr, valContentEq_refl, DynKind.name]

theorem staticCopyTo_correct (s : Src) (dkind : DynKind) (dk dform : String) (hd : dformOK dform = true) :
    staticCopyToAccepts s dkind dform (staticCopyToObs LibCfg.fixed s dkind dk dform) = true := by
  obtain ⟨k, ip, v, ft, pf⟩ := s
  simp only [dformOK, Bool.or_eq_true, beq_iff_eq] at hd
  by_cases hkf : k = .foreign
  · subst hkf
    simp [staticCopyToAccepts, staticCopyToObs, staticCopyTo, sobsOf]
  have hkf' : (k == DynKind.foreign) = false := by simpa using hkf
  by_cases hkk : dkind = k
  · subst hkk
    rcases hd with (hd | hd) | hd <;> subst hd <;> cases v <;>
      simp [staticCopyToAccepts, staticCopyToObs, staticCopyTo, sobsOf, LibCfg.fixed, Val.isNilPtr, hkf', valContentEq_refl]
  · have hkk' : (dkind == k) = false := by simpa using hkk
    rcases hd with (hd | hd) | hd <;> subst hd <;> cases v <;>
      simp [staticCopyToAccepts, staticCopyToObs, staticCopyTo, sobsOf, LibCfg.fixed, Val.isNilPtr, hkf', hkk', valContentEq_refl]

theorem staticReset_correct (s : Src) : staticResetAccepts s (staticResetObs LibCfg.fixed s) = true := by
  obtain ⟨k, ip, v, ft, pf⟩ := s
  cases ip <;> cases k <;> cases v <;>
    simp [staticResetAccepts, staticResetObs, staticReset, LibCfg.fixed, Val.isNilPtr, DynKind.family, isEmptyV]

/-! ### DeepEqual -/

theorem natAbs_sub_comm (a b : Int) : (a - b).natAbs = (b - a).natAbs := by omega

/-- `some true ↦ t`, everything else `f`. -/
def eqT (o : Option Bool) : SDeq := if o = some true then .t else .f

/-- Two floats within the tolerance. -/
def tolT : Val → Val → SDeq
  | .float x, .float y => if (x - y).natAbs ≤ 1048 then .t else .f
  | _, _ => .f

theorem valEq_symm (a b : Val) : valEq a b = valEq b a := by
  cases a <;> cases b <;> simp [valEq, BEq.comm]

theorem tolT_symm (a b : Val) : tolT a b = tolT b a := by
  cases a <;> cases b <;> simp [tolT]
  rw [natAbs_sub_comm]

theorem crossNumericEq_symm (l r : Src) : crossNumericEq l r = crossNumericEq r l := by
  obtain ⟨lk, lip, lv, lft, lpf⟩ := l
  obtain ⟨rk, rip, rv, rft, rpf⟩ := r
  simp only [crossNumericEq]
  generalize (lk.family == Family.signed || lk.family == Family.unsigned) = A
  generalize (rk.family == Family.signed || rk.family == Family.unsigned) = D
  generalize (rk.family == Family.float) = B
  generalize (lk.family == Family.float) = C
  have hc : (A && B || C && D) = (D && C || B && A) := by
    cases A <;> cases B <;> cases C <;> cases D <;> rfl
  rw [hc]
  cases (D && C || B && A)
  · rfl
  · cases lv <;> cases rv <;> simp [natAbs_sub_comm]

/-! #### the model's DeepEqual in named pieces (unfolding lemmas by `rfl`) -/

/-- Float view of a numeric value (`asFx` of `crossNumericEq`). -/
def asFx : Val → Option Int
  | .int i => some (fxOfInt i) | .uint n => some (fxOfInt n) | .float f => some f | _ => none

def crossOf : Option Int → Option Int → Option Bool
  | some a, some b => some (decide ((a - b).natAbs ≤ 1048))
  | _, _ => none

def isIntFam (f : Family) : Bool := f == .signed || f == .unsigned

def crossCond (lf rf : Family) : Bool := (isIntFam lf && rf == .float) || (lf == .float && isIntFam rf)

theorem crossNumericEq_eq (l r : Src) :
    crossNumericEq l r = if crossCond l.kind.family r.kind.family then crossOf (asFx l.v) (asFx r.v) else none := rfl

/-- The dereferenced left operand against the converted right operand. -/
def sdeqVals (lf : Family) (lv rv : Val) : SDeq :=
  match lf with
  | .float =>
    (match lv, rv with
     | .float a, .float b => if decide ((a - b).natAbs ≤ 1048) then .t else .f
     | _, _ => .f)
  | .text => if elemText lv == elemText rv then .t else .f
  | _ => (match valEq lv rv with | some true => .t | _ => .f)

def sdeqInd (cfg : LibCfg) (l : Src) : IndR → SDeq
  | .panic => if cfg.staticNilPtrPanics then .panic else .f
  | .diverge => .diverge
  | .none => .f
  | .val rv => if l.v.isNilPtr then (if cfg.staticNilPtrPanics then .panic else .f) else sdeqVals l.kind.family l.v rv

theorem staticDeq_eq (cfg : LibCfg) (l r : Src) :
    staticDeq cfg l r =
      if l.kind == .foreign then .f else
      if !cfg.staticDeqAsymmetric && !l.v.isNilPtr && !r.v.isNilPtr && (crossNumericEq l r).isSome then
        (if (crossNumericEq l r).getD false then .t else .f)
      else sdeqInd cfg l (indFor cfg l.kind.family r) := rfl

/-! #### what `indFor` yields for the repaired configuration, by pair of families -/

theorem indFor_same (lf : Family) (r : Src) (hr : r.v.isNilPtr = false) (hrf : r.kind.family = lf)
    (h : lf = .bool ∨ lf = .signed ∨ lf = .unsigned ∨ lf = .float) :
    indFor LibCfg.fixed lf r = .val r.v := by
  obtain ⟨rk, rip, rv, rft, rpf⟩ := r
  simp only at hr hrf
  simp only [indFor, kind_beq_foreign, hrf]
  rcases h with h | h | h | h <;> subst h <;> simp <;> cases rv <;> simp [Val.isNilPtr] at hr ⊢

theorem indFor_text (r : Src) (hr : r.v.isNilPtr = false) (hrf : r.kind.family = .text) :
    indFor LibCfg.fixed .text r = .val (.str (elemText r.v)) := by
  obtain ⟨rk, rip, rv, rft, rpf⟩ := r
  simp only at hr hrf
  simp only [indFor, kind_beq_foreign, hrf]
  simp
  cases rv <;> simp [Val.isNilPtr] at hr ⊢

/-- The integer a float operand is compared as (repaired: only an integral float has one). -/
def intOfFloat (lf : Family) : Val → IndR
  | .float fx =>
    if lf == .signed then (if fx % 1048576 == 0 then .val (.int (fx / 1048576)) else .none)
    else (if fx % 1048576 == 0 && fx ≥ 0 then .val (.uint (fx / 1048576).toNat) else .none)
  | _ => .none

theorem indFor_int_float (lf : Family) (r : Src) (hr : r.v.isNilPtr = false) (hrf : r.kind.family = .float)
    (h : lf = .signed ∨ lf = .unsigned) :
    indFor LibCfg.fixed lf r = intOfFloat lf r.v := by
  obtain ⟨rk, rip, rv, rft, rpf⟩ := r
  simp only at hr hrf
  simp only [indFor, kind_beq_foreign, hrf]
  rcases h with h | h <;> subst h <;> simp <;> cases rv <;> simp [Val.isNilPtr] at hr <;> simp [intOfFloat, LibCfg.fixed]

def floatOfInt (rf : Family) : Val → IndR
  | .int i => if rf == .signed then .val (.float (fxOfInt i)) else .none
  | .uint n => if rf == .unsigned then .val (.float (fxOfInt n)) else .none
  | _ => .none

theorem indFor_float_int (r : Src) (hr : r.v.isNilPtr = false) (h : r.kind.family = .signed ∨ r.kind.family = .unsigned) :
    indFor LibCfg.fixed .float r = floatOfInt r.kind.family r.v := by
  obtain ⟨rk, rip, rv, rft, rpf⟩ := r
  simp only at hr h
  simp only [indFor, kind_beq_foreign]
  rcases h with h | h <;> simp only [h] <;> simp <;> cases rv <;> simp [Val.isNilPtr] at hr <;> simp [floatOfInt]

/-- Families that never match: nothing to compare with. -/
theorem indFor_none (lf : Family) (r : Src) (hr : r.v.isNilPtr = false)
    (h : r.kind.family = .foreign ∨ (lf ≠ r.kind.family ∧ crossCond lf r.kind.family = false)) :
    indFor LibCfg.fixed lf r = .none := by
  obtain ⟨rk, rip, rv, rft, rpf⟩ := r
  simp only at hr h
  simp only [indFor, kind_beq_foreign]
  generalize rk.family = rf at h
  cases lf <;> cases rf <;> simp [crossCond, isIntFam] at h <;> simp [LibCfg.fixed]

/-! #### normal form of the repaired DeepEqual on two non-nil operands -/

def deqNF (lf rf : Family) (lv rv : Val) : SDeq :=
  if lf == .foreign || rf == .foreign then .f
  else if crossCond lf rf then eqT (crossOf (asFx lv) (asFx rv))
  else if lf != rf then .f
  else match lf with
    | .float => tolT lv rv
    | .text => if elemText lv == elemText rv then .t else .f
    | _ => eqT (valEq lv rv)

theorem sdeqVals_eq (lf : Family) (lv rv : Val) (h : lf ≠ .float ∧ lf ≠ .text) :
    sdeqVals lf lv rv = eqT (valEq lv rv) := by
  cases lf <;> simp at h <;> simp only [sdeqVals, eqT] <;>
    generalize valEq lv rv = o <;> rcases o with _ | _ | _ <;> rfl

theorem elemText_str (x : Bytes) : elemText (.str x) = x := rfl

theorem sdeqVals_float (lv rv : Val) : sdeqVals .float lv rv = tolT lv rv := by
  cases lv <;> cases rv <;> simp [sdeqVals, tolT]

theorem sdeqInd_val (l : Src) (hl : l.v.isNilPtr = false) (rv : Val) :
    sdeqInd LibCfg.fixed l (.val rv) = sdeqVals l.kind.family l.v rv := by
  simp [sdeqInd, hl]

theorem eqT_of_isSome (o : Option Bool) (h : o.isSome = true) : (if o.getD false = true then SDeq.t else SDeq.f) = eqT o := by
  rcases o with _ | _ | _ <;> simp at h <;> rfl

theorem valEq_int_of_asFx_none (lv : Val) (q : Int) (h : asFx lv = none) : valEq lv (.int q) = none := by
  cases lv <;> simp [asFx] at h <;> rfl

theorem valEq_uint_of_asFx_none (lv : Val) (q : Nat) (h : asFx lv = none) : valEq lv (.uint q) = none := by
  cases lv <;> simp [asFx] at h <;> rfl

theorem tolT_of_asFx_none (lv rv : Val) (h : asFx lv = none) : tolT lv rv = .f := by
  cases lv <;> simp [asFx] at h <;> rfl

/-- Integer left, float right, not both numeric values: no match. -/
theorem ind_int_float_f (l : Src) (hl : l.v.isNilPtr = false) (rv : Val)
    (hlf : l.kind.family = .signed ∨ l.kind.family = .unsigned)
    (hc : crossOf (asFx l.v) (asFx rv) = none) :
    sdeqInd LibCfg.fixed l (intOfFloat l.kind.family rv) = .f := by
  cases rv <;> try rfl
  rename_i fx
  have ha : asFx l.v = none := by
    cases h : asFx l.v with
    | none => rfl
    | some a => rw [h] at hc; simp [asFx, crossOf] at hc
  have hff : l.kind.family ≠ .float ∧ l.kind.family ≠ .text := by
    rcases hlf with h | h <;> simp [h]
  simp only [intOfFloat]
  repeat' split
  all_goals first
    | rfl
    | (rw [sdeqInd_val l hl, sdeqVals_eq _ _ _ hff, valEq_int_of_asFx_none _ _ ha]; rfl)
    | (rw [sdeqInd_val l hl, sdeqVals_eq _ _ _ hff, valEq_uint_of_asFx_none _ _ ha]; rfl)

/-- Float left, integer right, not both numeric values: no match. -/
theorem ind_float_int_f (l : Src) (hl : l.v.isNilPtr = false) (rf : Family) (rv : Val)
    (hlf : l.kind.family = .float)
    (hc : crossOf (asFx l.v) (asFx rv) = none) :
    sdeqInd LibCfg.fixed l (floatOfInt rf rv) = .f := by
  have key : ∀ x, asFx rv = some x → asFx l.v = none := by
    intro x hx
    cases h : asFx l.v with
    | none => rfl
    | some a => rw [h, hx] at hc; simp [crossOf] at hc
  cases rv <;> try rfl
  all_goals
    simp only [floatOfInt]
    split
    · rw [sdeqInd_val l hl, hlf, sdeqVals_float, tolT_of_asFx_none _ _ (key _ rfl)]
    · rfl

theorem fixed_flags : LibCfg.fixed.staticDeqAsymmetric = false ∧ LibCfg.fixed.staticNilPtrPanics = false ∧
    LibCfg.fixed.staticDeqDiverges = false := ⟨rfl, rfl, rfl⟩

/-- The repaired DeepEqual on two non-nil operands, in normal form. -/
theorem staticDeq_nf (l r : Src) (hl : l.v.isNilPtr = false) (hr : r.v.isNilPtr = false) :
    staticDeq LibCfg.fixed l r = deqNF l.kind.family r.kind.family l.v r.v := by
  rw [staticDeq_eq, crossNumericEq_eq, kind_beq_foreign]
  by_cases hlF : l.kind.family = .foreign
  · simp [hlF, deqNF]
  have hlF' : (l.kind.family == Family.foreign) = false := by simpa using hlF
  by_cases hrF : r.kind.family = .foreign
  · rw [indFor_none _ _ hr (Or.inl hrF)]
    simp [hlF', hrF, deqNF, crossCond, isIntFam, sdeqInd]
  have hrF' : (r.kind.family == Family.foreign) = false := by simpa using hrF
  by_cases hc : crossCond l.kind.family r.kind.family = true
  · by_cases hs : (crossOf (asFx l.v) (asFx r.v)).isSome = true
    · simp [hc, hs, hl, hr, hlF', hrF', fixed_flags, eqT_of_isSome _ hs, deqNF]
    · have hn : crossOf (asFx l.v) (asFx r.v) = none := by simpa using hs
      simp only [hc, hn, hl, hr, hlF', hrF', fixed_flags, deqNF, if_true, Option.isSome_none, Bool.and_false,
        Bool.false_eq_true, if_false, Bool.or_false, eqT]
      have hc' := hc
      simp only [crossCond, isIntFam, Bool.or_eq_true, Bool.and_eq_true, beq_iff_eq] at hc'
      rcases hc' with ⟨h1, h2⟩ | ⟨h1, h2⟩
      · rw [indFor_int_float _ _ hr h2 h1]
        exact ind_int_float_f l hl r.v h1 hn
      · rw [h1, indFor_float_int _ hr h2]
        exact ind_float_int_f l hl _ r.v h1 hn
  · have hc' : crossCond l.kind.family r.kind.family = false := by simpa using hc
    by_cases hne : l.kind.family = r.kind.family
    · have hrf : r.kind.family = l.kind.family := hne.symm
      clear hne hc hc'
      cases hlf : l.kind.family with
      | foreign => exact absurd hlf hlF
      | text =>
        rw [hlf] at hrf
        rw [hrf, indFor_text _ hr hrf, sdeqInd_val l hl, hlf]
        simp [crossCond, isIntFam, deqNF, sdeqVals, elemText_str]
      | float =>
        rw [hlf] at hrf
        rw [hrf, indFor_same _ _ hr hrf (by simp), sdeqInd_val l hl, hlf, sdeqVals_float]
        simp [crossCond, isIntFam, deqNF]
      | bool =>
        rw [hlf] at hrf
        rw [hrf, indFor_same _ _ hr hrf (by simp), sdeqInd_val l hl, hlf, sdeqVals_eq _ _ _ (by simp)]
        simp [crossCond, isIntFam, deqNF]
      | signed =>
        rw [hlf] at hrf
        rw [hrf, indFor_same _ _ hr hrf (by simp), sdeqInd_val l hl, hlf, sdeqVals_eq _ _ _ (by simp)]
        simp [crossCond, isIntFam, deqNF]
      | unsigned =>
        rw [hlf] at hrf
        rw [hrf, indFor_same _ _ hr hrf (by simp), sdeqInd_val l hl, hlf, sdeqVals_eq _ _ _ (by simp)]
        simp [crossCond, isIntFam, deqNF]
    · rw [indFor_none _ _ hr (Or.inr ⟨hne, hc'⟩)]
      have hne' : (l.kind.family != r.kind.family) = true := by simpa using hne
      simp [hc', hlF', hrF', deqNF, hne', sdeqInd]

/-! #### properties of the normal form -/

theorem eqT_tf (o : Option Bool) : eqT o = .t ∨ eqT o = .f := by
  unfold eqT; split <;> simp

theorem tolT_tf (a b : Val) : tolT a b = .t ∨ tolT a b = .f := by
  cases a <;> cases b <;> simp [tolT]
  omega

theorem deqNF_tf (lf rf : Family) (lv rv : Val) : deqNF lf rf lv rv = .t ∨ deqNF lf rf lv rv = .f := by
  unfold deqNF
  repeat' split
  all_goals first | exact eqT_tf _ | exact tolT_tf _ _ | simp

theorem crossOf_symm (a b : Option Int) : crossOf a b = crossOf b a := by
  cases a <;> cases b <;> simp [crossOf, natAbs_sub_comm]

theorem deqNF_symm (lf rf : Family) (lv rv : Val) : deqNF lf rf lv rv = deqNF rf lf rv lv := by
  cases lf <;> cases rf <;>
    simp [deqNF, crossCond, isIntFam, crossOf_symm (asFx lv), valEq_symm lv, tolT_symm lv]
  congr 1
  exact propext ⟨Eq.symm, Eq.symm⟩

theorem deqNF_foreign (lf rf : Family) (lv rv : Val) (h : lf = .foreign ∨ rf = .foreign) : deqNF lf rf lv rv = .f := by
  rcases h with h | h <;> simp [deqNF, h]

/-- Within one family the normal form is the property's equality. -/
theorem deqNF_sameFamily (l r : Src) (b : Bool) (h : staticSameFamilyEq l r = some b) :
    deqNF l.kind.family r.kind.family l.v r.v = if b then .t else .f := by
  obtain ⟨lk, lip, lv, lft, lpf⟩ := l
  obtain ⟨rk, rip, rv, rft, rpf⟩ := r
  simp only [staticSameFamilyEq, kind_beq_foreign] at h
  simp only []
  generalize lk.family = lf at h ⊢
  generalize rk.family = rf at h ⊢
  cases lf <;> cases rf <;> simp at h <;> simp [deqNF, crossCond, isIntFam]
  case float.float =>
    obtain ⟨_, h⟩ := h
    cases lv <;> cases rv <;> simp at h
    subst h
    simp [tolT]
  case text.text =>
    obtain ⟨_, h⟩ := h
    subst h
    simp
  all_goals
    obtain ⟨_, h⟩ := h
    simp [eqT, h] <;> cases b <;> rfl

/-- DeepEqual of the repaired static inspector: symmetric, never aborts, false on foreign operands and,
within one family, true exactly for equal values. -/
theorem staticDeq_correct (l r : Src) :
    staticDeqAccepts l r (staticDeq LibCfg.fixed l r) (staticDeq LibCfg.fixed r l) = true := by
  unfold staticDeqAccepts
  by_cases hn : (l.v.isNilPtr || r.v.isNilPtr) = true
  · simp [hn]
  have hl : l.v.isNilPtr = false := by
    cases h : l.v.isNilPtr <;> simp [h] at hn ⊢
  have hr : r.v.isNilPtr = false := by
    cases h : r.v.isNilPtr <;> simp [h] at hn ⊢
  rw [staticDeq_nf l r hl hr, staticDeq_nf r l hr hl, deqNF_symm r.kind.family l.kind.family r.v l.v]
  simp only [hl, hr, Bool.or_false, Bool.false_eq_true, if_false, kind_beq_foreign]
  by_cases hF : (l.kind.family == Family.foreign || r.kind.family == Family.foreign) = true
  · have : deqNF l.kind.family r.kind.family l.v r.v = .f := deqNF_foreign _ _ _ _ (by simpa using hF)
    simp [this, hF]
  · simp only [hF, Bool.false_eq_true, if_false]
    cases hs : staticSameFamilyEq l r with
    | none =>
      rcases deqNF_tf l.kind.family r.kind.family l.v r.v with h | h <;> simp [h]
    | some b =>
      rw [deqNF_sameFamily l r b hs]
      cases b <;> simp

/-! #### all operands, typed-nil pointers included: never an abort, and symmetric -/

theorem indFor_nil (lf : Family) (r : Src) (hr : r.v.isNilPtr = true) :
    indFor LibCfg.fixed lf r = .panic ∨ indFor LibCfg.fixed lf r = .none := by
  obtain ⟨rk, rip, rv, rft, rpf⟩ := r
  cases rv <;> simp [Val.isNilPtr] at hr
  simp only [indFor, kind_beq_foreign]
  generalize rk.family = rf
  cases lf <;> cases rf <;> simp [LibCfg.fixed]

theorem indFor_ne_diverge (lf : Family) (r : Src) : indFor LibCfg.fixed lf r ≠ .diverge := by
  by_cases hr : r.v.isNilPtr = true
  · rcases indFor_nil lf r hr with h | h <;> simp [h]
  · have hr' : r.v.isNilPtr = false := by simpa using hr
    by_cases hF : r.kind.family = .foreign
    · rw [indFor_none _ _ hr' (Or.inl hF)]; simp
    by_cases hc : crossCond lf r.kind.family = true
    · have hc' := hc
      simp only [crossCond, isIntFam, Bool.or_eq_true, Bool.and_eq_true, beq_iff_eq] at hc'
      rcases hc' with ⟨h1, h2⟩ | ⟨h1, h2⟩
      · rw [indFor_int_float _ _ hr' h2 h1]
        cases r.v <;> simp [intOfFloat]
        repeat' split
        all_goals simp
      · rw [h1, indFor_float_int _ hr' h2]
        cases r.v <;> simp [floatOfInt] <;> split <;> simp
    · by_cases hne : lf = r.kind.family
      · cases lf with
        | foreign => exact absurd hne.symm hF
        | text => rw [indFor_text _ hr' hne.symm]; simp
        | bool => rw [indFor_same _ _ hr' hne.symm (by simp)]; simp
        | signed => rw [indFor_same _ _ hr' hne.symm (by simp)]; simp
        | unsigned => rw [indFor_same _ _ hr' hne.symm (by simp)]; simp
        | float => rw [indFor_same _ _ hr' hne.symm (by simp)]; simp
      · rw [indFor_none _ _ hr' (Or.inr ⟨hne, by simpa using hc⟩)]; simp

theorem sdeqVals_tf (lf : Family) (lv rv : Val) : sdeqVals lf lv rv = .t ∨ sdeqVals lf lv rv = .f := by
  cases lf
  case float => rw [sdeqVals_float]; exact tolT_tf _ _
  case text => simp only [sdeqVals]; split <;> simp
  all_goals rw [sdeqVals_eq _ _ _ (by simp)]; exact eqT_tf _

/-- The repaired DeepEqual answers true or false for all operands: no panic, no divergence. -/
theorem staticDeq_tf (l r : Src) : staticDeq LibCfg.fixed l r = .t ∨ staticDeq LibCfg.fixed l r = .f := by
  rw [staticDeq_eq]
  split
  · simp
  split
  · split <;> simp
  · cases h : indFor LibCfg.fixed l.kind.family r with
    | panic => simp [sdeqInd, fixed_flags]
    | diverge => exact absurd h (indFor_ne_diverge _ _)
    | none => simp [sdeqInd]
    | val rv =>
      simp only [sdeqInd, fixed_flags]
      split
      · simp
      · exact sdeqVals_tf _ _ _

/-- A typed-nil pointer on either side: false. -/
theorem staticDeq_nil (l r : Src) (h : l.v.isNilPtr = true ∨ r.v.isNilPtr = true) : staticDeq LibCfg.fixed l r = .f := by
  rw [staticDeq_eq]
  split
  · rfl
  have hc : (!LibCfg.fixed.staticDeqAsymmetric && !l.v.isNilPtr && !r.v.isNilPtr && (crossNumericEq l r).isSome) = false := by
    rcases h with h | h <;> simp [h]
  simp only [hc, Bool.false_eq_true, if_false]
  rcases h with h | h
  · cases hi : indFor LibCfg.fixed l.kind.family r with
    | diverge => exact absurd hi (indFor_ne_diverge _ _)
    | _ => simp [sdeqInd, fixed_flags, h]
  · rcases indFor_nil l.kind.family r h with hi | hi <;> simp [hi, sdeqInd, fixed_flags]

/-- Symmetry for all operands. -/
theorem staticDeq_symm (l r : Src) : staticDeq LibCfg.fixed l r = staticDeq LibCfg.fixed r l := by
  by_cases hl : l.v.isNilPtr = true
  · rw [staticDeq_nil l r (Or.inl hl), staticDeq_nil r l (Or.inr hl)]
  by_cases hr : r.v.isNilPtr = true
  · rw [staticDeq_nil l r (Or.inr hr), staticDeq_nil r l (Or.inl hr)]
  have hl' : l.v.isNilPtr = false := by simpa using hl
  have hr' : r.v.isNilPtr = false := by simpa using hr
  rw [staticDeq_nf l r hl' hr', staticDeq_nf r l hr' hl', deqNF_symm]

end Inspector
