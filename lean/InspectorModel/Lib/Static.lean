/-
Lib/Static.lean — model of StaticInspector (static.go). An operand is a `Src`: dynamic kind, value or
pointer form, value (`nilptr` for a typed-nil pointer), `foreign` for any other type.
-/
import InspectorModel.Lib.Strings
namespace Inspector

/-- Compare helpers of static.go:158-249: six operators for ordered kinds, two for bool/bytes;
an operator outside the set yields `false` (the helper's final `return false`). -/
def staticCmpSix (op : Op) (l r : Val) : Bool :=
  match nativeCmpRaw op l r with
  | some b => b
  | none => false
where
  nativeCmpRaw (op : Op) (l r : Val) : Option Bool :=
    match valEq l r, valLt l r, valLt r l with
    | some eq, some lt, some gt =>
      if op == 1 then some eq else if op == 2 then some (!eq) else if op == 3 then some gt
      else if op == 4 then some (gt || eq) else if op == 5 then some lt else if op == 6 then some (lt || eq) else none
    | _, _, _ => none

/-- A float operand of a comparison with the IEEE special values: the value model proper (`Val.float`) holds
finite fixed-point numbers only; the special values exist for Compare alone. -/
inductive FClass
  | nan | ninf | fin (fx : Int) | pinf
deriving Repr, DecidableEq, Inhabited

/-- IEEE-754 `<`: false whenever a NaN is involved. -/
def FClass.lt : FClass → FClass → Bool
  | .nan, _ => false
  | _, .nan => false
  | .ninf, .ninf => false
  | .ninf, _ => true
  | _, .ninf => false
  | .pinf, _ => false
  | _, .pinf => true
  | .fin a, .fin b => decide (a < b)

/-- IEEE-754 `==`: a NaN equals nothing, itself included. -/
def FClass.eq : FClass → FClass → Bool
  | .nan, _ => false
  | _, .nan => false
  | .ninf, .ninf => true
  | .pinf, .pinf => true
  | .fin a, .fin b => a == b
  | _, _ => false

/-- `cmpFloat` (static.go): Go's six native operators on float64, special values included. -/
def ieeeCmp (op : Op) (l r : FClass) : Bool :=
  let eq := FClass.eq l r
  let lt := FClass.lt l r
  let gt := FClass.lt r l
  if op == 1 then eq else if op == 2 then !eq else if op == 3 then gt
  else if op == 4 then (gt || eq) else if op == 5 then lt else if op == 6 then (lt || eq) else false

/-- StaticInspector.Compare on a float source holding `l` (by value or through a non-nil pointer), the operand
parsed by strconv.ParseFloat to `r` (`none`: syntax or range error — the result is left untouched). -/
def staticCmpSpecial (op : Op) (l : FClass) (r : Option FClass) : CmpOut :=
  match r with
  | none => .untouched
  | some r => .set (ieeeCmp op l r)

/-- Generated Compare (writeCmp) on a non-pointer float leaf holding `l`: the operand parsed by the conversion
snippet (`none`: the snippet's error is returned), then the six-way switch on native operators — IEEE semantics
on special values; any other operator leaves the result alone (`cmpSix`). -/
def genCmpSpecial (op : Op) (l : FClass) (r : Option FClass) : CmpOut :=
  match r with
  | none => .err
  | some r => if 1 ≤ op ∧ op ≤ 6 then .set (ieeeCmp op l r) else .untouched

def staticCmpTwo (op : Op) (l r : Val) : Bool :=
  match valEq l r with
  | some eq => if op == 1 then eq else if op == 2 then !eq else false
  | none => false

/-- StaticInspector.Compare (static.go:39-156). The operand is parsed per kind with base 0 / bit size 0;
an unparsable operand leaves the result untouched and returns no error. -/
def staticCmp (cfg : LibCfg) (s : Src) (op : Op) (right : Seg) : CmpOut :=
  if s.kind == .foreign then .set false else
  -- repaired: a typed-nil pointer is refused before anything is parsed (`if isNilPtr(src) { *result = false … }`)
  if s.v.isNilPtr && !cfg.staticNilPtrPanics then .set false else
  -- the operand is parsed first; only a successful parse reaches `*src.(*T)`
  let deref (k : Val → CmpOut) : CmpOut :=
    if s.v.isNilPtr then (if cfg.staticNilPtrPanics then .panic else .set false) else k s.v
  match s.kind.family with
  | .signed => (match right.pi with | some r => deref fun v => .set (staticCmpSix op v (.int r)) | none => .untouched)
  | .unsigned => (match right.pu with | some r => deref fun v => .set (staticCmpSix op v (.uint r)) | none => .untouched)
  | .float =>
    (match right.pf with
     | .ok r => deref fun v => .set (staticCmpSix op v (.float r))
     | .inexact => .untouched
     | .err => .untouched)
  | .bool => (match right.pb with | some r => deref fun v => .set (staticCmpTwo op v (.bool r)) | none => .untouched)
  | .text =>
    if s.kind == .bytes then deref fun v => .set (staticCmpTwo op (.str (elemText v)) (.str right.text))
    else deref fun v => .set (staticCmpSix op (.str (elemText v)) (.str right.text))
  | .foreign => .set false

/-- Result of DeepEqual: true, false, panic (nil dereference) or divergence (unbounded recursion of
`indString ↔ indBytes`, which aborts the process). -/
inductive SDeq
  | t | f | panic | diverge
deriving Repr, DecidableEq, Inhabited

/-- Truncation toward zero of a fixed-point float (`int64(f)`). -/
def truncFx (fx : Int) : Int := if fx ≥ 0 then fx / 1048576 else -((-fx) / 1048576)

def fxOfInt (i : Int) : Int := i * 1048576

/-- `indInt / indUint / indFloat / indBool / indBytes / indString` applied to the right operand for a
left operand of family `lf`: the value to compare with, or no match. -/
inductive IndR
  | val (v : Val)
  | none
  | panic
  | diverge

def indFor (cfg : LibCfg) (lf : Family) (r : Src) : IndR :=
  if r.kind == .foreign then (if lf == .text && cfg.staticDeqDiverges then .diverge else .none) else
  match lf, r.kind.family with
  | .bool, .bool => (match r.v with | .nilptr => .panic | v => .val v)
  | .signed, .signed => (match r.v with | .nilptr => .panic | v => .val v)
  | .signed, .float =>
    (match r.v with
     | .nilptr => .panic
     | .float fx => if cfg.staticDeqAsymmetric then .val (.int (truncFx fx)) else (if fx % 1048576 == 0 then .val (.int (fx / 1048576)) else .none)
     | _ => .none)
  | .unsigned, .unsigned => (match r.v with | .nilptr => .panic | v => .val v)
  | .unsigned, .float =>
    (match r.v with
     | .nilptr => .panic
     | .float fx =>
       -- `uint64(f)` of a negative float: amd64 converts through int64 and reinterprets the bits
       let u : Nat := if truncFx fx ≥ 0 then (truncFx fx).toNat else ((2 : Int) ^ 64 + truncFx fx).toNat
       if cfg.staticDeqAsymmetric then .val (.uint u) else (if fx % 1048576 == 0 && fx ≥ 0 then .val (.uint (fx / 1048576).toNat) else .none)
     | _ => .none)
  | .float, .float => (match r.v with | .nilptr => .panic | v => .val v)
  | .float, .signed => (match r.v with | .nilptr => .panic | .int i => .val (.float (fxOfInt i)) | _ => .none)
  | .float, .unsigned => (match r.v with | .nilptr => .panic | .uint n => .val (.float (fxOfInt n)) | _ => .none)
  | .text, .text => (match r.v with | .nilptr => .panic | v => .val (.str (elemText v)))
  | .text, _ => if cfg.staticDeqDiverges then .diverge else .none
  | _, _ => .none

/-- Integer ↔ float comparison of the repaired inspector: as floats, within the tolerance, in both orders. -/
def crossNumericEq (l r : Src) : Option Bool :=
  let asFx (s : Src) : Option Int := match s.v with
    | .int i => some (fxOfInt i) | .uint n => some (fxOfInt n) | .float f => some f | _ => none
  let isInt (s : Src) := s.kind.family == .signed || s.kind.family == .unsigned
  if (isInt l && r.kind.family == .float) || (l.kind.family == .float && isInt r) then
    match asFx l, asFx r with
    | some a, some b => some (decide ((a - b).natAbs ≤ 1048))
    | _, _ => none
  else none

def staticDeq (cfg : LibCfg) (l r : Src) : SDeq :=
  if l.kind == .foreign then .f else
  if !cfg.staticDeqAsymmetric && !l.v.isNilPtr && !r.v.isNilPtr && (crossNumericEq l r).isSome then
    (if (crossNumericEq l r).getD false then .t else .f) else
  match indFor cfg l.kind.family r with
  | .panic => if cfg.staticNilPtrPanics then .panic else .f
  | .diverge => .diverge
  | .none => .f
  | .val rv =>
    if l.v.isNilPtr then (if cfg.staticNilPtrPanics then .panic else .f) else
    match l.kind.family with
    | .float =>
      (match l.v, rv with
       | .float a, .float b => if decide ((a - b).natAbs ≤ 1048) then .t else .f
       | _, _ => .f)
    | .text => if elemText l.v == elemText rv then .t else .f
    | _ => (match valEq l.v rv with | some true => .t | _ => .f)

/-- Length / Capacity (static.go:881-897): always stores, 0 for anything that is not text. -/
def staticLc (cfg : LibCfg) (isCap : Bool) (s : Src) : LcOut :=
  if s.kind.family != .text then .val 0 else
  match s.v with
  | .nilptr => if cfg.staticNilPtrPanics then .panic else .val 0
  | .str t => .val t.length
  | .bytes _ d c => .val (if isCap then c else d.length)
  | _ => .val 0

/-- Copy: the value itself (dereferenced), text freshly allocated. -/
inductive SCopy
  | ok (kind : DynKind) (v : Val)
  | unsupported
  | mustPointer
  | panic
deriving Inhabited

def staticCopy (cfg : LibCfg) (s : Src) : SCopy :=
  if s.kind == .foreign then .unsupported else
  match s.v with
  | .nilptr => if cfg.staticNilPtrPanics then .panic else .unsupported
  | v => .ok s.kind v

/-- CopyTo(src, dst, buf): `dstKind`/`dstIsPtr` describe the destination argument. -/
def staticCopyTo (cfg : LibCfg) (s : Src) (dstKind : DynKind) (dstIsPtr dstNil : Bool) : SCopy :=
  if s.kind == .foreign then .unsupported else
  -- repaired: a typed-nil source is refused before the destination is looked at
  if (s.v.isNilPtr || (dstIsPtr && dstNil)) && !cfg.staticNilPtrPanics then .unsupported else
  if !(dstIsPtr && dstKind == s.kind) then .mustPointer else
  match s.v with
  | .nilptr => if cfg.staticNilPtrPanics then .panic else .unsupported
  | v => if dstNil then .panic else .ok s.kind v

/-- Reset(x): the target after the call (for pointer forms), `none` when nothing is observable. -/
def staticReset (cfg : LibCfg) (s : Src) : Option Val :=
  if !s.isPtr || s.kind == .foreign then some s.v else
  match s.v with
  | .nilptr => none        -- `*x.(*T) = 0` / `p := *x.(*[]byte)` on a nil pointer panics (`*string`: no dereference)
  | v =>
    match s.kind.family with
    | .text => if cfg.staticResetTextLost then some v else some (if s.kind == .bytes then .bytes false [] 0 else .str [])
    | .bool => some (.bool false)
    | .signed => some (.int 0)
    | .unsigned => some (.uint 0)
    | .float => some (.float 0)
    | .foreign => some v

end Inspector
