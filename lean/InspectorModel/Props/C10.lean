/-
Props/C10.lean — property theorems for C10 (Length and Capacity).

`lc_correct`: for the repaired emitter model, every well-formed tree whose `hasc` attribute is sound
(`HascOK`) and whose structs have pairwise different field names (`FieldsDistinct`), every well-typed value
and every path, what Length / Capacity store is accepted by the independent specification `lcAccepts`:
the native `len` / `cap` of the element native navigation reaches, `0` for nothing / nil, an error only for
an unparsable key or index. No bound on sizes; no `RootOK` / `EmitOK` needed.
The model of the current tree differs on the classes `lc-root-zero`, `lc-scalar-slice-zero`,
`lc-elem-stop-zero`, `negative-index` (`repo_not_correct_*`), and panics on `lc-struct-stop-panics` and
typed-nil roots where C10's relation is silent (C02's territory).
-/
import InspectorModel.Proofs.C10
namespace Inspector.C10

/-- An untyped nil source returns before the result is zeroed. -/
theorem untyped_nil (cfg : GenCfg) (isCap : Bool) (n : Node) (v : Val) (p : List Seg) :
    lcM cfg isCap n .untypedNil v p = .untouched := rfl

/-- The acceptance relation is the per-navigation-result relation applied to native navigation. -/
theorem lcAccepts_eq (isCap : Bool) (n : Node) (v : Val) (p : List Seg) (o : LcOut) :
    lcAccepts isCap n v p o = lcAcceptsNav isCap (nav n v p) o := rfl

/-- C10 for the repaired emitter: Length (`isCap = false`) and Capacity (`isCap = true`). -/
theorem lc_correct (isCap : Bool) (n : Node) (v : Val) (p : List Seg) (f : Form)
    (hf : rootOf f = .ok) (hwf : NodeWF n = true) (hh : HascOK n = true) (hfd : FieldsDistinct n = true)
    (hwt : WT n v = true) :
    lcAccepts isCap n v p (lcM GenCfg.fixed isCap n f v p) = true := by
  have hr : rootOfC GenCfg.fixed f = .ok := by
    unfold rootOfC
    rw [hf]
  unfold lcAccepts lcM nav
  simp only [hr]
  exact lcN_correct isCap p n v false true hwf hh hfd hwt

/-- The same under the exact `hasc` rule of the two parsers. -/
theorem lc_correct_exact (isCap : Bool) (n : Node) (v : Val) (p : List Seg) (f : Form)
    (hf : rootOf f = .ok) (hwf : NodeWF n = true) (hh : HascExact n = true) (hfd : FieldsDistinct n = true)
    (hwt : WT n v = true) :
    lcAccepts isCap n v p (lcM GenCfg.fixed isCap n f v p) = true :=
  lc_correct isCap n v p f hf hwf (HascOK_of_exact n hh) hfd hwt

/-- A typed-nil root (`(*T)(nil)`, `**T` with a nil target, a nil `**T`) is refused by the repaired emitter
like a foreign argument: the result is zeroed, nothing is dereferenced. -/
theorem lc_nil_root (isCap : Bool) (n : Node) (v : Val) (p : List Seg) (f : Form)
    (hf : rootOf f = .nilX ∨ rootOf f = .panic) :
    lcM GenCfg.fixed isCap n f v p = .val 0 := by
  cases f <;> simp [rootOf] at hf <;> rfl

/-- For every argument form that does not hold a value the repaired emitter returns without touching the
root: zeroed result, untouched result (untyped nil) or "unsupported" (foreign type); it never panics there. -/
theorem lc_no_value_root (isCap : Bool) (n : Node) (v : Val) (p : List Seg) (f : Form) (hf : rootOf f ≠ .ok) :
    lcM GenCfg.fixed isCap n f v p = .val 0 ∨ lcM GenCfg.fixed isCap n f v p = .untouched ∨
    lcM GenCfg.fixed isCap n f v p = .unsupported := by
  cases f <;> simp [rootOf] at hf
  · exact Or.inl rfl
  · exact Or.inl rfl
  · exact Or.inl rfl
  · exact Or.inr (Or.inl rfl)
  · exact Or.inr (Or.inr rfl)

section NonVacuity
def seg (t : String) (pi : Option Int := none) : Seg := { text := strBytes t, pi := pi }
def str (s : String) : Val := .str (strBytes s)
def bString (name : String := "") (ptr : Bool := false) : Node :=
  .basic { typn := "string", typu := "string", name := name, ptr := ptr, hasb := true, hasc := true }
def bInt (name : String := "") : Node := .basic { typn := "int", typu := "int", name := name }

/-- ```
type T struct {
  A  int
  S  *string
  B  []byte
  L  []string
  N  []int
  M  map[string]*Inner
  LL [][]int
  P  struct{ X int }       // nothing with a length below: no arm
  Q  Q
}
type Q struct { Y string }
type Inner struct { C []byte; K int }
``` -/
def exNode : Node :=
  .struct { typn := "T", name := "T", hasb := true, hasc := true } [
    bInt "A",
    bString "S" true,
    .slice { typn := "[]byte", name := "B", hasb := true, hasc := true } (.basic { typn := "byte", typu := "byte" }),
    .slice { typn := "[]string", name := "L", hasb := true, hasc := true } (bString),
    .slice { typn := "[]int", name := "N", hasc := true } (bInt),
    .map { typn := "map[string]*Inner", name := "M", hasb := true, hasc := true } (bString)
      (.struct { typn := "Inner", ptr := true, hasb := true, hasc := true } [
        .slice { typn := "[]byte", name := "C", hasb := true, hasc := true } (.basic { typn := "byte", typu := "byte" }),
        bInt "K"]),
    .slice { typn := "[][]int", name := "LL", hasc := true } (.slice { typn := "[]int", hasc := true } (bInt)),
    .struct { typn := "struct{…}", name := "P" } [bInt "X"],
    .struct { typn := "Q", name := "Q", hasb := true, hasc := true } [bString "Y"]]

def exVal : Val :=
  .struct [
    .int 5,
    .ptr (str "héllo"),
    .bytes false [1, 2, 3] 8,
    .slice false [str "a", str ""] 4,
    .slice false [.int 1, .int 2, .int 3] 3,
    .map false [str "k", str "nil"] [.ptr (.struct [.bytes false [9] 2, .int 0]), .nilptr],
    .slice false [.slice false [.int 1] 5, .slice true [] 0] 2,
    .struct [.int 7],
    .struct [str "y"]]

example : NodeWF exNode = true ∧ HascOK exNode = true ∧ HascExact exNode = true ∧ FieldsDistinct exNode = true ∧
    WT exNode exVal = true ∧ RootOK exNode = true := by decide

example : lcM GenCfg.fixed false exNode .ptr exVal [seg "S"] = .val 6 := by decide
example : lcM GenCfg.fixed true exNode .ptr exVal [seg "B"] = .val 8 := by decide
example : lcM GenCfg.fixed false exNode .ptr exVal [seg "N"] = .val 3 := by decide
example : lcM GenCfg.fixed true exNode .ptr exVal [seg "L"] = .val 4 := by decide
example : lcM GenCfg.fixed false exNode .ptr exVal [seg "M"] = .val 2 := by decide
example : lcM GenCfg.fixed true exNode .ptr exVal [seg "M", seg "k", seg "C"] = .val 2 := by decide
example : lcM GenCfg.fixed false exNode .ptr exVal [seg "M", seg "nil", seg "C"] = .val 0 := by decide
example : lcM GenCfg.fixed true exNode .ptr exVal [seg "LL", seg "0" (some 0)] = .val 5 := by decide
example : lcM GenCfg.fixed false exNode .ptr exVal [seg "L", seg "x"] = .err := by decide
/-- the relation does reject wrong answers: it is not trivially true -/
example : lcAccepts true exNode exVal [seg "B"] (.val 3) = false := by decide
example : lcAccepts false exNode exVal [seg "L", seg "7" (some 7)] (.val 1) = false := by decide
example : lcAccepts false exNode exVal [seg "M", seg "k", seg "C"] .err = false := by decide

/-- Known finding `lc-scalar-slice-zero`: Length of a slice of scalars (`T.N`, three elements) stores 0.
Already the repaired model with only this defect re-introduced is rejected. -/
theorem repo_not_correct_scalar_slice :
    lcAccepts false exNode exVal [seg "N"] (lcM GenCfg.original false exNode .ptr exVal [seg "N"]) = false ∧
    lcAccepts false exNode exVal [seg "N"]
      (lcM { GenCfg.fixed with lcScalarSliceZero := true } false exNode .ptr exVal [seg "N"]) = false := by
  decide

/-- Known finding `lc-elem-stop-zero`: Capacity of a slice held in a slice (`T.LL[0]`, cap 5) stores 0. -/
theorem repo_not_correct_elem_stop :
    lcAccepts true exNode exVal [seg "LL", seg "0" (some 0)]
      (lcM GenCfg.original true exNode .ptr exVal [seg "LL", seg "0" (some 0)]) = false ∧
    lcAccepts true exNode exVal [seg "LL", seg "0" (some 0)]
      (lcM { GenCfg.fixed with lcElemStopZero := true } true exNode .ptr exVal [seg "LL", seg "0" (some 0)]) = false := by
  decide

/-- `type R map[string]int` holding one entry. -/
def exRootMap : Node := .map { typn := "R", name := "R", hasb := true, hasc := true } (bString) (bInt)
def exRootMapVal : Val := .map false [str "a"] [.int 1]

/-- Known finding `lc-root-zero`: Length of a root map type on the empty path stores 0. -/
theorem repo_not_correct_root_zero :
    NodeWF exRootMap = true ∧ HascOK exRootMap = true ∧ FieldsDistinct exRootMap = true ∧
    WT exRootMap exRootMapVal = true ∧
    lcAccepts false exRootMap exRootMapVal [] (lcM GenCfg.original false exRootMap .ptr exRootMapVal []) = false ∧
    lcAccepts false exRootMap exRootMapVal []
      (lcM { GenCfg.fixed with lcRootZero := true } false exRootMap .ptr exRootMapVal []) = false := by
  decide

/-- Known finding `negative-index`: index `-1` passes the emitted bound test `len(s) > i` and panics;
the property demands 0 for an index outside the slice. -/
theorem repo_not_correct_neg_index :
    lcAccepts false exNode exVal [seg "L", seg "-1" (some (-1))]
      (lcM GenCfg.original false exNode .ptr exVal [seg "L", seg "-1" (some (-1))]) = false ∧
    lcM GenCfg.original false exNode .ptr exVal [seg "L", seg "-1" (some (-1))] = .panic := by
  decide

/-- Known finding `lc-struct-stop-panics`: a path that stops on a nested struct with an arm below indexes
`path[d]` out of range in the current tree. (C10 itself says nothing about Length of a struct, so
`lcAccepts` does not reject it: the panic is C02's finding; the repaired model stores 0.) -/
theorem repo_struct_stop_panics :
    lcM GenCfg.original false exNode .ptr exVal [seg "Q"] = .panic ∧
    lcM { GenCfg.fixed with lcStructStopPanics := true } false exNode .ptr exVal [seg "Q"] = .panic ∧
    lcM GenCfg.fixed false exNode .ptr exVal [seg "Q"] = .val 0 := by
  decide

/-- Known finding `nil-root-panics`: a typed-nil root is dereferenced by the current tree. -/
theorem repo_nil_root_panics :
    lcM GenCfg.original false exNode .nilPtr exVal [seg "L"] = .panic ∧
    lcM GenCfg.fixed false exNode .nilPtr exVal [seg "L"] = .val 0 := by
  decide

/-- Why `FieldsDistinct` is a hypothesis: with a duplicated field name the arm of the second (string) field
answers for a path that natively denotes nothing (such a type does not exist in Go). -/
def dupNode : Node := .struct { typn := "D", hasb := true, hasc := true } [.struct { typn := "E", name := "F" } [], bString "F"]
def dupVal : Val := .struct [.struct [], str "abc"]
theorem fields_distinct_needed :
    NodeWF dupNode = true ∧ HascOK dupNode = true ∧ WT dupNode dupVal = true ∧ FieldsDistinct dupNode = false ∧
    lcAccepts false dupNode dupVal [seg "F", seg "G"] (lcM GenCfg.fixed false dupNode .ptr dupVal [seg "F", seg "G"]) = false := by
  decide

/-- Why `HascOK` is a hypothesis: a wrongly cleared `hasc` makes the emitter skip a string field. -/
def badHasc : Node := .struct { typn := "D" } [.basic { typn := "string", typu := "string", name := "F" }]
theorem hasc_needed :
    NodeWF badHasc = true ∧ FieldsDistinct badHasc = true ∧ WT badHasc (.struct [str "abc"]) = true ∧ HascOK badHasc = false ∧
    lcAccepts false badHasc (.struct [str "abc"]) [seg "F"] (lcM GenCfg.fixed false badHasc .ptr (.struct [str "abc"]) [seg "F"]) = false := by
  decide
end NonVacuity

/-! ### The tree as it is now

After the five generator `fix:` commits that concern Length/Capacity (negative index, struct stop, element stop,
root zero, scalar slices) and the typed-nil-root fix, no switch that `lcN`/`lcM` consult is left on in
`GenCfg.repo`: the model of the current tree *is* the repaired model, for every argument form. -/
section CurrentTree

theorem lcN_repo (isCap : Bool) (p : List Seg) : ∀ (n : Node) (root : Bool) (v : Val),
    lcN GenCfg.repo isCap n root v p = lcN GenCfg.fixed isCap n root v p := by
  induction p with
  | nil => intro n root v; cases n <;> rfl
  | cons s rest ih =>
    intro n root v
    unfold lcN
    simp only [ih]
    rfl

theorem lcM_repo (isCap : Bool) (n : Node) (f : Form) (v : Val) (p : List Seg) :
    lcM GenCfg.repo isCap n f v p = lcM GenCfg.fixed isCap n f v p := by
  have h : rootOfC GenCfg.repo f = rootOfC GenCfg.fixed f := rfl
  unfold lcM
  rw [h]
  simp only [lcN_repo]

/-- C10 for the emitter as it stands. -/
theorem lc_current (isCap : Bool) (n : Node) (v : Val) (p : List Seg) (f : Form)
    (hf : rootOf f = .ok) (hwf : NodeWF n = true) (hh : HascOK n = true) (hfd : FieldsDistinct n = true)
    (hwt : WT n v = true) :
    lcAccepts isCap n v p (lcM GenCfg.repo isCap n f v p) = true := by
  rw [lcM_repo]; exact lc_correct isCap n v p f hf hwf hh hfd hwt

end CurrentTree

end Inspector.C10
