package corr

import (
	"bufio"
	"encoding/hex"
	"fmt"
	"os"
	"reflect"
	"strconv"
	"strings"
)

// SegTok renders a path segment (or operand) together with the strconv oracle for it:
// h<hex>:<ParseInt(s,0,0)>:<ParseUint(s,0,0)>:<ParseFloat(s,64) in 2^-20 units>:<ParseBool>,
// "e" where the call fails, "x" where a float is not representable in the model's fixed point.
func SegTok(s string) string {
	pi, pu, pf, pb := "e", "e", "e", "e"
	if v, err := strconv.ParseInt(s, 0, 0); err == nil {
		pi = strconv.FormatInt(v, 10)
	}
	if v, err := strconv.ParseUint(s, 0, 0); err == nil {
		pu = strconv.FormatUint(v, 10)
	}
	if v, err := strconv.ParseFloat(s, 64); err == nil {
		if fx, ok := FxOf(v); ok {
			pf = strconv.FormatInt(fx, 10)
		} else {
			pf = "x"
		}
	}
	if v, err := strconv.ParseBool(s); err == nil {
		pb = b01(v)
	}
	return "h" + hex.EncodeToString([]byte(s)) + ":" + pi + ":" + pu + ":" + pf + ":" + pb
}

func PathToks(path []string) string {
	var sb strings.Builder
	sb.WriteString(strconv.Itoa(len(path)))
	for _, s := range path {
		sb.WriteByte(' ')
		sb.WriteString(SegTok(s))
	}
	return sb.String()
}

// Out collects the op lines of one run and the distribution counters for the evidence.
type Out struct {
	w     *bufio.Writer
	f     *os.File
	N     int
	Dist  map[string]int
	Types map[string]bool
	vals  map[string]string
}

func NewOut(path string) (*Out, error) {
	f, err := os.Create(path)
	if err != nil {
		return nil, err
	}
	return &Out{w: bufio.NewWriterSize(f, 1<<20), f: f, Dist: map[string]int{}, Types: map[string]bool{}, vals: map[string]string{}}, nil
}

func (o *Out) Line(s string) {
	o.w.WriteString(s)
	o.w.WriteByte('\n')
}

func (o *Out) Op(s string) {
	o.Line(s)
	o.N++
}

func (o *Out) Count(k string) { o.Dist[k]++ }

// DeclareVal writes a `V` record once per distinct value and returns its id.
func (o *Out) DeclareVal(e *TypeEntry, vtok string) string {
	key := e.Tid + " " + vtok
	if id, ok := o.vals[key]; ok {
		return id
	}
	id := "v" + strconv.Itoa(len(o.vals))
	o.vals[key] = id
	o.Line("V " + id + " " + e.Tid + " " + vtok)
	return id
}

func (o *Out) Close() error {
	if err := o.w.Flush(); err != nil {
		return err
	}
	return o.f.Close()
}

// DeclareTypes writes the `T` records.
func (o *Out) DeclareTypes(entries []*TypeEntry) {
	for _, e := range entries {
		if e.Builtin != "" {
			o.Line("T " + e.Tid + " X " + e.Builtin)
			continue
		}
		o.Line("T " + e.Tid + " " + e.Node.String())
	}
}

// Form is how a value reaches an inspector through `any`.
type Form string

const (
	FormVal     Form = "v"    // T
	FormPtr     Form = "p"    // *T
	FormPtrPtr  Form = "pp"   // **T
	FormNilP    Form = "pn"   // (*T)(nil)
	FormNilPP   Form = "ppn"  // **T pointing to a nil *T
	FormNilPP2  Form = "ppnn" // (**T)(nil)
	FormNil     Form = "nil"  // untyped nil
	FormForeign Form = "foreign"
)

type foreignT struct{ X int }

// MakeArg builds the `any` argument of form f around a private deep copy of v.
// It returns the argument and an accessor for the (possibly mutated) root afterwards.
func MakeArg(t reflect.Type, v reflect.Value, f Form) (arg any, root func() reflect.Value) {
	p := reflect.New(t)
	if v.IsValid() {
		p.Elem().Set(v)
	}
	root = func() reflect.Value { return p.Elem() }
	switch f {
	case FormVal:
		return p.Elem().Interface(), root
	case FormPtr:
		return p.Interface(), root
	case FormPtrPtr:
		pp := reflect.New(p.Type())
		pp.Elem().Set(p)
		return pp.Interface(), root
	case FormNilP:
		return reflect.Zero(reflect.PointerTo(t)).Interface(), root
	case FormNilPP:
		pp := reflect.New(reflect.PointerTo(t))
		return pp.Interface(), root
	case FormNilPP2:
		return reflect.Zero(reflect.PointerTo(reflect.PointerTo(t))).Interface(), root
	case FormNil:
		return nil, root
	default:
		return foreignT{X: 1}, root
	}
}

// DeepCopy clones a value through its serialisation (fresh maps, slices, pointers).
func DeepCopy(v reflect.Value) reflect.Value {
	c, _, err := Deser(v.Type(), strings.Fields(Ser(v)))
	if err != nil {
		panic(fmt.Sprintf("deepcopy: %v", err))
	}
	return c
}
