package corr

import (
	"math"
	"reflect"
	"sort"
)

// Site is one position of a value tree, with the dotted field path of its nearest named ancestors
// (map and slice levels add nothing — the naming DeepEqual options use).
type Site struct {
	Index  int
	Dotted string
	Kind   string
}

// Mutant is a deep copy of a value with exactly one mutation.
type Mutant struct {
	V      reflect.Value
	Dotted string
	What   string
}

type mutator struct {
	target int
	cnt    int
	r      *Rng
	mode   int // which flavour of mutation for the site kind
	done   bool
	dotted string
	what   string
	sites  []Site
	gen    *Gen
}

func dot(p, n string) string {
	if p == "" {
		return n
	}
	return p + "." + n
}

func sortedKeys(v reflect.Value) []reflect.Value {
	keys := v.MapKeys()
	sort.Slice(keys, func(i, j int) bool { return Ser(keys[i]) < Ser(keys[j]) })
	return keys
}

// walk visits every position; at the target it mutates in place (v must be settable).
func (m *mutator) walk(v reflect.Value, dotted string) {
	if m.done {
		return
	}
	m.cnt++
	here := m.cnt
	kind := v.Kind().String()
	if v.Kind() == reflect.Slice && isByteSlice(v.Type()) {
		kind = "bytes"
	}
	m.sites = append(m.sites, Site{here, dotted, kind})
	if here == m.target {
		m.apply(v, dotted)
		m.done = true
		return
	}
	switch v.Kind() {
	case reflect.Ptr:
		if !v.IsNil() {
			m.walk(v.Elem(), dotted)
		}
	case reflect.Struct:
		for i := 0; i < v.NumField(); i++ {
			m.walk(v.Field(i), dot(dotted, v.Type().Field(i).Name))
		}
	case reflect.Slice:
		if isByteSlice(v.Type()) {
			return
		}
		for i := 0; i < v.Len(); i++ {
			m.walk(v.Index(i), dotted)
		}
	case reflect.Map:
		for _, k := range sortedKeys(v) {
			ev := reflect.New(v.Type().Elem()).Elem()
			ev.Set(v.MapIndex(k))
			m.walk(ev, dotted)
			v.SetMapIndex(k, ev)
			if m.done {
				return
			}
		}
	}
}

func (m *mutator) apply(v reflect.Value, dotted string) {
	m.dotted = dotted
	switch v.Kind() {
	case reflect.Bool:
		v.SetBool(!v.Bool())
		m.what = "bool-flip"
	case reflect.Int, reflect.Int8, reflect.Int16, reflect.Int32, reflect.Int64:
		n := v.Int()
		if v.OverflowInt(n + 1) {
			v.SetInt(n - 1)
		} else {
			v.SetInt(n + 1)
		}
		m.what = "int+1"
	case reflect.Uint, reflect.Uint8, reflect.Uint16, reflect.Uint32, reflect.Uint64:
		n := v.Uint()
		if v.OverflowUint(n + 1) {
			v.SetUint(n - 1)
		} else {
			v.SetUint(n + 1)
		}
		m.what = "uint+1"
	case reflect.Float32, reflect.Float64:
		fx, _ := FxOf(v.Float())
		if v.Kind() == reflect.Float32 && m.mode%4 == 3 {
			// the neighbouring float32: one ulp away, which above 16384 is more than the tolerance
			nx := math.Nextafter32(float32(v.Float()), float32(math.Inf(1)))
			if _, ok := FxOf(float64(nx)); ok {
				v.SetFloat(float64(nx))
				m.what = "float32-ulp"
				break
			}
		}
		switch m.mode % 3 {
		case 0:
			fx += 10485 // 10 x tolerance
			m.what = "float+10tol"
		case 1:
			fx += 104 // 0.1 x tolerance
			m.what = "float+0.1tol"
		default:
			fx -= 2000
			m.what = "float-2tol"
		}
		v.SetFloat(FloatOfFx(fx))
	case reflect.String:
		if m.mode%2 == 0 || v.Len() == 0 {
			v.SetString(v.String() + "x")
			m.what = "string-append"
		} else {
			s := []byte(v.String())
			s[len(s)-1] ^= 1
			v.SetString(string(s))
			m.what = "string-flip"
		}
	case reflect.Slice:
		if isByteSlice(v.Type()) {
			b := append([]byte(nil), v.Bytes()...)
			if m.mode%2 == 0 || len(b) == 0 {
				b = append(b, 'x')
				m.what = "bytes-append"
			} else {
				b[0] ^= 1
				m.what = "bytes-flip"
			}
			v.SetBytes(b)
			return
		}
		if m.mode%2 == 0 && v.Len() > 0 {
			v.Set(v.Slice(0, v.Len()-1))
			m.what = "slice-remove"
		} else {
			e := m.gen.Val(v.Type().Elem(), 3)
			v.Set(reflect.Append(v, e))
			m.what = "slice-append"
		}
	case reflect.Map:
		keys := sortedKeys(v)
		if v.IsNil() {
			v.Set(reflect.MakeMap(v.Type()))
		}
		switch {
		case m.mode%3 == 0 && len(keys) > 0:
			v.SetMapIndex(keys[0], reflect.Value{})
			m.what = "map-delete"
		case m.mode%3 == 1 && len(keys) > 0:
			val := v.MapIndex(keys[0])
			v.SetMapIndex(keys[0], reflect.Value{})
			v.SetMapIndex(m.gen.Val(v.Type().Key(), 3), val)
			m.what = "map-rename"
		default:
			v.SetMapIndex(m.gen.Val(v.Type().Key(), 3), m.gen.Val(v.Type().Elem(), 3))
			m.what = "map-add"
		}
	case reflect.Ptr:
		if v.IsNil() {
			v.Set(reflect.New(v.Type().Elem()))
			m.what = "ptr-set"
		} else {
			v.Set(reflect.Zero(v.Type()))
			m.what = "ptr-clear"
		}
	case reflect.Struct:
		// a struct position itself has nothing to mutate: mutate its first field instead
		if v.NumField() > 0 {
			m.apply(v.Field(0), dot(dotted, v.Type().Field(0).Name))
		} else {
			m.what = "none"
		}
	default:
		m.what = "none"
	}
}

// Sites lists the positions of v.
func Sites(v reflect.Value) []Site {
	c := reflect.New(v.Type()).Elem()
	c.Set(DeepCopy(v))
	m := &mutator{target: -1}
	m.walk(c, "")
	return m.sites
}

// MutateAt returns a deep copy of v with one mutation at position idx.
func MutateAt(r *Rng, v reflect.Value, idx int) Mutant {
	c := reflect.New(v.Type()).Elem()
	c.Set(DeepCopy(v))
	m := &mutator{target: idx, r: r, mode: r.Intn(6), gen: NewGen(r.Fork(uint64(idx)), ProfFull)}
	m.gen.cnt = 100000 + int64(r.Intn(1000))
	m.walk(c, "")
	return Mutant{V: c, Dotted: m.dotted, What: m.what}
}
