package corr

import (
	"encoding/json"
	"os"
	"path/filepath"
	"strings"
)

func init() {
	Runners["C13"] = runC13
}

// texprToks renders a Go type expression of the grammar as TExpr tokens (N name | P e | L e | M k v).
func texprToks(e string) string {
	e = strings.TrimSpace(e)
	switch {
	case strings.HasPrefix(e, "*"):
		return "P " + texprToks(e[1:])
	case strings.HasPrefix(e, "[]"):
		return "L " + texprToks(e[2:])
	case strings.HasPrefix(e, "map["):
		depth := 0
		for i := 3; i < len(e); i++ {
			switch e[i] {
			case '[':
				depth++
			case ']':
				depth--
				if depth == 0 {
					return "M " + texprToks(e[4:i]) + " " + texprToks(e[i+1:])
				}
			}
		}
	}
	return "N " + e
}

// the helper declarations of gengram, as TExpr
var helperTExprs = [][2]string{
	{"Inner", "S 4 N N int32 S N string B L N byte F N float64"},
	{"NPtrStruct", "S 2 P P N int32 Q P N string"},
	{"Plain", "S 2 A N int32 B N float64"},
	{"Mid", "S 3 N N int32 P P N Plain V N Plain"},
	{"NumBox", "S 2 L L N float64 M M N int32 N int32"},
	{"Deep", "S 2 B N NumBox PB P N NumBox"},
	{"NInt", "N int32"}, {"NUint", "N uint16"}, {"NFloat", "N float64"}, {"NBool", "N bool"}, {"NStr", "N string"},
	{"NSlice", "L N int32"}, {"NMap", "M N string N int32"},
}

// runC13 hands the Lean parser models every enumerated declaration together with the trees the two real
// parsers produced for it (go/ast: single-file target; go/types: package target).
func runC13(p *Plan) {
	var shapes []shapeRec
	b, err := os.ReadFile(filepath.Join(GenmodDir, "shapes.json"))
	if err == nil {
		_ = json.Unmarshal(b, &shapes)
	}
	p.Out.Line("PK decl gen/decl")
	for _, h := range helperTExprs {
		p.Out.Line("PD " + h[0] + " " + h[1])
	}
	for _, s := range shapes {
		if s.Kind == "helper" {
			continue
		}
		if s.Kind == "solo" {
			p.Out.Line("PD " + s.Name + " S 1 F " + texprToks(s.Expr))
		} else if s.Kind == "field" || s.Kind == "conly" {
			p.Out.Line("PD " + s.Name + " S 3 A N int32 F " + texprToks(s.Expr) + " Z L N byte")
		} else {
			p.Out.Line("PD " + s.Name + " " + texprToks(s.Expr))
		}
	}
	pkgDir := filepath.Join(GenmodDir, "targets", "A", "gopath", "src", "declpkgxml")
	for _, s := range shapes {
		x := strings.ToLower(s.Name) + ".xml"
		na, err := LoadXNode(filepath.Join(GenmodDir, "xml", "decl", x))
		if err != nil {
			p.Out.Op("PX " + s.Name + " | ? | -")
			continue
		}
		pk := "-"
		if np, err := LoadXNode(filepath.Join(pkgDir, x)); err == nil {
			pk = np.String()
		}
		p.Out.Op("PX " + s.Name + " | " + na.String() + " | " + pk)
		p.Out.Count("family:" + s.Family)
	}
}
