/-
Gen/LC.lean — behavioural model of `writeNodeLC` (compiler.go:1249-1380) and the Length/Capacity header.
-/
import InspectorModel.Gen.Get
namespace Inspector

/-- What Length/Capacity left in `*result` (`untouched`: the call returned before `*result = 0`). -/
inductive LcOut
  | untouched
  | val (n : Nat)
  | err
  | unsupported
  | panic
deriving Repr, DecidableEq, Inhabited

/-- `len` or `cap` of a value (after dereferencing as the node says). -/
def lenOf (isCap : Bool) : Val → Nat
  | .str s => s.length
  | .bytes _ d c => if isCap then c else d.length
  | .slice _ es c => if isCap then c else es.length
  | .map _ ks _ => ks.length
  | _ => 0

/-- `requireLenCheck` of writeNodeLC: struct, map, or slice whose *underlying name* is not "[]byte"
(slices have an empty `typu`, so every slice — `[]byte` included — qualifies). -/
def lcRequireLen : Node → Bool
  | .struct _ _ => true
  | .map _ _ _ => true
  | .slice i _ => i.typu != "[]byte"
  | .basic _ => false

/-- Struct children that get an `if path[d] == name` arm: strings and non-basic children with `hasc`. -/
def lcEligible (ch : Node) : Bool :=
  !((ch.isBasicTyp && ch.typu != "string") || !ch.info.hasc)

/-- Flow: `none` = fell out of the emitted block (result stays 0). -/
def lcN (cfg : GenCfg) (isCap : Bool) (n : Node) (root : Bool) (v : Val) (p : List Seg) : Option LcOut :=
  -- `if v == nil { return nil }` for pointer nodes (root maps are nil-checked on the non-nil root pointer)
  if n.ptr && v.isNilPtr then some (.val 0) else
  let w := derefIf n.ptr v
  match n with
  | .basic i =>
    if i.typu == "string" && !isCap then some (.val (lenOf false w)) else none
  | .struct _ chld =>
    match p with
    | [] =>
      -- `path[d]` is indexed without a length test below the root
      if root then some (.val 0)
      else if chld.any lcEligible && cfg.lcStructStopPanics then some .panic else none
    | s :: rest =>
      match w with
      | .struct fs =>
        match findField (chld.filter lcEligible) (filterVals chld fs) s.text with
        | none => none
        | some (ch, fv) =>
          let chPtr := ch.ptr && !ch.isBasicTyp
          if chPtr && fv.isNilPtr then none
          else lcN cfg isCap ch false fv rest
      | _ => some .panic
  | .map _ k mv =>
    match p with
    | [] =>
      if root && cfg.lcRootZero then some (.val 0)
      else if !isCap then some (.val (lenOf false w)) else
      if !mv.info.hasc then none else some (.val 0)
    | s :: rest =>
      if !mv.info.hasc then none else
      match w with
      | .map _ ks vs =>
        let nested (x : Val) : Option LcOut :=
          if lcRequireLen mv && rest.isEmpty && cfg.lcElemStopZero then some (.val 0) else lcN cfg isCap mv false x rest
        if k.typn == "string" then
          if k.ptr then none else
          match lookupKey ks vs (.str s.text) with
          | some x => nested x
          | none => none
        else
          match convSeg k.typn k.typu s with
          | none => some .panic
          | some .err => some .err
          | some .opaque => nested (zeroVal mv)
          | some (.ok key) =>
            if k.ptr then nested (zeroVal mv) else
            match lookupKey ks vs key with
            | some x => nested x
            | none => nested (zeroVal mv)
      | _ => some .panic
  | .slice i e =>
    if i.typn == "[]byte" then some (.val (lenOf isCap w)) else
    if !e.info.hasc && (cfg.lcScalarSliceZero || !p.isEmpty) then none else
    match p with
    | [] => if root && cfg.lcRootZero then some (.val 0) else some (.val (lenOf isCap w))
    | s :: rest =>
      match w with
      | .slice _ es _ =>
        match s.pi with
        | none => some .err
        | some idx =>
          if (es.length : Int) > idx then
            if idx < 0 then (if cfg.negIndexPanics then some .panic else none)
            else
              match nth? es idx.toNat with
              | some x =>
                if lcRequireLen e && rest.isEmpty && cfg.lcElemStopZero then some (.val 0) else lcN cfg isCap e false x rest
              | none => some .panic
          else none
      | _ => some .panic
where
  /-- field values of the eligible children, positionally -/
  filterVals : List Node → List Val → List Val
    | c :: cs, f :: fs => if lcEligible c then f :: filterVals cs fs else filterVals cs fs
    | _, _ => []

def lcM (cfg : GenCfg) (isCap : Bool) (n : Node) (f : Form) (v : Val) (p : List Seg) : LcOut :=
  match rootOfC cfg f with
  | .early => (match f with | .untypedNil => .untouched | .foreign => .unsupported | _ => .val 0)
  | .panic => .panic
  | .nilX =>
    -- `*result=0`, then: root maps nil-check x; struct/slice roots test `len(path)==0` before touching x
    match n, p with
    | _, [] => .val 0
    | .map _ k mv, s :: _ =>
      if !mv.info.hasc then .val 0
      else if k.typn == "string" then .panic
      else (match convSeg k.typn k.typu s with | some .err => .err | _ => .panic)
    | .struct _ chld, s :: _ =>
      if (chld.filter lcEligible).any (fun c => strBytes c.name == s.text) then .panic else .val 0
    | .slice _ e, s :: _ =>
      if !e.info.hasc then .val 0 else (match s.pi with | none => .err | some _ => .panic)
    | .basic _, _ => .panic
  | .ok => (lcN cfg isCap n true v p).getD (.val 0)

end Inspector
