package corr

import (
	"encoding/json"
	"flag"
	"fmt"
	"os"
	"sort"
	"strconv"
)

// Plan is what one invocation explores.
type Plan struct {
	Prop        string
	Tier        string
	Seed        uint64
	Out         *Out
	Types       []*TypeEntry // generated inspectors (shipped, fresh, grammar)
	ReflectOnly []*TypeEntry // declared shapes without a generated inspector (C02: ReflectInspector)
	Conly       []*TypeEntry // compile-only shapes (`[]uint8` spellings), driven by hand-written records (C03)
	Lib         []*TypeEntry // built-in inspectors
}

func (p *Plan) Builtin(name string) *TypeEntry {
	for _, e := range p.Lib {
		if e.Builtin == name {
			return e
		}
	}
	return nil
}

// Mode writes a MODE record (how the driver judges outcomes from here on).
func (p *Plan) Mode(m string) { p.Out.Line("MODE " + m) }

// PropRunner generates the op records for one property.
type PropRunner func(p *Plan)

var Runners = map[string]PropRunner{}

func scale(tier string, quick, thorough int) int {
	if tier == "thorough" {
		return thorough
	}
	return quick
}

// Main is the entry point of the generated main package of a check run.
func Main() {
	if len(os.Args) > 1 && os.Args[1] == "-deqchild" {
		StaticDeqChild(os.Args[2:])
		return
	}
	prop := flag.String("prop", "", "property id")
	tier := flag.String("tier", "quick", "quick|thorough")
	seed := flag.Uint64("seed", 1, "VERIF_SEED")
	out := flag.String("out", "", "op file to write")
	dist := flag.String("dist", "", "distribution json to write")
	flag.StringVar(&GenmodDir, "genmod", "", "generated module of this run (C14)")
	flag.Parse()
	run, ok := Runners[*prop]
	if !ok {
		fmt.Fprintln(os.Stderr, "no runner for", *prop)
		os.Exit(2)
	}
	for i, e := range Registry {
		n, err := LoadXNode(e.XML)
		if err != nil {
			fmt.Fprintln(os.Stderr, "xml:", e.XML, err)
			os.Exit(2)
		}
		e.Node = n
		e.Tid = "t" + strconv.Itoa(i)
	}
	o, err := NewOut(*out)
	if err != nil {
		fmt.Fprintln(os.Stderr, err)
		os.Exit(2)
	}
	for i, e := range Builtins {
		e.Tid = "b" + strconv.Itoa(i)
	}
	o.DeclareTypes(Registry)
	var reflOnly []*TypeEntry
	if *prop == "C02" {
		for i, e := range ReflectOnly {
			n, err := LoadXNode(e.XML)
			if err != nil {
				continue
			}
			e.Node = n
			e.Tid = "r" + strconv.Itoa(i)
			reflOnly = append(reflOnly, e)
		}
		o.DeclareTypes(reflOnly)
	}
	o.DeclareTypes(Builtins)
	run(&Plan{Prop: *prop, Tier: *tier, Seed: *seed, Out: o, Types: Registry, ReflectOnly: reflOnly, Conly: Conly, Lib: Builtins})
	if err := o.Close(); err != nil {
		fmt.Fprintln(os.Stderr, err)
		os.Exit(2)
	}
	if *dist != "" {
		keys := make([]string, 0, len(o.Dist))
		for k := range o.Dist {
			keys = append(keys, k)
		}
		sort.Strings(keys)
		d := map[string]any{"ops": o.N, "distribution": o.Dist, "types": len(Registry)}
		b, _ := json.MarshalIndent(d, "", " ")
		_ = os.WriteFile(*dist, b, 0644)
	}
}
