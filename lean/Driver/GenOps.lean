/-
Driver/GenOps.lean — judges the op records of generated inspectors and of Assign.
-/
import InspectorModel.ForDriver
import Driver.Parse
import Std.Data.HashMap
open Inspector Inspector.Driver

structure St where
  types : Std.HashMap String Node := {}
  vals : Std.HashMap String Val := {}
  /-- tid → name of a built-in inspector ("strings-s", "strings-b", "samap", "static") -/
  builtins : Std.HashMap String String := {}
  /-- map[string]any trees (`JV` records), kept as tokens and parsed where they are used -/
  jtoks : Std.HashMap String (List String) := {}
  cfg : GenCfg := {}
  lib : LibCfg := {}
  /-- buffer.go hands slices out as `b[off:]` (open capacity); flips when the 3-index fix lands -/
  bufOpen : Bool := false
  /-- the package of declarations the `PX` records refer to (C13) -/
  pk : Pkg := { name := "", path := "", decls := [] }
  /-- "" = the property's own acceptance; "nopanic" = C02: an outcome is accepted iff it is not a panic -/
  mode : String := ""

def splitBar (line : String) : List (List String) :=
  (line.splitOn " | ").map fun part => (part.splitOn " ").filter (· ≠ "")

/-- Single-defect repairs of the repo configuration: (class name, configuration with that one defect fixed). -/
def kfFlags (c : GenCfg) : List (String × GenCfg) :=
  (if c.fallThroughAlways then [("container-fallthrough", { c with fallThroughAlways := false })] else []) ++
  (if c.negIndexPanics then [("negative-index", { c with negIndexPanics := false })] else []) ++
  (if c.nilInterceptAnyDepth then [("nil-intercept", { c with nilInterceptAnyDepth := false })] else []) ++
  (if c.elemNilCmpMissing then [("elem-nil-cmp", { c with elemNilCmpMissing := false })] else []) ++
  (if c.lcRootZero then [("lc-root-zero", { c with lcRootZero := false })] else []) ++
  (if c.lcScalarSliceZero then [("lc-scalar-slice-zero", { c with lcScalarSliceZero := false })] else []) ++
  (if c.lcStructStopPanics then [("lc-struct-stop-panics", { c with lcStructStopPanics := false })] else []) ++
  (if c.lcElemStopZero then [("lc-elem-stop-zero", { c with lcElemStopZero := false })] else []) ++
  (if c.deqPtrLeafNilUnchecked then [("deq-ptr-leaf-nil", { c with deqPtrLeafNilUnchecked := false })] else []) ++
  (if c.deqNilBeforeMustCheck then [("deq-nil-before-mustcheck", { c with deqNilBeforeMustCheck := false })] else []) ++
  (if c.copyRootSliceLost then [("copy-root-slice-lost", { c with copyRootSliceLost := false })] else []) ++
  (if c.copyRootMapPanics then [("copy-root-map-panics", { c with copyRootMapPanics := false })] else []) ++
  (if c.copyPtrShared then [("copy-ptr-shared", { c with copyPtrShared := false })] else []) ++
  (if c.copyNilElemPanics then [("copy-nil-elem-panics", { c with copyNilElemPanics := false })] else []) ++
  (if c.copyNilDestPanics then [("copy-nil-dest-panics", { c with copyNilDestPanics := false })] else []) ++
  (if c.resetNilPtrPanics then [("reset-nil-ptr-panics", { c with resetNilPtrPanics := false })] else []) ++
  (if c.copyEmptyPtrCollDropped then [("copy-empty-ptr-coll-dropped", { c with copyEmptyPtrCollDropped := false })] else []) ++
  (if c.strAppendsOld then [("assign-str-appends", { c with strAppendsOld := false })] else []) ++
  (if c.setLostUpdate then [("set-lost-update", { c with setLostUpdate := false })] else []) ++
  (if c.setScalarElemLost then [("set-scalar-elem-lost", { c with setScalarElemLost := false })] else []) ++
  (if c.setNilMapStorePanics then [("set-nil-map-store", { c with setNilMapStorePanics := false })] else []) ++
  (if c.setNilLeafPtrPanics then [("set-nil-leaf-ptr", { c with setNilLeafPtrPanics := false })] else []) ++
  (if c.loopRootMapSkipped then [("loop-root-map-skipped", { c with loopRootMapSkipped := false })] else []) ++
  (if c.nilRootPanics then [("nil-root-panics", { c with nilRootPanics := false })] else []) ++
  (if c.assignNilSrcPanics then [("assign-nil-src", { c with assignNilSrcPanics := false })] else []) ++
  (if c.loopNilKeyPanics then [("loop-nil-key-panics", { c with loopNilKeyPanics := false })] else [])

def flagSetters : List (String × (GenCfg → Bool → GenCfg)) := [
  ("container-fallthrough", fun c b => { c with fallThroughAlways := b }),
  ("negative-index", fun c b => { c with negIndexPanics := b }),
  ("nil-intercept", fun c b => { c with nilInterceptAnyDepth := b }),
  ("elem-nil-cmp", fun c b => { c with elemNilCmpMissing := b }),
  ("lc-root-zero", fun c b => { c with lcRootZero := b }),
  ("lc-scalar-slice-zero", fun c b => { c with lcScalarSliceZero := b }),
  ("lc-struct-stop-panics", fun c b => { c with lcStructStopPanics := b }),
  ("lc-elem-stop-zero", fun c b => { c with lcElemStopZero := b }),
  ("deq-ptr-leaf-nil", fun c b => { c with deqPtrLeafNilUnchecked := b }),
  ("deq-nil-before-mustcheck", fun c b => { c with deqNilBeforeMustCheck := b }),
  ("copy-root-slice-lost", fun c b => { c with copyRootSliceLost := b }),
  ("copy-root-map-panics", fun c b => { c with copyRootMapPanics := b }),
  ("copy-ptr-shared", fun c b => { c with copyPtrShared := b }),
  ("copy-nil-elem-panics", fun c b => { c with copyNilElemPanics := b }),
  ("copy-nil-dest-panics", fun c b => { c with copyNilDestPanics := b }),
  ("reset-nil-ptr-panics", fun c b => { c with resetNilPtrPanics := b }),
  ("copy-empty-ptr-coll-dropped", fun c b => { c with copyEmptyPtrCollDropped := b }),
  ("assign-str-appends", fun c b => { c with strAppendsOld := b }),
  ("set-lost-update", fun c b => { c with setLostUpdate := b }),
  ("set-scalar-elem-lost", fun c b => { c with setScalarElemLost := b }),
  ("set-nil-map-store", fun c b => { c with setNilMapStorePanics := b }),
  ("set-nil-leaf-ptr", fun c b => { c with setNilLeafPtrPanics := b }),
  ("loop-root-map-skipped", fun c b => { c with loopRootMapSkipped := b }),
  ("nil-root-panics", fun c b => { c with nilRootPanics := b }),
  ("assign-nil-src", fun c b => { c with assignNilSrcPanics := b }),
  ("loop-nil-key-panics", fun c b => { c with loopNilKeyPanics := b })]

def allFixed (c : GenCfg) : GenCfg :=
  (kfFlags c).foldl (fun _acc _x => GenCfg.fixed) c

/-- Verdict for one op. `model cfg` is the model's outcome under a configuration, `accepts` the
property's acceptance relation, `impl` what the implementation did.
 * impl = model(repo), accepted                      → agree
 * impl = model(repo), not accepted, a listed defect explains it (repairing it changes the outcome) → known <classes>
 * impl = model(repo), not accepted, no listed defect explains it → model-viol (unlisted violation)
 * impl ≠ model(repo), accepted                      → dev-ok   (tie broken, property still holds here)
 * impl ≠ model(repo), not accepted                  → dev-viol (concrete failing input) -/
def classify {α : Type} [BEq α] (st : St) (model : GenCfg → α) (accepts0 : α → Bool) (impl : α) (sh : α → String)
    (isPanic : α → Bool) (ptrForm : Option (GenCfg → α) := none) (nilRoot : Bool := false) : String :=
  let cfg := st.cfg
  -- typed-nil roots (C02 only): what exactly the emitted code evaluates before it dereferences the nil
  -- root is not modelled; the model's answer there is "may panic"
  if nilRoot then
    (if isPanic impl then (if cfg.nilRootPanics then "known nil-root-panics" else "dev-viol typed-nil-root-panics")
     else "agree") else
  let accepts (o : α) : Bool :=
    if st.mode == "nopanic" then !isPanic o
    else if st.mode == "forms" then
      -- C12: the answer through this argument form is the answer through a plain pointer
      (match ptrForm with
       | some m => o == m cfg
       | none => accepts0 o)
    else accepts0 o
  let m := model cfg
  -- development aid: the fully repaired model must satisfy the property everywhere (it is what the theorems are about)
  if st.mode == "fixedcheck" then
    (let mf := model GenCfg.fixed
     if nilRoot || accepts0 mf then "agree" else "model-viol FIXED-MODEL " ++ sh mf) else
  -- which listed defects explain an outcome: under C02 only the panic / no-panic aspect counts
  let same (x y : α) : Bool := if st.mode == "nopanic" then isPanic x == isPanic y else x == y
  if impl == m then
    if accepts m then "agree"
    else
      let cls := (kfFlags cfg).filter (fun (_, c') => !(same (model c') m))
      if !cls.isEmpty then "known " ++ ",".intercalate (cls.map (·.1))
      else
        -- no single repair changes the outcome: look for a pair of listed defects that does
        let fl := kfFlags cfg
        let pairs := fl.flatMap fun (a, ca) => (kfFlags ca).filterMap fun (b, cab) =>
          if a < b && !(same (model cab) m) then some (a ++ "+" ++ b) else none
        if !pairs.isEmpty then "known " ++ ",".intercalate pairs
        else if !(same (model (allFixed cfg)) m) then
          -- several listed defects together: name those whose re-introduction alone changes the repaired outcome,
          -- or, failing that, every defect still present
          let mf := model GenCfg.fixed
          let rel := flagSetters.filter fun (_, set) => !(same (model (set GenCfg.fixed true)) mf)
          let names := if rel.isEmpty then (kfFlags cfg).map (·.1) else rel.map (·.1)
          "known " ++ "+".intercalate names
        else "model-viol " ++ sh m
  else
    if accepts impl then "dev-ok " ++ sh m
    else "dev-viol " ++ sh m

def opGet (st : St) (head : List String) (pathToks : List String) (outToks : List String) : String :=
  match head with
  | [_, tid, form, vid] =>
    match st.types[tid]?, st.vals[vid]?, parseForm form, parsePath pathToks with
    | some n, some v, some f, some (p, _) =>
      match outToks with
      | mutF :: out =>
        if mutF == "1" then "dev-viol read-operation-modified-its-argument" else
        match parseGetOut out with
        | some impl =>
          let r := nav n v p
          let okOf (o : GetOut) : Bool :=
            match rootOf f with
            | .ok => getAccepts r o
            | .early => o == .none     -- foreign / untyped nil: refused without effect (C12)
            | _ => true                -- typed-nil roots: C02's territory
          classify st (fun c => getM c n f v p) okOf impl showGetOut (fun o => o == .panic)
            (if rootOf f == .ok then some (fun c => getM c n .ptr v p) else none) (match rootOf f with | .nilX | .panic => true | _ => false)
        | none => "skip unparsable-outcome"
      | [] => "skip no-outcome"
    | _, _, _, _ => "skip unresolved-input"
  | _ => "skip bad-head"

def parseCmpOut : String → Option CmpOut
  | "untouched" => some .untouched
  | "set0" => some (.set false)
  | "set1" => some (.set true)
  | "err" => some .err
  | "panic" => some .panic
  | _ => none

def showCmpOut : CmpOut → String
  | .untouched => "untouched"
  | .set b => if b then "set1" else "set0"
  | .err => "err"
  | .panic => "panic"

instance : BEq CmpOut := ⟨fun a b => decide (a = b)⟩

def opCmp (st : St) (head pathToks argToks outToks : List String) : String :=
  match head, argToks, outToks with
  | [_, tid, form, vid], [opTok, rightTok], [mutF, outTok] =>
    match st.types[tid]?, st.vals[vid]?, parseForm form, parsePath pathToks, opTok.toInt?, parseSeg rightTok, parseCmpOut outTok with
    | some n, some v, some f, some (p, _), some op, some right, some impl =>
      if mutF == "1" then "dev-viol read-operation-modified-its-argument" else
      -- hypotheses of C04.cmp_correct, evaluated on every input
      if !(RootOK n && EmitOK n) then "dev-ok hypothesis RootOK/EmitOK of cmp_correct does not hold for this type tree" else
      if right.pf == .inexact then "skip inexact-operand" else
      let okOf (o : CmpOut) : Bool :=
        match rootOf f with
        | .ok => cmpAccepts n v p op right o
        | .early => o == .untouched
        | _ => true
      classify st (fun c => cmpM c n f v p op right) okOf impl showCmpOut (fun o => o == .panic)
        (if rootOf f == .ok then some (fun c => cmpM c n .ptr v p op right) else none) (match rootOf f with | .nilX | .panic => true | _ => false)
    | _, _, _, _, _, _, _ => "skip unresolved-input"
  | _, _, _ => "skip bad-record"

def parseLcOut (s : String) : Option LcOut :=
  if s == "untouched" then some .untouched
  else if s == "err" then some .err
  else if s == "unsupported" then some .unsupported
  else if s == "panic" then some .panic
  else if s.startsWith "val" then
    match (s.drop 3).toString.toInt? with
    | some i => if i < 0 then none else some (.val i.toNat)
    | none => none
  else none

def showLcOut : LcOut → String
  | .untouched => "untouched"
  | .val n => s!"val{n}"
  | .err => "err"
  | .unsupported => "unsupported"
  | .panic => "panic"

instance : BEq LcOut := ⟨fun a b => decide (a = b)⟩

def opLC (st : St) (head pathToks argToks outToks : List String) : String :=
  match head, argToks, outToks with
  | [_, tid, form, vid], [fn], [mutF, outTok] =>
    match st.types[tid]?, st.vals[vid]?, parseForm form, parsePath pathToks, parseLcOut outTok with
    | some n, some v, some f, some (p, _), some impl =>
      if mutF == "1" then "dev-viol read-operation-modified-its-argument" else
      let isCap := fn == "cap"
      -- hypotheses of C10.lc_correct, evaluated on every input
      if !(HascOK n && FieldsDistinct n) then "dev-ok hypothesis HascOK/FieldsDistinct of lc_correct does not hold for this type tree" else
      let okOf (o : LcOut) : Bool :=
        match rootOf f with
        | .ok => lcAccepts isCap n v p o
        | .early => o == .unsupported || o == .untouched || o == .val 0
        | _ => true
      classify st (fun c => lcM c isCap n f v p) okOf impl showLcOut (fun o => o == .panic)
        (if rootOf f == .ok then some (fun c => lcM c isCap n .ptr v p) else none) (match rootOf f with | .nilX | .panic => true | _ => false)
    | _, _, _, _, _ => "skip unresolved-input"
  | _, _, _ => "skip bad-record"

def parseDeqOut : String → Option DeqOut
  | "t" => some .t
  | "f" => some .f
  | "panic" => some .panic
  | _ => none

-- `showDeqOut` lives in InspectorModel/Spec/CopyObs.lean

instance : BEq DeqOut := ⟨fun a b => decide (a = b)⟩

/-- `-` (nil options) or `P<prec> E<n> name… F<n> name…`. -/
def parseOpts : List String → Option (Option DeqOpts)
  | ["-"] => some none
  | p :: rest =>
    if !p.startsWith "P" then none else do
    let prec ← (p.drop 1).toString.toInt?
    match rest with
    | e :: rest =>
      let ne ← (e.drop 1).toString.toNat?
      let ex := (rest.take ne).map untok
      match rest.drop ne with
      | f :: rest2 =>
        let nf ← (f.drop 1).toString.toNat?
        let fi := (rest2.take nf).map untok
        pure (some { precision := prec, exclude := ex, filter := fi })
      | [] => none
    | [] => none
  | [] => none

/-- Go iterates a map in an unspecified order; DeepEqual's `for k := range l` may therefore meet a differing
entry (answer false) or a nil pointer-to-scalar field (panic, finding deq-ptr-leaf-nil) first. `rotVal k rev`
presents every map of a value in another order: rotated by `k`, optionally reversed (for maps of up to three
entries that is every order). -/
partial def rotVal (k : Nat) (rev : Bool) : Val → Val
  | .map nl ks vs =>
    let n := ks.length
    let r := if n == 0 then 0 else k % n
    let ks' := ks.drop r ++ ks.take r
    let vs' := (vs.drop r ++ vs.take r).map (rotVal k rev)
    if rev then .map nl ks'.reverse vs'.reverse else .map nl ks' vs'
  | .struct fs => .struct (fs.map (rotVal k rev))
  | .slice nl es c => .slice nl (es.map (rotVal k rev)) c
  | .ptr w => .ptr (rotVal k rev w)
  | v => v

def mapOrders : List (Nat × Bool) := [(0, false), (1, false), (2, false), (0, true), (1, true), (2, true), (3, false), (3, true)]

/-- D <tid> <fl> <fr> <vidA> <vidB> | <ident 0/1> | <opts> | <out(a,b)> <out(b,a)> -/
def opDeq (st : St) (head identToks optToks outToks : List String) : String :=
  match head, identToks, outToks with
  | [_, tid, fl, fr, va, vb], [identTok], [oab, oba, mutF] =>
    if mutF == "1" then "dev-viol read-operation-modified-its-argument" else
    match st.types[tid]?, st.vals[va]?, st.vals[vb]?, parseForm fl, parseForm fr, parseOpts optToks, parseDeqOut oab, parseDeqOut oba with
    | some n, some a, some b, some fl, some fr, some opts, some iab, some iba =>
      let ident := identTok == "1"
      -- hypotheses of C05.deq_correct / deq_symmetric, evaluated on every input with two recognised roots
      if rootOf fl == .ok && rootOf fr == .ok && !(RootOK n && EmitOK n && PathNamesOK n && MapKeysOK a && MapKeysOK b) then
        "dev-ok hypothesis RootOK/EmitOK/PathNamesOK/MapKeysOK of deq_correct does not hold for this input" else
      -- the order in which the implementation happened to range over the left operand's maps: the one
      -- (of `mapOrders`) under which the model of the current tree gives the observed answer, if any
      let pick (l r : Val) (f1 f2 : Form) (obs : DeqOut) : Val :=
        match mapOrders.find? (fun (k, rev) => deqM { cfg := st.cfg, opts := opts, ident := ident } n f1 f2 (rotVal k rev l) r == obs) with
        | some (k, rev) => rotVal k rev l
        | none => l
      let a1 := pick a b fl fr iab
      let b1 := pick b a fr fl iba
      let model (c : GenCfg) : DeqOut × DeqOut :=
        (deqM { cfg := c, opts := opts, ident := ident } n fl fr a1 b, deqM { cfg := c, opts := opts, ident := ident } n fr fl b1 a)
      let okOf (o : DeqOut × DeqOut) : Bool :=
        match rootOf fl, rootOf fr with
        | .ok, .ok =>
          let t := eqS { opts := opts, ident := ident } n "" a b
          deqAccepts t o.1 && deqAccepts t o.2 && o.1 == o.2
        | .early, _ | _, .early => o.1 == .f && o.2 == .f          -- an unrelated argument is refused with false (C12)
        | _, _ => o.1 == o.2 || o.1 == .panic || o.2 == .panic    -- typed-nil roots: symmetric; panics are C02's
      classify st model okOf (iab, iba) (fun o => showDeqOut o.1 ++ "," ++ showDeqOut o.2) (fun o => o.1 == .panic || o.2 == .panic)
        (if rootOf fl == .ok && rootOf fr == .ok then some (fun c =>
          (deqM { cfg := c, opts := opts, ident := ident } n .ptr .ptr a1 b, deqM { cfg := c, opts := opts, ident := ident } n .ptr .ptr b1 a)) else none)
        (fl == .nilPtrPtr || fr == .nilPtrPtr)
    | _, _, _, _, _, _, _, _ => "skip unresolved-input"
  | _, _, _ => "skip bad-record"

-- `CpObs`, `copyObsOfWith`, `cpAccepts`, `resetObsOfWith`, `resetAccepts`, `cycleModelWith`, `cycleAccepts`
-- live in InspectorModel/Spec/CopyObs.lean (the C06 / C08 theorems are stated about them)

/-- The normalisation applied to every observed value: capacities and nil/empty dropped — the `norm` the
C06/C08 theorems are stated with. The order of map entries is ignored only when two observations are compared. -/
def normV (v : Val) : Val := dropCaps v

def canonCp : CpObs → CpObs
  | .ok s d m v => .ok s d m (canon v)
  | o => o

instance : BEq CpObs := ⟨fun a b => CpObs.beq (canonCp a) (canonCp b)⟩

def cpIsPanic : CpObs → Bool
  | .other t => t == "panic"
  | _ => false

def showCpObs : CpObs → String
  | .ok s d m v => s!"ok {s} {d} {if m then 1 else 0} " ++ showVal v
  | .other t => t

def parseCpObs (n : Node) : List String → Option CpObs
  | "ok" :: s :: d :: m :: rest => do
    let (v, _) ← parseVal rest
    pure (.ok (← s.toNat?) d (m == "1") (dropCaps (coerce n v)))
  | [t] => some (.other t)
  | _ => none

def copyObsOf (cfg : GenCfg) (n : Node) (src : Val) (o : CopyOut) : CpObs :=
  copyObsOfWith normV cfg n src o

/-- CP <tid> <form> <vid> | - | <obs> -/
def opCopy (st : St) (head outToks : List String) : String :=
  match head with
  | [_, tid, form, vid] =>
    match st.types[tid]?, st.vals[vid]?, parseForm form with
    | some n, some v, some f =>
      (match parseCpObs n outToks with
       | some impl =>
         let refusal := copyRefusal f
         let nilRoot := copyNilRoot f
         -- hypothesis of C06.copy_correct (maps are duplicate-free), evaluated on every input
         if rootOf f == .ok && !KeysOK false n v then "dev-ok hypothesis KeysOK of copy_correct does not hold for this value" else
         classify st (fun c => copyObsOf c n v (copyM c n f v)) (fun o => nilRoot || cpAccepts n v refusal o) impl showCpObs cpIsPanic
           (if rootOf f == .ok then some (fun c => copyObsOf c n v (copyM c n .ptr v)) else none) (match rootOf f with | .nilX | .panic => true | _ => false)
       | none => "skip unparsable-outcome")
    | _, _, _ => "skip unresolved-input"
  | _ => "skip bad-head"

/-- CT <tid> <fs> <fd> <vsrc> <vdst> | <bufclass> | <obs> -/
def opCopyTo (st : St) (head outToks : List String) : String :=
  match head with
  | [_, tid, fs, fd, vs, vd] =>
    match st.types[tid]?, st.vals[vs]?, st.vals[vd]?, parseForm fs, parseForm fd with
    | some n, some src, some dst, some fs, some fd =>
      (match parseCpObs n outToks with
       | some impl =>
         let refusal := copyToRefusal fs fd
         -- hypotheses of C06.copyTo_correct: an empty destination (no non-nil pointer, no populated collection)
         -- (under C02's `nopanic` mode the theorem is copyTo_no_panic, which needs a well-typed destination only)
         if refusal.isNone && !copyToNilRoot fs fd && !(WT n dst && (st.mode == "nopanic" || (dstOK false dst && KeysOK false n src))) then
           "dev-ok hypothesis WT/dstOK/KeysOK of copyTo_correct does not hold for this input" else
         classify st (fun c => copyObsOf c n src (copyToM c n fs fd src dst)) (cpAccepts n src refusal) impl showCpObs cpIsPanic none
           (copyToNilRoot fs fd)
       | none => "skip unparsable-outcome")
    | _, _, _, _, _ => "skip unresolved-input"
  | _ => "skip bad-head"

def resetObsOf (o : ResetOut) : CpObs := resetObsOfWith normV o

/-- RS <tid> <form> <vid> | - | ok <val> | panic | … -/
def opReset (st : St) (head outToks : List String) : String :=
  match head with
  | [_, tid, form, vid] =>
    match st.types[tid]?, st.vals[vid]?, parseForm form with
    | some n, some v, some f =>
      let impl : Option CpObs := match outToks with
        | "ok" :: rest => (parseVal rest).map fun (x, _) => CpObs.ok 0 "-" true (dropCaps (coerce n x))
        | [t] => some (.other t)
        | _ => none
      (match impl with
       | some impl =>
         classify st (fun c => resetObsOf (resetM c n f v)) (resetAccepts f) impl showCpObs cpIsPanic none (match rootOf f with | .nilX | .panic => true | _ => false)
       | none => "skip unparsable-outcome")
    | _, _, _ => "skip unresolved-input"
  | _ => "skip bad-head"

/-- One step of a cycle as observed: destination after Reset and after CopyTo. -/
def cycleModel (cfg : GenCfg) (n : Node) : Val → List Val → List CpObs := cycleModelWith normV cfg n

partial def parseCycleSteps (n : Node) : List (List String) → Option (List CpObs)
  | [] => some []
  | step :: rest =>
    let parts := (" ".intercalate step).splitOn " ; "
    let one (p : String) : Option CpObs :=
      match (p.splitOn " ").filter (· ≠ "") with
      | "r" :: toks => (parseVal toks).map fun (x, _) => CpObs.ok 0 "r" true (dropCaps (coerce n x))
      | "c" :: toks => (parseVal toks).map fun (x, _) => CpObs.ok 0 "c" true (dropCaps (coerce n x))
      | [t] => some (.other t)
      | _ => none
    do
      let here ← parts.mapM one
      let more ← parseCycleSteps n rest
      pure (here ++ more)

instance : BEq (List CpObs) := ⟨fun a b => a.length == b.length && (a.zip b).all fun (x, y) => x == y⟩

/-- CY <tid> <vd0> <vs1> … | <bufclass> | <step> | <step> … -/
def opCycle (st : St) (parts : List (List String)) : String :=
  match parts with
  | (_ :: tid :: vd :: vss) :: _buf :: steps =>
    match st.types[tid]?, st.vals[vd]?, vss.mapM (fun v => st.vals[v]?) with
    | some n, some d0, some srcs =>
      (match parseCycleSteps n steps with
       | some impl =>
         -- hypotheses of C08.cycle_correct
         if !(WT n d0 && srcs.all (fun s => WT n s && KeysOK true n s)) then
           "dev-ok hypothesis WT/KeysOK of cycle_correct does not hold for this history" else
         classify st (fun c => cycleModel c n d0 srcs) (cycleAccepts srcs) impl
           (fun l => " / ".intercalate (l.map showCpObs)) (fun l => l.any cpIsPanic)
       | none => "skip unparsable-outcome")
    | _, _, _ => "skip unresolved-input"
  | _ => "skip bad-record"

def parseSrc : List String → Option Src
  | [kind, form, vtok, ftext, pf] => do
    let k := DynKind.ofName (if kind == "bytes" then "[]byte" else kind)
    let v : Val ← if form == "pn" then some Val.nilptr else if k == .foreign then some Val.nilptr else (parseVal [vtok]).map (·.1)
    let ft ← bytesOfHex (ftext.drop 1).toString
    let pf' : PF := if pf == "e" then .err else if pf == "x" then .inexact else
      match pf.toInt? with | some fx => .ok fx | none => .inexact
    pure { kind := k, isPtr := form == "p" || form == "pn", v := v, ftext := ft, pf := pf' }
  | _ => none

instance : BEq AssignObs := ⟨fun a b =>
  a.panicked == b.panicked && (a.panicked || (a.ret == b.ret && a.inBuf == b.inBuf && a.prefixKept == b.prefixKept && valContentEq a.v b.v))⟩

def showAssignObs (o : AssignObs) : String :=
  if o.panicked then "panic" else s!"ret{if o.ret then 1 else 0} {o.inBuf} {if o.prefixKept then 1 else 0} " ++ showVal o.v

def assignObsModel (c : GenCfg) (dk : DynKind) (old : Val) (s : Src) (bufMode : String) : Option AssignObs :=
  let noBuf := bufMode == "none"
  assignObsOf (assignM { strAppendsOld := c.strAppendsOld, nilSrcPanics := c.assignNilSrcPanics } dk old s noBuf) dk old s noBuf

/-- A <dk> <old> | <src…> | <bufmode> | ret<b> <inbuf> <keep> <val> | panic -/
def opAssign (st : St) (head srcToks modeToks outToks : List String) : String :=
  match head, modeToks with
  | [_, dkTok, oldTok], [bufMode] =>
    let dk := DynKind.ofName (if dkTok == "bytes" then "[]byte" else dkTok)
    match parseVal [oldTok], parseSrc srcToks with
    | some (old, _), some src =>
      -- hypothesis of C19.assign_correct (the source value's constructor matches its dynamic kind)
      if !src.wt then "dev-ok hypothesis Src.wt of assign_correct does not hold for this source" else
      let impl : Option AssignObs := match outToks with
        | ["panic"] => some { panicked := true }
        | [r, inb, keep, vtok] => (parseVal [vtok]).map fun (v, _) =>
            { ret := r == "ret1", inBuf := inb, prefixKept := keep == "1", v := v }
        | _ => none
      (match impl, assignObsModel st.cfg dk old src bufMode with
       | some impl, some _ =>
         -- the in-buffer flag of an untouched / aliased destination is not part of the tie
         let norm (o : AssignObs) : AssignObs := o.norm
         classify st (fun c => norm ((assignObsModel c dk old src bufMode).getD {}))
           (fun o => assignAccepts dk old src (bufMode != "none") o) (norm impl) showAssignObs (fun o => o.panicked)
       | none, _ => "skip unparsable-outcome"
       | _, none => "skip inexact-operand")
    | _, _ => "skip unresolved-input"
  | _, _ => "skip bad-record"

/-- Observation of a Set call: destination afterwards (capacities and nil/empty dropped). -/
inductive SetObs
  | ok (root : Val) | err (root : Val) | panic

/-- Observations are compared up to the order of map entries (`canon`); the acceptance relations are
applied to the values as they are (`dropCaps` only) — exactly the form the C03 theorems are stated for. -/
instance : BEq SetObs := ⟨fun a b => match a, b with
  | .ok x, .ok y => canon x == canon y
  | .err x, .err y => canon x == canon y
  | .panic, .panic => true
  | _, _ => false⟩

def showSetObs : SetObs → String
  | .ok v => "ok " ++ showVal v
  | .err v => "err " ++ showVal v
  | .panic => "panic"

def setObsOf : SetOut → SetObs
  | .ok v => .ok (dropCaps v)
  | .err v => .err (dropCaps v)
  | .panic => .panic

/-- S <tid> <form> <vid> | <path> | <src…> | <bufmode> | ok <root> | err <root> | panic -/
def opSet (st : St) (head pathToks srcToks modeToks outToks : List String) : String :=
  match head, modeToks with
  | [_, tid, form, vid], [bufMode] =>
    match st.types[tid]?, st.vals[vid]?, parseForm form, parsePath pathToks, parseSrc srcToks with
    | some n, some v, some f, some (p, _), some src =>
      let impl : Option SetObs := match outToks with
        | ["panic"] => some .panic
        | "ok" :: rest => (parseVal rest).map fun (x, _) => SetObs.ok (dropCaps (coerce n x))
        | "err" :: rest => (parseVal rest).map fun (x, _) => SetObs.err (dropCaps (coerce n x))
        | _ => none
      if src.pf == .inexact && src.kind.family == .text then "skip inexact-operand" else
      if p.any (fun s => s.pf == .inexact) then "skip inexact-key" else
      -- hypotheses of C03.set_correct, evaluated on every input it speaks about (C02's no-panic theorem needs none of them)
      if st.mode != "nopanic" && rootOf f == .ok && f != .val && !(RootOK n && EmitOK n && C03.ValOK v && C03.DepthOK n && C03.SrcWT src) then
        "dev-ok hypothesis RootOK/EmitOK/ValOK/DepthOK/SrcWT of set_correct does not hold for this input" else
      (match impl with
       | some impl =>
         let noBuf := bufMode == "none"
         let acc (o : SetObs) : Bool :=
           match rootOf f, f with
           | .ok, .val => true       -- by-value destination: only C02 (no panic) applies
           | .early, _ => o == .ok (dropCaps v)     -- refused without side effects
           | .ok, _ =>
             (match o with
              | .ok r => setAccepts n v p src (.ok r)
              | .err r => setAccepts n v p src (.err r)
              | .panic => setAccepts n v p src .panic)
           | _, _ => true
         classify st (fun c => setObsOf (setM c n f v p src noBuf)) acc impl showSetObs (fun o => match o with | .panic => true | _ => false) none (match rootOf f with | .nilX | .panic => true | _ => false)
       | none => "skip unparsable-outcome")
    | _, _, _, _, _ => "skip unresolved-input"
  | _, _ => "skip bad-record"

/-- Observation of a Loop call: the groups as canonical strings (sorted for maps), and how it ended. -/
structure LoopObs where
  groups : List String
  fin : String

instance : BEq LoopObs := ⟨fun a b => a.groups == b.groups && a.fin == b.fin⟩

def showSegKey (s : Seg) : String := hexOfBytes s.text

def showObsGroup (g : ObsGroup) : String :=
  (match g.key with | some s => showSegKey s | none => "-") ++ " " ++ g.ins ++ " " ++ g.shape ++ " " ++ showVal (canon g.val.strip)

def parseObsGroup (n : Node) : List String → Option ObsGroup
  | k :: ins :: shape :: rest => do
    let key : Option Seg ← if k == "-" then some none else (parseSeg k).map some
    let (v, _) ← parseVal rest
    let _ := n
    pure { key := key, ins := ins, shape := shape, val := v }
  | _ => none

def modelGroupStr (g : LoopGroup) : String :=
  (match g.key with | some t => hexOfBytes t | none => "-") ++ " " ++ g.ins ++ " " ++ shapeOf g.node ++ " " ++ showVal (canon g.val.strip)

def finStr : LoopEnd → String
  | .done => "done" | .panic => "panic" | .err => "err"

/-- Float text oracle for map keys: taken from the key texts the implementation produced (the harness
annotates them with ParseFloat); the model looks a float key up by value. -/
def ftextOf (gs : List ObsGroup) (v : Val) : Bytes :=
  match v with
  | .float fx =>
    (match gs.find? (fun g => match g.key with | some s => s.pf == .ok fx | none => false) with
     | some g => (match g.key with | some s => s.text | none => [])
     | none => strBytes "?")
  | _ => []

/-- L <tid> <form> <vid> | <path> | <wantkey bits> <ctl digits> | <fin> <mut> <n> | group | group … -/
def opLoop (st : St) (parts : List (List String)) : String :=
  match parts with
  | [_, tid, form, vid] :: pathToks :: [wk, ck] :: [fin, mutF, _cnt] :: groupToks =>
    match st.types[tid]?, st.vals[vid]?, parseForm form, parsePath pathToks with
    | some n, some v, some f, some (p, _) =>
      if mutF == "1" then "dev-viol read-operation-modified-its-argument" else
      let sc : LoopScript := { wantKey := wk.toList.map (· == '1'), ctl := ck.toList.map (fun c => c.toNat - 48) }
      (match groupToks.mapM (parseObsGroup n) with
       | some gs =>
         let ftext := ftextOf gs
         let isMap := loopsMap n v p
         -- hypothesis of C09.loop_correct on the keys (strconv round trip of the rendered key text, no nil
         -- pointer key / byte key where the key is asked for), evaluated with the oracle the record carries
         -- keys that were never handed to the iterator (Break, map order, a skipped root map) carry no
         -- annotation in the record: for those the round trip is taken as given; for every observed key it is
         -- evaluated on what the real strconv answered
         let mapKeys : List (Node × Val) := match loopTarget n v p with
           | .coll (.map _ k _) (.map _ ks _) => ks.map fun key => (k, key)
           | _ => []
         let observed (t : Bytes) : Bool := gs.any fun g => match g.key with | some s => s.text == t | none => false
         -- float texts come from the record too: an unobserved float key gets a synthetic, injective text
         let ftextH (w : Val) : Bytes :=
           match w with
           | .float fx => let t := ftext w; if observed t then t else strBytes ("#f" ++ toString fx)
           | _ => ftext w
         let synth (t : Bytes) : Option Seg :=
           mapKeys.findSome? fun (k, key) =>
             if renderKey false k key ftextH == some t then
               (match key.strip with
                | .bool b => some { text := t, pb := some b }
                | .int i => some { text := t, pi := some i }
                | .uint u => some { text := t, pu := some u }
                | .float fx => some { text := t, pf := .ok fx }
                | _ => some { text := t })
             else none
         let oracle (t : Bytes) : Seg :=
           match gs.findSome? (fun g => g.key.filter (·.text == t)) with
           | some s => s
           | none => (synth t).getD { text := t }
         if rootOf f == .ok && !LoopKeysOK oracle ftextH sc n v p then "dev-ok hypothesis LoopKeysOK of loop_correct does not hold for this record" else
         let implStrs := gs.map showObsGroup
         let canonL (l : List String) : List String := if isMap then l.toArray.qsort (· < ·) |>.toList else l
         let impl : LoopObs := { groups := canonL implStrs, fin := fin }
         let modelWith (vv : Val) (c : GenCfg) : LoopObs :=
           let r := loopM c sc ftext n f vv p
           let ms := r.groups.map modelGroupStr
           if isMap then
             -- order is free: after a Break any `count` entries may have been visited. If what the
             -- implementation visited is a sub-multiset of the right size, the model visits the same.
             let all := (loopM c { sc with ctl := [0] } ftext n f vv p).groups.map modelGroupStr
             let sub := implStrs.length == ms.length &&
               (implStrs.foldl (fun (acc : Option (List String)) g => acc.bind fun l => if l.contains g then some (l.erase g) else none) (some all)).isSome
             { groups := canonL (if sub then implStrs else ms), fin := finStr r.fin }
           else { groups := ms, fin := finStr r.fin }
         -- where a panic (nil pointer key) ends the iteration depends on the order in which the map is ranged
         -- over: take the order (of `mapOrders`) under which the model of the current tree does what was observed
         let vR : Val := if !isMap then v else
           match mapOrders.find? (fun (k, rev) => modelWith (rotVal k rev v) st.cfg == impl) with
           | some (k, rev) => rotVal k rev v
           | none => v
         let model (c : GenCfg) : LoopObs := modelWith vR c
         let accImpl : Bool :=
           if st.mode == "nopanic" then fin != "panic" else
           if st.mode == "forms" && rootOf f == .ok then
             (let r := loopM st.cfg sc ftext n .ptr vR p
              impl == model st.cfg && finStr r.fin == fin) else
           match rootOf f with
           | .ok => loopAccepts sc n v p gs (if fin == "done" then .done else if fin == "panic" then .panic else .err)
           | .early => gs.isEmpty && fin == "done"
           | _ => true
         let m := model st.cfg
         let shown := "; ".intercalate m.groups ++ " " ++ m.fin
         if (match rootOf f with | .nilX | .panic => true | _ => false) then
           (if fin == "panic" then (if st.cfg.nilRootPanics then "known nil-root-panics" else "dev-viol typed-nil-root-panics") else "agree")
         else if impl == m then
           if accImpl then "agree"
           else
             let cls := (kfFlags st.cfg).filter (fun (_, c') => !(model c' == m))
             if !cls.isEmpty then "known " ++ ",".intercalate (cls.map (·.1))
             else "model-viol " ++ shown
         else
           if accImpl then "dev-ok " ++ shown else "dev-viol " ++ shown
       | none => "skip unparsable-outcome")
    | _, _, _, _ => "skip unresolved-input"
  | _ => "skip bad-record"


/-- GW <tid> p <vid> | <path> | alias1|alias0|na|err|panic | getto=… cmp=… len=… cap=… deq=… loop=… | - -/
def opAlias (st : St) (head pathToks aliasToks allocToks : List String) : String :=
  match head, aliasToks with
  | [_, tid, _form, vid], [a] =>
    (match st.types[tid]?, st.vals[vid]?, parsePath pathToks with
     | some n, some v, some (p, _) =>
       if p.any (fun s => s.pf == .inexact) then "skip inexact-key" else
       -- the class of C15.alias_live; the empty path hands out nothing and is not judged
       let cls := !p.isEmpty && inAliasClass n v p
       -- hypothesis of C15.alias_live, evaluated on every record of the class
       if cls && !AliasOK n then "dev-ok hypothesis AliasOK of alias_live does not hold for this type tree" else
       let model : String := match getM st.cfg n .ptr v p with
         | .panic => "panic"
         | .err => "err"
         | .none => "na"
         | .some _ _ =>
           (match nav n v p with
            | .found res false =>
              -- leaves, structs, slices and maps alike: the harness writes into whatever was handed out
              if !res.val.strip.isNilPtr then
                (match aliasN n v p true with | some true => "alias1" | some false => "alias0" | none => "na")
              else "na"
            | _ => "-")       -- the handed-out value is not the addressed leaf (a listed C01 finding): not judged here
       let allocOk : Bool := !cls || allocToks == ["-"] ||
         allocToks.all (fun t => match t.splitOn "=" with
           -- "slice Loop": a Loop that ends up iterating a map may allocate (key rendering, map iteration)
           | [k, c] => c == "0" || (k == "loop" && loopsMap n v p)
           | _ => true)
       if model == "-" then "skip not-the-addressed-leaf"
       else if a == model then
         (if cls && a != "alias1" then "model-viol " ++ model
          else if !allocOk then "model-viol allocations " ++ " ".intercalate allocToks
          else "agree")
       else if cls && a != "alias1" then "dev-viol " ++ model
       else "dev-ok " ++ model
     | _, _, _ => "skip unresolved-input")
  | _, _ => "skip bad-record"

/-- CM <tid> <name> | <alive> <judged> | <kind:expr> — did the generator's output for this declaration compile? -/
def opCompiles (st : St) (head flagToks : List String) : String :=
  match head, flagToks with
  | [_, tid, _name], [alive, judged] =>
    (match st.types[tid]? with
     | some n =>
       match uncompilable n, alive == "1" with
       | none, true => "agree"
       | some c, false => "known uncompilable-" ++ c
       | none, false => if judged == "1" then "dev-viol compiles-per-model" else "skip sampled-shape-does-not-compile"
       | some c, true => if judged == "1" then "dev-ok uncompilable-" ++ c else "skip sampled-shape-compiles"
     | none => "skip unresolved-input")
  | _, _ => "skip bad-record"

/-- RG <tid> <name> | <TypeName()> <registry ok> -/
def opRegistry (st : St) (head outToks : List String) : String :=
  match head, outToks with
  | [_, tid, name], [tn, reg] =>
    (match st.types[tid]? with
     | some n =>
       -- the inspector reports the declared type's name and is retrievable under it
       if untok tn == n.typn && (n.typn == name || n.name == name) && reg == "1" then "agree"
       else "dev-viol typename=" ++ tn ++ " registry=" ++ reg
     | none => "skip unresolved-input")
  | _, _ => "skip bad-record"

/-! ### C13: parser models against the real parsers -/

partial def parseTExpr : List String → Option (TExpr × List String)
  | "N" :: n :: rest => some (.name n, rest)
  | "P" :: rest => do let (e, r) ← parseTExpr rest; pure (.star e, r)
  | "L" :: rest => do let (e, r) ← parseTExpr rest; pure (.slice e, r)
  | "M" :: rest => do
    let (k, r) ← parseTExpr rest
    let (v, r) ← parseTExpr r
    pure (.map k v, r)
  | "S" :: n :: rest => do
    let cnt ← n.toNat?
    let rec go (k : Nat) (acc : List (String × TExpr)) (toks : List String) : Option (List (String × TExpr) × List String) :=
      if k == 0 then some (acc.reverse, toks) else
      match toks with
      | fname :: toks' => do
        let (e, r) ← parseTExpr toks'
        go (k - 1) ((fname, e) :: acc) r
      | [] => none
    let (fs, r) ← go cnt [] rest
    pure (.struct fs, r)
  | _ => none

/-- Erase what the model does not track (`pkgi` is not part of `Info`; nothing to erase) — kept for symmetry. -/
def showNodeBrief (n : Node) : String := n.typn ++ "/" ++ n.typu ++ "/" ++ n.name ++ "/" ++ n.info.pkg

partial def firstNodeDiff (a b : Node) (path : String) : Option String :=
  if !(a.info == b.info) then some s!"{path}: model {repr a.info} vs real {repr b.info}" else
  match a, b with
  | .struct _ ca, .struct _ cb =>
    if ca.length != cb.length then some s!"{path}: {ca.length} vs {cb.length} fields" else
    (ca.zip cb).findSome? fun (x, y) => firstNodeDiff x y (path ++ "." ++ x.name)
  | .map _ k1 v1, .map _ k2 v2 => (firstNodeDiff k1 k2 (path ++ "[key]")).orElse fun _ => firstNodeDiff v1 v2 (path ++ "[val]")
  | .slice _ e1, .slice _ e2 => firstNodeDiff e1 e2 (path ++ "[]")
  | .basic _, .basic _ => none
  | _, _ => some s!"{path}: different node types"

/-- Number of declared (named) types mentioned inside the literal (unnamed) part of a type expression. -/
partial def namedInLiteral (p : Pkg) : TExpr → Nat
  | .name n => if (p.lookup n).isSome then 1 else 0
  | .star e | .slice e => namedInLiteral p e
  | .map k v => namedInLiteral p k + namedInLiteral p v
  | .struct _ => 0

/-- PX <name> | <ast-parser node> | <types-parser node or -> : both parser models against both real dumps. -/
def opParsers (pk : Pkg) (head astToks pkgToks : List String) : String :=
  match head with
  | [_, name] =>
    let fuel := 64
    (match parseAstDecl pk name fuel, parsePkgDecl pk name fuel, parseNode astToks with
     | some ma, some mp, some (ra, _) =>
       let realPkg : Option Node := if pkgToks == ["-"] then none else (parseNode pkgToks).map (·.1)
       -- C13 itself: both real parsers must give the same tree
       let realDiffer : Bool := match realPkg with | some rp => !(ra == rp) | none => false
       if realDiffer then
         (if !(ma == mp) && !DeclOK pk name 31 then "known parser-typename-qualification"
          else "dev-viol the go/ast and go/types parsers dump different trees for this declaration: " ++
            ((realPkg.bind fun rp => firstNodeDiff ra rp name).getD ""))
       else
       match firstNodeDiff ma ra name with
       | some d => "dev-ok ast-model: " ++ d
       | none =>
         (match realPkg with
          | none => if ma == mp then "agree" else if !DeclOK pk name 31 then "known parser-typename-qualification" else "model-viol the parser models differ on a declaration that meets DeclOK"
          | some rp =>
            match firstNodeDiff mp rp name with
            | some d => "dev-ok types-model: " ++ d
            | none => "agree")
     | _, _, _ => "skip unresolved-input")
  | _ => "skip bad-record"
