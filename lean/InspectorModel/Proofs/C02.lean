/-
Proofs/C02.lean — helper lemmas for C02: the repaired emitter model never takes a `.panic` branch on a
well-formed tree and a well-typed value (get, compare, length/capacity).
-/
import InspectorModel.Proofs.C04
import InspectorModel.Gen.LC
import InspectorModel.Proofs.C02Hyps
set_option linter.unusedSimpArgs false
set_option linter.unusedVariables false
namespace Inspector

/-- A well-formed key node always has a conversion snippet. -/
theorem convSeg_wf_some (i : Info) (s : Seg) (h : NodeWF (.basic i) = true) :
    ∃ c, convSeg i.typn i.typu s = some c := by
  obtain ⟨kd, _, hc⟩ := convSeg_wf i s h
  rcases hc with ⟨_, _, hc⟩ | ⟨_, key, hc⟩
  · exact ⟨_, hc⟩
  · exact ⟨_, hc⟩

/-! ## Get -/

theorem getFallThrough_fixed_np (n : Node) (root : Bool) (v : Val) (e : Bool) (b : Option Res) :
    (getFallThrough GenCfg.fixed n root v e b).isPanic = false := by
  unfold getFallThrough
  cases root <;> cases e <;> simp [GenCfg.fixed, Flow.isPanic]

theorem flowOut_isPanic (f : Flow) : (flowOut f).isPanic = f.isPanic := by
  cases f with
  | ret b => cases b <;> rfl
  | cont b => cases b <;> rfl
  | err => rfl
  | panic => rfl

/-- Get mode never reaches a `.panic` branch. -/
theorem getN_no_panic (p : List Seg) : ∀ (n : Node) (v : Val) (root : Bool) (buf : Option Res),
    NodeWF n = true → WT n v = true →
    (getN GenCfg.fixed n root v p buf).isPanic = false := by
  induction p with
  | nil =>
    intro n v root buf hwf hwt
    cases n with
    | basic i => simp only [getN]; split <;> rfl
    | struct i c => simp only [getN]; exact getFallThrough_fixed_np _ _ _ _ _
    | map i k mv => simp only [getN]; exact getFallThrough_fixed_np _ _ _ _ _
    | slice i e => simp only [getN]; exact getFallThrough_fixed_np _ _ _ _ _
  | cons s rest ih =>
    intro n v root buf hwf hwt
    cases n with
    | basic i => simp only [getN]; split <;> rfl
    | struct i chld =>
      by_cases hnil : (i.ptr && v.isNilPtr) = true
      · simp [getN, hnil, Flow.isPanic]
      · have hnil' : (i.ptr && v.isNilPtr) = false := by simpa using hnil
        have hw := WT_deref _ _ hwt (by simpa [Node.ptr, Node.info] using hnil')
        rw [withPtr_struct] at hw
        obtain ⟨fs, hfs, hwts⟩ := WT_struct_inv _ _ _ rfl hw
        simp only [Node.ptr, Node.info] at hfs
        simp only [getN, hnil', hfs, Bool.false_eq_true, if_false]
        cases hff : findField chld fs s.text with
        | none => exact getFallThrough_fixed_np _ _ _ _ _
        | some cf =>
          obtain ⟨ch, fv⟩ := cf
          obtain ⟨hwtc, hmem⟩ := findField_WT _ _ _ _ _ hwts hff
          have hwfc : NodeWF ch = true := NodeWFs_mem _ _ (by simpa [NodeWF] using hwf) hmem
          simp only []
          by_cases hl : ch.isLeaf = true
          · simp only [hl, if_true]; rfl
          · simp only [hl, Bool.false_eq_true, if_false]
            have h := ih ch fv false buf hwfc hwtc
            generalize getN GenCfg.fixed ch false fv rest buf = f at h ⊢
            cases f <;> first | rfl | exact h
    | map i k mv =>
      by_cases hnil : (i.ptr && v.isNilPtr) = true
      · simp [getN, hnil, Flow.isPanic]
      · have hnil' : (i.ptr && v.isNilPtr) = false := by simpa using hnil
        have hw := WT_deref _ _ hwt (by simpa [Node.ptr, Node.info] using hnil')
        rw [withPtr_map] at hw
        obtain ⟨nl, ks, vs, hm, _, _, hwtv⟩ := WT_map_inv { i with ptr := false } k mv _ rfl hw
        simp only [Node.ptr, Node.info] at hm
        simp only [NodeWF, Bool.and_eq_true] at hwf
        obtain ⟨⟨hkb, hwfk⟩, hwfm⟩ := hwf
        cases k with
        | basic ki =>
          simp only [getN, hnil', Node.ptr, Node.info, Node.typn, Node.typu, hm, Bool.false_eq_true, if_false]
          have nested : ∀ (x : Val), WT mv x = true →
              (match getN GenCfg.fixed mv false x rest buf with
                  | Flow.cont b => getFallThrough GenCfg.fixed (Node.map i (Node.basic ki) mv) root v false b
                  | f => f).isPanic = false := by
            intro x hx
            have h := ih mv x false buf hwfm hx
            generalize getN GenCfg.fixed mv false x rest buf = f at h ⊢
            cases f with
            | cont b => exact getFallThrough_fixed_np _ _ _ _ _
            | _ => exact h
          have hz : WT mv (zeroVal mv) = true := WT_zeroVal mv hwfm
          by_cases hstr : (ki.typn == "string") = true
          · simp only [hstr, if_true]
            by_cases hp : ki.ptr = true
            · simp only [hp, if_true]; exact getFallThrough_fixed_np _ _ _ _ _
            · simp only [hp, Bool.false_eq_true, if_false]
              cases hl : lookupKey ks vs (.str s.text) with
              | some x => exact nested x (lookupKey_WT mv ks vs _ x hwtv hl)
              | none => exact getFallThrough_fixed_np _ _ _ _ _
          · have hstr' : (ki.typn == "string") = false := by simpa using hstr
            simp only [hstr', Bool.false_eq_true, if_false]
            obtain ⟨c, hc⟩ := convSeg_wf_some ki s hwfk
            rw [hc]
            cases c with
            | err => rfl
            | «opaque» => exact nested _ hz
            | ok key =>
              simp only []
              by_cases hp : ki.ptr = true
              · simp only [hp, if_true]; exact nested _ hz
              · simp only [hp, Bool.false_eq_true, if_false]
                cases hl : lookupKey ks vs key with
                | some x => exact nested x (lookupKey_WT mv ks vs key x hwtv hl)
                | none => exact nested _ hz
        | _ => simp [Node.isBasicTyp] at hkb
    | slice i e =>
      by_cases hb : (i.typn == "[]byte") = true
      · simp only [getN, hb, if_true]; split <;> rfl
      · have hb' : (i.typn == "[]byte") = false := by simpa using hb
        by_cases hnil : (i.ptr && v.isNilPtr) = true
        · simp [getN, hnil, hb', Flow.isPanic]
        · have hnil' : (i.ptr && v.isNilPtr) = false := by simpa using hnil
          have hw := WT_deref _ _ hwt (by simpa [Node.ptr, Node.info] using hnil')
          rw [withPtr_slice] at hw
          obtain ⟨nl, es, c, hes, hwte⟩ := WT_slice_inv { i with ptr := false } e _ rfl hb' hw
          simp only [Node.ptr, Node.info] at hes
          have hwfe : NodeWF e = true := by simpa [NodeWF] using hwf
          simp only [getN, hnil', hb', hes, Bool.false_eq_true, if_false]
          cases hpi : s.pi with
          | none => rfl
          | some idx =>
            simp only []
            by_cases hlt : (es.length : Int) > idx
            · rw [if_pos hlt]
              by_cases hneg : idx < 0
              · rw [if_pos hneg]
                have hcfg : GenCfg.fixed.negIndexPanics = false := rfl
                simp only [hcfg, Bool.false_eq_true, if_false]
                exact getFallThrough_fixed_np _ _ _ _ _
              · rw [if_neg hneg]
                obtain ⟨x, hx⟩ := nth?_some_of_lt es idx.toNat (by omega)
                have hwtx := nth?_WT e es _ x hwte hx
                simp only [hx]
                have h := ih e x false buf hwfe hwtx
                generalize getN GenCfg.fixed e false x rest buf = f at h ⊢
                cases f with
                | cont b => exact getFallThrough_fixed_np _ _ _ _ _
                | _ => exact h
            · rw [if_neg hlt]
              exact getFallThrough_fixed_np _ _ _ _ _

theorem rootOfC_fixed (f : Form) : rootOfC GenCfg.fixed f = .ok ∨ rootOfC GenCfg.fixed f = .early := by
  cases f <;> simp [rootOfC, rootOf, GenCfg.fixed]

theorem getM_no_panic (n : Node) (f : Form) (v : Val) (p : List Seg)
    (hwf : NodeWF n = true) (hwt : WT n v = true) :
    (getM GenCfg.fixed n f v p).isPanic = false := by
  unfold getM
  rcases rootOfC_fixed f with h | h <;> rw [h]
  · cases p with
    | nil => rfl
    | cons s rest =>
      simp only []
      rw [flowOut_isPanic]
      exact getN_no_panic _ n v true none hwf hwt
  · rfl

/-! ## Compare -/

theorem sameCtor_of_wtScalar (kd : Kind) (v : Val) (h : wtScalar kd v = true) : sameCtor kd v = true := by
  cases kd <;> cases v <;> simp_all [wtScalar, sameCtor]

theorem convByKind_ctor (kd : Kind) (s : Seg) (key : Val) (h : convByKind kd s = .ok key) :
    sameCtor kd key = true := by
  cases kd <;> simp only [convByKind] at h
  · cases hb : s.pb <;> simp [hb] at h; subst h; rfl
  · cases hb : s.pi <;> simp [hb] at h; subst h; rfl
  · cases hb : s.pu <;> simp [hb] at h; subst h; rfl
  · cases hb : s.pf <;> simp [hb] at h; subst h; rfl
  · injection h with h; subst h; rfl

theorem convByName_byte (s : Seg) : ∃ u, convByName "byte" s = some (.ok (.uint u)) := by
  simp only [convByName]
  cases s.text <;> exact ⟨_, rfl⟩

/-- The operand a snippet produces has the constructor of the node's kind. -/
theorem convSeg_ctor (i : Info) (s : Seg) (kd : Kind) (key : Val) (h : NodeWF (.basic i) = true)
    (hkd : kindOfName i.typu = some kd) (hc : convSeg i.typn i.typu s = some (.ok key)) :
    sameCtor kd key = true := by
  obtain ⟨kd', hkd', hcs⟩ := convSeg_wf i s h
  rw [hkd] at hkd'
  injection hkd' with hkd'
  subst hkd'
  rcases hcs with ⟨_, _, hc'⟩ | ⟨hbyte, _⟩
  · rw [hc] at hc'
    injection hc' with hc'
    exact convByKind_ctor kd s key hc'.symm
  · have h' := h
    simp only [NodeWF, Bool.and_eq_true, Bool.or_eq_true, Bool.not_eq_true', beq_iff_eq] at h'
    have htu : i.typu = "byte" := by
      rcases hbyte with hb | hb
      · rcases h'.2 with h2 | h2
        · rw [hb] at h2; cases h2
        · rw [← h2]; exact hb
      · exact hb
    have hk8 : kd = .uint 8 := by
      rw [htu] at hkd
      simp [kindOfName] at hkd
      exact hkd.symm
    subst hk8
    obtain ⟨u, hu⟩ := convByName_byte s
    have : convSeg i.typn i.typu s = some (.ok (.uint u)) := by
      unfold convSeg
      by_cases hbi : isBuiltinName i.typn = true
      · have heq : i.typn = i.typu := by
          rcases h'.2 with h2 | h2
          · rw [h2] at hbi; cases hbi
          · exact h2
        rw [heq, htu, hu]
      · have hnb : isBuiltinName i.typn = false := by simpa using hbi
        rw [convByName_none_of_not_builtin i.typn s hnb, htu]
        simp only []
        exact hu
    rw [this] at hc
    injection hc with hc
    injection hc with hc
    subst hc
    rfl

theorem cmpTwo_np (op : Op) (kd : Kind) (l r : Val) (hl : sameCtor kd l = true) (hr : sameCtor kd r = true) :
    cmpTwo op l r ≠ .panic := by
  cases kd <;> cases l <;> simp [sameCtor] at hl <;> cases r <;> simp [sameCtor] at hr <;>
    (simp only [cmpTwo, valEq]; split <;> simp)

theorem cmpSix_np (op : Op) (kd : Kind) (l r : Val) (hk : kd ≠ .bool)
    (hl : sameCtor kd l = true) (hr : sameCtor kd r = true) :
    cmpSix op l r ≠ .panic := by
  cases kd <;> cases l <;> simp [sameCtor] at hl <;> cases r <;> simp [sameCtor] at hr <;>
    first
    | exact absurd rfl hk
    | (simp only [cmpSix, valEq, valLt]
       repeat' split
       all_goals simp)

/-- `writeCmp` on a leaf never panics (for a named bool the emitted six-way switch does not compile: `EmitOK`). -/
theorem writeCmpM_leaf_np (ch : Node) (fv : Val) (op : Op) (right : Seg) (hl : ch.isLeaf = true)
    (hwf : NodeWF ch = true) (hwt : WT ch fv = true) (hb : EmitOK ch = true) :
    writeCmpM ch fv op right ≠ .panic := by
  by_cases hp : ch.ptr = true
  · unfold writeCmpM
    simp only [hp, if_true]
    repeat' split
    all_goals simp
  · have hp' : ch.ptr = false := by simpa using hp
    cases ch with
    | struct i c => simp at hl
    | map i k v => simp at hl
    | slice i e =>
      simp only [isLeaf_slice] at hl
      have htn : i.typn = "[]byte" := by simpa using hl
      simp only [Node.ptr, Node.info] at hp'
      have hv : ∃ nl d c, fv = .bytes nl d c := by
        cases fv <;> simp_all [WT, Node.ptr, Node.info]
      obtain ⟨nl, d, c, hv⟩ := hv
      subst hv
      unfold writeCmpM
      simp only [Node.ptr, Node.info, Node.typn, hp', htn, convSeg, convByName, cmpTwo, valEq]
      simp
      split <;> simp
    | basic i =>
      simp only [Node.ptr, Node.info] at hp'
      have hwf' := hwf
      simp only [NodeWF, Bool.and_eq_true] at hwf'
      cases hkd : kindOfName i.typu with
      | none => simp [hkd] at hwf'
      | some kd =>
        have hsc : wtScalar kd fv = true := by
          cases fv <;> simp_all [WT, Node.ptr, Node.info]
        have hcl := sameCtor_of_wtScalar kd fv hsc
        unfold writeCmpM
        simp only [Node.ptr, Node.info, hp', Bool.false_eq_true, if_false, Node.typn, Node.typu]
        obtain ⟨c, hc⟩ := convSeg_wf_some i right hwf
        rw [hc]
        cases c with
        | err => simp
        | «opaque» => simp
        | ok key =>
          simp only []
          have hcr := convSeg_ctor i right kd key hwf hkd hc
          by_cases h2 : (i.typn == "[]byte" || i.typn == "bool") = true
          · simp only [h2, if_true]
            exact cmpTwo_np op kd fv key hcl hcr
          · simp only [h2, Bool.false_eq_true, if_false]
            apply cmpSix_np op kd fv key _ hcl hcr
            intro hk
            subst hk
            have htu := kindOfName_bool _ hkd
            have : i.typn = "bool" := by simpa [EmitOK, boolSpelled, htu, hp'] using hb
            simp [this] at h2

/-- Compare mode never reaches a `.panic` branch. -/
theorem cmpN_no_panic (op : Op) (right : Seg) (p : List Seg) : ∀ (n : Node) (v : Val),
    NodeWF n = true → WT n v = true → EmitOK n = true →
    cmpN GenCfg.fixed n v p op right ≠ some .panic := by
  have ptr_np : ∀ (n : Node) (v : Val), n.ptr = true → writeCmpM n v op right ≠ .panic := by
    intro n v hp
    unfold writeCmpM
    simp only [hp, if_true]
    repeat' split
    all_goals simp
  induction p with
  | nil =>
    intro n v hwf hwt hok
    simp only [cmpN]
    have hcfg : GenCfg.fixed.elemNilCmpMissing = false := rfl
    simp only [hcfg, Bool.not_false, Bool.and_true]
    by_cases hpn : (n.ptr && right.text == nilText) = true
    · simp only [hpn, if_true]
      simp only [Bool.and_eq_true] at hpn
      intro h; injection h with h; exact ptr_np n v hpn.1 h
    · simp only [hpn, Bool.false_eq_true, if_false]
      cases n with
      | basic i =>
        simp only []
        split
        · simp
        · intro h; injection h with h
          exact writeCmpM_leaf_np _ v op right rfl hwf hwt hok h
      | struct i c => simp
      | map i k mv => simp
      | slice i e => simp
  | cons s rest ih =>
    intro n v hwf hwt hok
    cases n with
    | basic i =>
      simp only [cmpN]
      split
      · simp
      · intro h; injection h with h
        exact writeCmpM_leaf_np _ v op right rfl hwf hwt hok h
    | struct i chld =>
      by_cases hnil : (i.ptr && v.isNilPtr) = true
      · simp [cmpN, hnil]
      · have hnil' : (i.ptr && v.isNilPtr) = false := by simpa using hnil
        have hw := WT_deref _ _ hwt (by simpa [Node.ptr, Node.info] using hnil')
        rw [withPtr_struct] at hw
        obtain ⟨fs, hfs, hwts⟩ := WT_struct_inv _ _ _ rfl hw
        simp only [Node.ptr, Node.info] at hfs
        simp only [cmpN, hnil', hfs, Bool.false_eq_true, if_false]
        cases hff : findField chld fs s.text with
        | none => simp
        | some cf =>
          obtain ⟨ch, fv⟩ := cf
          obtain ⟨hwtc, hmem⟩ := findField_WT _ _ _ _ _ hwts hff
          have hwfc : NodeWF ch = true := NodeWFs_mem _ _ (by simpa [NodeWF] using hwf) hmem
          have hokc : EmitOK ch = true := EmitOKs_mem _ _ (by simpa [EmitOK] using hok) hmem
          simp only []
          by_cases hl : ch.isLeaf = true
          · simp only [hl, if_true]
            intro h; injection h with h
            exact writeCmpM_leaf_np ch fv op right hl hwfc hwtc hokc h
          · simp only [hl, Bool.false_eq_true, if_false]
            split
            · rename_i hint
              simp only [Bool.and_eq_true] at hint
              intro h; injection h with h
              exact ptr_np ch fv hint.1.1 h
            · exact ih ch fv hwfc hwtc hokc
    | map i k mv =>
      by_cases hnil : (i.ptr && v.isNilPtr) = true
      · simp [cmpN, hnil]
      · have hnil' : (i.ptr && v.isNilPtr) = false := by simpa using hnil
        have hw := WT_deref _ _ hwt (by simpa using hnil')
        rw [withPtr_map] at hw
        obtain ⟨nl, ks, vs, hm, _, _, hwtv⟩ := WT_map_inv { i with ptr := false } k mv _ rfl hw
        simp only [ptr_map] at hm
        simp only [NodeWF, Bool.and_eq_true] at hwf
        obtain ⟨⟨hkb, hwfk⟩, hwfm⟩ := hwf
        simp only [EmitOK, Bool.and_eq_true, Bool.not_eq_true'] at hok
        obtain ⟨⟨_, hokm⟩, _⟩ := hok
        cases k with
        | basic ki =>
          simp only [cmpN, hnil', ptr_basic, Node.typn, Node.typu, Node.info, hm, Bool.false_eq_true, if_false]
          have nested : ∀ (x : Val), WT mv x = true →
              cmpN GenCfg.fixed mv x rest op right ≠ some .panic :=
            fun x hx => ih mv x hwfm hx hokm
          have hz : WT mv (zeroVal mv) = true := WT_zeroVal mv hwfm
          by_cases hstr : (ki.typn == "string") = true
          · simp only [hstr, if_true]
            by_cases hp : ki.ptr = true
            · simp [hp]
            · simp only [hp, Bool.false_eq_true, if_false]
              cases hl : lookupKey ks vs (.str s.text) with
              | some x => exact nested x (lookupKey_WT mv ks vs _ x hwtv hl)
              | none => simp
          · have hstr' : (ki.typn == "string") = false := by simpa using hstr
            simp only [hstr', Bool.false_eq_true, if_false]
            obtain ⟨c, hc⟩ := convSeg_wf_some ki s hwfk
            rw [hc]
            cases c with
            | err => simp
            | «opaque» => exact nested _ hz
            | ok key =>
              simp only []
              by_cases hp : ki.ptr = true
              · simp only [hp, if_true]; exact nested _ hz
              · simp only [hp, Bool.false_eq_true, if_false]
                cases hl : lookupKey ks vs key with
                | some x => exact nested x (lookupKey_WT mv ks vs key x hwtv hl)
                | none => exact nested _ hz
        | _ => simp [Node.isBasicTyp] at hkb
    | slice i e =>
      by_cases hb : (i.typn == "[]byte") = true
      · simp only [cmpN, hb, if_true]
        split
        · simp
        · intro h; injection h with h
          exact writeCmpM_leaf_np _ v op right (by simpa using hb) hwf hwt hok h
      · have hb' : (i.typn == "[]byte") = false := by simpa using hb
        by_cases hnil : (i.ptr && v.isNilPtr) = true
        · simp [cmpN, hnil, hb']
        · have hnil' : (i.ptr && v.isNilPtr) = false := by simpa using hnil
          have hw := WT_deref _ _ hwt (by simpa using hnil')
          rw [withPtr_slice] at hw
          obtain ⟨nl, es, c, hes, hwte⟩ := WT_slice_inv { i with ptr := false } e _ rfl hb' hw
          simp only [ptr_slice] at hes
          have hwfe : NodeWF e = true := by simpa [NodeWF] using hwf
          have hoke : EmitOK e = true := by
            have := hok
            simp [EmitOK, hb'] at this
            exact this.1
          simp only [cmpN, hnil', hb', hes, Bool.false_eq_true, if_false]
          cases hpi : s.pi with
          | none => simp
          | some idx =>
            simp only []
            by_cases hlt : (es.length : Int) > idx
            · rw [if_pos hlt]
              by_cases hneg : idx < 0
              · rw [if_pos hneg]
                have hcfg : GenCfg.fixed.negIndexPanics = false := rfl
                simp [hcfg]
              · rw [if_neg hneg]
                obtain ⟨x, hx⟩ := nth?_some_of_lt es idx.toNat (by omega)
                have hwtx := nth?_WT e es _ x hwte hx
                simp only [hx]
                exact ih e x hwfe hwtx hoke
            · rw [if_neg hlt]; simp

theorem cmpM_no_panic (n : Node) (f : Form) (v : Val) (p : List Seg) (op : Op) (right : Seg)
    (hwf : NodeWF n = true) (hok : EmitOK n = true) (hwt : WT n v = true) :
    cmpM GenCfg.fixed n f v p op right ≠ .panic := by
  unfold cmpM
  cases p with
  | nil => simp
  | cons s rest =>
    simp only []
    rcases rootOfC_fixed f with h | h <;> rw [h]
    · simp only []
      have := cmpN_no_panic op right (s :: rest) n v hwf hwt hok
      generalize cmpN GenCfg.fixed n v (s :: rest) op right = o at this ⊢
      cases o with
      | none => simp
      | some c => intro hc; apply this; simp only [Option.getD_some] at hc; rw [hc]
    · simp

/-! ## Length / Capacity -/

@[simp] theorem typn_basic (i : Info) : (Node.basic i).typn = i.typn := rfl
@[simp] theorem typu_basic (i : Info) : (Node.basic i).typu = i.typu := rfl

theorem filterVals_WTs : ∀ (chld : List Node) (fs : List Val), WTs chld fs = true →
    WTs (chld.filter lcEligible) (lcN.filterVals chld fs) = true
  | [], [], _ => by simp [lcN.filterVals, WTs]
  | [], _ :: _, h => by simp [WTs] at h
  | _ :: _, [], h => by simp [WTs] at h
  | c :: cs, f :: fs, h => by
    simp only [WTs, Bool.and_eq_true] at h
    have ih := filterVals_WTs cs fs h.2
    by_cases he : lcEligible c = true
    · simp [lcN.filterVals, he, List.filter, WTs, h.1, ih]
    · simp [lcN.filterVals, he, List.filter, ih]

/-- Length/Capacity never reach a `.panic` branch. -/
theorem lcN_no_panic (isCap : Bool) (p : List Seg) : ∀ (n : Node) (v : Val) (root : Bool),
    NodeWF n = true → WT n v = true →
    lcN GenCfg.fixed isCap n root v p ≠ some .panic := by
  induction p with
  | nil =>
    intro n v root hwf hwt
    unfold lcN
    split
    · simp
    · cases n with
      | basic i => simp only []; split <;> simp
      | struct i c =>
        have hcfg : GenCfg.fixed.lcStructStopPanics = false := rfl
        simp only [hcfg, Bool.and_false]
        split <;> simp
      | map i k mv =>
        simp only []
        repeat' split
        all_goals simp
      | slice i e =>
        simp only []
        repeat' split
        all_goals simp
  | cons s rest ih =>
    intro n v root hwf hwt
    unfold lcN
    by_cases hnil : (n.ptr && v.isNilPtr) = true
    · simp [hnil]
    · have hnil' : (n.ptr && v.isNilPtr) = false := by simpa using hnil
      have hw := WT_deref _ _ hwt hnil'
      simp only [hnil', Bool.false_eq_true, if_false]
      cases n with
      | basic i => simp only []; split <;> simp
      | struct i chld =>
        rw [withPtr_struct] at hw
        obtain ⟨fs, hfs, hwts⟩ := WT_struct_inv _ _ _ rfl hw
        simp only [hfs]
        cases hff : findField (chld.filter lcEligible) (lcN.filterVals chld fs) s.text with
        | none => simp
        | some cf =>
          obtain ⟨ch, fv⟩ := cf
          obtain ⟨hwtc, hmem⟩ := findField_WT _ _ _ _ _ (filterVals_WTs _ _ hwts) hff
          have hmem' : ch ∈ chld := (List.mem_filter.mp hmem).1
          have hwfc : NodeWF ch = true := NodeWFs_mem _ _ (by simpa [NodeWF] using hwf) hmem'
          simp only []
          split
          · simp
          · exact ih ch fv false hwfc hwtc
      | map i k mv =>
        rw [withPtr_map] at hw
        obtain ⟨nl, ks, vs, hm, _, _, hwtv⟩ := WT_map_inv { i with ptr := false } k mv _ rfl hw
        simp only [NodeWF, Bool.and_eq_true] at hwf
        obtain ⟨⟨hkb, hwfk⟩, hwfm⟩ := hwf
        cases k with
        | basic ki =>
          simp only [hm, typn_basic, typu_basic, ptr_basic]
          have nested : ∀ (x : Val), WT mv x = true →
              (if (lcRequireLen mv && rest.isEmpty && GenCfg.fixed.lcElemStopZero) = true then some (LcOut.val 0)
               else lcN GenCfg.fixed isCap mv false x rest) ≠ some .panic := by
            intro x hx
            split
            · simp
            · exact ih mv x false hwfm hx
          have hz : WT mv (zeroVal mv) = true := WT_zeroVal mv hwfm
          by_cases hhc : (!mv.info.hasc) = true
          · simp [hhc]
          · simp only [hhc, Bool.false_eq_true, if_false]
            by_cases hstr : (ki.typn == "string") = true
            · simp only [hstr, if_true]
              by_cases hp : ki.ptr = true
              · simp [hp]
              · simp only [hp, Bool.false_eq_true, if_false]
                cases hl : lookupKey ks vs (.str s.text) with
                | some x => exact nested x (lookupKey_WT mv ks vs _ x hwtv hl)
                | none => simp
            · have hstr' : (ki.typn == "string") = false := by simpa using hstr
              simp only [hstr', Bool.false_eq_true, if_false]
              obtain ⟨c, hc⟩ := convSeg_wf_some ki s hwfk
              rw [hc]
              cases c with
              | err => simp
              | «opaque» => exact nested _ hz
              | ok key =>
                simp only []
                by_cases hp : ki.ptr = true
                · simp only [hp, if_true]; exact nested _ hz
                · simp only [hp, Bool.false_eq_true, if_false]
                  cases hl : lookupKey ks vs key with
                  | some x => exact nested x (lookupKey_WT mv ks vs key x hwtv hl)
                  | none => exact nested _ hz
        | _ => simp [Node.isBasicTyp] at hkb
      | slice i e =>
        by_cases hb : (i.typn == "[]byte") = true
        · simp [hb]
        · have hb' : (i.typn == "[]byte") = false := by simpa using hb
          rw [withPtr_slice] at hw
          obtain ⟨nl, es, c, hes, hwte⟩ := WT_slice_inv { i with ptr := false } e _ rfl hb' hw
          have hwfe : NodeWF e = true := by simpa [NodeWF] using hwf
          simp only [hb', hes, Bool.false_eq_true, if_false]
          split
          · simp
          · cases hpi : s.pi with
            | none => simp
            | some idx =>
              simp only []
              by_cases hlt : (es.length : Int) > idx
              · rw [if_pos hlt]
                by_cases hneg : idx < 0
                · rw [if_pos hneg]
                  have hcfg : GenCfg.fixed.negIndexPanics = false := rfl
                  simp [hcfg]
                · rw [if_neg hneg]
                  obtain ⟨x, hx⟩ := nth?_some_of_lt es idx.toNat (by omega)
                  have hwtx := nth?_WT e es _ x hwte hx
                  simp only [hx]
                  split
                  · simp
                  · exact ih e x false hwfe hwtx
              · rw [if_neg hlt]; simp

theorem lcM_no_panic (isCap : Bool) (n : Node) (f : Form) (v : Val) (p : List Seg)
    (hwf : NodeWF n = true) (hwt : WT n v = true) :
    lcM GenCfg.fixed isCap n f v p ≠ .panic := by
  unfold lcM
  rcases rootOfC_fixed f with h | h <;> rw [h]
  · simp only []
    have := lcN_no_panic isCap p n v true hwf hwt
    generalize lcN GenCfg.fixed isCap n true v p = o at this ⊢
    cases o with
    | none => simp
    | some c => intro hc; apply this; simp only [Option.getD_some] at hc; rw [hc]
  · cases f <;> simp

end Inspector
