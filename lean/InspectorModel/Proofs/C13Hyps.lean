/-
Proofs/C13Hyps.lean — C13: the decidable hypothesis under which the go/ast parser model and the go/types
parser model (Gen/Parsers.lean) produce the same tree. Definitions only (structural recursion, so `decide`
evaluates them), so that the driver can import this file without the proofs.
-/
import InspectorModel.Gen.Parsers
namespace Inspector

/-- Number of declared (named) types a type expression mentions outside struct literals: the number of
package-qualified tokens in go/types' `Type.String()` (`typeToks`). Same function as the driver's
`namedInLiteral`. -/
def quals (p : Pkg) : TExpr → Nat
  | .name n => if (p.lookup n).isSome then 1 else 0
  | .star e => quals p e
  | .slice e => quals p e
  | .map k v => quals p k + quals p v
  | .struct _ => 0

def TExpr.isStar : TExpr → Bool
  | .star _ => true
  | _ => false

/-- `AgreeOK p fuel top e`: the hypothesis of `parsers_agree`, checked along exactly the expressions that
`parseAstE p fuel e` visits (declared names are followed into their definitions; `top` = "`e` is the
definition of a declared type", the only position where a struct literal is admitted).
* `fuel` suffices for the go/ast model to resolve `e` completely (no recursive types within `fuel`);
* for the ORIGINAL go/types parser only (`p.dropsFirstQualOnly`): every slice / map literal mentions at most ONE
  declared type (`quals ≤ 1`): then `strings.Replace(t.String(), pkgDot, "", 1)` removes every qualifier
  (finding `parser-typename-qualification` is the violation of this clause). For the parser as it is since
  `fix: the go/types parser left package qualifiers in literal type names` (`strings.Replace(…, -1)`, flag off)
  the clause is vacuous: any number of declared types may be mentioned;
* no struct literal except as the definition of a declared type (anonymous struct fields/elements: go/types
  gives `typn = "struct{…}"`, `pkg = ""`; go/ast gives `typn = ""`, `pkg = <package>`);
* no declared type is defined as a pointer (`type P *T`: go/ast composes `[]*P`, go/types prints `[]P`);
* no pointer to a pointer (`**T`: go/types leaves `typn = "*T"`, go/ast `"T"`);
* identifiers are not empty (always so in Go source; in the abstract syntax an empty declared name would make
  `withComposed` overwrite the name). -/
def AgreeOK (p : Pkg) : Nat → Bool → TExpr → Bool
  | 0, _, _ => false
  | f + 1, top, e =>
    match e with
    | .name n =>
      !n.isEmpty &&
      (match p.lookup n with
       | some d => AgreeOK p f true d
       | none => true)
    | .star x => !top && !x.isStar && AgreeOK p f false x
    | .slice x => (!p.dropsFirstQualOnly || decide (quals p x ≤ 1)) && AgreeOK p f false x
    | .map k v => (!p.dropsFirstQualOnly || decide (quals p k + quals p v ≤ 1)) && AgreeOK p f false k && AgreeOK p f false v
    | .struct fs =>
      top &&
      (match f with
       | 0 => fs.isEmpty
       | f' + 1 => fs.all (fun x => AgreeOK p f' false x.2))

/-- The hypothesis for one declared type `name`: its definition satisfies `AgreeOK` at the top position.
(An undeclared `name` satisfies it trivially: both parsers return `none`.) -/
def DeclOK (p : Pkg) (name : String) (fuel : Nat) : Bool :=
  match p.lookup name with
  | some d => AgreeOK p fuel true d
  | none => true

end Inspector
