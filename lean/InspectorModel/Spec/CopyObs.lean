/-
Spec/CopyObs.lean — what the driver observes of a Copy / CopyTo / Reset call and of a Reset-then-CopyTo
history, and the acceptance relations it applies to the observation (C06 / C08). Moved here from
Driver/GenOps.lean so that the property theorems can be stated about exactly these definitions.

The driver normalises every value it compares with `canon ∘ dropCaps` (`canon` sorts map entries for the
comparison with the implementation's serialisation; it lives in Driver/Parse.lean and is `partial`). The
definitions here take the normalisation as parameter `norm`; the driver instantiates it with
`fun v => canon (dropCaps v)`, the theorems with `dropCaps`.
-/
import InspectorModel.Spec.CopySpec
namespace Inspector

def showDeqOut : DeqOut → String
  | .t => "t" | .f => "f" | .panic => "panic"

/-- Observation of a Copy / CopyTo / Reset call. -/
inductive CpObs
  | ok (shared : Nat) (deq : String) (same : Bool) (v : Val)
  | other (tag : String)

def CpObs.beq : CpObs → CpObs → Bool
  | .ok s d m v, .ok s' d' m' v' => s == s' && d == d' && m == m' && v == v'
  | .other a, .other b => a == b
  | _, _ => false
instance : BEq CpObs := ⟨CpObs.beq⟩

def copyObsOfWith (norm : Val → Val) (cfg : GenCfg) (n : Node) (src : Val) (o : CopyOut) : CpObs :=
  match o with
  | .ok v s =>
    -- pointer-typed map keys of the copy are found by DeepEqual exactly when the copy shares them
    let d := showDeqOut (deqM { cfg := cfg, ident := cfg.copyPtrShared } n .ptr .ptr src v)
    .ok s d true (norm v)
  | .panic => .other "panic"
  | .unsupported => .other "unsupported"
  | .mustPointer => .other "mustpointer"

def cpAccepts (n : Node) (src : Val) (expectRefusal : Option String) (o : CpObs) : Bool :=
  match expectRefusal, o with
  | some t, .other t' => t == t'
  | some _, _ => false
  | none, .ok s d m v => copyAccepts n src v s (d == "t") m
  | none, .other _ => false

/-- Copy: the refusal expected for an argument form (`opCopy`). -/
def copyRefusal (f : Form) : Option String :=
  match f with | .foreign | .untypedNil => some "unsupported" | _ => none

/-- Typed-nil roots are C02's territory (`opCopy`). -/
def copyNilRoot (f : Form) : Bool :=
  match rootOf f with | .ok | .early => false | _ => true

/-- CopyTo: the refusal expected for the argument forms of source and destination (`opCopyTo`). -/
def copyToRefusal (fs fd : Form) : Option String :=
  match fs, fd with
  | .foreign, _ | .untypedNil, _ => some "unsupported"
  | _, .val => some "mustpointer"
  | _, .foreign | _, .untypedNil => some "unsupported"
  | _, _ => none

/-- CopyTo: a typed-nil source or destination root (`opCopyTo`'s `nilRoot` argument of `classify`). -/
def copyToNilRoot (fs fd : Form) : Bool :=
  (match rootOf fs with | .nilX | .panic => true | _ => false) || (match rootOf fd with | .nilX | .panic => true | _ => false)

def resetObsOfWith (norm : Val → Val) (o : ResetOut) : CpObs :=
  match o with
  | .ok v => .ok 0 "-" true (norm v)
  | .panic => .other "panic"
  | .unsupported => .other "unsupported"
  | .mustPointer => .other "mustpointer"

/-- Reset: acceptance of an observation for an argument form (`opReset`). -/
def resetAccepts (f : Form) (o : CpObs) : Bool :=
  match f, o with
  | .val, .other t => t == "mustpointer"
  | .foreign, .other t | .untypedNil, .other t => t == "unsupported"
  | .ptr, .ok _ _ _ x | .ptrptr, .ok _ _ _ x => isEmptyV x
  | .nilPtr, _ | .ptrNilPtr, _ | .nilPtrPtr, _ => true
  | _, _ => false

/-- One step of a cycle as observed: destination after Reset and after CopyTo. -/
def cycleModelWith (norm : Val → Val) (cfg : GenCfg) (n : Node) : Val → List Val → List CpObs
  | _, [] => []
  | d, s :: rest =>
    match resetN cfg n d with
    | .panic => [.other "panic"]
    | .ok r =>
      match copyN cfg n true r s with
      | .panic => [.ok 0 "r" true (norm r), .other "panic"]
      | .ok c _ => .ok 0 "r" true (norm r) :: .ok 0 "c" true (norm c) :: cycleModelWith norm cfg n c rest

/-- C08: after every Reset the destination is empty; after every CopyTo it is the cycle's source up to
nil/empty identification. -/
def cycleAccepts : List Val → List CpObs → Bool
  | [], [] => true
  | s :: rest, .ok _ "r" _ r :: .ok _ "c" _ c :: more => isEmptyV r && approxEq s c && cycleAccepts rest more
  | _, _ => false

end Inspector
