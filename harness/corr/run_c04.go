package corr

import "reflect"

func init() {
	Runners["C04"] = runC04
}

func runC04(p *Plan) {
	r := NewRng(p.Seed)
	nRandom := scale(p.Tier, 2, 10)
	perValue := scale(p.Tier, 40, 200)
	perPath := scale(p.Tier, 4, 10)
	for _, e := range p.Types {
		tr := r.Fork(hashStr(e.Name))
		for _, vc := range valuesFor(p, e, tr, nRandom) {
			ps := EnumPaths(tr, vc.v, perValue)
			for i, path := range ps.Paths {
				el, found := NavReflect(vc.v, path)
				cands := OperandsNear(tr, el, found)
				if found && (el.Kind() == reflect.Float32 || el.Kind() == reflect.Float64) && (p.Tier == "thorough" || tr.Chance(1, 3)) {
					OpCmpSpecial(p.Out, e, vc.v, path)
				}
				for j := 0; j < perPath; j++ {
					f := readForms[0]
					if tr.Chance(1, 5) {
						f = readForms[1+tr.Intn(2)]
					}
					op := 1 + tr.Intn(6)
					if tr.Chance(1, 12) {
						op = []int{0, 7, 8, 9, -1}[tr.Intn(5)]
					}
					right := cands[tr.Intn(len(cands))]
					if found && tr.Chance(1, 2) {
						right = cands[len(cands)-1-tr.Intn(min(len(cands), 8))]
					}
					OpCmp(p.Out, e, vc.v, f, path, op, right)
					p.Out.Count("path:" + ps.Kinds[i])
					p.Out.Count("op:" + itoa(op))
				}
			}
		}
	}
}
