/-
Props/C09.lean — property theorems for C09 (Loop visits every element exactly once, honours Break/Continue).
-/
import InspectorModel.Gen.Loop
import InspectorModel.Spec.LoopSpec
namespace Inspector.C09

/-- A scalar is never looped. -/
theorem basic_no_callbacks (cfg : GenCfg) (sc : LoopScript) (ft : Val → Bytes) (i : Info) (v : Val) (p : List Seg) :
    (loopN cfg sc ft (.basic i) v p).groups = [] := by
  simp [loopN]

end Inspector.C09
