/-
Gen/Parsers.lean — C13: both parsers as functions from an abstract declaration syntax to `Node`.
`parseAst` mirrors parser_ast.go (go/ast: directory and single-file targets); `parsePkg` mirrors
parser_loader.go over a small model of what go/types presents (named vs underlying types and
`Type.String()` with package-path qualification, of which `strings.Replace(…, pkgDot, "", 1)` removes the
first occurrence only).
-/
import InspectorModel.Core.Types
namespace Inspector

/-- Type expressions of the supported grammar G. -/
inductive TExpr
  | name (n : String)                       -- a builtin scalar or a declared type
  | star (e : TExpr)
  | slice (e : TExpr)
  | map (k v : TExpr)
  | struct (fields : List (String × TExpr))
deriving Repr, Inhabited

/-- A package: its name, its import path, and the named types it declares. -/
structure Pkg where
  name : String
  path : String
  decls : List (String × TExpr)
  /-- Defect switch of the go/types parser (`parser-typename-qualification`): `true` = the original
  `strings.Replace(t.String(), pkgDot, "", 1)`, which removes the first package qualifier only; `false`
  (the tree as it is since `fix: the go/types parser left package qualifiers in literal type names`) = all. -/
  dropsFirstQualOnly : Bool := false
deriving Inhabited

def Pkg.lookup (p : Pkg) (n : String) : Option TExpr :=
  (p.decls.find? (fun d => d.1 == n)).map (·.2)

def setName (n : Node) (s : String) : Node :=
  match n with
  | .basic i => .basic { i with name := s }
  | .struct i c => .struct { i with name := s } c
  | .map i k v => .map { i with name := s } k v
  | .slice i e => .slice { i with name := s } e

def setTypn (n : Node) (s : String) : Node :=
  match n with
  | .basic i => .basic { i with typn := s }
  | .struct i c => .struct { i with typn := s } c
  | .map i k v => .map { i with typn := s } k v
  | .slice i e => .slice { i with typn := s } e

def setPkg (n : Node) (s : String) : Node :=
  match n with
  | .basic i => .basic { i with pkg := s }
  | .struct i c => .struct { i with pkg := s } c
  | .map i k v => .map { i with pkg := s } k v
  | .slice i e => .slice { i with pkg := s } e

/-- composeAstTypeName (parser_ast.go:188-211). -/
def composeTypn (n : Node) : String :=
  match n with
  | .map _ k v => "map[" ++ (if k.ptr then "*" else "") ++ k.typn ++ "]" ++ (if v.ptr then "*" else "") ++ v.typn
  | .slice _ e => "[]" ++ (if e.ptr then "*" else "") ++ e.typn
  | _ => ""

def withComposed (n : Node) : Node := if n.typn.isEmpty then setTypn n (composeTypn n) else n

mutual
/-- parseAstExpr (parser_ast.go:83-186) for an expression that is not the root of a declaration
(`depth > 0`, `id == nil` unless it is a field, whose name the caller sets). `fuel` bounds the
resolution of named types (G has no recursive types). -/
def parseAstE (p : Pkg) (fuel : Nat) (e : TExpr) : Node :=
  match fuel with
  | 0 => .basic {}
  | f + 1 =>
    match e with
    | .name n =>
      (match p.lookup n with
       | some d =>
         -- `id.Obj.Decl` is a TypeSpec: parse its type, then name = "", typn = the declared name, pkg set
         let r := parseAstE p f d
         setPkg (setTypn (setName r "") n) p.name
       | none =>
         .basic { typn := n, typu := n, hasb := n == "string", hasc := n == "string" })
    | .star x => (parseAstE p f x).withPtr true
    | .slice x =>
      let el := parseAstE p f x
      let n0 : Node := .slice {} el
      let typn := composeTypn n0
      .slice { typn := typn, hasb := typn == "[]byte" || el.info.hasb, hasc := true } el
    | .map k v =>
      let kn := parseAstE p f k
      let vn := parseAstE p f v
      let n0 : Node := .map {} kn vn
      .map { typn := composeTypn n0, hasb := kn.info.hasb || vn.info.hasb, hasc := true } kn vn
    | .struct fields =>
      let ch := parseAstFields p f fields
      .struct { pkg := p.name, hasb := ch.any (·.info.hasb), hasc := ch.any (·.info.hasc) } ch
def parseAstFields (p : Pkg) (fuel : Nat) : List (String × TExpr) → List Node
  | [] => []
  | (fname, fe) :: rest =>
    (match fuel with
     | 0 => []
     | f + 1 => setName (withComposed (parseAstE p f fe)) fname :: parseAstFields p (f + 1) rest)
end

/-- A declared type through the go/ast parser (depth 0: `typn = id.String()`, `name` = the object's name). -/
def parseAstDecl (p : Pkg) (name : String) (fuel : Nat) : Option Node :=
  match p.lookup name with
  | none => none
  | some d =>
    let r := parseAstE p fuel d
    let r := match r with
      | .struct i c => Node.struct { i with typn := name, name := name, pkg := p.name } c
      | n => setPkg (setName (setTypn n name) name) p.name
    some r

/-- `Type.String()` of go/types, as a token list: a qualified named type is one token whose qualifier
`strings.Replace(…, pkgDot, "", 1)` can drop. -/
inductive TTok
  | lit (s : String)
  | qual (name : String)       -- pkgpath.Name
deriving Repr, DecidableEq

def typeToks (p : Pkg) : TExpr → List TTok
  | .name n => if (p.lookup n).isSome then [.qual n] else [.lit n]
  | .star e => .lit "*" :: typeToks p e
  | .slice e => .lit "[]" :: typeToks p e
  | .map k v => [.lit "map["] ++ typeToks p k ++ [.lit "]"] ++ typeToks p v
  | .struct _ => [.lit "struct{…}"]

/-- Render with the package qualifiers removed: all of them (`strings.Replace(s, pkgDot, "", -1)`), or — the
original parser, `p.dropsFirstQualOnly` — the first one only, the others kept. -/
def renderDropFirst (p : Pkg) : List TTok → Bool → String
  | [], _ => ""
  | .lit s :: rest, dropped => s ++ renderDropFirst p rest dropped
  | .qual n :: rest, dropped => (if dropped && p.dropsFirstQualOnly then p.path ++ "." ++ n else n) ++ renderDropFirst p rest true

def typeStringLocal (p : Pkg) (e : TExpr) : String := renderDropFirst p (typeToks p e) false

/-- `strings.Replace(s, "*", "", 1)` on a rendered type that starts with `*`. -/
def dropLeadingStar (s : String) : String := if s.startsWith "*" then (s.drop 1).toString else s

mutual
/-- parsePkgType (parser_loader.go:57-158). `viaUnderlying`: the type is seen through `Underlying()`
(names already stripped). -/
def parsePkgE (p : Pkg) (fuel : Nat) (e : TExpr) : Node :=
  match fuel with
  | 0 => .basic {}
  | f + 1 =>
    match e with
    | .name n =>
      (match p.lookup n with
       | some d =>
         -- Named: typn = Obj.Name, pkg = Pkg.Name; then by the underlying type
         let r := parsePkgU p f d
         setPkg (setTypn r n) p.name
       | none => .basic { typn := n, typu := n, hasb := n == "string", hasc := n == "string" })
    | .star x =>
      -- the underlying of the element is parsed (its name is lost), then restored if the element is Named
      let r := (parsePkgU p f (underlyingOf p f x)).withPtr true
      (match x with
       | .name n => if (p.lookup n).isSome then setPkg (setTypn r n) p.name else r
       | _ => r)
    | _ => parsePkgU p f e
/-- By the shape of an (underlying) type; `typn` starts as `Replace(t.String(), pkgDot, "", 1)`. -/
def parsePkgU (p : Pkg) (fuel : Nat) (e : TExpr) : Node :=
  match fuel with
  | 0 => .basic {}
  | f + 1 =>
    let typn0 := typeStringLocal p e
    match e with
    | .name n => parsePkgE p f (.name n)
    | .star x => parsePkgE p f (.star x)
    | .slice x =>
      let el := parsePkgE p f x
      .slice { typn := typn0, hasb := typn0 == "[]byte" || el.info.hasb, hasc := true } el
    | .map k v =>
      let kn := parsePkgE p f k
      let vn := parsePkgE p f v
      .map { typn := typn0, hasb := kn.info.hasb || vn.info.hasb, hasc := true } kn vn
    | .struct fields =>
      let ch := parsePkgFields p f fields
      .struct { typn := typn0, hasb := ch.any (·.info.hasb), hasc := ch.any (·.info.hasc) } ch
def parsePkgFields (p : Pkg) (fuel : Nat) : List (String × TExpr) → List Node
  | [] => []
  | (fname, fe) :: rest =>
    (match fuel with
     | 0 => []
     | f + 1 =>
       let ch := parsePkgE p f fe
       -- `if ch.ptr { ch.typn = Replace(Replace(f.Type().String(), pkgDot, "", 1), "*", "", 1) }`
       let ch := if ch.ptr then setTypn ch (dropLeadingStar (typeStringLocal p fe)) else ch
       setName ch fname :: parsePkgFields p (f + 1) rest)
/-- `Underlying()` of a type expression: a declared name resolves to its definition. -/
def underlyingOf (p : Pkg) (fuel : Nat) (e : TExpr) : TExpr :=
  match fuel with
  | 0 => e
  | f + 1 =>
    match e with
    | .name n => (match p.lookup n with | some d => underlyingOf p f d | none => e)
    | x => x
end

/-- A declared type through the go/types parser (parser_loader.go:11-55). -/
def parsePkgDecl (p : Pkg) (name : String) (fuel : Nat) : Option Node :=
  match p.lookup name with
  | none => none
  | some _ =>
    let r := parsePkgE p fuel (.name name)
    let r := match r with
      | .struct i c => Node.struct { i with typn := name, name := name, pkg := p.name } c
      | n => setPkg (setName n name) p.name
    some r

end Inspector
