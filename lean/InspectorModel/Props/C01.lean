/-
Props/C01.lean — property theorems for C01 (Get/GetTo return exactly the element the path denotes).

`get_correct` is the property at full strength for the *repaired* emitter model (`GenCfg.fixed`): for every
well-formed type tree, every well-typed value and every path, what GetTo answers is accepted by the
independent specification (`getAccepts (nav n v p)`). The current tree differs from the repaired model
exactly on the listed known-finding classes (`container-fallthrough`, `negative-index`, `nil-root-panics`);
`repo_not_correct` exhibits a concrete input on which the model of the current tree is rejected.
-/
import InspectorModel.Proofs.C01
namespace Inspector.C01

/-- Empty path: GetTo hands out the root itself (compiler.go:383). -/
theorem empty_path (cfg : GenCfg) (n : Node) (v : Val) :
    getM cfg n .ptr v [] = (Res.mk n v).out := rfl

/-- C01 for the repaired emitter, every way a non-nil root reaches the inspector (`T`, `*T`, `**T`). -/
theorem get_correct (n : Node) (v : Val) (p : List Seg) (f : Form)
    (hf : rootOf f = .ok) (hwf : NodeWF n = true) (hwt : WT n v = true) :
    getAccepts (nav n v p) (getM GenCfg.fixed n f v p) = true := by
  have hr : rootOfC GenCfg.fixed f = .ok := by
    unfold rootOfC
    rw [hf]
  unfold getM
  rw [hr]
  cases p with
  | nil => simp [nav, navV, getAccepts, GetOut.beq_refl]
  | cons s rest =>
    simp only []
    exact getN_correct (s :: rest) n v false true hwf hwt (fun h => by cases h)

/-- A typed-nil root is refused like a foreign argument by the repaired emitter: nothing, no panic. -/
theorem get_nil_root (n : Node) (v : Val) (p : List Seg) (f : Form) (hf : rootOf f ≠ .ok) :
    getM GenCfg.fixed n f v p = .none := by
  cases f <;> simp [rootOf] at hf <;> rfl

/-- The answer does not depend on the argument form. -/
theorem get_forms_agree (cfg : GenCfg) (n : Node) (v : Val) (p : List Seg) :
    getM cfg n .val v p = getM cfg n .ptr v p ∧ getM cfg n .ptrptr v p = getM cfg n .ptr v p := ⟨rfl, rfl⟩

section NonVacuity
/-- `struct { M map[string]int; L []int }` with `M = {"a": 7}`, `L = [3]`. -/
def exNode : Node :=
  .struct { typn := "T" } [
    .map { typn := "map[string]int", name := "M" } (.basic { typn := "string", typu := "string" }) (.basic { typn := "int", typu := "int" }),
    .slice { typn := "[]int", name := "L" } (.basic { typn := "int", typu := "int" })]
def exVal : Val := .struct [.map false [.str (strBytes "a")] [.int 7], .slice false [.int 3] 1]
def seg (t : String) (pi : Option Int := none) : Seg := { text := strBytes t, pi := pi }

/-- The hypotheses of `get_correct` are met by a concrete non-trivial input … -/
example : NodeWF exNode = true ∧ WT exNode exVal = true := by decide
/-- … on which the repaired model finds the element. -/
example : (getM GenCfg.fixed exNode .ptr exVal [seg "M", seg "a"] == .some "int" (.int 7)) = true := by decide
/-- The tree as it was at the pinned commit (`GenCfg.original`) is not accepted: with the path `L.-1` it
panicked (finding `negative-index`) and with `L.5` it handed out the enclosing slice (`container-fallthrough`);
both have since been repaired by `fix:` commits. -/
theorem repo_not_correct :
    getAccepts (nav exNode exVal [seg "L", seg "-1" (some (-1))]) (getM GenCfg.original exNode .ptr exVal [seg "L", seg "-1" (some (-1))]) = false ∧
    (getM GenCfg.original exNode .ptr exVal [seg "L", seg "-1" (some (-1))] == .panic) = true ∧
    getAccepts (nav exNode exVal [seg "L", seg "5" (some 5)]) (getM GenCfg.original exNode .ptr exVal [seg "L", seg "5" (some 5)]) = false := by
  decide
end NonVacuity

/-! ### The tree as it is now

After the generator `fix:` commits (negative index, container fall-through, typed-nil roots) no switch that
get mode consults is left on in `GenCfg.repo`: the model of the current tree *is* the repaired model, so C01 is
proved about the emitter as it stands — for every argument form. -/
section CurrentTree

theorem getFallThrough_repo (n : Node) (root : Bool) (v : Val) (e : Bool) (b : Option Res) :
    getFallThrough GenCfg.repo n root v e b = getFallThrough GenCfg.fixed n root v e b := rfl

theorem getN_repo (p : List Seg) : ∀ (n : Node) (root : Bool) (v : Val) (buf : Option Res),
    getN GenCfg.repo n root v p buf = getN GenCfg.fixed n root v p buf := by
  induction p with
  | nil => intro n root v buf; cases n <;> rfl
  | cons s rest ih =>
    intro n root v buf
    have hneg : GenCfg.repo.negIndexPanics = GenCfg.fixed.negIndexPanics := rfl
    cases n with
    | basic i => rfl
    | struct i chld => simp only [getN, ih, getFallThrough_repo]
    | map i k mv => simp only [getN, ih, getFallThrough_repo]
    | slice i e => simp only [getN, ih, getFallThrough_repo, hneg]

theorem getM_repo (n : Node) (f : Form) (v : Val) (p : List Seg) :
    getM GenCfg.repo n f v p = getM GenCfg.fixed n f v p := by
  have h : rootOfC GenCfg.repo f = rootOfC GenCfg.fixed f := rfl
  unfold getM
  rw [h]
  cases p with
  | nil => rfl
  | cons s rest => simp only [getN_repo]

/-- C01 for the emitter as it stands. -/
theorem get_current (n : Node) (v : Val) (p : List Seg) (f : Form)
    (hf : rootOf f = .ok) (hwf : NodeWF n = true) (hwt : WT n v = true) :
    getAccepts (nav n v p) (getM GenCfg.repo n f v p) = true := by
  rw [getM_repo]; exact get_correct n v p f hf hwf hwt

end CurrentTree

end Inspector.C01
