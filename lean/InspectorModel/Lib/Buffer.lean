/-
Lib/Buffer.lean — Layer-2 model (memory identities) of the accumulating buffer (buffer.go, bufferize.go)
and of what clients can do with the slices it hands out. Byte arrays live in an arena; the buffer and
every handed-out slice are windows (array, offset, length, capacity) into it.
-/
import InspectorModel.Core.Basic
namespace Inspector

/-- A window into an arena array. -/
structure Win where
  arr : Nat
  off : Nat
  len : Nat
  cap : Nat
deriving Repr, DecidableEq, Inhabited

/-- A handed-out value: a window (strings have cap = len and are never written by clients). -/
structure Handle where
  win : Win
  isStr : Bool := false
  /-- handed out before the last Reset: no longer protected, but the variable may still be used as a destination -/
  stale : Bool := false
deriving Repr, DecidableEq, Inhabited

structure BufSt where
  /-- arena: array id ↦ bytes of the whole array (its length is its capacity) -/
  arrays : List Bytes := []
  /-- the buffer's own window (`b.b`): `none` = nil slice -/
  buf : Option Win := none
  handles : List Handle := []
deriving Repr, Inhabited

/-- `true` (original code): slices are handed out as `b[off:]` — their capacity runs to the end of the
buffer's array. `false` (repaired): `b[off:len:len]`. -/
structure BufCfg where
  openCap : Bool := false   -- repaired in /repo (fix: hand out buffered byte slices with their own capacity)
deriving Repr, Inhabited

def readWin (arrays : List Bytes) (w : Win) : Bytes :=
  ((arrays.getD w.arr []).drop w.off).take w.len

/-- Write `p` into array `a` at offset `off` (within its length). -/
def writeAt (a : Bytes) (off : Nat) (p : Bytes) : Bytes :=
  a.take off ++ p ++ a.drop (off + p.length)

def setArr (arrays : List Bytes) (i : Nat) (a : Bytes) : List Bytes :=
  arrays.set i a

/-- Go's `append(s, p...)` on a window: in place when it fits, otherwise a fresh array of capacity
`newCap` (the growth policy is a parameter: any `newCap ≥ len + |p|`). Returns the arena and the
resulting window. -/
def appendWin (arrays : List Bytes) (w : Option Win) (p : Bytes) (newCap : Nat) : List Bytes × Option Win :=
  match w with
  | none =>
    if p.isEmpty then (arrays, none)
    else
      let cap := max newCap p.length
      (arrays ++ [p ++ List.replicate (cap - p.length) 0], some { arr := arrays.length, off := 0, len := p.length, cap := cap })
  | some w =>
    if w.len + p.length ≤ w.cap then
      let a := arrays.getD w.arr []
      (setArr arrays w.arr (writeAt a (w.off + w.len) p), some { w with len := w.len + p.length })
    else
      let cap := max newCap (w.len + p.length)
      let content := readWin arrays w ++ p
      (arrays ++ [content ++ List.replicate (cap - content.length) 0],
       some { arr := arrays.length, off := 0, len := content.length, cap := cap })

/-- The slice handed out for the `n` bytes just appended at `off` of the buffer window `b`. -/
def handOut (cfg : BufCfg) (b : Win) (off n : Nat) : Win :=
  { arr := b.arr, off := b.off + off, len := n, cap := if cfg.openCap then b.cap - off else n }

inductive BufOp
  | bufferize (p : Bytes)           -- Bufferize / the bytes half of CopyTo
  | bufferizeStr (p : Bytes)        -- BufferizeString
  | assignBuf (rendered : Bytes) (isStr : Bool)   -- AssignBuf into a fresh []byte / string destination (Acquire, append, Release)
  | assignBufTo (h : Nat) (rendered : Bytes)      -- AssignBuf into the variable of an earlier (possibly stale) handle
  | reset
  | overwrite (h : Nat) (i : Nat) (b : UInt8)     -- client writes a byte through a handed-out []byte
  | appendTo (h : Nat) (q : Bytes)                -- client: h = append(h, q...)
  | setNoBuf (h : Nat) (rendered : Bytes)         -- client: Assign(&h, scalar) without a buffer: ToBytes(h[:0], …)
deriving Repr, Inhabited

/-- One step; `newCap` is the capacity the runtime chose if this step had to grow an array. -/
def bufStep (cfg : BufCfg) (s : BufSt) (op : BufOp) (newCap : Nat) : BufSt :=
  match op with
  | .bufferize p | .bufferizeStr p =>
    let isStr := match op with | .bufferizeStr _ => true | _ => false
    let off := match s.buf with | some b => b.len | none => 0
    let (arrays, b') := appendWin s.arrays s.buf p newCap
    (match b' with
     | some b =>
       let w := handOut cfg b off p.length
       { arrays := arrays, buf := some b, handles := s.handles ++ [{ win := if isStr then { w with cap := w.len } else w, isStr := isStr }] }
     | none =>
       -- nil buffer and empty input: a nil slice / empty string is handed out
       { s with handles := s.handles ++ [{ win := { arr := 0, off := 0, len := 0, cap := 0 }, isStr := isStr }] })
  | .assignBuf r isStr =>
    let off := match s.buf with | some b => b.len | none => 0
    let (arrays, b') := appendWin s.arrays s.buf r newCap
    (match b' with
     | some b =>
       let w := handOut cfg b off r.length
       -- ReleaseBytes ignores an empty slice: the buffer keeps what it had
       let keep := b.len == 0
       { arrays := arrays, buf := if keep then s.buf else some b,
         handles := s.handles ++ [{ win := if isStr then { w with cap := w.len } else w, isStr := isStr }] }
     | none => { s with handles := s.handles ++ [{ win := { arr := 0, off := 0, len := 0, cap := 0 }, isStr := isStr }] })
  | .assignBufTo h r =>
    (match s.handles[h]? with
     | none => s
     | some hd =>
       let off := match s.buf with | some b => b.len | none => 0
       let (arrays, b') := appendWin s.arrays s.buf r newCap
       (match b' with
        | some b =>
          let w := handOut cfg b off r.length
          let keep := b.len == 0
          { arrays := arrays, buf := if keep then s.buf else some b,
            handles := s.handles.set h { win := if hd.isStr then { w with cap := w.len } else w, isStr := hd.isStr, stale := false } }
        | none => { s with handles := s.handles.set h { win := { arr := 0, off := 0, len := 0, cap := 0 }, isStr := hd.isStr, stale := false } }))
  | .reset => { s with buf := s.buf.map (fun b => { b with len := 0 }), handles := s.handles.map fun h => { h with stale := true } }
  | .overwrite h i byte =>
    (match s.handles[h]? with
     | some hd =>
       if hd.isStr || i ≥ hd.win.len then s else
       let a := s.arrays.getD hd.win.arr []
       { s with arrays := setArr s.arrays hd.win.arr (writeAt a (hd.win.off + i) [byte]) }
     | none => s)
  | .appendTo h q =>
    (match s.handles[h]? with
     | some hd =>
       if hd.isStr then s else
       let (arrays, w') := appendWin s.arrays (some hd.win) q newCap
       (match w' with
        | some w => { s with arrays := arrays, handles := s.handles.set h { hd with win := w } }
        | none => s)
     | none => s)
  | .setNoBuf h r =>
    (match s.handles[h]? with
     | some hd =>
       if hd.isStr then s else
       -- x2bytes.ToBytes(p[:0], src): `make([]byte,0)` when p is nil, then append
       let (arrays, w') := appendWin s.arrays (some { hd.win with len := 0 }) r newCap
       (match w' with
        | some w => { s with arrays := arrays, handles := s.handles.set h { hd with win := w } }
        | none => s)
     | none => s)

/-- Content of every handed-out value. -/
def handleContents (s : BufSt) : List Bytes := s.handles.map fun h => readWin s.arrays h.win

def initBuf (cap : Nat) : BufSt :=
  if cap == 0 then {} else
  { arrays := [List.replicate cap 0], buf := some { arr := 0, off := 0, len := 0, cap := cap } }

end Inspector
