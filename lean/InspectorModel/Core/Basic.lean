/-
Core/Basic.lean — byte strings, hex coding, decimal rendering, Go integer wrap-around.
Core library only (no Mathlib): this file is linked into the `driver` executable.
-/
namespace Inspector

/-- Go strings and byte slices are arbitrary byte sequences. -/
abbrev Bytes := List UInt8

/-- UTF-8 bytes of a string (structural, so that closed instances reduce in the kernel). -/
def strBytes (s : String) : Bytes := s.toList.flatMap String.utf8EncodeChar

def hexDigit (n : Nat) : Char :=
  if n < 10 then Char.ofNat (48 + n) else Char.ofNat (87 + n)

def hexOfByte (b : UInt8) : List Char :=
  [hexDigit (b.toNat / 16), hexDigit (b.toNat % 16)]

def hexOfBytes (bs : Bytes) : String :=
  String.ofList (bs.flatMap hexOfByte)

def hexVal (c : Char) : Option Nat :=
  if '0' ≤ c ∧ c ≤ '9' then some (c.toNat - 48)
  else if 'a' ≤ c ∧ c ≤ 'f' then some (c.toNat - 87)
  else if 'A' ≤ c ∧ c ≤ 'F' then some (c.toNat - 55)
  else none

def bytesOfHexChars : List Char → Option Bytes
  | [] => some []
  | [_] => none
  | a :: b :: rest =>
    match hexVal a, hexVal b, bytesOfHexChars rest with
    | some x, some y, some r => some (UInt8.ofNat (x * 16 + y) :: r)
    | _, _, _ => none

def bytesOfHex (s : String) : Option Bytes := bytesOfHexChars s.toList

/-- Byte-wise lexicographic `<` — Go's `<` on strings. -/
def bytesLt : Bytes → Bytes → Bool
  | [], [] => false
  | [], _ :: _ => true
  | _ :: _, [] => false
  | a :: as, b :: bs => if a < b then true else if b < a then false else bytesLt as bs

def bytesLe (a b : Bytes) : Bool := !bytesLt b a

/-- Decimal rendering (`strconv.AppendInt(_, i, 10)`). -/
def renderInt (i : Int) : Bytes := strBytes (toString i)
def renderNat (n : Nat) : Bytes := strBytes (toString n)

/-- Go conversion to a signed integer type of `bits` bits (two's-complement wrap-around). -/
def wrapS (bits : Nat) (i : Int) : Int :=
  let m : Int := (2 : Int) ^ bits
  let r := i % m
  if r ≥ m / 2 then r - m else r

/-- Go conversion to an unsigned integer type of `bits` bits. -/
def wrapU (bits : Nat) (i : Int) : Nat := (i % ((2 : Int) ^ bits)).toNat

def inRangeS (bits : Nat) (i : Int) : Bool :=
  decide (-((2 : Int) ^ (bits - 1)) ≤ i) && decide (i < (2 : Int) ^ (bits - 1))

def inRangeU (bits : Nat) (n : Nat) : Bool := decide (n < 2 ^ bits)

/-- Number of binary digits of a natural number. -/
def bitLen (n : Nat) : Nat := if n == 0 then 0 else Nat.log2 n + 1

/-- Go's `float32(f)` on a fixed-point value (an integer count of 2⁻²⁰ units): round to 24 significant
bits, ties to even. Exact for |fx| < 2²⁴; overflow to ±Inf does not occur for the magnitudes the
harness produces (|value| < 2⁴⁴). -/
def roundF32 (fx : Int) : Int :=
  let n := fx.natAbs
  let bl := bitLen n
  if bl ≤ 24 then fx else
  let e := bl - 24
  let q := n >>> e
  let rem := n - (q <<< e)
  let half := 1 <<< (e - 1)
  let q' := if rem > half then q + 1 else if rem < half then q else (if q % 2 == 1 then q + 1 else q)
  let r : Int := (q' <<< e : Nat)
  if fx < 0 then -r else r

/-- Parse an optionally signed decimal integer (used by the driver's token reader only). -/
def parseIntTok (s : String) : Option Int := s.toInt?

def parseNatTok (s : String) : Option Nat := s.toNat?

end Inspector
