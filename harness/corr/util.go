package corr

import (
	"reflect"
	"strconv"
)

type valueCase struct {
	v    reflect.Value
	prof string
}

func hashStr(s string) uint64 {
	var h uint64 = 1469598103934665603
	for i := 0; i < len(s); i++ {
		h ^= uint64(s[i])
		h *= 1099511628211
	}
	return h
}

func itoa(i int) string { return strconv.Itoa(i) }

type valueCaseV struct{ v reflect.Value }

func srcsOf(s []valueCaseV) []reflect.Value {
	out := make([]reflect.Value, len(s))
	for i := range s {
		out[i] = s[i].v
	}
	return out
}
