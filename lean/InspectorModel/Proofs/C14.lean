/-
Proofs/C14.lean — the compilability model (`uncompilable`, Gen/Select.lean) implies the structural
hypothesis `EmitOK` that the compare/length theorems assume: a tree whose inspector the model calls
compilable has bool scalars spelled `bool` and no `[]byte` map values or slice elements.
-/
import InspectorModel.Gen.Select
import InspectorModel.Core.WF
set_option linter.unusedSimpArgs false
namespace Inspector

theorem builtin_bool_spelled (i : Info) (hwf : NodeWF (.basic i) = true) (hb : isBuiltinName i.typn = true) :
    boolSpelled i = true := by
  simp only [NodeWF, Bool.and_eq_true, Bool.or_eq_true, Bool.not_eq_true', beq_iff_eq] at hwf
  rcases hwf.2 with h | h
  · rw [h] at hb; cases hb
  · unfold boolSpelled
    by_cases ht : i.typu = "bool"
    · have : i.typn = "bool" := by rw [h]; exact ht
      simp [this]
    · simp [ht]

theorem intname_not_bool (t : String) (h : isIntName t = true) : (t != "bool") = true := by
  by_cases hb : t = "bool"
  · subst hb; revert h; decide
  · simpa using hb

mutual
theorem fieldClass_ok (r : EmitRules) : ∀ (b : Bool) (ch : Node), NodeWF ch = true → fieldClass r b ch = none → EmitOK ch = true
  | b, .basic i, hwf, h => by
    unfold fieldClass at h
    simp only [EmitOK]
    by_cases h1 : (b && i.ptr) = true
    · simp [h1] at h
    · simp only [h1, Bool.false_eq_true, if_false] at h
      by_cases h2 : isBuiltinName i.typn = true
      · exact builtin_bool_spelled i hwf h2
      · simp only [h2, Bool.false_eq_true, if_false] at h
        by_cases h3 : isIntName i.typu = true
        · unfold boolSpelled; simp [intname_not_bool _ h3]
        · simp only [h3, Bool.false_eq_true, if_false] at h
          by_cases h4 : (i.typu == "bool" && i.ptr) = true
          · simp only [Bool.and_eq_true] at h4
            unfold boolSpelled; simp [h4.2]
          · simp [h4] at h
  | b, .struct i chld, hwf, h => by
    unfold fieldClass at h
    simp only [EmitOK]
    exact fieldsClass_ok r (r.valueStruct && !i.ptr) chld (by simpa [NodeWF] using hwf) h
  | b, .slice i e, hwf, h => by
    unfold fieldClass at h
    simp only [EmitOK]
    by_cases hb : (i.typn == "[]byte") = true
    · simp [hb]
    · simp only [hb, Bool.false_eq_true, if_false] at h
      have := elemClass_ok r e (by simpa [NodeWF] using hwf) h
      simp [this.1, this.2]
  | b, .map i k v, hwf, h => by
    unfold fieldClass at h
    simp only [NodeWF, Bool.and_eq_true] at hwf
    simp only [EmitOK]
    cases hk : keyClass r k true with
    | some c => simp [hk] at h
    | none =>
      simp only [hk] at h
      have hv := valClass_ok r v hwf.2 h
      have hkk := keyClass_ok r k true hwf.1.1 hwf.1.2 hk
      simp [hkk, hv.1, hv.2]
theorem fieldsClass_ok (r : EmitRules) : ∀ (b : Bool) (chld : List Node), NodeWFs chld = true → fieldsClass r b chld = none → EmitOKs chld = true
  | _, [], _, _ => rfl
  | b, ch :: rest, hwf, h => by
    unfold fieldsClass at h
    simp only [NodeWFs, Bool.and_eq_true] at hwf
    cases hc : fieldClass r b ch with
    | some c => simp [hc] at h
    | none =>
      simp only [hc] at h
      simp [EmitOKs, fieldClass_ok r b ch hwf.1 hc, fieldsClass_ok r b rest hwf.2 h]
theorem elemClass_ok (r : EmitRules) : ∀ (e : Node), NodeWF e = true → elemClass r e = none → EmitOK e = true ∧ e.isBytes = false
  | .basic i, hwf, h => by
    unfold elemClass at h
    by_cases hb : isBuiltinName i.typn = true
    · exact ⟨by simpa [EmitOK] using builtin_bool_spelled i hwf hb, rfl⟩
    · simp [hb] at h
  | .struct i chld, hwf, h => by
    unfold elemClass at h
    exact ⟨by simpa [EmitOK] using fieldsClass_ok r (r.valueStruct && !i.ptr) chld (by simpa [NodeWF] using hwf) h, rfl⟩
  | .slice i e, _, h => by
    unfold elemClass at h
    split at h <;> cases h
  | .map _ _ _, _, h => by
    unfold elemClass at h
    cases h
theorem valClass_ok (r : EmitRules) : ∀ (v : Node), NodeWF v = true → valClass r v = none → EmitOK v = true ∧ v.isBytes = false
  | .basic i, hwf, h => by
    unfold valClass at h
    by_cases hb : isBuiltinName i.typn = true
    · exact ⟨by simpa [EmitOK] using builtin_bool_spelled i hwf hb, rfl⟩
    · simp [hb] at h
  | .struct i chld, hwf, h => by
    unfold valClass at h
    exact ⟨by simpa [EmitOK] using fieldsClass_ok r (r.valueStruct && !i.ptr) chld (by simpa [NodeWF] using hwf) h, rfl⟩
  | .slice i e, hwf, h => by
    unfold valClass at h
    by_cases hb : (i.typn == "[]byte") = true
    · simp [hb] at h
    · simp only [hb, Bool.false_eq_true, if_false] at h
      by_cases hp : i.ptr = true
      · simp [hp] at h
      · simp only [hp, Bool.false_eq_true, if_false] at h
        cases e with
        | basic ei =>
          simp only [] at h
          by_cases hbe : isBuiltinName ei.typn = true
          · refine ⟨?_, by simpa [Node.isBytes] using hb⟩
            simp only [EmitOK, hb, Bool.false_or, Node.isBytes, Bool.not_false, Bool.and_true]
            exact builtin_bool_spelled ei (by simpa [NodeWF] using hwf) hbe
          · simp [hbe] at h
        | _ => simp at h
  | .map i k vv, hwf, h => by
    unfold valClass at h
    simp only [NodeWF, Bool.and_eq_true] at hwf
    by_cases hp : i.ptr = true
    · simp [hp] at h
    · simp only [hp, Bool.false_eq_true, if_false] at h
      cases hk : keyClass r k false with
      | some c => simp [hk] at h
      | none =>
        simp only [hk] at h
        cases vv with
        | basic vi =>
          simp only [] at h
          by_cases hbe : isBuiltinName vi.typn = true
          · refine ⟨?_, rfl⟩
            simp only [EmitOK, Node.isBytes, Bool.not_false, Bool.and_true, Bool.and_eq_true]
            exact ⟨keyClass_ok r k false hwf.1.1 hwf.1.2 hk, builtin_bool_spelled vi hwf.2 hbe⟩
          · simp [hbe] at h
        | _ => simp at h
theorem keyClass_ok (r : EmitRules) : ∀ (k : Node) (looped : Bool), k.isBasicTyp = true → NodeWF k = true → keyClass r k looped = none → EmitOK k = true
  | .basic i, looped, _, hwf, h => by
    unfold keyClass at h
    by_cases hb : isBuiltinName i.typn = true
    · simpa [EmitOK] using builtin_bool_spelled i hwf hb
    · simp [Node.typn, Node.info, hb] at h
  | .struct _ _, _, hb, _, _ => by simp [Node.isBasicTyp] at hb
  | .map _ _ _, _, hb, _, _ => by simp [Node.isBasicTyp] at hb
  | .slice _ _, _, hb, _, _ => by simp [Node.isBasicTyp] at hb
end

/-- A tree the compilability model accepts meets the structural hypothesis of the compare/length theorems. -/
theorem uncompilableShape_of_uncompilable (root : Node) (h : uncompilable root = none) : uncompilableShape EmitRules.current root = none := by
  unfold uncompilable uncompilableWith at h
  cases hs : uncompilableShape EmitRules.current root with
  | none => rfl
  | some c => simp [hs] at h

theorem compilable_EmitOK (root : Node) (hwf : NodeWF root = true) (h0 : uncompilable root = none) :
    EmitOK root = true := by
  have h := uncompilableShape_of_uncompilable root h0
  cases root with
  | basic i => simp [uncompilableShape] at h
  | struct i chld =>
    simp only [uncompilableShape] at h
    simpa [EmitOK] using fieldsClass_ok EmitRules.current false chld (by simpa [NodeWF] using hwf) h
  | slice i e =>
    simp only [uncompilableShape] at h
    have := elemClass_ok EmitRules.current e (by simpa [NodeWF] using hwf) h
    simp [EmitOK, this.1, this.2]
  | map i k v =>
    simp only [uncompilableShape] at h
    simp only [NodeWF, Bool.and_eq_true] at hwf
    cases hk : keyClass EmitRules.current k true with
    | some c => simp [hk] at h
    | none =>
      simp only [hk] at h
      have hv := valClass_ok EmitRules.current v hwf.2 h
      simp [EmitOK, keyClass_ok EmitRules.current k true hwf.1.1 hwf.1.2 hk, hv.1, hv.2]

end Inspector
