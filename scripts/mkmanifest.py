#!/usr/bin/env python3
"""Regenerates MANIFEST.json from scripts/props.json (claimed properties) and properties.jsonl."""
import json, os
V = os.path.dirname(os.path.dirname(os.path.abspath(__file__)))
props = json.load(open(os.path.join(V, "scripts", "props.json")))
allids = [json.loads(l)["id"] for l in open(os.path.join(V, "properties.jsonl"))]
checks = []
for pid in allids:
    if pid not in props:
        continue
    c = props[pid]
    checks.append({
        "property_id": pid,
        "quick_cmd": "scripts/check.sh %s quick" % pid,
        "thorough_cmd": "scripts/check.sh %s thorough" % pid,
        "evidence_file": "evidence/%s.json" % pid,
        "replay_cmd_template": "scripts/replay.sh {path}",
        "engine": "lean-model+go-harness",
        "level_claimed": {"category": "proof", "text": c.get("level_text", "Lean 4 theorems about a behavioural model of the code (see the theorem list in the evidence), tied to /repo on every run by a differential correspondence that regenerates inspectors with the current compiler.go and compares implementation and model outcome by outcome; known defects are decidable model classes listed in known_findings.json."), "design_ref": c.get("design_ref", "DESIGN.md section 8")},
        "level_note": c.get("level_note", "Trusted: Lean kernel; axioms propext/Classical.choice/Quot.sound only; the hand-written model (modelled, not verified code) as far as the correspondence of the run exercises it; Go harness; strconv oracle."),
        "technique": c.get("technique", "Lean 4 theorem proving + differential model/implementation correspondence"),
    })
na = [{"property_id": p, "reason": "check not built yet (work in progress; see DESIGN.md section 13)"} for p in allids if p not in props]
m = {
    "version": 1,
    "setup_cmd": "scripts/setup.sh",
    "hooks": {"guard": "verif", "enable": "no hooks are needed: the generator and the inspectors are driven through their exported API", "baseline_off_cmd": "cd /repo && GOFLAGS=-mod=mod go test -vet=off -count=1 ./...", "source_commits": [], "add_only": True},
    "engines": [
        {"name": "lean-model", "path": "lean/", "serves_properties": sorted(props), "kind_free_text": "Lean 4 model, specifications, theorems; compiled core-only driver that judges every explored input"},
        {"name": "go-harness", "path": "harness/", "serves_properties": sorted(props), "kind_free_text": "grammar enumeration, run of the current generator, reflection-based value construction, in-process execution of the real inspectors"},
    ],
    "checks": checks,
    "notes": "See DESIGN.md (section 15 = as built). known_findings.json lists the genuine defects: open classes are recorded findings; entries marked fixed were repaired by unguarded `fix:` commits in /repo (git -C /repo log --grep=^fix:).",
    "not_applicable": na,
}
json.dump(m, open(os.path.join(V, "MANIFEST.json"), "w"), indent=1)
print("claimed:", [c["property_id"] for c in checks])
