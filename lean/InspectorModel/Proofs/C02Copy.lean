/-
Proofs/C02Copy.lean — C02 for Copy / CopyTo: the repaired model of `writeCopy` never reaches a `.panic` branch
on a well-typed source and destination.
-/
import InspectorModel.Proofs.C02Reset
import InspectorModel.Gen.Copy
set_option linter.unusedSimpArgs false
set_option linter.unusedVariables false
namespace Inspector

mutual
theorem NodeWF_withPtr : ∀ (n : Node) (b : Bool), NodeWF (n.withPtr b) = NodeWF n
  | .basic i, b => by simp [Node.withPtr, NodeWF]
  | .struct i c, b => by simp [Node.withPtr, NodeWF]
  | .map i k v, b => by simp [Node.withPtr, NodeWF]
  | .slice i e, b => by simp [Node.withPtr, NodeWF]
end

theorem copyKey_ok (mk : Node) (rk : Val) : ∃ lk ks, copyKey GenCfg.fixed mk rk = .ok lk ks := by
  have h1 : GenCfg.fixed.copyNilDestPanics = false := rfl
  have h2 : GenCfg.fixed.copyPtrShared = false := rfl
  cases rk <;> simp only [copyKey, h1, h2, Bool.and_false, Bool.false_eq_true, if_false] <;>
    first | exact ⟨_, _, rfl⟩ | (split <;> exact ⟨_, _, rfl⟩)

theorem WT_zeroNoPtr (n : Node) (h : NodeWF n = true) : WT (n.withPtr false) (zeroNoPtr n) = true :=
  WT_zeroVal _ (by rw [NodeWF_withPtr]; exact h)

theorem WT_basic_string_str (i : Info) (w : Val) (hs : (i.typu == "string") = true) (hp : i.ptr = false)
    (h : WT (.basic i) w = true) : ∃ s, w = .str s := by
  have : i.typu = "string" := by simpa using hs
  cases w <;> simp_all [WT, kindOfName, wtScalar]

def CopyR.isOk : CopyR → Bool
  | .ok _ _ => true
  | .panic => false

/-- `ok` with a list payload (the list-valued helpers wrap their list in `Val.struct`). -/
def CopyR.isOkL : CopyR → Bool
  | .ok (.struct _) _ => true
  | _ => false

theorem CopyR.isOk_of_isOkL (r : CopyR) (h : r.isOkL = true) : r.isOk = true := by
  cases r with
  | ok v s => rfl
  | panic => simp [CopyR.isOkL] at h

theorem CopyR.bind_isOk (r : CopyR) (f : Val → Nat → CopyR) (hr : r.isOk = true)
    (hf : ∀ v s, (f v s).isOk = true) : (r.bind f).isOk = true := by
  cases r with
  | ok v s => exact hf v s
  | panic => simp [CopyR.isOk] at hr

theorem CopyR.bind_isOkL (r : CopyR) (f : Val → Nat → CopyR) (hr : r.isOk = true)
    (hf : ∀ v s, (f v s).isOkL = true) : (r.bind f).isOkL = true := by
  cases r with
  | ok v s => exact hf v s
  | panic => simp [CopyR.isOk] at hr

theorem CopyR.bindList_isOk (r : CopyR) (f : List Val → Nat → CopyR) (hr : r.isOkL = true)
    (hf : ∀ vs s, (f vs s).isOk = true) : (r.bindList f).isOk = true := by
  cases r with
  | ok v s => cases v <;> simp [CopyR.isOkL] at hr; exact hf _ s
  | panic => simp [CopyR.isOkL] at hr

theorem CopyR.bindList_isOkL (r : CopyR) (f : List Val → Nat → CopyR) (hr : r.isOkL = true)
    (hf : ∀ vs s, (f vs s).isOkL = true) : (r.bindList f).isOkL = true := by
  cases r with
  | ok v s => cases v <;> simp [CopyR.isOkL] at hr; exact hf _ s
  | panic => simp [CopyR.isOkL] at hr

theorem copyKey_isOk (mk : Node) (rk : Val) : (copyKey GenCfg.fixed mk rk).isOk = true := by
  obtain ⟨lk, ks, h⟩ := copyKey_ok mk rk
  rw [h]; rfl

mutual
theorem copyN_ok (r : Val) : ∀ (n : Node) (d0 : Bool) (l : Val), NodeWF n = true → WT n l = true → WT n r = true →
    (copyN GenCfg.fixed n d0 l r).isOk = true := by
  intro n d0 l hwf hl hr
  have c1 : GenCfg.fixed.copyNilDestPanics = false := rfl
  have c2 : GenCfg.fixed.copyPtrShared = false := rfl
  have c3 : GenCfg.fixed.copyRootMapPanics = false := rfl
  have c4 : GenCfg.fixed.copyRootSliceLost = false := rfl
  have c5 : GenCfg.fixed.copyEmptyPtrCollDropped = false := rfl
  cases r with
  | nilptr =>
    unfold copyN
    simp only [c1, Bool.and_false, Bool.false_eq_true, if_false]
    split <;> rfl
  | ptr rw =>
    rw [WT_ptr] at hr
    simp only [Bool.and_eq_true] at hr
    obtain ⟨hp, hrw⟩ := hr
    -- the destination is nil or a pointer to a well-typed target
    have hlc : l = .nilptr ∨ ∃ w, l = .ptr w ∧ WT (n.withPtr false) w = true := by
      rcases WT_ptr_cases n l hl with ⟨_, hv⟩ | ⟨hp', _, _⟩
      · exact hv
      · rw [hp] at hp'; cases hp'
    cases n with
    | basic i =>
      unfold copyN
      simp only [c1, c2, Bool.false_eq_true, if_false]
      split
      · rename_i hs
        rw [withPtr_basic] at hrw
        obtain ⟨s, hs'⟩ := WT_basic_string_str { i with ptr := false } rw hs rfl hrw
        subst hs'
        split <;> first | rfl | simp_all
      · rfl
    | struct i chld =>
      rw [withPtr_struct] at hrw
      obtain ⟨rfs, hrfs, hwr⟩ := WT_struct_inv _ _ _ rfl hrw
      subst hrfs
      have hwfc : NodeWFs chld = true := by simpa [NodeWF] using hwf
      rcases hlc with h | ⟨w, h, hw⟩
      · subst h
        have hz := WT_zeroNoPtr (Node.struct i chld) hwf
        rw [withPtr_struct] at hz
        obtain ⟨lfs, h1, h2⟩ := WT_struct_inv _ _ _ rfl hz
        unfold copyN
        simp only [h1]
        exact CopyR.bindList_isOk _ _ (copyFields_ok rfs chld lfs hwfc h2 hwr) (fun _ _ => rfl)
      · subst h
        rw [withPtr_struct] at hw
        obtain ⟨lfs, h1, h2⟩ := WT_struct_inv _ _ _ rfl hw
        subst h1
        unfold copyN
        simp only []
        exact CopyR.bindList_isOk _ _ (copyFields_ok rfs chld lfs hwfc h2 hwr) (fun _ _ => rfl)
    | map i mk mv =>
      rw [withPtr_map] at hrw
      obtain ⟨nr, rks, rvs, hrm, hlen, _, hwr⟩ := WT_map_inv _ _ _ _ rfl hrw
      subst hrm
      have hwfm : NodeWF mv = true := by
        simp only [NodeWF, Bool.and_eq_true] at hwf; exact hwf.2
      have hent : ∀ lks lvs, ((copyEntries GenCfg.fixed mk mv lks lvs rks rvs).bind fun m s => CopyR.ok (.ptr m) s).isOk = true :=
        fun lks lvs => CopyR.bind_isOk _ _ (copyEntries_ok rvs mk mv lks lvs rks hwfm hlen hwr) (fun _ _ => rfl)
      unfold copyN
      simp only [c1, c5, Bool.false_eq_true, if_false]
      split
      · split <;> rfl
      · rcases hlc with h | ⟨w, h, hw⟩
        · subst h; exact hent _ _
        · subst h
          rw [withPtr_map] at hw
          obtain ⟨nl, lks, lvs, hlm, _, _, _⟩ := WT_map_inv _ _ _ _ rfl hw
          subst hlm
          cases nl
          · exact hent _ _
          · exact hent _ _
    | slice i e =>
      have hwfe : NodeWF e = true := by simpa [NodeWF] using hwf
      unfold copyN
      simp only [c1, c5, Bool.false_eq_true, if_false]
      by_cases hb : (i.typn == "[]byte") = true
      · simp only [hb, if_true]
        have hv : ∃ nl d c, rw = .bytes nl d c := by
          rw [withPtr_slice] at hrw
          cases rw <;> simp_all [WT]
        obtain ⟨nl, d, c, hv⟩ := hv
        subst hv
        split <;> first | rfl | simp_all
      · have hb' : (i.typn == "[]byte") = false := by simpa using hb
        simp only [hb', Bool.false_eq_true, if_false]
        rw [withPtr_slice] at hrw
        obtain ⟨nr, res, cr, hrs, hwr⟩ := WT_slice_inv { i with ptr := false } e _ rfl hb' hrw
        subst hrs
        have hel : ∀ les, ((copyElems GenCfg.fixed e les res).bindList fun es s => CopyR.ok (.ptr (.slice false es es.length)) s).isOk = true :=
          fun les => CopyR.bindList_isOk _ _ (copyElems_ok res e les hwfe hwr) (fun _ _ => rfl)
        simp only []
        split
        · split <;> rfl
        · split
          · exact hel _
          · exact hel _
  | bool b => unfold copyN; rfl
  | int b => unfold copyN; rfl
  | uint b => unfold copyN; rfl
  | float b => unfold copyN; rfl
  | str b => unfold copyN; rfl
  | bytes nl d c => unfold copyN; rfl
  | struct rfs =>
    obtain ⟨i, chld, hn, hi, hwr⟩ := WT_struct_val n rfs hr
    subst hn
    obtain ⟨lfs, hlfs, hwl⟩ := WT_struct_inv i chld l hi hl
    subst hlfs
    have hwfc : NodeWFs chld = true := by simpa [NodeWF] using hwf
    unfold copyN
    simp only []
    exact CopyR.bindList_isOk _ _ (copyFields_ok rfs chld lfs hwfc hwl hwr) (fun _ _ => rfl)
  | map nr rks rvs =>
    obtain ⟨i, mk, mv, hn, hi, hlen, _, hwr⟩ := WT_map_val n nr rks rvs hr
    subst hn
    obtain ⟨nl, lks, lvs, hlm, _, _, _⟩ := WT_map_inv i mk mv l hi hl
    subst hlm
    have hwfm : NodeWF mv = true := by
      simp only [NodeWF, Bool.and_eq_true] at hwf; exact hwf.2
    have hent : ∀ lks lvs, (copyEntries GenCfg.fixed mk mv lks lvs rks rvs).isOk = true :=
      fun lks lvs => copyEntries_ok rvs mk mv lks lvs rks hwfm hlen hwr
    unfold copyN
    simp only [c3, Bool.and_false, Bool.false_eq_true, if_false]
    split
    · rfl
    · cases nl
      · exact hent _ _
      · exact hent _ _
  | slice nr res cr =>
    obtain ⟨i, e, hn, hi, hb, hwr⟩ := WT_slice_val n nr res cr hr
    subst hn
    obtain ⟨nl, les, cl, hls, _⟩ := WT_slice_inv i e l hi hb hl
    subst hls
    have hwfe : NodeWF e = true := by simpa [NodeWF] using hwf
    unfold copyN
    simp only [c4, Bool.and_false, Bool.false_eq_true, if_false]
    split
    · rfl
    · exact CopyR.bindList_isOk _ _ (copyElems_ok res e les hwfe hwr) (fun _ _ => rfl)
termination_by sizeOf r

theorem copyFields_ok (rs : List Val) : ∀ (chld : List Node) (ls : List Val), NodeWFs chld = true →
    WTs chld ls = true → WTs chld rs = true →
    (copyFields GenCfg.fixed chld ls rs).isOkL = true := by
  intro chld ls hwf hl hr
  cases rs with
  | nil => unfold copyFields; rfl
  | cons r rs' =>
    obtain ⟨ch, chs, hc, hwr, hwrs⟩ := WTs_cons_inv chld r rs' hr
    subst hc
    cases ls with
    | nil => simp [WTs] at hl
    | cons l ls' =>
      simp only [WTs, Bool.and_eq_true] at hl
      simp only [NodeWFs, Bool.and_eq_true] at hwf
      unfold copyFields
      simp only []
      apply CopyR.bind_isOkL _ _ (copyN_ok r ch false l hwf.1 hl.1 hwr)
      intro v s
      exact CopyR.bindList_isOkL _ _ (copyFields_ok rs' chs ls' hwf.2 hl.2 hwrs) (fun _ _ => rfl)
termination_by sizeOf rs

theorem copyEntries_ok (rvs : List Val) : ∀ (mk mv : Node) (lks lvs rks : List Val), NodeWF mv = true →
    rks.length = rvs.length → WTall mv rvs = true →
    (copyEntries GenCfg.fixed mk mv lks lvs rks rvs).isOk = true := by
  intro mk mv lks lvs rks hwf hlen hr
  have c1 : GenCfg.fixed.copyNilElemPanics = false := rfl
  cases rvs with
  | nil => unfold copyEntries; rfl
  | cons rv rvs' =>
    cases rks with
    | nil => simp at hlen
    | cons rk rks' =>
      rw [WTall_cons] at hr
      simp only [Bool.and_eq_true] at hr
      obtain ⟨lk, ks, hk⟩ := copyKey_ok mk rk
      have hrec : ∀ lks' lvs', (copyEntries GenCfg.fixed mk mv lks' lvs' rks' rvs').isOk = true :=
        fun lks' lvs' => copyEntries_ok rvs' mk mv lks' lvs' rks' hwf (by simpa using hlen) hr.2
      unfold copyEntries
      simp only [hk]
      apply CopyR.bind_isOk
      · by_cases hc : (mv.ptr && !mv.isBasicTyp) = true
        · simp only [hc, if_true]
          cases rv with
          | ptr rw =>
            have hrw : WT (mv.withPtr false) rw = true := by
              have := hr.1; rw [WT_ptr] at this; simp only [Bool.and_eq_true] at this; exact this.2
            simp only []
            exact CopyR.bind_isOk _ _ (copyN_ok rw (mv.withPtr false) false (zeroNoPtr mv)
              (by rw [NodeWF_withPtr]; exact hwf) (WT_zeroNoPtr mv hwf) hrw) (fun _ _ => rfl)
          | _ => simp only [c1, Bool.false_eq_true, if_false]; rfl
        · simp only [hc, Bool.false_eq_true, if_false]
          exact copyN_ok rv mv false (zeroVal mv) hwf (WT_zeroVal mv hwf) hr.1
      · intro v s
        exact CopyR.bind_isOk _ _ (hrec _ _) (fun _ _ => rfl)
termination_by sizeOf rvs

theorem copyElems_ok (res : List Val) : ∀ (e : Node) (les : List Val), NodeWF e = true → WTall e res = true →
    (copyElems GenCfg.fixed e les res).isOkL = true := by
  intro e les hwf hr
  have c1 : GenCfg.fixed.copyNilElemPanics = false := rfl
  cases res with
  | nil => unfold copyElems; rfl
  | cons r res' =>
    rw [WTall_cons] at hr
    simp only [Bool.and_eq_true] at hr
    have hrec : ∀ les', (copyElems GenCfg.fixed e les' res').isOkL = true :=
      fun les' => copyElems_ok res' e les' hwf hr.2
    unfold copyElems
    simp only []
    apply CopyR.bind_isOkL
    · by_cases hc : (e.ptr && !isBuiltinName e.typn) = true
      · simp only [hc, if_true]
        cases r with
        | ptr rw =>
          have hrw : WT (e.withPtr false) rw = true := by
            have := hr.1; rw [WT_ptr] at this; simp only [Bool.and_eq_true] at this; exact this.2
          simp only []
          exact CopyR.bind_isOk _ _ (copyN_ok rw (e.withPtr false) false (zeroNoPtr e)
            (by rw [NodeWF_withPtr]; exact hwf) (WT_zeroNoPtr e hwf) hrw) (fun _ _ => rfl)
        | _ => simp only [c1, Bool.false_eq_true, if_false]; rfl
      · simp only [hc, Bool.false_eq_true, if_false]
        exact copyN_ok r e false (zeroVal e) hwf (WT_zeroVal e hwf) hr.1
    · intro v s
      exact CopyR.bindList_isOkL _ _ (hrec _) (fun _ _ => rfl)
termination_by sizeOf res
end

theorem copySrcOfC_fixed (f : Form) : copySrcOfC GenCfg.fixed f = .ok ∨ copySrcOfC GenCfg.fixed f = .early := by
  cases f <;> simp [copySrcOfC, copySrcOf, GenCfg.fixed]

theorem copyM_no_panic (n : Node) (f : Form) (r : Val) (hwf : NodeWF n = true) (hr : WT n r = true) :
    (copyM GenCfg.fixed n f r).isPanic = false := by
  unfold copyM
  rcases copySrcOfC_fixed f with h | h <;> rw [h]
  · have := copyN_ok r n true (zeroVal n) hwf (WT_zeroVal n hwf) hr
    simp only []
    generalize copyN GenCfg.fixed n true (zeroVal n) r = o at this ⊢
    cases o with
    | ok v s => rfl
    | panic => simp [CopyR.isOk] at this
  · rfl

theorem copyToM_no_panic (n : Node) (fs fd : Form) (r l : Val) (hwf : NodeWF n = true)
    (hr : WT n r = true) (hl : WT n l = true) :
    (copyToM GenCfg.fixed n fs fd r l).isPanic = false := by
  unfold copyToM
  rcases copySrcOfC_fixed fs with h | h <;> rw [h]
  · have := copyN_ok r n true l hwf hl hr
    have hcfg : GenCfg.fixed.nilRootPanics = false := rfl
    simp only []
    generalize copyN GenCfg.fixed n true l r = o at this ⊢
    cases fd <;> simp only [hcfg, Bool.false_eq_true, if_false] <;> first
      | rfl
      | (cases o with
         | ok v s => rfl
         | panic => simp [CopyR.isOk] at this)
  · rfl

end Inspector
