/-
Gen/Loop.lean — behavioural model of loop mode of `writeNode` (compiler.go:781-817 maps, 884-905 slices)
and of the Loop header (compiler.go:386-393).
-/
import InspectorModel.Gen.Get
namespace Inspector

/-- What the iterator received for one element. -/
structure LoopGroup where
  key : Option Bytes      -- text handed to SetKey (only when RequireKey answered true)
  node : Node             -- node describing the value handed to SetVal
  val : Val               -- that value (pointer level as handed over)
  ins : String            -- TypeName of the inspector handed to SetVal
deriving Inhabited

inductive LoopEnd
  | done | panic | err
deriving Repr, DecidableEq, Inhabited

structure LoopR where
  groups : List LoopGroup
  fin : LoopEnd
deriving Inhabited

/-- The iterator's script: the answer of RequireKey and of Iterate at each position (cycled from the
last entry). Ctl: 0 none, 1 break, 2 continue. -/
structure LoopScript where
  wantKey : List Bool
  ctl : List Nat
deriving Repr, Inhabited

def scriptAt {α : Type} [Inhabited α] (l : List α) (i : Nat) (dflt : α) : α :=
  match l with
  | [] => dflt
  | _ => l.getD i (l.getLastD dflt)

/-- Text the emitted code renders for a map key (compiler.go:785-800). `none`: panic (nil pointer key,
`nilKeyPanics` = the emitter as it is); repaired, the key text of a nil pointer key stays empty. -/
def renderKey (nilKeyPanics : Bool) (k : Node) (key : Val) (ftext : Val → Bytes) : Option Bytes :=
  let kv := if k.ptr then (match key with | .ptr w => some w | _ => none) else some key
  match kv with
  | none => if nilKeyPanics then none else some []
  | some w =>
    match w with
    | .str s => some s
    | .bytes _ d _ => some d
    | .bool b => some (strBytes (if b then "true" else "false"))
    | .int i => some (renderInt i)
    | .uint n => some (renderNat n)
    | .float _ => some (ftext w)
    | _ => some []

/-- Inspector handed over with the values of a collection whose element node is `e`. -/
def elemInspector (e : Node) : String :=
  match e with
  | .struct i _ => i.typn
  | _ => "static"

def loopElems (sc : LoopScript) (e : Node) (es : List Val) (i : Nat) : List LoopGroup :=
  match es with
  | [] => []
  | x :: rest =>
    let g : LoopGroup := { key := if scriptAt sc.wantKey i false then some (renderNat i) else none,
                           node := e, val := x, ins := elemInspector e }
    if scriptAt sc.ctl i 0 == 1 then [g] else g :: loopElems sc e rest (i + 1)

def loopEntries (nkp : Bool) (sc : LoopScript) (k mv : Node) (ftext : Val → Bytes) (ks vs : List Val) (i : Nat) : LoopR :=
  match ks, vs with
  | key :: ks', x :: vs' =>
    let want := scriptAt sc.wantKey i false
    let keyText := if want then renderKey nkp k key ftext else some []
    match keyText with
    | none => ⟨[], .panic⟩
    | some t =>
      let g : LoopGroup := { key := if want then some t else none, node := mv, val := x, ins := elemInspector mv }
      if scriptAt sc.ctl i 0 == 1 then ⟨[g], .done⟩
      else
        let r := loopEntries nkp sc k mv ftext ks' vs' (i + 1)
        ⟨g :: r.groups, r.fin⟩
  | _, _ => ⟨[], .done⟩

/-- Loop mode at node `n` (value `v`), remaining path `p`. -/
def loopN (cfg : GenCfg) (sc : LoopScript) (ftext : Val → Bytes) (n : Node) (v : Val) (p : List Seg) : LoopR :=
  match n with
  | .basic _ => ⟨[], .done⟩
  | .map i k mv =>
    -- no path-length test: the first map reached is looped whatever remains of the path
    if i.ptr && v.isNilPtr then ⟨[], .done⟩ else
    (match derefIf i.ptr v with
     | .map _ ks vs => loopEntries cfg.loopNilKeyPanics sc k mv ftext ks vs 0
     | _ => ⟨[], .panic⟩)
  | .slice i e =>
    if i.typn == "[]byte" then ⟨[], .done⟩ else
    if i.ptr && v.isNilPtr then ⟨[], .done⟩ else
    (match derefIf i.ptr v with
     | .slice _ es _ => ⟨loopElems sc e es 0, .done⟩
     | _ => ⟨[], .panic⟩)
  | .struct i chld =>
    match p with
    | [] => ⟨[], .done⟩
    | s :: rest =>
      if i.ptr && v.isNilPtr then ⟨[], .done⟩ else
      match derefIf i.ptr v with
      | .struct fs =>
        (match findField chld fs s.text with
         | none => ⟨[], .done⟩
         | some (ch, fv) => if ch.isLeaf then ⟨[], .done⟩ else loopN cfg sc ftext ch fv rest)
      | _ => ⟨[], .panic⟩

/-- Is the collection that loop mode ends up iterating a map (free order)? -/
def loopsMap (n : Node) (v : Val) (p : List Seg) : Bool :=
  match n with
  | .map _ _ _ => true
  | .struct i chld =>
    (match p with
     | [] => false
     | s :: rest =>
       match derefIf i.ptr v with
       | .struct fs => (match findField chld fs s.text with | some (ch, fv) => loopsMap ch fv rest | none => false)
       | _ => false)
  | _ => false

def loopM (cfg : GenCfg) (sc : LoopScript) (ftext : Val → Bytes) (n : Node) (f : Form) (v : Val) (p : List Seg) : LoopR :=
  let isSliceRoot := match n with | .slice _ _ => true | _ => false
  -- `if len(path) == 0 { return }` unless the root is a slice (the original emitter: a root map is
  -- never looped on the empty path)
  let rootMapLoops := (match n with | .map _ _ _ => true | _ => false) && !cfg.loopRootMapSkipped
  if p.isEmpty && !isSliceRoot && !rootMapLoops then ⟨[], .done⟩ else
  match rootOfC cfg f with
  | .early => ⟨[], .done⟩
  | .panic => ⟨[], .panic⟩
  | .nilX =>
    (match n, p with
     | .map _ _ _, _ => ⟨[], .done⟩
     | .slice _ _, _ => ⟨[], .panic⟩
     | .struct _ chld, s :: _ =>
       if (chld.filter (fun c => !c.isLeaf)).any (fun c => strBytes c.name == s.text) then ⟨[], .panic⟩ else ⟨[], .done⟩
     | _, _ => ⟨[], .done⟩)
  | .ok => loopN cfg sc ftext n v p

end Inspector
