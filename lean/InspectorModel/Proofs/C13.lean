/-
Proofs/C13.lean — C13: lemma library for `parsers_agree` (Props/C13.lean).
-/
import InspectorModel.Proofs.C13Hyps
set_option linter.unusedSimpArgs false
set_option linter.unusedVariables false
namespace Inspector.C13

/-! ## strings -/

theorem dropLeadingStar_star (s : String) : dropLeadingStar ("*" ++ s) = s := by
  unfold dropLeadingStar
  have h : ("*" ++ s).startsWith "*" = true := by
    rw [String.startsWith_string_iff]
    simp [String.toList_append]
  rw [if_pos h]
  apply String.toList_inj.mp
  show ((("*" ++ s).drop 1).copy).toList = _
  rw [String.toList_copy_drop]
  simp [String.toList_append]

theorem isEmpty_append_left (a b : String) (h : a.isEmpty = false) : (a ++ b).isEmpty = false := by
  rw [String.isEmpty_eq_false_iff] at *
  intro hc
  apply h
  have := congrArg String.toList hc
  simp [String.toList_append] at this
  exact this.1

/-! ## the attribute setters -/

@[simp] theorem info_setName (n : Node) (s : String) : (setName n s).info = { n.info with name := s } := by
  cases n <;> rfl
@[simp] theorem info_setTypn (n : Node) (s : String) : (setTypn n s).info = { n.info with typn := s } := by
  cases n <;> rfl
@[simp] theorem info_setPkg (n : Node) (s : String) : (setPkg n s).info = { n.info with pkg := s } := by
  cases n <;> rfl
@[simp] theorem info_withPtr (n : Node) (b : Bool) : (n.withPtr b).info = { n.info with ptr := b } := by
  cases n <;> rfl

theorem setName_self (n : Node) (s : String) (h : n.info.name = s) : setName n s = n := by
  cases n <;> simp only [Node.info] at h <;> subst h <;> rfl
theorem setTypn_self (n : Node) (s : String) (h : n.info.typn = s) : setTypn n s = n := by
  cases n <;> simp only [Node.info] at h <;> subst h <;> rfl

theorem setPkg_setTypn_absorb (x : Node) (m q n pk : String) :
    setPkg (setTypn (setPkg (setTypn x m) q) n) pk = setPkg (setTypn x n) pk := by
  cases x <;> rfl

theorem withPtr_setPkg_setTypn (x : Node) (n pk : String) (b : Bool) :
    (setPkg (setTypn x n) pk).withPtr b = setPkg (setTypn (x.withPtr b) n) pk := by
  cases x <;> rfl

/-! ## go/types' `Type.String()` with the first qualifier dropped -/

/-- The type expression as the source spells it (what go/ast composes). -/
def plain : TExpr → String
  | .name n => n
  | .star e => "*" ++ plain e
  | .slice e => "[]" ++ plain e
  | .map k v => "map[" ++ plain k ++ "]" ++ plain v
  | .struct _ => "struct{…}"

def unq : List TTok → String
  | [] => ""
  | .lit s :: r => s ++ unq r
  | .qual n :: r => n ++ unq r

def countQ : List TTok → Nat
  | [] => 0
  | .lit _ :: r => countQ r
  | .qual _ :: r => countQ r + 1

theorem unq_append (a b : List TTok) : unq (a ++ b) = unq a ++ unq b := by
  induction a with
  | nil => simp [unq]
  | cons t r ih => cases t <;> simp [unq, ih, String.append_assoc]

theorem countQ_append (a b : List TTok) : countQ (a ++ b) = countQ a + countQ b := by
  induction a with
  | nil => simp [countQ]
  | cons t r ih => cases t <;> simp [countQ, ih] <;> omega

/-- `strings.Replace(s, pkgDot, "", 1)` removes every qualifier when there is at most one. -/
theorem render_le_one (p : Pkg) : ∀ (ts : List TTok) (b : Bool),
    countQ ts ≤ (if b then 0 else 1) → renderDropFirst p ts b = unq ts
  | [], _, _ => rfl
  | .lit s :: r, b, h => by
    simp only [renderDropFirst, unq]
    rw [render_le_one p r b (by simpa [countQ] using h)]
  | .qual n :: r, b, h => by
    cases b with
    | true => simp [countQ] at h
    | false =>
      simp only [renderDropFirst, unq]
      rw [render_le_one p r true (by simp [countQ] at h ⊢; omega)]
      simp

theorem unq_typeToks (p : Pkg) : ∀ e : TExpr, unq (typeToks p e) = plain e
  | .name n => by
    simp only [typeToks, plain]
    split <;> simp [unq]
  | .star e => by simp [typeToks, plain, unq, unq_typeToks p e]
  | .slice e => by simp [typeToks, plain, unq, unq_typeToks p e]
  | .map k v => by
    simp [typeToks, plain, unq, unq_append, unq_typeToks p k, unq_typeToks p v, String.append_assoc]
  | .struct _ => by simp [typeToks, plain, unq]

theorem countQ_typeToks (p : Pkg) : ∀ e : TExpr, countQ (typeToks p e) = quals p e
  | .name n => by
    simp only [typeToks, quals]
    split <;> simp [countQ]
  | .star e => by simp [typeToks, quals, countQ, countQ_typeToks p e]
  | .slice e => by simp [typeToks, quals, countQ, countQ_typeToks p e]
  | .map k v => by
    simp [typeToks, quals, countQ, countQ_append, countQ_typeToks p k, countQ_typeToks p v]
  | .struct _ => by simp [typeToks, quals, countQ]

/-- `strings.Replace(s, pkgDot, "", -1)` (the repaired parser, `dropsFirstQualOnly` off) removes every qualifier. -/
theorem render_all (p : Pkg) (hp : p.dropsFirstQualOnly = false) : ∀ (ts : List TTok) (b : Bool),
    renderDropFirst p ts b = unq ts
  | [], _ => rfl
  | .lit s :: r, b => by
    simp only [renderDropFirst, unq]
    rw [render_all p hp r b]
  | .qual n :: r, b => by
    simp only [renderDropFirst, unq, hp, Bool.and_false, Bool.false_eq_true, if_false]
    rw [render_all p hp r true]

/-- Lemma A: for the repaired parser, or with at most one declared type mentioned, the go/types string is the
source spelling. -/
theorem typeStringLocal_plain (p : Pkg) (e : TExpr) (h : p.dropsFirstQualOnly = false ∨ quals p e ≤ 1) :
    typeStringLocal p e = plain e := by
  unfold typeStringLocal
  rcases h with hp | h
  · rw [render_all p hp, unq_typeToks]
  · rw [render_le_one p _ false (by simpa [countQ_typeToks] using h), unq_typeToks]

/-! ## the go/ast side -/

theorem ast_name (p : Pkg) : ∀ (f : Nat) (e : TExpr), (parseAstE p f e).info.name = "" := by
  intro f
  induction f with
  | zero => intro e; simp [parseAstE, Node.info]
  | succ f ih =>
    intro e
    cases e with
    | name n =>
      rw [parseAstE]
      cases h : p.lookup n with
      | none => simp [Node.info]
      | some d => simp
    | star x => rw [parseAstE]; simp [ih]
    | slice x => simp [parseAstE, Node.info]
    | map k v => simp [parseAstE, Node.info]
    | struct fs => simp [parseAstE, Node.info]

theorem agreeOK_struct_false (p : Pkg) (f : Nat) (fs : List (String × TExpr)) :
    AgreeOK p f false (.struct fs) = false := by
  cases f with
  | zero => simp [AgreeOK]
  | succ f => cases f <;> simp [AgreeOK]

theorem agreeOK_top_of_not_star (p : Pkg) (f : Nat) (e : TExpr) (h : AgreeOK p f false e = true)
    (hs : e.isStar = false) : AgreeOK p f true e = true := by
  cases f with
  | zero => simp [AgreeOK] at h
  | succ f =>
    cases e with
    | name n => simpa [AgreeOK] using h
    | star x => simp [TExpr.isStar] at hs
    | slice x => simpa [AgreeOK] using h
    | map k v => simpa [AgreeOK] using h
    | struct fs => simp [agreeOK_struct_false] at h

theorem ast_ptr_top (p : Pkg) : ∀ (f : Nat) (d : TExpr), AgreeOK p f true d = true →
    (parseAstE p f d).info.ptr = false := by
  intro f
  induction f with
  | zero => intro d h; simp [AgreeOK] at h
  | succ f ih =>
    intro d h
    cases d with
    | name n =>
      rw [parseAstE]
      rw [AgreeOK] at h
      cases hl : p.lookup n with
      | none => simp [Node.info]
      | some d' =>
        simp only [hl, Bool.and_eq_true] at h
        simp [ih d' h.2]
    | star x => simp [AgreeOK] at h
    | slice x => simp [parseAstE, Node.info]
    | map k v => simp [parseAstE, Node.info]
    | struct fs => simp [parseAstE, Node.info]

theorem ast_ptr (p : Pkg) (f : Nat) (e : TExpr) (h : AgreeOK p f false e = true) (hs : e.isStar = false) :
    (parseAstE p f e).info.ptr = false :=
  ast_ptr_top p f e (agreeOK_top_of_not_star p f e h hs)

/-- What `composeAstTypeName` prints for an element: `*` if it is a pointer, then its `typn`. -/
def astStr (n : Node) : String := (if n.ptr then "*" else "") ++ n.typn

/-- Lemma B: the go/ast parser's element spelling is the source spelling. -/
theorem astStr_plain (p : Pkg) : ∀ (f : Nat) (e : TExpr), AgreeOK p f false e = true →
    astStr (parseAstE p f e) = plain e := by
  intro f
  induction f with
  | zero => intro e h; simp [AgreeOK] at h
  | succ f ih =>
    intro e h
    cases e with
    | name n =>
      have hp := ast_ptr p (f+1) (.name n) h rfl
      rw [parseAstE] at hp ⊢
      cases hl : p.lookup n with
      | none => simp [astStr, Node.ptr, Node.typn, Node.info, plain]
      | some d' =>
        simp only [hl] at hp
        simp only [info_setPkg, info_setTypn, info_setName] at hp
        simp [astStr, Node.ptr, Node.typn, hp, plain]
    | star x =>
      rw [AgreeOK] at h
      simp only [Bool.and_eq_true, Bool.not_eq_true', Bool.not_eq_eq_eq_not, Bool.not_true] at h
      have hx := ih x h.2
      have hp := ast_ptr p f x h.2 h.1.2
      rw [parseAstE]
      simp only [astStr, Node.ptr, Node.typn, hp] at hx
      simp [astStr, Node.ptr, Node.typn, plain, ← hx]
    | slice x =>
      rw [AgreeOK] at h
      simp only [Bool.and_eq_true] at h
      have hx := ih x h.2
      simp only [parseAstE, composeTypn]
      simp only [astStr, Node.ptr, Node.typn, Node.info] at hx ⊢
      simp [plain, ← hx, String.append_assoc]
    | map k v =>
      rw [AgreeOK] at h
      simp only [Bool.and_eq_true] at h
      have hk := ih k h.1.2
      have hv := ih v h.2
      simp only [parseAstE, composeTypn]
      simp only [astStr, Node.ptr, Node.typn, Node.info] at hk hv ⊢
      simp [plain, ← hk, ← hv, String.append_assoc]
    | struct fs => simp [agreeOK_struct_false] at h


/-- What the quals clause of `AgreeOK` gives: the parser is the repaired one, or the expression mentions at most
one declared type. -/
theorem quals_le_one (p : Pkg) : ∀ (f : Nat) (e : TExpr), AgreeOK p f false e = true →
    p.dropsFirstQualOnly = false ∨ quals p e ≤ 1 := by
  intro f
  induction f with
  | zero => intro e h; simp [AgreeOK] at h
  | succ f ih =>
    intro e h
    cases e with
    | name n => right; simp only [quals]; split <;> omega
    | star x =>
      rw [AgreeOK] at h
      simp only [Bool.and_eq_true] at h
      simpa [quals] using ih x h.2
    | slice x =>
      rw [AgreeOK] at h
      simp only [Bool.and_eq_true, Bool.or_eq_true, Bool.not_eq_true', decide_eq_true_eq] at h
      simpa [quals] using h.1
    | map k v =>
      rw [AgreeOK] at h
      simp only [Bool.and_eq_true, Bool.or_eq_true, Bool.not_eq_true', decide_eq_true_eq] at h
      simpa [quals] using h.1.1
    | struct fs => right; simp [quals]

/-- The `typn` the go/ast parser leaves on an admitted expression is never empty … -/
theorem ast_typn_nonempty (p : Pkg) : ∀ (f : Nat) (e : TExpr), AgreeOK p f false e = true →
    (parseAstE p f e).info.typn.isEmpty = false := by
  intro f
  induction f with
  | zero => intro e h; simp [AgreeOK] at h
  | succ f ih =>
    intro e h
    cases e with
    | name n =>
      rw [AgreeOK] at h
      simp only [Bool.and_eq_true, Bool.not_eq_true'] at h
      rw [parseAstE]
      cases hl : p.lookup n with
      | none => simpa [Node.info] using h.1
      | some d => simpa using h.1
    | star x =>
      rw [AgreeOK] at h
      simp only [Bool.and_eq_true] at h
      rw [parseAstE]
      simpa using ih x h.2
    | slice x =>
      simp only [parseAstE, composeTypn, Node.info]
      exact isEmpty_append_left _ _ (isEmpty_append_left _ _ (by decide))
    | map k v =>
      simp only [parseAstE, composeTypn, Node.info]
      exact isEmpty_append_left _ _ (isEmpty_append_left _ _ (isEmpty_append_left _ _
        (isEmpty_append_left _ _ (isEmpty_append_left _ _ (by decide)))))
    | struct fs => simp [agreeOK_struct_false] at h

/-- … so `withComposed` (parser_ast.go:176-178, a field whose type name is still empty) leaves it alone. -/
theorem withComposed_id (p : Pkg) (f : Nat) (e : TExpr) (h : AgreeOK p f false e = true) :
    withComposed (parseAstE p f e) = parseAstE p f e := by
  unfold withComposed
  have := ast_typn_nonempty p f e h
  simp only [Node.typn, this]
  simp

/-- The go/types parser's pointer-field override (`ch.typn = Replace(Replace(String(), pkgDot, "", 1), "*", "", 1)`)
writes what is there already. -/
theorem ptr_override_id (p : Pkg) (f : Nat) (e : TExpr) (h : AgreeOK p f false e = true) :
    (if (parseAstE p f e).ptr = true then setTypn (parseAstE p f e) (dropLeadingStar (typeStringLocal p e))
     else parseAstE p f e) = parseAstE p f e := by
  by_cases hp : (parseAstE p f e).ptr = true
  · rw [if_pos hp]
    apply setTypn_self
    cases e with
    | star x =>
      cases f with
      | zero => simp [AgreeOK] at h
      | succ f =>
        have hq := quals_le_one p _ _ h
        rw [typeStringLocal_plain p _ hq]
        rw [AgreeOK] at h
        simp only [Bool.and_eq_true, Bool.not_eq_true', Bool.not_eq_eq_eq_not, Bool.not_true] at h
        have hx := astStr_plain p f x h.2
        have hpx := ast_ptr p f x h.2 h.1.2
        simp only [astStr, Node.ptr, Node.typn, hpx] at hx
        rw [parseAstE]
        simp [plain, dropLeadingStar_star, ← hx]
    | name n => have := ast_ptr p f _ h rfl; simp [Node.ptr, this] at hp
    | slice x => have := ast_ptr p f _ h rfl; simp [Node.ptr, this] at hp
    | map k v => have := ast_ptr p f _ h rfl; simp [Node.ptr, this] at hp
    | struct fs => have := ast_ptr p f _ h rfl; simp [Node.ptr, this] at hp
  · rw [if_neg hp]

theorem agreeOK_name_top (p : Pkg) (f : Nat) (a b : Bool) (n : String) :
    AgreeOK p f a (.name n) = AgreeOK p f b (.name n) := by
  cases f <;> simp [AgreeOK]

theorem agreeOK_struct (p : Pkg) (f : Nat) (top : Bool) (fs : List (String × TExpr)) :
    AgreeOK p (f + 1) top (.struct fs) =
      (top && (match f with
               | 0 => fs.isEmpty
               | f' + 1 => fs.all (fun x => AgreeOK p f' false x.2))) := by
  cases f <;> simp [AgreeOK]

/-! ## more fuel does not change the go/ast parser's answer on an admitted expression -/

theorem astFields_stable (p : Pkg) (f : Nat)
    (hE : ∀ (top : Bool) (e : TExpr), AgreeOK p f top e = true → ∀ f', f ≤ f' → parseAstE p f' e = parseAstE p f e) :
    ∀ (fs : List (String × TExpr)), fs.all (fun x => AgreeOK p f false x.2) = true →
      ∀ f', f ≤ f' → parseAstFields p (f' + 1) fs = parseAstFields p (f + 1) fs
  | [], _, f', _ => by simp [parseAstFields]
  | (n, e) :: rest, h, f', hf => by
    simp only [List.all_cons, Bool.and_eq_true] at h
    rw [parseAstFields, parseAstFields, hE false e h.1 f' hf, astFields_stable p f hE rest h.2 f' hf]

theorem ast_stable (p : Pkg) : ∀ (f : Nat) (top : Bool) (e : TExpr), AgreeOK p f top e = true →
    ∀ f', f ≤ f' → parseAstE p f' e = parseAstE p f e := by
  intro f
  induction f using Nat.strongRecOn with
  | ind f ih =>
    intro top e h f' hf
    cases f with
    | zero => simp [AgreeOK] at h
    | succ f =>
      cases f' with
      | zero => omega
      | succ f' =>
        have hf' : f ≤ f' := by omega
        cases e with
        | name n =>
          rw [AgreeOK] at h
          simp only [Bool.and_eq_true] at h
          rw [parseAstE, parseAstE]
          cases hl : p.lookup n with
          | none => rfl
          | some d =>
            simp only [hl] at h
            simp only []
            rw [ih f (by omega) true d h.2 f' hf']
        | star x =>
          rw [AgreeOK] at h
          simp only [Bool.and_eq_true] at h
          rw [parseAstE, parseAstE, ih f (by omega) false x h.2 f' hf']
        | slice x =>
          rw [AgreeOK] at h
          simp only [Bool.and_eq_true] at h
          rw [parseAstE, parseAstE, ih f (by omega) false x h.2 f' hf']
        | map k v =>
          rw [AgreeOK] at h
          simp only [Bool.and_eq_true] at h
          rw [parseAstE, parseAstE, ih f (by omega) false k h.1.2 f' hf', ih f (by omega) false v h.2 f' hf']
        | struct fs =>
          rw [agreeOK_struct] at h
          simp only [Bool.and_eq_true] at h
          rw [parseAstE, parseAstE]
          cases f with
          | zero =>
            have : fs = [] := by simpa using h.2
            subst this
            simp [parseAstFields]
          | succ g =>
            cases f' with
            | zero => omega
            | succ g' =>
              rw [astFields_stable p g (ih g (by omega)) fs h.2 g' (by omega)]


/-! ## the go/types side against the go/ast side -/

/-- E: an admitted expression below the definition position. -/
def AgreeE (p : Pkg) (f : Nat) : Prop :=
  ∀ (e : TExpr) (g : Nat), AgreeOK p f false e = true → 2 * f ≤ g → parsePkgE p g e = parseAstE p f e

/-- SM: an admitted slice or map literal, seen by `parsePkgU`. -/
def AgreeSM (p : Pkg) (f : Nat) : Prop :=
  (∀ (x : TExpr) (g : Nat), AgreeOK p f false (.slice x) = true → 2 * f ≤ g + 1 →
      parsePkgU p g (.slice x) = parseAstE p f (.slice x)) ∧
  (∀ (k v : TExpr) (g : Nat), AgreeOK p f false (.map k v) = true → 2 * f ≤ g + 1 →
      parsePkgU p g (.map k v) = parseAstE p f (.map k v))

/-- U: the definition of a declared type, up to the `typn`/`pkg` that the caller overwrites. -/
def AgreeU (p : Pkg) (f : Nat) : Prop :=
  ∀ (d : TExpr) (g : Nat) (n pk : String), AgreeOK p f true d = true → 2 * f + 1 ≤ g →
    setPkg (setTypn (parsePkgU p g d) n) pk = setPkg (setTypn (parseAstE p f d) n) pk

/-- U': the same through `Underlying()` (pointer to a declared type). -/
def AgreeU' (p : Pkg) (f : Nat) : Prop :=
  ∀ (d : TExpr) (g g' : Nat) (n pk : String), AgreeOK p f true d = true → 2 * f ≤ g → f ≤ g' →
    setPkg (setTypn (parsePkgU p g (underlyingOf p g' d)) n) pk = setPkg (setTypn (parseAstE p f d) n) pk

theorem sm_step (p : Pkg) (f : Nat) (hE : AgreeE p f) : AgreeSM p (f + 1) := by
  constructor
  · intro x g h hg
    cases g with
    | zero => omega
    | succ g =>
      have hq := quals_le_one p _ _ h
      rw [AgreeOK] at h
      simp only [Bool.and_eq_true] at h
      have hx := astStr_plain p f x h.2
      rw [parsePkgU, parseAstE, hE x g h.2 (by omega), typeStringLocal_plain p _ hq]
      have : composeTypn (Node.slice {} (parseAstE p f x)) = plain (.slice x) := by
        simp only [composeTypn, plain, ← hx, astStr, String.append_assoc]
      rw [this]
  · intro k v g h hg
    cases g with
    | zero => omega
    | succ g =>
      have hq := quals_le_one p _ _ h
      rw [AgreeOK] at h
      simp only [Bool.and_eq_true] at h
      have hk := astStr_plain p f k h.1.2
      have hv := astStr_plain p f v h.2
      rw [parsePkgU, parseAstE, hE k g h.1.2 (by omega), hE v g h.2 (by omega), typeStringLocal_plain p _ hq]
      have : composeTypn (Node.map {} (parseAstE p f k) (parseAstE p f v)) = plain (.map k v) := by
        simp only [composeTypn, plain, ← hk, ← hv, astStr, String.append_assoc]
      rw [this]

theorem fields_step (p : Pkg) (f : Nat) (hE : AgreeE p f) :
    ∀ (fs : List (String × TExpr)), fs.all (fun x => AgreeOK p f false x.2) = true →
      ∀ g, 2 * f ≤ g → parsePkgFields p (g + 1) fs = parseAstFields p (f + 1) fs
  | [], _, g, _ => by simp [parsePkgFields, parseAstFields]
  | (n, e) :: rest, h, g, hg => by
    simp only [List.all_cons, Bool.and_eq_true] at h
    rw [parsePkgFields, parseAstFields, hE e g h.1 hg, withComposed_id p f e h.1, ptr_override_id p f e h.1,
      fields_step p f hE rest h.2 g hg]

/-- The struct definition of a declared type. -/
theorem struct_step (p : Pkg) (f : Nat) (hE : ∀ f', f = f' + 1 → AgreeE p f')
    (fs : List (String × TExpr)) (g : Nat) (n pk : String)
    (h : AgreeOK p (f + 1) true (.struct fs) = true) (hg : 2 * f + 1 ≤ g) :
    setPkg (setTypn (parsePkgU p g (.struct fs)) n) pk = setPkg (setTypn (parseAstE p (f + 1) (.struct fs)) n) pk := by
  rw [agreeOK_struct] at h
  simp only [Bool.true_and] at h
  cases g with
  | zero => omega
  | succ g =>
    have hfs : parsePkgFields p g fs = parseAstFields p f fs := by
      cases f with
      | zero =>
        have : fs = [] := by simpa using h
        subst this
        simp [parsePkgFields, parseAstFields]
      | succ f' =>
        cases g with
        | zero => omega
        | succ g => exact fields_step p f' (hE f' rfl) fs h g (by omega)
    rw [parsePkgU, parseAstE, hfs]
    simp [setPkg, setTypn]

theorem e_step (p : Pkg) (f : Nat) (hSM : AgreeSM p (f + 1)) (hSM0 : AgreeSM p f) (hU : AgreeU p f)
    (hU' : ∀ f1, f = f1 + 1 → AgreeU' p f1) : AgreeE p (f + 1) := by
  intro e g h hg
  cases g with
  | zero => omega
  | succ g =>
    cases e with
    | name n =>
      rw [AgreeOK] at h
      simp only [Bool.and_eq_true] at h
      rw [parsePkgE, parseAstE]
      cases hl : p.lookup n with
      | none => rfl
      | some d =>
        simp only [hl] at h
        simp only []
        rw [setName_self _ _ (ast_name p f d)]
        exact hU d g n p.name h.2 (by omega)
    | star x =>
      rw [AgreeOK] at h
      simp only [Bool.and_eq_true, Bool.not_eq_true', Bool.not_eq_eq_eq_not, Bool.not_true] at h
      obtain ⟨⟨_, hns⟩, hx⟩ := h
      rw [parseAstE]
      cases x with
      | name n =>
        cases f with
        | zero => simp [AgreeOK] at hx
        | succ f1 =>
          rw [AgreeOK] at hx
          simp only [Bool.and_eq_true] at hx
          rw [parsePkgE, parseAstE]
          cases g with
          | zero => omega
          | succ g1 =>
            rw [underlyingOf]
            cases hl : p.lookup n with
            | none =>
              simp only [Option.isSome_none, Bool.false_eq_true, if_false]
              cases g1 with
              | zero => omega
              | succ g2 => rw [parsePkgU, parsePkgE, hl]
            | some d =>
              simp only [hl] at hx
              simp only [Option.isSome_some, if_true]
              rw [setName_self _ _ (ast_name p f1 d), ← withPtr_setPkg_setTypn]
              rw [hU' f1 rfl d (g1 + 1) g1 n p.name hx.2 (by omega) (by omega)]
      | star y => simp [TExpr.isStar] at hns
      | slice y =>
        rw [parsePkgE.eq_4 _ _ _ (by intro n hn; cases hn)]
        have hu : underlyingOf p g (.slice y) = .slice y := by
          cases g with
          | zero => rw [underlyingOf]
          | succ g => rw [underlyingOf.eq_3 _ _ _ (by intro n hn; cases hn)]
        rw [hu, hSM0.1 y g hx (by omega)]
      | map k v =>
        rw [parsePkgE.eq_4 _ _ _ (by intro n hn; cases hn)]
        have hu : underlyingOf p g (.map k v) = .map k v := by
          cases g with
          | zero => rw [underlyingOf]
          | succ g => rw [underlyingOf.eq_3 _ _ _ (by intro n hn; cases hn)]
        rw [hu, hSM0.2 k v g hx (by omega)]
      | struct fs => simp [agreeOK_struct_false] at hx
    | slice x =>
      rw [parsePkgE.eq_5 _ _ _ (by intro n hn; cases hn) (by intro n hn; cases hn)]
      exact hSM.1 x g h (by omega)
    | map k v =>
      rw [parsePkgE.eq_5 _ _ _ (by intro n hn; cases hn) (by intro n hn; cases hn)]
      exact hSM.2 k v g h (by omega)
    | struct fs => simp [agreeOK_struct_false] at h


theorem u_step (p : Pkg) (f : Nat) (hE : AgreeE p (f + 1)) (hSM : AgreeSM p (f + 1))
    (hE0 : ∀ f', f = f' + 1 → AgreeE p f') : AgreeU p (f + 1) := by
  intro d g n pk h hg
  cases g with
  | zero => omega
  | succ g =>
    cases d with
    | name m =>
      rw [parsePkgU, hE (.name m) g (by rw [agreeOK_name_top p _ false true]; exact h) (by omega)]
    | star x => simp [AgreeOK] at h
    | slice x =>
      have h' : AgreeOK p (f + 1) false (.slice x) = true := by simpa [AgreeOK] using h
      rw [hSM.1 x (g + 1) h' (by omega)]
    | map k v =>
      have h' : AgreeOK p (f + 1) false (.map k v) = true := by simpa [AgreeOK] using h
      rw [hSM.2 k v (g + 1) h' (by omega)]
    | struct fs => exact struct_step p f hE0 fs (g + 1) n pk h (by omega)

theorem u'_step (p : Pkg) (f : Nat) (hU' : AgreeU' p f) (hSM : AgreeSM p (f + 1))
    (hE0 : ∀ f', f = f' + 1 → AgreeE p f') : AgreeU' p (f + 1) := by
  intro d g g' n pk h hg hg'
  cases g' with
  | zero => omega
  | succ g' =>
    cases d with
    | name m =>
      rw [AgreeOK] at h
      simp only [Bool.and_eq_true] at h
      rw [underlyingOf, parseAstE]
      cases hl : p.lookup m with
      | none =>
        simp only []
        cases g with
        | zero => omega
        | succ g =>
          cases g with
          | zero => omega
          | succ g => rw [parsePkgU, parsePkgE, hl]
      | some d' =>
        simp only [hl] at h
        simp only []
        rw [setName_self _ _ (ast_name p f d'), setPkg_setTypn_absorb]
        exact hU' d' g g' n pk h.2 (by omega) (by omega)
    | star x => simp [AgreeOK] at h
    | slice x =>
      have h' : AgreeOK p (f + 1) false (.slice x) = true := by simpa [AgreeOK] using h
      rw [underlyingOf.eq_3 _ _ _ (by intro n hn; cases hn), hSM.1 x g h' (by omega)]
    | map k v =>
      have h' : AgreeOK p (f + 1) false (.map k v) = true := by simpa [AgreeOK] using h
      rw [underlyingOf.eq_3 _ _ _ (by intro n hn; cases hn), hSM.2 k v g h' (by omega)]
    | struct fs =>
      rw [underlyingOf.eq_3 _ _ _ (by intro n hn; cases hn)]
      exact struct_step p f hE0 fs g n pk h (by omega)

theorem agree_all (p : Pkg) : ∀ f : Nat, AgreeE p f ∧ AgreeSM p f ∧ AgreeU p f ∧ AgreeU' p f := by
  intro f
  induction f using Nat.strongRecOn with
  | ind f ih =>
    cases f with
    | zero =>
      refine ⟨?_, ⟨?_, ?_⟩, ?_, ?_⟩
      · intro e g h; simp [AgreeOK] at h
      · intro x g h; simp [AgreeOK] at h
      · intro k v g h; simp [AgreeOK] at h
      · intro d g n pk h; simp [AgreeOK] at h
      · intro d g g' n pk h; simp [AgreeOK] at h
    | succ f =>
      have ihf := ih f (by omega)
      have hE0 : ∀ f', f = f' + 1 → AgreeE p f' := fun f' hf' => (ih f' (by omega)).1
      have hU0 : ∀ f', f = f' + 1 → AgreeU' p f' := fun f' hf' => (ih f' (by omega)).2.2.2
      have hSM := sm_step p f ihf.1
      have hE := e_step p f hSM ihf.2.1 ihf.2.2.1 hU0
      exact ⟨hE, hSM, u_step p f hE hSM hE0, u'_step p f ihf.2.2.2 hSM hE0⟩


/-! ## `Node.beq` is reflexive (the driver compares trees with `==`) -/

mutual
theorem Node.beq_refl : ∀ (n : Node), Node.beq n n = true
  | .basic _ => by simp [Node.beq]
  | .struct _ c => by simp [Node.beq, Node.beqList_refl c]
  | .map _ k v => by simp [Node.beq, Node.beq_refl k, Node.beq_refl v]
  | .slice _ e => by simp [Node.beq, Node.beq_refl e]
theorem Node.beqList_refl : ∀ (ns : List Node), Node.beqList ns ns = true
  | [] => by simp [Node.beqList]
  | n :: ns => by simp [Node.beqList, Node.beq_refl n, Node.beqList_refl ns]
end

end Inspector.C13
