/-
Proofs/CopyBase.lean — infrastructure for C06 / C08: strong induction on the size of a value, the repaired
configuration's flags, zero values, small facts about nodes.
-/
import InspectorModel.Proofs.C01
import InspectorModel.Spec.CopyHyp
set_option linter.unusedSimpArgs false
set_option linter.unusedVariables false
namespace Inspector.CopyPf

/-- Strong induction on the size of a value (covers the nested occurrences in lists). -/
theorem size_ind {P : Val → Prop} (h : ∀ r, (∀ x, sizeOf x < sizeOf r → P x) → P r) : ∀ r, P r := by
  intro r
  have : ∀ k, ∀ r : Val, sizeOf r < k → P r := by
    intro k
    induction k with
    | zero => intro r hr; omega
    | succ k ih => intro r hr; apply h; intro x hx; apply ih; omega
  exact this _ r (Nat.lt_succ_self _)

theorem size_ptr (w : Val) : sizeOf w < sizeOf (Val.ptr w) := by
  rw [Val.ptr.sizeOf_spec]; omega
theorem size_struct (fs : List Val) (x : Val) (h : x ∈ fs) : sizeOf x < sizeOf (Val.struct fs) := by
  have := List.sizeOf_lt_of_mem h
  rw [Val.struct.sizeOf_spec]; omega
theorem size_slice (nl : Bool) (es : List Val) (c : Nat) (x : Val) (h : x ∈ es) : sizeOf x < sizeOf (Val.slice nl es c) := by
  have := List.sizeOf_lt_of_mem h
  rw [Val.slice.sizeOf_spec]; omega
theorem size_map_v (nl : Bool) (ks vs : List Val) (x : Val) (h : x ∈ vs) : sizeOf x < sizeOf (Val.map nl ks vs) := by
  have := List.sizeOf_lt_of_mem h
  rw [Val.map.sizeOf_spec]; omega
theorem size_map_k (nl : Bool) (ks vs : List Val) (x : Val) (h : x ∈ ks) : sizeOf x < sizeOf (Val.map nl ks vs) := by
  have := List.sizeOf_lt_of_mem h
  rw [Val.map.sizeOf_spec]; omega

/-! ### the repaired configuration -/
@[simp] theorem fixed_copyRootSliceLost : GenCfg.fixed.copyRootSliceLost = false := rfl
@[simp] theorem fixed_copyRootMapPanics : GenCfg.fixed.copyRootMapPanics = false := rfl
@[simp] theorem fixed_copyPtrShared : GenCfg.fixed.copyPtrShared = false := rfl
@[simp] theorem fixed_copyNilElemPanics : GenCfg.fixed.copyNilElemPanics = false := rfl
@[simp] theorem fixed_copyNilDestPanics : GenCfg.fixed.copyNilDestPanics = false := rfl
@[simp] theorem fixed_copyEmptyPtrCollDropped : GenCfg.fixed.copyEmptyPtrCollDropped = false := rfl
@[simp] theorem fixed_resetNilPtrPanics : GenCfg.fixed.resetNilPtrPanics = false := rfl
@[simp] theorem fixed_deqPtrLeafNilUnchecked : GenCfg.fixed.deqPtrLeafNilUnchecked = false := rfl
@[simp] theorem fixed_deqNilBeforeMustCheck : GenCfg.fixed.deqNilBeforeMustCheck = false := rfl
@[simp] theorem fixed_nilRootPanics : GenCfg.fixed.nilRootPanics = false := rfl

@[simp] theorem bind_ok (v : Val) (s : Nat) (f : Val → Nat → CopyR) : (CopyR.ok v s).bind f = f v s := rfl
@[simp] theorem bindList_ok (vs : List Val) (s : Nat) (f : List Val → Nat → CopyR) :
    (CopyR.ok (.struct vs) s).bindList f = f vs s := rfl

/-! ### nodes -/
@[simp] theorem ptr_struct (i : Info) (c : List Node) : (Node.struct i c).ptr = i.ptr := rfl
@[simp] theorem ptr_map (i : Info) (k v : Node) : (Node.map i k v).ptr = i.ptr := rfl
@[simp] theorem ptr_slice (i : Info) (e : Node) : (Node.slice i e).ptr = i.ptr := rfl
@[simp] theorem ptr_basic (i : Info) : (Node.basic i).ptr = i.ptr := rfl

theorem NodeWF_withPtr (n : Node) (b : Bool) : NodeWF (n.withPtr b) = NodeWF n := by
  cases n <;> simp [Node.withPtr, NodeWF]

theorem hasPtrKeyMap_withPtr (n : Node) (b : Bool) : hasPtrKeyMap (n.withPtr b) = hasPtrKeyMap n := by
  cases n <;> simp [Node.withPtr, hasPtrKeyMap]

theorem NodeWFs_cons (n : Node) (ns : List Node) : NodeWFs (n :: ns) = (NodeWF n && NodeWFs ns) := by
  simp [NodeWFs]

/-! ### zero values -/
theorem zeroOfKind_empty (k : Kind) : isEmptyV (zeroOfKind k) = true := by
  cases k <;> simp [zeroOfKind, isEmptyV]

mutual
theorem zeroVal_empty : ∀ (n : Node), isEmptyV (zeroVal n) = true
  | .basic i => by
    unfold zeroVal
    by_cases hp : i.ptr = true
    · simp [hp, isEmptyV]
    · simp only [hp, Bool.false_eq_true, if_false]
      cases kindOfName i.typu with
      | none => simp [isEmptyV]
      | some k => exact zeroOfKind_empty k
  | .struct i ch => by
    unfold zeroVal
    by_cases hp : i.ptr = true
    · simp [hp, isEmptyV]
    · simp [hp, isEmptyV, zeroVals_empty ch]
  | .map i _ _ => by
    unfold zeroVal
    by_cases hp : i.ptr = true <;> simp [hp, isEmptyV]
  | .slice i _ => by
    unfold zeroVal
    by_cases hp : i.ptr = true
    · simp [hp, isEmptyV]
    · by_cases hb : (i.typn == "[]byte") = true <;> simp [hp, hb, isEmptyV]
theorem zeroVals_empty : ∀ (ns : List Node), allEmpty (zeroVals ns) = true
  | [] => by simp [zeroVals, allEmpty]
  | n :: ns => by simp [zeroVals, allEmpty, zeroVal_empty n, zeroVals_empty ns]
end

theorem zeroOfKind_dstOK (b : Bool) (k : Kind) : dstOK b (zeroOfKind k) = true := by
  cases k <;> simp [zeroOfKind, dstOK]

mutual
theorem zeroVal_dstOK (b : Bool) : ∀ (n : Node), dstOK b (zeroVal n) = true
  | .basic i => by
    unfold zeroVal
    by_cases hp : i.ptr = true
    · simp [hp, dstOK]
    · simp only [hp, Bool.false_eq_true, if_false]
      cases kindOfName i.typu with
      | none => simp [dstOK]
      | some k => exact zeroOfKind_dstOK b k
  | .struct i ch => by
    unfold zeroVal
    by_cases hp : i.ptr = true
    · simp [hp, dstOK]
    · simp [hp, dstOK, zeroVals_dstOK b ch]
  | .map i _ _ => by
    unfold zeroVal
    by_cases hp : i.ptr = true <;> simp [hp, dstOK]
  | .slice i _ => by
    unfold zeroVal
    by_cases hp : i.ptr = true
    · simp [hp, dstOK]
    · by_cases hb : (i.typn == "[]byte") = true <;> simp [hp, hb, dstOK]
theorem zeroVals_dstOK (b : Bool) : ∀ (ns : List Node), dstOKs b (zeroVals ns) = true
  | [] => by simp [zeroVals, dstOKs]
  | n :: ns => by simp [zeroVals, dstOKs, zeroVal_dstOK b n, zeroVals_dstOK b ns]
end

mutual
/-- Without non-nil pointers allowed is the stronger condition. -/
theorem dstOK_mono : ∀ (v : Val), dstOK false v = true → dstOK true v = true
  | .struct fs, h => by simp only [dstOK] at h ⊢; exact dstOKs_mono fs h
  | .ptr w, h => by simp [dstOK] at h
  | .map _ _ _, h => by simpa [dstOK] using h
  | .slice _ _ _, h => by simpa [dstOK] using h
  | .bool _, _ | .int _, _ | .uint _, _ | .float _, _ | .str _, _ | .bytes _ _ _, _ | .nilptr, _ => by simp [dstOK]
theorem dstOKs_mono : ∀ (vs : List Val), dstOKs false vs = true → dstOKs true vs = true
  | [], _ => by simp [dstOKs]
  | v :: vs, h => by
    simp only [dstOKs, Bool.and_eq_true] at h ⊢
    exact ⟨dstOK_mono v h.1, dstOKs_mono vs h.2⟩
end

mutual
/-- An empty value (what Reset leaves) is a destination CopyTo can fill. -/
theorem dstOK_of_empty : ∀ (v : Val), isEmptyV v = true → dstOK true v = true
  | .struct fs, h => by simp only [dstOK, isEmptyV] at h ⊢; exact dstOKs_of_empty fs h
  | .ptr w, h => by simp only [dstOK, isEmptyV, Bool.true_and] at h ⊢; exact dstOK_of_empty w h
  | .map _ _ _, h => by simpa [dstOK, isEmptyV] using h
  | .slice _ _ _, h => by simpa [dstOK, isEmptyV] using h
  | .bool _, _ | .int _, _ | .uint _, _ | .float _, _ | .str _, _ | .bytes _ _ _, _ | .nilptr, _ => by simp [dstOK]
theorem dstOKs_of_empty : ∀ (vs : List Val), allEmpty vs = true → dstOKs true vs = true
  | [], _ => by simp [dstOKs]
  | v :: vs, h => by
    simp only [dstOKs, allEmpty, Bool.and_eq_true] at h ⊢
    exact ⟨dstOK_of_empty v h.1, dstOKs_of_empty vs h.2⟩
end

/-- The zero value with the pointer flag dropped. -/
theorem zeroNoPtr_WT (n : Node) (h : NodeWF n = true) : WT (n.withPtr false) (zeroNoPtr n) = true :=
  WT_zeroVal _ (by rw [NodeWF_withPtr]; exact h)

end Inspector.CopyPf
