package corr

func init() {
	Runners["C15"] = runC15
}

func runC15(p *Plan) {
	r := NewRng(p.Seed)
	nRandom := scale(p.Tier, 1, 6)
	perValue := scale(p.Tier, 40, 150)
	for _, e := range p.Types {
		tr := r.Fork(hashStr(e.Name))
		vals := valuesFor(p, e, tr, nRandom)
		for vi, vc := range vals {
			if vc.prof == "nil" || vc.prof == "empty" {
				continue
			}
			ps := EnumPaths(tr, vc.v, perValue)
			for i, path := range ps.Paths {
				OpAlias(p.Out, e, vc.v, path, vi == 0 && i%3 == 0)
				p.Out.Count("path:" + ps.Kinds[i])
			}
		}
	}
}
