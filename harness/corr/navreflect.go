package corr

import (
	"reflect"
	"strconv"
)

// NavReflect walks a value natively along a path. It is used only to *choose* interesting inputs
// (operands near the element, assignable values); it is never an oracle for a verdict.
func NavReflect(v reflect.Value, path []string) (reflect.Value, bool) {
	for _, seg := range path {
		for v.Kind() == reflect.Ptr {
			if v.IsNil() {
				return reflect.Value{}, false
			}
			v = v.Elem()
		}
		switch v.Kind() {
		case reflect.Struct:
			f := v.FieldByName(seg)
			if !f.IsValid() {
				return reflect.Value{}, false
			}
			v = f
		case reflect.Map:
			kt := v.Type().Key()
			if kt.Kind() == reflect.Ptr {
				return reflect.Value{}, false
			}
			k := reflect.New(kt).Elem()
			switch kt.Kind() {
			case reflect.String:
				k.SetString(seg)
			case reflect.Bool:
				b, err := strconv.ParseBool(seg)
				if err != nil {
					return reflect.Value{}, false
				}
				k.SetBool(b)
			case reflect.Int, reflect.Int8, reflect.Int16, reflect.Int32, reflect.Int64:
				n, err := strconv.ParseInt(seg, 0, 0)
				if err != nil || k.OverflowInt(n) {
					return reflect.Value{}, false
				}
				k.SetInt(n)
			case reflect.Uint, reflect.Uint8, reflect.Uint16, reflect.Uint32, reflect.Uint64:
				n, err := strconv.ParseUint(seg, 0, 0)
				if err != nil || k.OverflowUint(n) {
					return reflect.Value{}, false
				}
				k.SetUint(n)
			case reflect.Float32, reflect.Float64:
				f, err := strconv.ParseFloat(seg, 64)
				if err != nil {
					return reflect.Value{}, false
				}
				k.SetFloat(f)
			default:
				return reflect.Value{}, false
			}
			e := v.MapIndex(k)
			if !e.IsValid() {
				return reflect.Value{}, false
			}
			v = e
		case reflect.Slice:
			if isByteSlice(v.Type()) {
				return reflect.Value{}, false
			}
			n, err := strconv.ParseInt(seg, 0, 0)
			if err != nil || n < 0 || int(n) >= v.Len() {
				return reflect.Value{}, false
			}
			v = v.Index(int(n))
		default:
			return reflect.Value{}, false
		}
	}
	return v, true
}

// ScalarText renders a scalar/string/bytes element as operand text.
func ScalarText(v reflect.Value) (string, bool) {
	switch v.Kind() {
	case reflect.String:
		return v.String(), true
	case reflect.Bool:
		return strconv.FormatBool(v.Bool()), true
	case reflect.Int, reflect.Int8, reflect.Int16, reflect.Int32, reflect.Int64:
		return strconv.FormatInt(v.Int(), 10), true
	case reflect.Uint, reflect.Uint8, reflect.Uint16, reflect.Uint32, reflect.Uint64:
		return strconv.FormatUint(v.Uint(), 10), true
	case reflect.Float32, reflect.Float64:
		return strconv.FormatFloat(v.Float(), 'f', -1, 64), true
	case reflect.Slice:
		if isByteSlice(v.Type()) {
			return string(v.Bytes()), true
		}
	}
	return "", false
}

// OperandsNear proposes right operands around an element: equal, adjacent, far, out of range,
// unparsable and "nil".
func OperandsNear(r *Rng, el reflect.Value, found bool) []string {
	ops := []string{"nil", "zz", "", "0", "1", "-1", "true", "300", "1.5", "0x10", "70000"}
	if !found {
		return ops
	}
	for el.Kind() == reflect.Ptr {
		if el.IsNil() {
			return ops
		}
		el = el.Elem()
	}
	t, ok := ScalarText(el)
	if !ok {
		return ops
	}
	ops = append(ops, t, t, t)
	switch el.Kind() {
	case reflect.Int, reflect.Int8, reflect.Int16, reflect.Int32, reflect.Int64:
		n := el.Int()
		ops = append(ops, strconv.FormatInt(n+1, 10), strconv.FormatInt(n-1, 10), strconv.FormatInt(n+1000, 10), strconv.FormatInt(-n, 10),
			"9223372036854775807", "-9223372036854775808", "9223372036854775808", "128", "-129", "32768", "2147483648")
	case reflect.Uint, reflect.Uint8, reflect.Uint16, reflect.Uint32, reflect.Uint64:
		n := el.Uint()
		ops = append(ops, strconv.FormatUint(n+1, 10), strconv.FormatUint(n+1000, 10), "18446744073709551615", "256", "65536", "4294967296")
		if n > 0 {
			ops = append(ops, strconv.FormatUint(n-1, 10))
		}
	case reflect.Float32, reflect.Float64:
		fx, _ := FxOf(el.Float())
		for _, d := range []int64{1, -1, 1000, -1000, 1 << 20} {
			ops = append(ops, strconv.FormatFloat(FloatOfFx(fx+d), 'f', -1, 64))
		}
		ops = append(ops, "1e2", "0.1", "inf")
	case reflect.String, reflect.Slice:
		ops = append(ops, t+"a", "a"+t, "A", "~~~~")
		if len(t) > 0 {
			ops = append(ops, t[:len(t)-1])
		}
	case reflect.Bool:
		ops = append(ops, "false", "true", "T", "0", "FALSE", "yes")
	}
	return ops
}
