package corr

func init() {
	Runners["C10"] = runC10
}

func runC10(p *Plan) {
	r := NewRng(p.Seed)
	nRandom := scale(p.Tier, 3, 12)
	perValue := scale(p.Tier, 60, 250)
	for _, e := range p.Types {
		tr := r.Fork(hashStr(e.Name))
		for _, vc := range valuesFor(p, e, tr, nRandom) {
			ps := EnumPaths(tr, vc.v, perValue)
			for i, path := range ps.Paths {
				f := readForms[0]
				if tr.Chance(1, 4) {
					f = readForms[1+tr.Intn(2)]
				}
				OpLC(p.Out, e, vc.v, f, path, false)
				OpLC(p.Out, e, vc.v, f, path, true)
				p.Out.Count("path:" + ps.Kinds[i])
				p.Out.Count("value:" + vc.prof)
			}
		}
	}
}
