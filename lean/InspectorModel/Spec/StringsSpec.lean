/-
Spec/StringsSpec.lean — C17: the strings inspector behaves like the sequence it wraps.
-/
import InspectorModel.Lib.Strings
import InspectorModel.Spec.CmpSpec
namespace Inspector

/-- The element a one-segment path addresses: `some (some e)` in range, `some none` outside, `none` unparsable. -/
def seqAddr (v : Val) (s : Seg) : Option (Option Val) :=
  match atoiM s.text with
  | none => none
  | some idx =>
    if 0 ≤ idx ∧ idx < (seqElems v).length then some (nth? (seqElems v) idx.toNat) else some none

def stringsGetAccepts (isB : Bool) (v : Val) (p : List Seg) (o : GetOut) : Bool :=
  match p with
  | [s] =>
    (match seqAddr v s with
     | none => o == .err
     | some none => o == .none
     | some (some e) => o == .some (if isB then "Y" else "string") e)
  | _ => true

def stringsCmpAccepts (v : Val) (p : List Seg) (op : Op) (right : Seg) (o : CmpOut) : Bool :=
  match p with
  | [s] =>
    (match seqAddr v s with
     | none => o == .err
     | some none => o == .untouched
     | some (some e) =>
       match nativeCmp op (.str (elemText e)) (.str right.text) with
       | some b => o == .set b
       | none => true)
  | _ => true

/-- Set replaces exactly element i; every other element and the length stay. -/
def stringsSetAccepts (isB : Bool) (v : Val) (p : List Seg) (src : Src) (o : SetOut) : Bool :=
  match o with
  | .panic => src.v.isNilPtr        -- a nil pointer as the value is outside the property
  | .ok after | .err after =>
    let bes := (seqElems v).map elemText
    let aes := (seqElems after).map elemText
    match p with
    | [s] =>
      (match seqAddr v s with
       | some (some _) =>
         (match setText isB src with
          | some (some t) =>
            (match atoiM s.text with
             | some idx => aes == (bes.take idx.toNat ++ [t] ++ bes.drop (idx.toNat + 1))
             | none => false)
          | _ => aes.length == bes.length &&
                 (match atoiM s.text with
                  | some idx => aes.take idx.toNat == bes.take idx.toNat && aes.drop (idx.toNat + 1) == bes.drop (idx.toNat + 1)
                  | none => false))
       | _ => aes == bes)
    | _ => aes == bes

def stringsDeqAccepts (l r : Val) (o : DeqOut) : Bool :=
  o == (if (seqElems l).map elemText == (seqElems r).map elemText then .t else .f)

def stringsLcAccepts (isCap isB : Bool) (v : Val) (p : List Seg) (o : LcOut) : Bool :=
  match p with
  | [s] =>
    (match seqAddr v s with
     | none => o == .err
     | some none => o == .untouched || o == .val 0
     | some (some e) => if isCap && !isB then true else o == .val (lenOf isCap e))
  | [] =>
    if isCap then (if isB then (o == .val (seqCap v) || ((seqElems v).isEmpty && o == .untouched)) else true)
    else o == .val (seqElems v).length || ((seqElems v).isEmpty && o == .untouched)
  | _ => true

end Inspector
