// Command libonly is the correspondence harness for the hand-written runtime (static, strings,
// map[string]any inspectors, Assign, buffer): it needs nothing generated.
package main

import "verifharness/corr"

func main() { corr.Main() }
