/-
Props/C11.lean — property theorems for C11 (DeepEqual options: excluded fields never matter, listed fields
always do).

`deq_options_correct`: for the repaired emitter model and EVERY option set (nil, empty, Exclude, Filter, both,
any Precision) the answer of `DeepEqualWithOptions` is accepted by the structural reading `eqS`, which looks at
a struct field exactly when `specLooksAt` says so for its dotted path (ancestors are tested on the way down)
and compares floats with the precision the options give. `mustCheck_spec`: the decision function of options.go
is that reading. `unlooked_field_never_matters`: a struct field the options do not look at never decides the
answer, whatever the two (well-typed) values in it are — nil-ness of a pointer included.
The model of the current tree differs on the class `deq-nil-before-mustcheck` (`repo_not_correct`) — that is the
tree at the pinned commit (`GenCfg.original`). `section CurrentTree`: `GenCfg.repo` has every switch DeepEqual reads
off (Proofs/DEQCurrent.lean), so the theorems hold of the emitter as it stands: `deq_options_current`,
`deq_options_symmetric_current`, `unlooked_field_never_matters_current`.
-/
import InspectorModel.Proofs.DEQSym
import InspectorModel.Proofs.DEQCurrent
namespace Inspector.C11

/-! ### The decision function (options.go:14-27), exhaustively -/

/-- Nil options: every field is checked. -/
theorem mustCheck_nil (path : String) : deqMustCheck path none = true := rfl

/-- Empty options: every field is checked. -/
theorem mustCheck_empty (path : String) (o : DeqOpts) (he : o.exclude = []) (hf : o.filter = []) :
    deqMustCheck path (some o) = true := by
  simp [deqMustCheck, he, hf]

/-- A non-empty Exclude set decides alone (a Filter next to it is ignored): listed = skipped. -/
theorem mustCheck_exclude (path : String) (o : DeqOpts) (he : o.exclude ≠ []) :
    deqMustCheck path (some o) = !(o.exclude.contains path) := by
  cases h : o.exclude with
  | nil => exact absurd h he
  | cons x xs => simp [deqMustCheck, h]

/-- Only a Filter set: listed = checked. -/
theorem mustCheck_filter (path : String) (o : DeqOpts) (he : o.exclude = []) (hf : o.filter ≠ []) :
    deqMustCheck path (some o) = o.filter.contains path := by
  cases h : o.filter with
  | nil => exact absurd h hf
  | cons x xs => simp [deqMustCheck, he, h]

/-- The decision function is the specification's "is this field looked at". -/
theorem mustCheck_spec (path : String) (opts : Option DeqOpts) : deqMustCheck path opts = specLooksAt opts path :=
  mustCheck_eq_looksAt path opts

/-! ### Precision (equal.go:5-11) -/

/-- Nil options: the default tolerance. -/
theorem equalFloat_nil (a b : Int) : equalFloat a b none = decide ((a - b).natAbs ≤ defaultPrecFx.toNat) := rfl

/-- A positive Precision replaces the default tolerance. -/
theorem equalFloat_precision (a b : Int) (o : DeqOpts) (h : o.precision > 0) :
    equalFloat a b (some o) = decide ((a - b).natAbs ≤ o.precision.toNat) := by
  simp [equalFloat, h]

/-- A zero (or negative) Precision means the default tolerance, as nil options do. -/
theorem equalFloat_default (a b : Int) (o : DeqOpts) (h : ¬ o.precision > 0) :
    equalFloat a b (some o) = equalFloat a b none := by
  simp [equalFloat, h]

/-! ### The comparison under options -/

/-- C11 for the repaired emitter: every option set. -/
theorem deq_options_correct (n : Node) (a b : Val) (opts : Option DeqOpts) (ident : Bool)
    (hroot : RootOK n = true) (hok : EmitOK n = true) (hnames : PathNamesOK n = true)
    (hwa : WT n a = true) (hwb : WT n b = true) :
    deqAccepts (eqS { opts := opts, ident := ident } n "" a b)
      (deqM { cfg := GenCfg.fixed, opts := opts, ident := ident } n .ptr .ptr a b) = true := by
  have hl : n.isLeaf = false := by
    simp only [RootOK, Bool.and_eq_true, Bool.not_eq_true'] at hroot
    exact hroot.2
  exact deqM_correct n a b opts ident (isBytes_le_isLeaf n hl) hok hnames hwa hwb

/-- Options do not disturb symmetry. -/
theorem deq_options_symmetric (n : Node) (a b : Val) (opts : Option DeqOpts) (ident : Bool)
    (hwa : WT n a = true) (hwb : WT n b = true) (hka : MapKeysOK a = true) (hkb : MapKeysOK b = true) :
    deqM { cfg := GenCfg.fixed, opts := opts, ident := ident } n .ptr .ptr a b =
      deqM { cfg := GenCfg.fixed, opts := opts, ident := ident } n .ptr .ptr b a :=
  deqM_symmetric n a b opts ident hwa hwb hka hkb

/-- Excluded / unlisted fields never matter: whatever two well-typed values stand in a struct field whose
dotted path the options do not look at, the emitted comparison of that field decides nothing. -/
theorem unlooked_field_never_matters (ch : Node) (l r : Val) (π : String) (opts : Option DeqOpts) (ident : Bool)
    (hname : ch.name.length > 0) (hok : EmitOK ch = true) (hnames : PathNamesOK ch = true)
    (hl : WT ch l = true) (hr : WT ch r = true)
    (hskip : specLooksAt opts (dotted π ch.name) = false) :
    deqN { cfg := GenCfg.fixed, opts := opts, ident := ident } ch true false π l r = .cont := by
  have hπ := deqPath_field π ch hname
  have h := deqN_ok opts ident l r ch true false π (dotted π ch.name) hπ
    (fun _ => by rw [← hπ]; exact deqPath_field_len π ch hname) (fun h => by cases h) hok hnames hl hr
  simp only [look, mustCheck_eq_looksAt, hskip, Bool.not_false, Bool.and_self, if_true] at h
  generalize deqN (fixedEnv opts ident) ch true false π l r = x at h
  cases x <;> first | rfl | cases h

section NonVacuity
/-- `struct { A int; F float64; P *struct{ B string; C int } }`. -/
def exNode : Node :=
  .struct { typn := "T" } [
    .basic { typn := "int", typu := "int", name := "A" },
    .basic { typn := "float64", typu := "float64", name := "F" },
    .struct { typn := "Inner", name := "P", ptr := true } [
      .basic { typn := "string", typu := "string", name := "B" },
      .basic { typn := "int", typu := "int", name := "C" }]]
def mk (a f : Int) (p : Val) : Val := .struct [.int a, .float f, p]
def inP (b : String) (c : Int) : Val := .ptr (.struct [.str (strBytes b), .int c])
def v0 : Val := mk 1 0 (inP "x" 1)
def vB : Val := mk 1 0 (inP "y" 1)       -- differs in P.B
def vNil : Val := mk 1 0 .nilptr         -- differs in the nil-ness of P
def vF : Val := mk 1 2000 (inP "x" 1)    -- float moved by 2000·2⁻²⁰ ≈ 1.9e-3 (above the default 1e-3)
def excl (l : List String) : Option DeqOpts := some { exclude := l }
def filt (l : List String) : Option DeqOpts := some { filter := l }

example : RootOK exNode = true ∧ EmitOK exNode = true ∧ PathNamesOK exNode = true := by decide
example : WT exNode v0 = true ∧ WT exNode vB = true ∧ WT exNode vNil = true ∧ WT exNode vF = true := by decide

/-- Excluding the differing field, or an ancestor of it, hides the difference; excluding a sibling does not. -/
example : deqM { cfg := GenCfg.fixed, opts := excl ["P.B"] } exNode .ptr .ptr v0 vB = .t ∧
    deqM { cfg := GenCfg.fixed, opts := excl ["P"] } exNode .ptr .ptr v0 vB = .t ∧
    deqM { cfg := GenCfg.fixed, opts := excl ["P.C"] } exNode .ptr .ptr v0 vB = .f ∧
    eqS { opts := excl ["P.C"] } exNode "" v0 vB = .mustNot ∧ eqS { opts := excl ["P"] } exNode "" v0 vB = .must := by decide
/-- A filter reaches a field only through listed ancestors. -/
example : deqM { cfg := GenCfg.fixed, opts := filt ["P", "P.B"] } exNode .ptr .ptr v0 vB = .f ∧
    deqM { cfg := GenCfg.fixed, opts := filt ["P.B"] } exNode .ptr .ptr v0 vB = .t ∧
    deqM { cfg := GenCfg.fixed, opts := filt ["A"] } exNode .ptr .ptr v0 vB = .t ∧
    eqS { opts := filt ["P", "P.B"] } exNode "" v0 vB = .mustNot := by decide
/-- Precision above the gap makes the floats equal, below it (and by default) unequal. -/
example : deqM { cfg := GenCfg.fixed, opts := some { precision := 3000 } } exNode .ptr .ptr v0 vF = .t ∧
    deqM { cfg := GenCfg.fixed, opts := some { precision := 1500 } } exNode .ptr .ptr v0 vF = .f ∧
    deqM { cfg := GenCfg.fixed, opts := none } exNode .ptr .ptr v0 vF = .f ∧
    eqS { opts := some { precision := 1500 } } exNode "" v0 vF = .mustNot := by decide

/-- Known finding `deq-nil-before-mustcheck`: the nil-ness test of the pointer-typed field `P` is emitted
outside its `DEQMustCheck` wrapper, so with `P` excluded the current tree still answers `false` for a
difference in the nil-ness of `P`. -/
theorem repo_not_correct :
    deqAccepts (eqS { opts := excl ["P"] } exNode "" v0 vNil)
      (deqM { cfg := GenCfg.original, opts := excl ["P"] } exNode .ptr .ptr v0 vNil) = false := by
  decide
example : eqS { opts := excl ["P"] } exNode "" v0 vNil = .must ∧
    deqM { cfg := GenCfg.original, opts := excl ["P"] } exNode .ptr .ptr v0 vNil = .f ∧
    deqM { cfg := GenCfg.fixed, opts := excl ["P"] } exNode .ptr .ptr v0 vNil = .t := by decide
/-- The same with a filter that does not list `P`. -/
theorem repo_not_correct_filter :
    deqAccepts (eqS { opts := filt ["A"] } exNode "" v0 vNil)
      (deqM { cfg := GenCfg.original, opts := filt ["A"] } exNode .ptr .ptr v0 vNil) = false := by
  decide
/-- The flag `deqNilBeforeMustCheck` alone is responsible. -/
theorem repo_not_correct_flag :
    deqAccepts (eqS { opts := excl ["P"] } exNode "" v0 vNil)
      (deqM { cfg := { GenCfg.fixed with deqNilBeforeMustCheck := true }, opts := excl ["P"] } exNode .ptr .ptr v0 vNil) = false := by
  decide
end NonVacuity

/-! ### The tree as it is now

No switch that DeepEqual consults (`deqPtrLeafNilUnchecked`, `deqNilBeforeMustCheck`, `nilRootPanics`) is left on
in `GenCfg.repo`: the model of the current tree *is* the repaired model (`DEQCurrent.deqM_repo`). -/
section CurrentTree
open Inspector.DEQCurrent

/-- DeepEqualWithOptions of the current tree is that of the repaired emitter (any environment, any forms). -/
theorem deqM_repo (env : DeqEnv) (n : Node) (fl fr : Form) (l r : Val) :
    deqM { env with cfg := GenCfg.repo } n fl fr l r = deqM { env with cfg := GenCfg.fixed } n fl fr l r :=
  DEQCurrent.deqM_repo env n fl fr l r

/-- C11 for the emitter as it stands: every option set. -/
theorem deq_options_current (n : Node) (a b : Val) (opts : Option DeqOpts) (ident : Bool)
    (hroot : RootOK n = true) (hok : EmitOK n = true) (hnames : PathNamesOK n = true)
    (hwa : WT n a = true) (hwb : WT n b = true) :
    deqAccepts (eqS { opts := opts, ident := ident } n "" a b)
      (deqM { cfg := GenCfg.repo, opts := opts, ident := ident } n .ptr .ptr a b) = true := by
  rw [deqM_repo_mk]; exact deq_options_correct n a b opts ident hroot hok hnames hwa hwb

/-- Options do not disturb symmetry, emitter as it stands. -/
theorem deq_options_symmetric_current (n : Node) (a b : Val) (opts : Option DeqOpts) (ident : Bool)
    (hwa : WT n a = true) (hwb : WT n b = true) (hka : MapKeysOK a = true) (hkb : MapKeysOK b = true) :
    deqM { cfg := GenCfg.repo, opts := opts, ident := ident } n .ptr .ptr a b =
      deqM { cfg := GenCfg.repo, opts := opts, ident := ident } n .ptr .ptr b a := by
  rw [deqM_repo_mk, deqM_repo_mk]; exact deq_options_symmetric n a b opts ident hwa hwb hka hkb

/-- Excluded / unlisted fields never matter, emitter as it stands (nil-ness of a pointer field included: the
class `deq-nil-before-mustcheck` is gone). -/
theorem unlooked_field_never_matters_current (ch : Node) (l r : Val) (π : String) (opts : Option DeqOpts)
    (ident : Bool) (hname : ch.name.length > 0) (hok : EmitOK ch = true) (hnames : PathNamesOK ch = true)
    (hl : WT ch l = true) (hr : WT ch r = true)
    (hskip : specLooksAt opts (dotted π ch.name) = false) :
    deqN { cfg := GenCfg.repo, opts := opts, ident := ident } ch true false π l r = .cont := by
  rw [deqN_repo_mk]; exact unlooked_field_never_matters ch l r π opts ident hname hok hnames hl hr hskip

/-- The witnesses on which the tree at the pinned commit was rejected are accepted now. -/
example : deqM { cfg := GenCfg.repo, opts := excl ["P"] } exNode .ptr .ptr v0 vNil = .t ∧
    deqM { cfg := GenCfg.repo, opts := filt ["A"] } exNode .ptr .ptr v0 vNil = .t := by decide

end CurrentTree

end Inspector.C11
