/-
Spec/Conv.lean — C19's canonical conversion table, stated outright.
-/
import InspectorModel.Lib.Assign
namespace Inspector

inductive ConvR
  | store (v : Val)
  | fail
  | unspec
deriving Inhabited

/-- Decimal text of a scalar ("any scalar rendered as decimal text"). -/
def specRender (s : Src) : Option Bytes :=
  match s.v with
  | .bool b => some (strBytes (if b then "true" else "false"))
  | .int i => some (renderInt i)
  | .uint n => some (renderNat n)
  | .float _ => some s.ftext
  | _ => none

def specConv (dk : DynKind) (s : Src) : ConvR :=
  if s.kind == .foreign || dk == .foreign then .fail else
  if s.v.isNilPtr then .unspec else
  match dk.family, s.kind.family with
  | .text, .text =>
    (match srcText s with
     | some t => .store (if dk == .string then .str t else .bytes false t t.length)
     | none => .unspec)
  | .text, _ =>
    (match specRender s with
     | some t => .store (if dk == .string then .str t else .bytes false t t.length)
     | none => .unspec)
  | .bool, .bool => (match s.v with | .bool b => .store (.bool b) | _ => .unspec)
  | .bool, .text => (match srcText s with | some t => .store (.bool (t == strBytes "true")) | none => .unspec)
  | .bool, _ => .store (.bool (scalarNonZero s.v))
  | .signed, .signed => (match s.v with | .int i => .store (.int (wrapS dk.bits i)) | _ => .unspec)
  | .signed, .text =>
    (match srcText s with
     | some t => (match atoiM t with
       | some i => if inRangeS dk.bits i then .store (.int i) else .unspec
       | none => .fail)
     | none => .unspec)
  | .unsigned, .unsigned => (match s.v with | .uint n => .store (.uint (wrapU dk.bits n)) | _ => .unspec)
  | .unsigned, .text =>
    (match srcText s with
     | some t => (match atouM t with
       | some n => if inRangeU dk.bits n then .store (.uint n) else .unspec
       | none => .fail)
     | none => .unspec)
  | .float, .float => (match s.v with | .float f => .store (.float (if dk == .float32 then roundF32 f else f)) | _ => .unspec)
  | .float, .text =>
    (match atofM s with
     | some (some fx) => .store (.float (if dk == .float32 then roundF32 fx else fx))
     | some none => .unspec
     | none => .fail)
  | _, _ => .fail

/-- Observation of one Assign/AssignBuf call. -/
structure AssignObs where
  panicked : Bool := false
  ret : Bool := false
  inBuf : String := "-"
  prefixKept : Bool := true
  v : Val := .nilptr
deriving Inhabited

def valContentEq : Val → Val → Bool
  | .bytes _ a _, .bytes _ b _ => a == b
  | a, b => a == b

def contentLen : Val → Nat
  | .str s => s.length
  | .bytes _ d _ => d.length
  | _ => 0

def assignAccepts (dk : DynKind) (old : Val) (s : Src) (withBuf : Bool) (o : AssignObs) : Bool :=
  match specConv dk s with
  | .unspec => true
  | .fail => !o.panicked && !o.ret && valContentEq o.v old && o.prefixKept
  | .store v =>
    !o.panicked && o.ret && valContentEq o.v v && o.prefixKept &&
    -- with a buffer the produced text lives in the buffer
    (!(withBuf && dk.family == .text && s.kind.family != .text && contentLen v > 0) || o.inBuf == "1")

/-- What the harness observes for an outcome `r` of the chain (`none`: inexact operand, the driver skips the
record). `noBuf`: Assign, or AssignBuf with a nil buffer. -/
def assignObsOf (r : AssignR) (dk : DynKind) (old : Val) (s : Src) (noBuf : Bool) : Option AssignObs :=
  match r with
  | .panic => some { panicked := true }
  | .inexact => none
  | .no => some { ret := false, v := old, inBuf := (if noBuf || contentLen old == 0 then "-" else "0") }
  | .ok v =>
    let inb :=
      if dk.family != .text || contentLen v == 0 || noBuf then "-"
      else if s.kind.family == .text then "0" else "1"
    some { ret := true, v := v, inBuf := inb }

/-- The in-buffer flag of an untouched / aliased destination is not part of the tie. -/
def AssignObs.norm (o : AssignObs) : AssignObs := if o.inBuf == "1" then o else { o with inBuf := "-" }

/-! Hypotheses of the C19 / C16 theorems on a source operand (decidable; evaluated by the driver). -/

/-- The value of a source has the representation its dynamic kind demands (a nil pointer is allowed for
every kind, nothing is demanded of a foreign source). No range condition. -/
def Src.wt (s : Src) : Bool :=
  match s.kind, s.v with
  | .foreign, _ => true
  | _, .nilptr => true
  | .bool, .bool _ => true
  | .string, .str _ => true
  | .bytes, .bytes _ _ _ => true
  | k, .int _ => k.family == .signed
  | k, .uint _ => k.family == .unsigned
  | k, .float _ => k.family == .float
  | _, _ => false

/-- The only part of `Src.wt` the theorem needs: a numeric source stored into a bool destination does not
carry a bool or a text as its value. -/
def boolSrcTyped (dk : DynKind) (s : Src) : Bool :=
  !(dk == .bool && (s.kind.family == .signed || s.kind.family == .unsigned || s.kind.family == .float) &&
    (match s.v with | .bool _ | .str _ | .bytes _ _ _ => true | _ => false))

end Inspector
