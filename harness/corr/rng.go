package corr

// Rng is a splitmix64 generator: every random choice of a run derives from VERIF_SEED through it.
type Rng struct{ s uint64 }

func NewRng(seed uint64) *Rng {
	// scramble the seed first: consecutive seeds must not give shifted copies of one stream
	z := seed + 0x632BE59BD9B4E019
	z = (z ^ (z >> 33)) * 0xFF51AFD7ED558CCD
	z = (z ^ (z >> 33)) * 0xC4CEB9FE1A85EC53
	z ^= z >> 33
	return &Rng{s: z}
}

func (r *Rng) Next() uint64 {
	r.s += 0x9E3779B97F4A7C15
	z := r.s
	z = (z ^ (z >> 30)) * 0xBF58476D1CE4E5B9
	z = (z ^ (z >> 27)) * 0x94D049BB133111EB
	return z ^ (z >> 31)
}

// Intn returns a value in [0,n).
func (r *Rng) Intn(n int) int {
	if n <= 0 {
		return 0
	}
	return int(r.Next() % uint64(n))
}

func (r *Rng) Bool() bool { return r.Next()&1 == 1 }

// Chance returns true with probability num/den.
func (r *Rng) Chance(num, den int) bool { return r.Intn(den) < num }

// Fork derives an independent generator (so adding draws in one place does not shift another).
func (r *Rng) Fork(tag uint64) *Rng { return NewRng(r.Next() ^ (tag * 0xD6E8FEB86659FD93)) }
