package corr

func init() {
	Runners["C19"] = runC19
}

func runC19(p *Plan) {
	r := NewRng(p.Seed)
	reps := scale(p.Tier, 6, 40)
	modes := []string{"none", "empty", "filled"}
	srcKinds := append([]string{}, KindNames...)
	for _, dk := range KindNames {
		for _, sk := range srcKinds {
			for i := 0; i < reps; i++ {
				old := GenSrc(r, dk).V
				src := GenSrc(r, sk)
				OpAssign(p.Out, dk, old, src, modes[r.Intn(3)])
				p.Out.Count("dst:" + dk)
				p.Out.Count("srcform:" + src.Form)
			}
		}
		for i := 0; i < 3; i++ {
			OpAssign(p.Out, dk, GenSrc(r, dk).V, SrcSpec{Kind: "foreign", Form: []string{"foreign", "foreignp"}[r.Intn(2)]}, modes[r.Intn(3)])
		}
	}
}
