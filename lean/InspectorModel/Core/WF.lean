/-
Core/WF.lean — well-formedness of parsed type trees: what both parsers guarantee and the theorems assume.
-/
import InspectorModel.Core.Types
namespace Inspector

mutual
/-- A basic node names a scalar kind, and a builtin type name is its own underlying name; map keys are
basic nodes. (Both parsers produce only such trees; the driver evaluates this predicate on every tree
it reads and counts violations.) -/
def NodeWF : Node → Bool
  | .basic i => (kindOfName i.typu).isSome && (!isBuiltinName i.typn || i.typn == i.typu)
  | .struct _ chld => NodeWFs chld
  | .map _ k v => k.isBasicTyp && NodeWF k && NodeWF v
  | .slice _ e => NodeWF e
def NodeWFs : List Node → Bool
  | [] => true
  | n :: ns => NodeWF n && NodeWFs ns
end

end Inspector
