/-
Props/C12.lean — property theorems for C12 (same answer for T, *T and **T; by-value / unrelated arguments
of writing operations are refused without effect).

All theorems hold for EVERY configuration of the defect switches — in particular for the model of the tree
as it is (`GenCfg.repo`): C12 has no known finding. That read operations "never modify the value they read"
is, in the model, the fact that the read-method models return an answer and no value; on the implementation
it is observed by the harness (snapshot before/after every read, `read-operation-modified-its-argument`).
-/
import InspectorModel.Gen.Get
import InspectorModel.Gen.Cmp
import InspectorModel.Gen.LC
import InspectorModel.Gen.DEQ
import InspectorModel.Gen.Copy
import InspectorModel.Gen.Reset
import InspectorModel.Gen.Set
import InspectorModel.Gen.Loop
namespace Inspector.C12

/-- The three ways a non-nil value reaches an inspector. -/
def okForm (f : Form) : Bool := f == .val || f == .ptr || f == .ptrptr

theorem okForm_iff (f : Form) : okForm f = true ↔ (f = .val ∨ f = .ptr ∨ f = .ptrptr) := by
  cases f <;> simp [okForm]

/-- By value, by pointer and by pointer-to-pointer: the emitted argument-form switch leaves the same root. -/
theorem get_forms_agree (cfg : GenCfg) (n : Node) (v : Val) (p : List Seg) (f : Form) (hf : okForm f = true) :
    getM cfg n f v p = getM cfg n .ptr v p := by
  rcases (okForm_iff f).mp hf with h | h | h <;> subst h <;> rfl

theorem cmp_forms_agree (cfg : GenCfg) (n : Node) (v : Val) (p : List Seg) (op : Op) (r : Seg) (f : Form)
    (hf : okForm f = true) : cmpM cfg n f v p op r = cmpM cfg n .ptr v p op r := by
  rcases (okForm_iff f).mp hf with h | h | h <;> subst h <;> rfl

theorem lc_forms_agree (cfg : GenCfg) (isCap : Bool) (n : Node) (v : Val) (p : List Seg) (f : Form)
    (hf : okForm f = true) : lcM cfg isCap n f v p = lcM cfg isCap n .ptr v p := by
  rcases (okForm_iff f).mp hf with h | h | h <;> subst h <;> rfl

theorem loop_forms_agree (cfg : GenCfg) (sc : LoopScript) (ft : Val → Bytes) (n : Node) (v : Val) (p : List Seg)
    (f : Form) (hf : okForm f = true) : loopM cfg sc ft n f v p = loopM cfg sc ft n .ptr v p := by
  rcases (okForm_iff f).mp hf with h | h | h <;> subst h <;> rfl

/-- DeepEqual: every combination of the three forms on the two sides. -/
theorem deq_forms_agree (env : DeqEnv) (n : Node) (l r : Val) (fl fr : Form)
    (hl : okForm fl = true) (hr : okForm fr = true) : deqM env n fl fr l r = deqM env n .ptr .ptr l r := by
  rcases (okForm_iff fl).mp hl with h | h | h <;> subst h <;>
    rcases (okForm_iff fr).mp hr with h | h | h <;> subst h <;> rfl

/-- Copy's source. -/
theorem copy_forms_agree (cfg : GenCfg) (n : Node) (r : Val) (f : Form) (hf : okForm f = true) :
    copyM cfg n f r = copyM cfg n .ptr r := by
  rcases (okForm_iff f).mp hf with h | h | h <;> subst h <;> rfl

theorem copyTo_src_forms_agree (cfg : GenCfg) (n : Node) (r l : Val) (fs fd : Form) (hf : okForm fs = true) :
    copyToM cfg n fs fd r l = copyToM cfg n .ptr fd r l := by
  rcases (okForm_iff fs).mp hf with h | h | h <;> subst h <;> rfl

/-- Set writes through a pointer or a pointer-to-pointer alike. -/
theorem set_ptr_forms_agree (cfg : GenCfg) (n : Node) (v : Val) (p : List Seg) (src : Src) (nb : Bool) :
    setM cfg n .ptrptr v p src nb = setM cfg n .ptr v p src nb := rfl

/-- Operations that must write through their argument reject a by-value argument. -/
theorem reset_by_value_rejected (cfg : GenCfg) (n : Node) (v : Val) : resetM cfg n .val v = .mustPointer := rfl

theorem copyTo_by_value_rejected (cfg : GenCfg) (n : Node) (r l : Val) (fs : Form) (hf : okForm fs = true) :
    copyToM cfg n fs .val r l = .mustPointer := by
  rcases (okForm_iff fs).mp hf with h | h | h <;> subst h <;> rfl

theorem loop_foreign (cfg : GenCfg) (sc : LoopScript) (ft : Val → Bytes) (n : Node) (v : Val) (p : List Seg) :
    loopM cfg sc ft n .foreign v p = ⟨[], .done⟩ := by
  have h : rootOfC cfg .foreign = .early := rfl
  unfold loopM
  simp only [h, ite_self]

/-- An argument of an unrelated type is refused without effect, by every method. -/
theorem foreign_refused (cfg : GenCfg) (n : Node) (v : Val) (p : List Seg) (op : Op) (r : Seg) (isCap : Bool)
    (sc : LoopScript) (ft : Val → Bytes) (src : Src) (nb : Bool) (env : DeqEnv) (f : Form) (fs : Form) (hs : okForm fs = true) :
    getM cfg n .foreign v p = .none ∧
    cmpM cfg n .foreign v p op r = .untouched ∧
    lcM cfg isCap n .foreign v p = .unsupported ∧
    (loopM cfg sc ft n .foreign v p).fin = .done ∧ (loopM cfg sc ft n .foreign v p).groups = [] ∧
    deqM env n .foreign f v v = (if deqArgOf f = .panic then deqNilPtrPtr env.cfg else .f) ∧
    copyM cfg n .foreign v = .unsupported ∧
    copyToM cfg n fs .foreign v v = .unsupported ∧
    resetM cfg n .foreign v = .unsupported ∧
    setM cfg n .foreign v p src nb = .ok v := by
  refine ⟨rfl, ?_, rfl, ?_, ?_, ?_, rfl, ?_, rfl, ?_⟩
  · cases p <;> rfl
  · rw [loop_foreign]
  · rw [loop_foreign]
  · cases f <;> rfl
  · rcases (okForm_iff fs).mp hs with h | h | h <;> subst h <;> rfl
  · cases p <;> rfl

end Inspector.C12
