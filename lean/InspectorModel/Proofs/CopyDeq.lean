/-
Proofs/CopyDeq.lean — the repaired DeepEqual model (nil options) answers "equal" wherever the
specification says the two values are structurally identical (`eqS … = must`). Used for C06: DeepEqual of
a source and its copy.
-/
import InspectorModel.Proofs.C06
set_option linter.unusedSimpArgs false
set_option linter.unusedVariables false
namespace Inspector.CopyPf

/-- DeepEqual as the driver runs it on (source, copy) for the repaired emitter. -/
def deqEnv : DeqEnv := { cfg := GenCfg.fixed, opts := none, ident := false }

theorem Tri.and_must (a b : Tri) : a.and b = .must ↔ a = .must ∧ b = .must := by
  cases a <;> cases b <;> simp [Tri.and]

theorem deqMustCheck_none (p : String) : deqMustCheck p none = true := rfl

theorem deqN_nonptr (n : Node) (ps d0 : Bool) (pp : String) (l r : Val) (hp : n.ptr = false) :
    deqN deqEnv n ps d0 pp l r = deqV deqEnv n ps (ps && (deqPath pp n d0).length > 0) (deqPath pp n d0) l r := by
  cases l <;> simp [deqN, deqV, hp, deqEnv]

theorem deqV_withPtr (n : Node) (b : Bool) (ps wrap : Bool) (path : String) (l r : Val) :
    deqV deqEnv (n.withPtr b) ps wrap path l r = deqV deqEnv n ps wrap path l r := by
  cases n <;> cases l <;> simp [deqV, Node.withPtr, deqBasic, isFloatNode, Node.typu, Node.info] <;> cases r <;> rfl

theorem eqScalar_must (p : Int) (a b : Val) (h : eqScalar p a b = .must) : a = b := by
  cases a <;> cases b <;> simp [eqScalar] at h <;> first | (simp [h]) | skip
  all_goals (split at h <;> first | (simp_all) | (split at h <;> simp_all))

theorem deqBasic_refl (i : Info) (k : Kind) (ps : Bool) (path : String) (a : Val)
    (hk : kindOfName i.typu = some k) (hsc : wtScalar k a = true) : deqBasic none (.basic i) ps path a a = .cont := by
  by_cases hf : isFloatNode (.basic i) = true
  · have : ∃ b, k = .float b := by
      simp [isFloatNode, Node.typu, Node.info] at hf
      rcases hf with h | h <;> simp [h, kindOfName] at hk <;> exact ⟨_, hk.symm⟩
    obtain ⟨b, rfl⟩ := this
    cases a <;> simp [wtScalar] at hsc
    cases ps <;> simp [deqBasic, hf, equalFloat, defaultPrecFx, scalarNe]
  · cases k <;> cases a <;> simp [wtScalar] at hsc <;> cases ps <;> simp [deqBasic, hf, scalarNe]

/-! `deqFields` has no generated equation lemmas (the equation compiler gives up); these hold by unfolding. -/
theorem deqFields_nil (env : DeqEnv) (chld : List Node) (path : String) (rs : List Val) :
    deqFields env chld path [] rs = .cont := rfl

theorem deqFields_cons (env : DeqEnv) (ch : Node) (chs : List Node) (path : String) (l : Val) (ls : List Val) (r : Val) (rs : List Val) :
    deqFields env (ch :: chs) path (l :: ls) (r :: rs) =
      (match (if ch.isLeaf && ch.ptr && env.cfg.deqPtrLeafNilUnchecked then
          (match l with
           | .ptr lw => (match r with | .ptr rw => deqV env ch true true (deqPath path ch false) lw rw | _ => .panic)
           | _ => .panic)
        else deqN env ch true false path l r) with
       | .cont => deqFields env chs path ls rs
       | x => x) := by
  cases l <;> rfl

/-- What is proved of a left value `a`: wherever the specification says `must`, the model continues. -/
def DeqQ (a : Val) : Prop :=
  ∀ (n : Node) (π : String) (b : Val), WT n a = true → eqS {} n π a b = .must →
    (∀ ps d0 pp, deqN deqEnv n ps d0 pp a b = .cont) ∧
    (n.ptr = false → ∀ ps wrap path, deqV deqEnv n ps wrap path a b = .cont)

theorem deqFields_ok : ∀ (as : List Val) (chld : List Node) (bs : List Val) (π path : String),
    (∀ x ∈ as, DeqQ x) → WTs chld as = true → eqFields {} chld π as bs = .must →
    deqFields deqEnv chld path as bs = .cont
  | [], _, _, _, _, _, _, _ => by rw [deqFields_nil]
  | a :: as, [], _, _, _, _, hwt, _ => by simp [WTs] at hwt
  | a :: as, ch :: chs, [], _, _, _, _, he => by simp [eqFields] at he
  | a :: as, ch :: chs, b :: bs, π, path, hq, hwt, he => by
    simp only [WTs, Bool.and_eq_true] at hwt
    have hl : specLooksAt ({} : EqEnv).opts (dotted π ch.name) = true := rfl
    simp only [eqFields, hl, if_true, Tri.and_must] at he
    have h1 := (hq a (by simp) ch _ b hwt.1 he.1).1 true false path
    have h2 := deqFields_ok as chs bs π path (fun x hx => hq x (by simp [hx])) hwt.2 he.2
    rw [deqFields_cons]
    have hc : deqEnv.cfg.deqPtrLeafNilUnchecked = false := rfl
    simp only [hc, Bool.and_false, Bool.false_eq_true, if_false, h1, h2]

theorem deqElems_ok (e : Node) : ∀ (as bs : List Val) (π path : String),
    (∀ x ∈ as, DeqQ x) → WTall e as = true → eqElems {} e π as bs = .must →
    deqElems deqEnv e path as bs = .cont
  | [], _, _, _, _, _, _ => by simp [deqElems]
  | a :: as, [], _, _, _, _, he => by simp [eqElems] at he
  | a :: as, b :: bs, π, path, hq, hwt, he => by
    simp only [WTall, Bool.and_eq_true] at hwt
    simp only [eqElems, Tri.and_must] at he
    have h1 := (hq a (by simp) e _ b hwt.1 he.1).1 false false path
    have h2 := deqElems_ok e as bs π path (fun x hx => hq x (by simp [hx])) hwt.2 he.2
    simp [deqElems, h1, h2]

theorem deqMapVals_ok (mk mv : Node) (hp : mk.ptr = false) (bks bvs : List Val) : ∀ (avs aks : List Val) (π path : String),
    (∀ x ∈ avs, DeqQ x) → WTall mv avs = true → eqMapVals {} mv π aks avs bks bvs = .must →
    deqMapVals deqEnv mk mv path aks avs bks bvs = .cont
  | [], _, _, _, _, _, _ => by simp [deqMapVals]
  | av :: avs, [], _, _, _, _, he => by simp [eqMapVals] at he
  | av :: avs, ak :: aks, π, path, hq, hwt, he => by
    simp only [WTall, Bool.and_eq_true] at hwt
    simp only [eqMapVals] at he
    cases hlk : lookupKey bks bvs ak with
    | none => simp [hlk] at he
    | some bv =>
      simp only [hlk, Tri.and_must] at he
      have h1 := (hq av (by simp) mv _ bv hwt.1 he.1).1 false false path
      have h2 := deqMapVals_ok mk mv hp bks bvs avs aks π path (fun x hx => hq x (by simp [hx])) hwt.2 he.2
      simp [deqMapVals, hp, hlk, h1, h2]

theorem deq_scalar (a : Val) (hs : isScalarV a = true) : DeqQ a := by
  intro n π b hwt he
  obtain ⟨i, rfl, hi⟩ : ∃ i, n = .basic i ∧ i.ptr = false := by
    cases a <;> simp [isScalarV] at hs <;> cases n <;> simp [WT] at hwt <;> exact ⟨_, rfl, hwt.1⟩
  obtain ⟨k, hk, hsc⟩ := WT_basic_inv i a hi hwt
  have hb : a = b := by
    apply eqScalar_must (specPrec none)
    cases a <;> simp [isScalarV] at hs <;> simpa [eqS] using he
  subst hb
  have hv : ∀ ps wrap path, deqV deqEnv (.basic i) ps wrap path a a = .cont := by
    intro ps wrap path
    have := deqBasic_refl i k ps path a hk hsc
    cases a <;> simp [isScalarV] at hs <;> simpa [deqV, deqEnv] using this
  exact ⟨fun ps d0 pp => by rw [deqN_nonptr (.basic i) _ _ _ _ _ hi]; exact hv _ _ _, fun _ => hv⟩

theorem deq_of_must : ∀ a, DeqQ a := by
  apply size_ind
  intro a ih
  cases a with
  | bool x => exact deq_scalar _ rfl
  | int x => exact deq_scalar _ rfl
  | uint x => exact deq_scalar _ rfl
  | float x => exact deq_scalar _ rfl
  | str x => exact deq_scalar _ rfl
  | nilptr =>
    intro n π b hwt he
    have hp : n.ptr = true := by rw [WT_nilptr] at hwt; exact hwt
    have hb : b = .nilptr := by cases b <;> simp [eqS, Val.isNilPtr] at he ⊢
    subst hb
    exact ⟨fun ps d0 pp => by simp [deqN, deqEnv, hp, Val.isNilPtr, deqMustCheck], fun h => by rw [hp] at h; cases h⟩
  | ptr aw =>
    intro n π b hwt he
    rw [WT_ptr, Bool.and_eq_true] at hwt
    obtain ⟨hp, hwa⟩ := hwt
    cases b with
    | ptr bw =>
      simp only [eqS] at he
      have h := (ih aw (size_ptr aw) (n.withPtr false) π bw hwa he).2 (by simp)
      refine ⟨fun ps d0 pp => ?_, fun h' => by rw [hp] at h'; cases h'⟩
      have := h ps (ps && (deqPath pp n d0).length > 0) (deqPath pp n d0)
      rw [deqV_withPtr] at this
      simpa [deqN, deqEnv, hp, deqMustCheck] using this
    | _ => simp [eqS] at he
  | bytes nl d c =>
    intro n π b hwt he
    cases n with
    | slice i e =>
      have hi : i.ptr = false := by simp [WT] at hwt; exact hwt.1.1
      have hv : ∀ ps wrap path, deqV deqEnv (.slice i e) ps wrap path (.bytes nl d c) b = .cont := by
        intro ps wrap path
        cases b <;> simp [eqS] at he
        simp [deqV, bytesData, he]
      exact ⟨fun ps d0 pp => by rw [deqN_nonptr (.slice i e) _ _ _ _ _ hi]; exact hv _ _ _, fun _ => hv⟩
    | basic i => rcases WT_basic_scalar i _ hwt with h | ⟨w, h⟩ | h <;> simp [isScalarV] at h
    | _ => simp [WT] at hwt
  | struct afs =>
    intro n π b hwt he
    cases n with
    | struct i chld =>
      have hi : i.ptr = false := by simp [WT] at hwt; exact hwt.1
      have hws : WTs chld afs = true := by simp [WT] at hwt; exact hwt.2
      have hv : ∀ ps wrap path, deqV deqEnv (.struct i chld) ps wrap path (.struct afs) b = .cont := by
        intro ps wrap path
        cases b <;> simp [eqS] at he
        rename_i bfs
        have := deqFields_ok afs chld bfs π path (fun x hx => ih x (size_struct afs x hx)) hws he
        simp [deqV, deqEnv, deqMustCheck]
        exact this
      exact ⟨fun ps d0 pp => by rw [deqN_nonptr (.struct i chld) _ _ _ _ _ hi]; exact hv _ _ _, fun _ => hv⟩
    | basic i => rcases WT_basic_scalar i _ hwt with h | ⟨w, h⟩ | h <;> simp [isScalarV] at h
    | _ => simp [WT] at hwt
  | map nl aks avs =>
    intro n π b hwt he
    cases n with
    | map i mk mv =>
      have hi : i.ptr = false := by simp [WT] at hwt; exact hwt.1.1.1
      obtain ⟨_, _, _, hm, hlen, _, hwv⟩ := WT_map_inv i mk mv _ hi hwt
      cases hm
      have hv : ∀ ps wrap path, deqV deqEnv (.map i mk mv) ps wrap path (.map nl aks avs) b = .cont := by
        intro ps wrap path
        cases b <;> simp [eqS] at he
        rename_i bnl bks bvs
        by_cases hl : aks.length = bks.length
        · simp only [hl, bne_self_eq_false, Bool.false_eq_true, if_false] at he
          by_cases hp : mk.ptr = true
          · simp only [hp, Bool.true_and, Bool.not_false, if_true] at he
            have h1 : aks = [] := by
              cases aks with
              | nil => rfl
              | cons k ks => simp at he
            subst h1
            have h2 : avs = [] := by
              cases avs with
              | nil => rfl
              | cons x xs => simp at hlen
            subst h2
            simp [deqV, deqEnv, deqMustCheck, hl, deqMapVals]
          · have hp' : mk.ptr = false := by simpa using hp
            simp only [hp', Bool.false_and, Bool.false_eq_true, if_false] at he
            have := deqMapVals_ok mk mv hp' bks bvs avs aks π path (fun x hx => ih x (size_map_v nl aks avs x hx)) hwv he
            simp [deqV, deqEnv, deqMustCheck, hl]
            exact this
        · simp [hl] at he
      exact ⟨fun ps d0 pp => by rw [deqN_nonptr (.map i mk mv) _ _ _ _ _ hi]; exact hv _ _ _, fun _ => hv⟩
    | basic i => rcases WT_basic_scalar i _ hwt with h | ⟨w, h⟩ | h <;> simp [isScalarV] at h
    | _ => simp [WT] at hwt
  | slice nl aes c =>
    intro n π b hwt he
    cases n with
    | slice i e =>
      have hi : i.ptr = false ∧ (i.typn == "[]byte") = false := by
        simp [WT] at hwt; exact ⟨hwt.1.1.1, by simpa using hwt.1.1.2⟩
      obtain ⟨_, _, _, hm, hwe⟩ := WT_slice_inv i e _ hi.1 hi.2 hwt
      cases hm
      have hv : ∀ ps wrap path, deqV deqEnv (.slice i e) ps wrap path (.slice nl aes c) b = .cont := by
        intro ps wrap path
        cases b <;> simp [eqS] at he
        rename_i bnl bes bc
        by_cases hl : aes.length = bes.length
        · simp only [hl, bne_self_eq_false, Bool.false_eq_true, if_false] at he
          have := deqElems_ok e aes bes π path (fun x hx => ih x (size_slice nl aes c x hx)) hwe he
          simp [deqV, deqEnv, deqMustCheck, hl]
          exact this
        · simp [hl] at he
      exact ⟨fun ps d0 pp => by rw [deqN_nonptr (.slice i e) _ _ _ _ _ hi.1]; exact hv _ _ _, fun _ => hv⟩
    | basic i => rcases WT_basic_scalar i _ hwt with h | ⟨w, h⟩ | h <;> simp [isScalarV] at h
    | _ => simp [WT] at hwt

end Inspector.CopyPf
