// Command globals extracts, with go/ssa, which functions of the inspector package (and of generated
// inspector packages) store to package-level variables, and which of them are reachable from a runtime
// entry point (any method of a type implementing Inspector, Assign*, the buffer API, Bufferize*,
// EqualFloat*, DEQMustCheck, GetInspector). Output: Extracted/Globals.lean.
package main

import (
	"flag"
	"fmt"
	"go/types"
	"os"
	"sort"
	"strconv"
	"strings"

	"golang.org/x/tools/go/callgraph"
	"golang.org/x/tools/go/callgraph/cha"
	"golang.org/x/tools/go/packages"
	"golang.org/x/tools/go/ssa"
	"golang.org/x/tools/go/ssa/ssautil"
)

func must(err error) {
	if err != nil {
		fmt.Fprintln(os.Stderr, "globals:", err)
		os.Exit(1)
	}
}

// paramGlobals: for a parameter of a function of ours, a package-level variable whose address (or an
// address derived from it) some call site passes in that position. Filled to a fixpoint in main.
var paramGlobals = map[*ssa.Parameter]*ssa.Global{}

// globalOf traces a value back to the package-level variable it was loaded from, if any.
func globalOf(v ssa.Value, depth int) *ssa.Global {
	if depth > 6 {
		return nil
	}
	switch x := v.(type) {
	case *ssa.Parameter:
		return paramGlobals[x]
	case *ssa.Global:
		return x
	case *ssa.UnOp:
		return globalOf(x.X, depth+1)
	case *ssa.FieldAddr:
		return globalOf(x.X, depth+1)
	case *ssa.IndexAddr:
		return globalOf(x.X, depth+1)
	case *ssa.Field:
		return globalOf(x.X, depth+1)
	case *ssa.Slice:
		return globalOf(x.X, depth+1)
	case *ssa.Phi:
		for _, e := range x.Edges {
			if g := globalOf(e, depth+1); g != nil {
				return g
			}
		}
	}
	return nil
}

func main() {
	dir := flag.String("dir", "/repo", "module directory to load from")
	out := flag.String("out", "", "Lean file to write")
	extra := flag.String("extra", "", "comma separated extra package patterns (generated inspector packages)")
	flag.Parse()
	pats := []string{"github.com/koykov/inspector", "github.com/koykov/inspector/testobj_ins"}
	if *extra != "" {
		pats = append(pats, strings.Split(*extra, ",")...)
	}
	cfg := &packages.Config{Mode: packages.LoadAllSyntax, Dir: *dir}
	pkgs, err := packages.Load(cfg, pats...)
	must(err)
	if packages.PrintErrors(pkgs) > 0 {
		os.Exit(1)
	}
	prog, spkgs := ssautil.AllPackages(pkgs, ssa.InstantiateGenerics)
	prog.Build()
	var ins *ssa.Package
	mine := map[*ssa.Package]bool{}
	for _, p := range spkgs {
		if p == nil {
			continue
		}
		mine[p] = true
		if p.Pkg.Path() == "github.com/koykov/inspector" {
			ins = p
		}
	}
	if ins == nil {
		must(fmt.Errorf("inspector package not loaded"))
	}
	iface := ins.Type("Inspector").Type().Underlying().(*types.Interface)

	// 1. direct writers of package-level state
	writes := map[*ssa.Function]map[string]bool{}
	note := func(f *ssa.Function, g *ssa.Global) {
		if g == nil || g.Pkg == nil || !mine[g.Pkg] {
			return
		}
		if writes[f] == nil {
			writes[f] = map[string]bool{}
		}
		writes[f][g.Pkg.Pkg.Name()+"."+g.Name()] = true
	}
	allFns := ssautil.AllFunctions(prog)
	// 0. addresses of package-level variables handed to our own functions (`reLazy(&re, …)`): a store through
	// such a parameter is a store to the variable. Propagated through parameters to a fixpoint.
	for changed, round := true, 0; changed && round < 8; round++ {
		changed = false
		for f := range allFns {
			if f.Pkg == nil || !mine[f.Pkg] {
				continue
			}
			for _, b := range f.Blocks {
				for _, in := range b.Instrs {
					call, ok := in.(ssa.CallInstruction)
					if !ok {
						continue
					}
					callee := call.Common().StaticCallee()
					if callee == nil || callee.Pkg == nil || !mine[callee.Pkg] {
						continue
					}
					args := call.Common().Args
					for i, a := range args {
						if i >= len(callee.Params) {
							break
						}
						if _, isPtr := a.Type().Underlying().(*types.Pointer); !isPtr {
							continue
						}
						if g := globalOf(a, 0); g != nil && g.Pkg != nil && mine[g.Pkg] && paramGlobals[callee.Params[i]] == nil {
							paramGlobals[callee.Params[i]] = g
							changed = true
						}
					}
				}
			}
		}
	}
	for f := range allFns {
		if f.Pkg == nil || !mine[f.Pkg] {
			continue
		}
		for _, b := range f.Blocks {
			for _, in := range b.Instrs {
				switch x := in.(type) {
				case *ssa.Store:
					note(f, globalOf(x.Addr, 0))
				case *ssa.MapUpdate:
					note(f, globalOf(x.Map, 0))
				}
			}
		}
	}

	// 1b. escapes: the address of a package-level variable (or a slice / map / pointer loaded from one) that a
	// function returns, stores somewhere, boxes into an interface, captures, or appends / copies into — shared
	// mutable memory handed to the caller ("every empty buffer is this one object", "every converted bool is this
	// one slice"). Reads (loads, comparisons, calls of foreign read-only functions such as bytes.Equal) are not.
	escapes := map[*ssa.Function]map[string]bool{}
	noteEsc := func(f *ssa.Function, g *ssa.Global, how string) {
		if g == nil || g.Pkg == nil || !mine[g.Pkg] {
			return
		}
		if escapes[f] == nil {
			escapes[f] = map[string]bool{}
		}
		escapes[f][g.Pkg.Pkg.Name()+"."+g.Name()+"|"+how] = true
	}
	isRefType := func(t types.Type) bool {
		switch t.Underlying().(type) {
		case *types.Slice, *types.Map, *types.Chan, *types.Pointer:
			return true
		}
		return false
	}
	for f := range allFns {
		if f.Pkg == nil || !mine[f.Pkg] {
			continue
		}
		// shared: value -> the package-level variable whose memory it designates
		shared := map[ssa.Value]*ssa.Global{}
		var work []ssa.Value
		add := func(v ssa.Value, g *ssa.Global) {
			if _, ok := shared[v]; !ok && g != nil && g.Pkg != nil && mine[g.Pkg] {
				shared[v] = g
				work = append(work, v)
			}
		}
		// uses by operand scan (package-level variables have no referrer lists in go/ssa)
		uses := map[ssa.Value][]ssa.Instruction{}
		for _, b := range f.Blocks {
			for _, in := range b.Instrs {
				for _, op := range in.Operands(nil) {
					if *op == nil {
						continue
					}
					uses[*op] = append(uses[*op], in)
					if g, ok := (*op).(*ssa.Global); ok {
						add(g, g)
					}
				}
			}
		}
		for _, prm := range f.Params {
			if g := paramGlobals[prm]; g != nil {
				add(prm, g)
			}
		}
		for len(work) > 0 {
			v := work[len(work)-1]
			work = work[:len(work)-1]
			g := shared[v]
			for _, in := range uses[v] {
				switch x := in.(type) {
				case *ssa.UnOp: // load: the loaded value designates shared memory only if it is itself a reference
					if x.X == v && isRefType(x.Type()) {
						if _, isIface := x.Type().Underlying().(*types.Interface); !isIface {
							add(x, g)
						}
					}
				case *ssa.FieldAddr:
					if x.X == v {
						add(x, g)
					}
				case *ssa.IndexAddr:
					if x.X == v {
						add(x, g)
					}
				case *ssa.Slice:
					if x.X == v {
						add(x, g)
					}
				case *ssa.Phi:
					add(x, g)
				case *ssa.ChangeType:
					add(x, g)
				case *ssa.Convert:
					if isRefType(x.Type()) {
						add(x, g)
					}
				case *ssa.Return:
					noteEsc(f, g, "returned")
				case *ssa.Store:
					if x.Val == v {
						noteEsc(f, g, "stored")
					}
				case *ssa.MapUpdate:
					if x.Value == v || x.Key == v {
						noteEsc(f, g, "stored in a map")
					}
				case *ssa.MakeInterface:
					noteEsc(f, g, "boxed")
				case *ssa.MakeClosure:
					noteEsc(f, g, "captured")
				case *ssa.Send:
					if x.X == v {
						noteEsc(f, g, "sent")
					}
				case ssa.CallInstruction:
					c := x.Common()
					if bi, ok := c.Value.(*ssa.Builtin); ok && len(c.Args) > 0 && c.Args[0] == v && (bi.Name() == "append" || bi.Name() == "copy") {
						noteEsc(f, g, "destination of "+bi.Name())
					}
				}
			}
		}
	}

	// 2. runtime entry points
	var entries []*ssa.Function
	isEntryName := func(n string) bool {
		switch n {
		case "Assign", "AssignBuf", "AssignToBytes", "AssignToStr", "AssignToBool", "AssignToInt", "AssignToUint", "AssignToFloat",
			"Bufferize", "BufferizeString", "EqualFloat64", "EqualFloat32", "DEQMustCheck", "GetInspector", "NewByteBuffer":
			return true
		}
		return false
	}
	for p := range mine {
		for _, m := range p.Members {
			switch x := m.(type) {
			case *ssa.Function:
				if p == ins && isEntryName(x.Name()) {
					entries = append(entries, x)
				}
			case *ssa.Type:
				for _, t := range []types.Type{x.Type(), types.NewPointer(x.Type())} {
					ms := prog.MethodSets.MethodSet(t)
					implements := types.Implements(t, iface)
					isBuf := p == ins && x.Name() == "ByteBuffer"
					if !implements && !isBuf {
						continue
					}
					for i := 0; i < ms.Len(); i++ {
						if fn := prog.MethodValue(ms.At(i)); fn != nil {
							entries = append(entries, fn)
						}
					}
				}
			}
		}
	}

	// 3. reachability over the CHA call graph, restricted to our packages
	cg := cha.CallGraph(prog)
	reach := map[*ssa.Function]string{}
	var stack []*ssa.Function
	for _, e := range entries {
		if _, ok := reach[e]; !ok {
			reach[e] = e.String()
			stack = append(stack, e)
		}
	}
	for len(stack) > 0 {
		f := stack[len(stack)-1]
		stack = stack[:len(stack)-1]
		n := cg.Nodes[f]
		if n == nil {
			continue
		}
		callgraph.GraphVisitEdges(&callgraph.Graph{Nodes: map[*ssa.Function]*callgraph.Node{f: n}}, func(e *callgraph.Edge) error { return nil })
		for _, e := range n.Out {
			c := e.Callee.Func
			if c.Pkg == nil || !mine[c.Pkg] {
				continue
			}
			if _, ok := reach[c]; !ok {
				reach[c] = reach[f]
				stack = append(stack, c)
			}
		}
	}

	var runtime, initOnly []string
	for f, gs := range writes {
		for g := range gs {
			if via, ok := reach[f]; ok {
				runtime = append(runtime, fmt.Sprintf("(%s, %s, %s)", strconv.Quote(via), strconv.Quote(f.String()), strconv.Quote(g)))
			} else {
				initOnly = append(initOnly, fmt.Sprintf("(%s, %s)", strconv.Quote(f.String()), strconv.Quote(g)))
			}
		}
	}
	var escaping []string
	for f, gs := range escapes {
		for gh := range gs {
			if via, ok := reach[f]; ok {
				parts := strings.SplitN(gh, "|", 2)
				escaping = append(escaping, fmt.Sprintf("(%s, %s, %s, %s)", strconv.Quote(via), strconv.Quote(f.String()), strconv.Quote(parts[0]), strconv.Quote(parts[1])))
			}
		}
	}
	sort.Strings(escaping)
	sort.Strings(runtime)
	sort.Strings(initOnly)
	var sb strings.Builder
	sb.WriteString("-- regenerated on every run (harness/cmd/globals, go/ssa): writers of package-level state\nnamespace Inspector\n")
	sb.WriteString("/-- (entry point, function, variable): stores to package-level variables reachable from a runtime entry point -/\n")
	sb.WriteString("def runtimeGlobalWrites : List (String × String × String) := [" + strings.Join(runtime, ",\n  ") + "]\n")
	sb.WriteString("/-- (entry point, function, variable, how): memory of a package-level variable handed out by a function reachable from a runtime entry point -/\n")
	sb.WriteString("def runtimeGlobalEscapes : List (String × String × String × String) := [" + strings.Join(escaping, ",\n  ") + "]\n")
	sb.WriteString("/-- (function, variable): writers that no runtime entry point reaches (init, Register*, generation time) -/\n")
	sb.WriteString("def initTimeGlobalWrites : List (String × String) := [\n  " + strings.Join(initOnly, ",\n  ") + "]\n")
	sb.WriteString("def runtimeEntryPoints : Nat := " + strconv.Itoa(len(entries)) + "\n")
	sb.WriteString("def functionsReachable : Nat := " + strconv.Itoa(len(reach)) + "\nend Inspector\n")
	if *out == "" {
		fmt.Print(sb.String())
		return
	}
	must(os.WriteFile(*out, []byte(sb.String()), 0644))
}
