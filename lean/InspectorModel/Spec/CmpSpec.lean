/-
Spec/CmpSpec.lean — C04's reading of Compare: the native comparison of the element `nav` reaches.
-/
import InspectorModel.Spec.Nav
import InspectorModel.Gen.Cmp
namespace Inspector

/-- The operand a text denotes for a (non-pointer) leaf element, by the property's reading. -/
def specOperand (n : Node) (s : Seg) : KeyR :=
  if n.isBytes then .key (.bytes false s.text s.text.length)
  else specKey (n.withPtr false) s

/-- Native `l op r` for the six comparison operators on scalars of one kind. -/
def nativeCmp (op : Op) (l r : Val) : Option Bool :=
  match valEq l r with
  | none => none
  | some eq =>
    if op == 1 then some eq
    else if op == 2 then some (!eq)
    else
      match valLt l r, valLt r l with
      | some lt, some gt =>
        if op == 3 then some gt
        else if op == 4 then some (!lt)
        else if op == 5 then some lt
        else if op == 6 then some (!gt)
        else none
      | _, _ => none

/-- Acceptance for an element that exists (or the zero value behind an absent key). -/
def cmpAcceptsElem (res : Res) (op : Op) (right : Seg) (o : CmpOut) : Bool :=
  if res.node.ptr then
    if right.text == nilText && (op == 1 || op == 2) then
      o == .set (if op == 1 then res.val.isNilPtr else !res.val.isNilPtr)
    else true
  else if res.node.isLeaf then
    match specOperand res.node right with
    | .perr => o == .err
    | .unspec | .never => true
    | .key r =>
      match nativeCmp op res.val r with
      | some b => o == .set b
      | none => true          -- operator outside the element kind's set: unspecified
  else true

/-- Acceptance given where navigation ended. -/
def cmpAcceptsNav (r : NavR) (op : Op) (right : Seg) (o : CmpOut) : Bool :=
  match r with
  | .found res via => cmpAcceptsElem res op right o || (via && o == .untouched)
  | .miss _ => o == .untouched
  | .perr via => o == .err || (via && o == .untouched)
  | .unspec => true

def cmpAccepts (n : Node) (v : Val) (p : List Seg) (op : Op) (right : Seg) (o : CmpOut) : Bool :=
  cmpAcceptsNav (nav n v p) op right o

end Inspector
