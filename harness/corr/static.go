package corr

import (
	"errors"
	"fmt"
	"math"
	"os"
	"os/exec"
	"reflect"
	"runtime/debug"
	"strconv"
	"strings"
	"time"

	"github.com/koykov/inspector"
)

var staticIns = inspector.StaticInspector{}

// srcFromToks rebuilds a SrcSpec from its tokens (child process of the divergence probe).
func srcFromToks(t []string) (SrcSpec, error) {
	if len(t) < 3 {
		return SrcSpec{}, fmt.Errorf("short src")
	}
	if t[0] == "foreign" {
		return SrcSpec{Kind: "foreign", Form: t[1]}, nil
	}
	kind := t[0]
	if kind == "bytes" {
		kind = "[]byte"
	}
	s := SrcSpec{Kind: kind, Form: t[1]}
	if t[1] != "pn" {
		v, _, err := Deser(kindTypes[kind], []string{t[2]})
		if err != nil {
			return s, err
		}
		s.V = v
	}
	return s, nil
}

// StaticDeqChild runs DeepEqual(l, r) with a small stack limit; it is the body of the child process
// that absorbs the fatal stack overflow of indString <-> indBytes.
func StaticDeqChild(args []string) {
	debug.SetMaxStack(4 << 20)
	i := 0
	for ; i < len(args) && args[i] != "--"; i++ {
	}
	l, err1 := srcFromToks(args[:i])
	r, err2 := srcFromToks(args[i+1:])
	if err1 != nil || err2 != nil {
		fmt.Println("bad")
		return
	}
	fmt.Println(deqStatic(l.Any(), r.Any()))
}

func deqStatic(l, r any) (out string) {
	defer func() {
		if rec := recover(); rec != nil {
			out = "panic"
		}
	}()
	if staticIns.DeepEqual(l, r) {
		return "t"
	}
	return "f"
}

func isTextKind(k string) bool { return k == "string" || k == "[]byte" }

// staticDeqSafe evaluates DeepEqual(l, r); a left text operand with a right non-text operand recurses
// without bound in the current code, so that case runs in a child process.
func staticDeqSafe(l, r SrcSpec) string {
	risky := isTextKind(l.Kind) && !isTextKind(r.Kind)
	if !risky {
		return deqStatic(l.Any(), r.Any())
	}
	exe, err := os.Executable()
	if err != nil {
		return "nochild"
	}
	args := append([]string{"-deqchild"}, strings.Fields(l.Toks())...)
	args = append(args, "--")
	args = append(args, strings.Fields(r.Toks())...)
	cmd := exec.Command(exe, args...)
	cmd.Env = append(os.Environ(), "GOMEMLIMIT=256MiB")
	done := make(chan struct{})
	var outb []byte
	go func() { outb, _ = cmd.Output(); close(done) }()
	select {
	case <-done:
	case <-time.After(20 * time.Second):
		_ = cmd.Process.Kill()
		return "diverge"
	}
	s := strings.TrimSpace(string(outb))
	if s == "t" || s == "f" || s == "panic" {
		return s
	}
	return "diverge" // the process died (fatal error: stack overflow)
}

// OpStaticCmp emits one `XC` record.
func OpStaticCmp(o *Out, s SrcSpec, op int, right string) {
	run := func(init bool) (bool, string) {
		res := init
		st := "ok"
		func() {
			defer func() {
				if r := recover(); r != nil {
					st = "panic"
				}
			}()
			if err := staticIns.Compare(s.Any(), inspector.Op(op), right, &res); err != nil {
				st = "err"
			}
		}()
		return res, st
	}
	r0, s0 := run(false)
	r1, s1 := run(true)
	out := "nondet"
	switch {
	case s0 == "panic" || s1 == "panic":
		out = "panic"
	case s0 == "err" && s1 == "err":
		out = "err"
	case s0 == "ok" && s1 == "ok" && !r0 && r1:
		out = "untouched"
	case s0 == "ok" && s1 == "ok" && r0 == r1:
		out = "set" + b01(r0)
	}
	o.Op("XC | " + s.Toks() + " | " + strconv.Itoa(op) + " " + SegTok(right) + " | " + out)
}

// fclass names a float for the model's special-value comparison: nan, pinf, ninf, or f<fixed point> (2^-20 units;
// callers pass only values that are exact in that unit).
func fclass(f float64) string {
	switch {
	case f != f:
		return "nan"
	case math.IsInf(f, 1):
		return "pinf"
	case math.IsInf(f, -1):
		return "ninf"
	}
	return "f" + strconv.FormatInt(int64(f*1048576), 10)
}

// OpStaticCmpSpecial emits one `XF` record: Compare on a float source holding an IEEE special value (or a small exact
// one) against an operand text; the operand's class comes from the real strconv.ParseFloat (oracle), `err` when
// it reports a syntax or range error.
func OpStaticCmpSpecial(o *Out, kind, form string, left float64, op int, right string) {
	var src any
	switch kind + form {
	case "float64v":
		src = left
	case "float64p":
		src = &left
	case "float32v":
		src = float32(left)
	default:
		f := float32(left)
		src = &f
	}
	run := func(init bool) (bool, string) {
		res := init
		st := "ok"
		func() {
			defer func() {
				if r := recover(); r != nil {
					st = "panic"
				}
			}()
			if err := staticIns.Compare(src, inspector.Op(op), right, &res); err != nil {
				st = "err"
			}
		}()
		return res, st
	}
	r0, s0 := run(false)
	r1, s1 := run(true)
	out := "nondet"
	switch {
	case s0 == "panic" || s1 == "panic":
		out = "panic"
	case s0 == "err" && s1 == "err":
		out = "err"
	case s0 == "ok" && s1 == "ok" && !r0 && r1:
		out = "untouched"
	case s0 == "ok" && s1 == "ok" && r0 == r1:
		out = "set" + b01(r0)
	}
	rc := "err"
	if rv, err := strconv.ParseFloat(right, 0); err == nil {
		rc = fclass(rv)
	}
	o.Op("XF | " + kind + " " + form + " " + fclass(left) + " | " + strconv.Itoa(op) + " " + rc + " | " + out)
}

// OpStaticDeq emits one `XD` record: DeepEqual in both orders.
func OpStaticDeq(o *Out, l, r SrcSpec) {
	o.Op("XD | " + l.Toks() + " | " + r.Toks() + " | " + staticDeqSafe(l, r) + " " + staticDeqSafe(r, l))
}

// OpStaticLC emits one `XL` record.
func OpStaticLC(o *Out, s SrcSpec, isCap bool) {
	out := callLC(staticIns, isCap, s.Any(), nil)
	fn := "len"
	if isCap {
		fn = "cap"
	}
	o.Op("XL | " + s.Toks() + " | " + fn + " | " + out)
}

// OpStaticGet emits one `XG` record: Get and GetTo must hand back the very value they were given.
func OpStaticGet(o *Out, s SrcSpec) {
	out := "panic"
	func() {
		defer func() { _ = recover() }()
		a := s.Any()
		x, err := staticIns.Get(a)
		var y any
		err2 := staticIns.GetTo(a, &y)
		same := func(p, q any) bool {
			if p == nil || q == nil {
				return p == nil && q == nil
			}
			vp, vq := reflect.ValueOf(p), reflect.ValueOf(q)
			if vp.Type() != vq.Type() {
				return false
			}
			if vp.Kind() == reflect.Ptr {
				return vp.Pointer() == vq.Pointer()
			}
			return Ser(vp) == Ser(vq)
		}
		if err != nil || err2 != nil {
			out = "err"
		} else {
			out = "same" + b01(same(a, x) && same(a, y))
		}
	}()
	o.Op("XG | " + s.Toks() + " | " + out)
}

// OpStaticCopy emits one `XP` record: Copy(x).
func OpStaticCopy(o *Out, s SrcSpec) {
	out := "panic"
	func() {
		defer func() { _ = recover() }()
		a := s.Any()
		c, err := staticIns.Copy(a)
		if err != nil {
			out = errTok(err)
			return
		}
		cv := reflect.ValueOf(c)
		kind := kindNameOf(cv)
		shared := 0
		if s.V.IsValid() {
			shared = SharedCount(s.V, cv)
		}
		out = "ok " + kindTok(kind) + " " + strconv.Itoa(shared) + " " + Ser(cv)
	}()
	o.Op("XP | " + s.Toks() + " | " + out)
}

// OpStaticCopyTo emits one `XT` record: CopyTo(src, dst, buf), dst a pointer / value of kind dk.
func OpStaticCopyTo(o *Out, s SrcSpec, dk string, dstForm string) {
	out := "panic"
	func() {
		defer func() { _ = recover() }()
		var dst any
		var dp reflect.Value
		switch dstForm {
		case "p":
			dp = reflect.New(kindTypes[dk])
			// the destination holds something already: CopyTo must replace it, whatever the source is
			switch e := dp.Elem(); e.Kind() {
			case reflect.String:
				e.SetString("stale")
			case reflect.Slice:
				e.SetBytes([]byte("stale"))
			case reflect.Bool:
				e.SetBool(true)
			case reflect.Int, reflect.Int8, reflect.Int16, reflect.Int32, reflect.Int64:
				e.SetInt(7)
			case reflect.Uint, reflect.Uint8, reflect.Uint16, reflect.Uint32, reflect.Uint64:
				e.SetUint(7)
			case reflect.Float32, reflect.Float64:
				e.SetFloat(7.5)
			}
			dst = dp.Interface()
		case "pn":
			dst = reflect.Zero(reflect.PointerTo(kindTypes[dk])).Interface()
		default:
			dst = reflect.Zero(kindTypes[dk]).Interface()
		}
		buf := inspector.NewByteBuffer(16)
		err := staticIns.CopyTo(s.Any(), dst, buf)
		if err != nil {
			out = errTok(err)
			return
		}
		if !dp.IsValid() {
			out = "okvalue"
			return
		}
		shared := 0
		if s.V.IsValid() {
			shared = SharedCount(s.V, dp.Elem())
		}
		out = "ok " + kindTok(dk) + " " + strconv.Itoa(shared) + " " + Ser(dp.Elem())
	}()
	o.Op("XT | " + s.Toks() + " | " + kindTok(dk) + " " + dstForm + " | " + out)
}

// OpStaticReset emits one `XR` record: Reset(x); for pointer forms the target afterwards.
func OpStaticReset(o *Out, s SrcSpec) {
	out := "panic"
	func() {
		defer func() { _ = recover() }()
		a := s.Any()
		err := staticIns.Reset(a)
		if err != nil {
			if errors.Is(err, inspector.ErrUnsupportedType) {
				out = "unsupported"
			} else {
				out = "err"
			}
			return
		}
		if s.Form == "p" {
			out = "ok " + Ser(reflect.ValueOf(a).Elem())
		} else {
			out = "ok -"
		}
	}()
	o.Op("XR | " + s.Toks() + " | " + out)
}
