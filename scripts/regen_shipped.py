#!/usr/bin/env python3
"""Development aid for generator `fix:` commits: regenerates /repo/testobj_ins and /repo/testdata with the
CURRENT /repo generator (package target, exactly how the shipped files were produced) and copies them in place.
Not used by any check."""
import os, shutil, sys
sys.path.insert(0, os.path.dirname(os.path.abspath(__file__)))
import vlib
prep = vlib.prepare("quick")
src = os.path.join(prep["genmod"], "targets", "A", "gopath", "src")
n = 0
for f in sorted(os.listdir(os.path.join(src, "pkgout"))):
    if f.endswith("_ins.go"):
        shutil.copy(os.path.join(src, "pkgout", f), os.path.join(vlib.REPO, "testobj_ins", f)); n += 1
m = 0
for f in sorted(os.listdir(os.path.join(src, "pkgxml"))):
    if f.endswith(".xml"):
        shutil.copy(os.path.join(src, "pkgxml", f), os.path.join(vlib.REPO, "testdata", f)); m += 1
print("copied %d inspector files and %d xml dumps" % (n, m))
