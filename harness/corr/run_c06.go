package corr

func init() {
	Runners["C06"] = runC06
	Runners["C08"] = runC08
}

var bufClasses = []string{"nil", "tight", "small", "roomy"}

func runC06(p *Plan) {
	r := NewRng(p.Seed)
	nRandom := scale(p.Tier, 6, 30)
	for _, e := range p.Types {
		tr := r.Fork(hashStr(e.Name))
		for _, vc := range valuesFor(p, e, tr, nRandom) {
			OpCopy(p.Out, e, vc.v, readForms[tr.Intn(3)])
			zero := NewGen(tr, ProfNil).Val(e.Type, 0)
			for _, bc := range bufClasses {
				fd := FormPtr
				if tr.Chance(1, 4) {
					fd = FormPtrPtr
				}
				OpCopyTo(p.Out, e, vc.v, zero, readForms[tr.Intn(3)], fd, bc)
			}
			// an empty (non-nil) destination too
			empty := NewGen(tr, ProfEmptyNoPtr).Val(e.Type, 0)
			OpCopyTo(p.Out, e, vc.v, empty, FormPtr, FormPtr, bufClasses[tr.Intn(4)])
			p.Out.Count("value:" + vc.prof)
		}
		// refused forms
		z := NewGen(tr, ProfFull).Val(e.Type, 0)
		OpCopyTo(p.Out, e, z, z, FormPtr, FormVal, "roomy")
		OpCopyTo(p.Out, e, z, z, FormForeign, FormPtr, "roomy")
		OpCopyTo(p.Out, e, z, z, FormPtr, FormForeign, "roomy")
		OpCopy(p.Out, e, z, FormForeign)
	}
}

func runC08(p *Plan) {
	r := NewRng(p.Seed)
	nRandom := scale(p.Tier, 4, 20)
	nHist := scale(p.Tier, 4, 20)
	for _, e := range p.Types {
		tr := r.Fork(hashStr(e.Name))
		vals := valuesFor(p, e, tr, nRandom)
		for _, vc := range vals {
			OpReset(p.Out, e, vc.v, FormPtr)
			if tr.Chance(1, 3) {
				OpReset(p.Out, e, vc.v, FormPtrPtr)
			}
			p.Out.Count("value:" + vc.prof)
		}
		OpReset(p.Out, e, vals[0].v, FormVal)
		OpReset(p.Out, e, vals[0].v, FormForeign)
		for h := 0; h < nHist; h++ {
			d0 := vals[tr.Intn(len(vals))].v
			k := 1 + tr.Intn(4)
			var srcs = make([]valueCaseV, 0, k)
			for i := 0; i < k; i++ {
				srcs = append(srcs, valueCaseV{vals[tr.Intn(len(vals))].v})
			}
			vs := srcsOf(srcs)
			OpCycle(p.Out, e, d0, vs, bufClasses[tr.Intn(4)])
			p.Out.Count("history-len:" + itoa(k))
		}
	}
}
