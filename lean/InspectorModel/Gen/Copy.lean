/-
Gen/Copy.lean — behavioural model of `writeCopy` / `writeCountBytes` (compiler.go:1046-1181) and of the
Copy / CopyTo entry points (compiler.go:993-1044). Structural recursion in the source value.
The result carries the number of pointers that were copied as pointers (memory shared with the source).
-/
import InspectorModel.Gen.Get
namespace Inspector

inductive CopyR
  | ok (v : Val) (shared : Nat)
  | panic
deriving Inhabited

def CopyR.bind (r : CopyR) (f : Val → Nat → CopyR) : CopyR :=
  match r with
  | .ok v s => f v s
  | .panic => .panic

/-- For the list-valued helpers, which return their list wrapped in `Val.struct`. -/
def CopyR.bindList (r : CopyR) (f : List Val → Nat → CopyR) : CopyR :=
  match r with
  | .ok (.struct vs) s => f vs s
  | _ => .panic

/-- Insert or replace an entry of the association-list map (Go's `m[k] = v`). -/
def mapSet : List Val → List Val → Val → Val → List Val × List Val
  | k :: ks, v :: vs, key, val =>
    if k == key then (k :: ks, val :: vs)
    else let (ks', vs') := mapSet ks vs key val; (k :: ks', v :: vs')
  | _, _, key, val => ([key], [val])

def replaceNth : List Val → Nat → Val → List Val
  | [], _, _ => []
  | _ :: vs, 0, x => x :: vs
  | v :: vs, n + 1, x => v :: replaceNth vs n x

def isNonNilPtr : Val → Bool
  | .ptr _ => true
  | _ => false

/-- `zeroVal` of the node with its pointer flag dropped (`var lv T` with `fmtT` of a pointer-to-struct). -/
def zeroNoPtr (n : Node) : Val := zeroVal (n.withPtr false)

/-- `var lk K; writeCopy(mapk, lk, rk)` for a map key (keys are scalars, strings or pointers to them):
strings are bufferized, everything else (pointers included) is assigned; a `*string` key is written
through the nil `lk`. -/
def copyKey (cfg : GenCfg) (mk : Node) (rk : Val) : CopyR :=
  match rk with
  | .nilptr => if mk.typu == "string" && cfg.copyNilDestPanics then .panic else .ok .nilptr 0
  | .ptr w =>
    if mk.typu == "string" then (if cfg.copyNilDestPanics then .panic else .ok (.ptr w) 0)
    else .ok rk (if cfg.copyPtrShared then 1 else 0)
  | _ => .ok rk 0

mutual
/-- `writeCopy` for node `n`: destination value `l` (pointer level as the node says), source `r`.
`depth0`: the root (there `l` and `r` are the dereferenced roots; the root pointers are never nil). -/
def copyN (cfg : GenCfg) (n : Node) (depth0 : Bool) (l r : Val) : CopyR :=
  match r with
  | .nilptr =>
    -- pointer node with a nil source
    (match n with
     | .basic i => if i.typu == "string" && cfg.copyNilDestPanics then .panic else .ok .nilptr 0   -- `*l = Bufferize(*r)` / `l = r`
     | _ => .ok l 0)                                                          -- `if nr != nil {` guard
  | .ptr rw =>
    (match n with
     | .basic i =>
       if i.typu == "string" then
         (match l, rw with
          | .ptr _, .str s => .ok (.ptr (.str s)) 0
          | _, .str s => if cfg.copyNilDestPanics then .panic else .ok (.ptr (.str s)) 0   -- `*l.S = …`, nil destination pointer
          | _, _ => .panic)
       else if cfg.copyPtrShared then .ok r 1               -- `l = r`: the pointer itself is copied
       else .ok r 0
     | .struct _ chld =>
       let lw := match l with | .ptr w => w | _ => zeroNoPtr n     -- `if nl == nil { nl = &T{} }`
       (match lw, rw with
        | .struct lfs, .struct rfs => (copyFields cfg chld lfs rfs).bindList fun fs s => .ok (.ptr (.struct fs)) s
        | _, _ => .panic)
     | .map _ mk mv =>
       (match rw with
        | .map _ rks rvs =>
          if rks.isEmpty then
            (if l.isNilPtr && !cfg.copyEmptyPtrCollDropped then .ok (.ptr (.map false [] [])) 0 else .ok l 0) else
          (match l with
           | .nilptr => (copyEntries cfg mk mv [] [] rks rvs).bind fun m s => .ok (.ptr m) s
           | .ptr (.map true _ _) =>                       -- non-nil pointer to a nil map: store into nil map
             if cfg.copyNilDestPanics then .panic else (copyEntries cfg mk mv [] [] rks rvs).bind fun m s => .ok (.ptr m) s
           | .ptr (.map false lks lvs) => (copyEntries cfg mk mv lks lvs rks rvs).bind fun m s => .ok (.ptr m) s
           | _ => .panic)
        | _ => .panic)
     | .slice i e =>
       if i.typn == "[]byte" then
         (match l, rw with
          | .ptr _, .bytes _ d _ => .ok (.ptr (.bytes false d d.length)) 0
          | _, .bytes _ d _ => if cfg.copyNilDestPanics then .panic else .ok (.ptr (.bytes false d d.length)) 0
          | _, _ => .panic)
       else
       (match rw with
        | .slice _ res _ =>
          if res.isEmpty then
            (if l.isNilPtr && !cfg.copyEmptyPtrCollDropped then .ok (.ptr (.slice false [] 0)) 0 else .ok l 0) else
          (match l with
           | .ptr (.slice _ les _) => (copyElems cfg e les res).bindList fun es s => .ok (.ptr (.slice false es es.length)) s
           | _ =>                                           -- `buf := (*l.F)` with a nil destination pointer
             if cfg.copyNilDestPanics then .panic
             else (copyElems cfg e [] res).bindList fun es s => .ok (.ptr (.slice false es es.length)) s)
        | _ => .panic))
  | .bool _ | .int _ | .uint _ | .float _ => .ok r 0
  | .str s => .ok (.str s) 0
  | .bytes _ d _ => .ok (.bytes false d d.length) 0
  | .struct rfs =>
    (match n, l with
     | .struct _ chld, .struct lfs => (copyFields cfg chld lfs rfs).bindList fun fs s => .ok (.struct fs) s
     | _, _ => .panic)
  | .map _ rks rvs =>
    (match n with
     | .map _ mk mv =>
       if rks.isEmpty then .ok l 0 else
       (match l with
        | .map true _ _ =>
          if depth0 && cfg.copyRootMapPanics then .panic    -- root: `if l == nil` tests the pointer; store into the nil map
          else copyEntries cfg mk mv [] [] rks rvs
        | .map false lks lvs => copyEntries cfg mk mv lks lvs rks rvs
        | _ => .panic)
     | _ => .panic)
  | .slice _ res _ =>
    (match n with
     | .slice _ e =>
       if res.isEmpty then .ok l 0 else
       (match l with
        | .slice _ les _ =>
          (copyElems cfg e les res).bindList fun es s =>
            if depth0 && cfg.copyRootSliceLost then .ok l 0   -- `l = &buf0` assigns the local pointer
            else .ok (.slice false es es.length) s
        | _ => .panic)
     | _ => .panic)
termination_by structural r

def copyFields (cfg : GenCfg) (chld : List Node) (ls rs : List Val) : CopyR :=
  match rs with
  | [] => .ok (.struct []) 0
  | r :: rs' =>
    match chld, ls with
    | ch :: chs, l :: ls' =>
      (copyN cfg ch false l r).bind fun v s =>
        (copyFields cfg chs ls' rs').bindList fun fs s' => .ok (.struct (v :: fs)) (s + s')
    | _, _ => .panic
termination_by structural rs

/-- The `for rk, rv := range r` loop of a map; the accumulated destination map is returned as a `Val.map`. -/
def copyEntries (cfg : GenCfg) (mk mv : Node) (lks lvs rks rvs : List Val) : CopyR :=
  match rvs with
  | [] => .ok (.map false lks lvs) 0
  | rv :: rvs' =>
    match rks with
    | rk :: rks' =>
      -- key: `var lk K; writeCopy(mapk, lk, rk)` — strings are bufferized, everything else (pointers
      -- included) is assigned; a `*string` key is written through the nil `lk`
      match copyKey cfg mk rk with
      | .panic => .panic
      | .ok lk ks =>
      -- value: `var lv T` (zero, pointer flag dropped for pointer-to-struct), copy, `m[lk] = &lv | lv`
      let valR : CopyR :=
        if mv.ptr && !mv.isBasicTyp then
          (match rv with
           | .ptr rw => (copyN cfg (mv.withPtr false) false (zeroNoPtr mv) rw).bind fun v s => .ok (.ptr v) s
           | _ => if cfg.copyNilElemPanics then .panic else .ok .nilptr 0)   -- nil pointer elements are dereferenced
        else copyN cfg mv false (zeroVal mv) rv
      valR.bind fun v s =>
        -- a pointer key of the source is never equal to a key already in the destination — except the nil
        -- pointer, which is one key
        let (lks', lvs') := if mk.ptr && !lk.isNilPtr then (lks ++ [lk], lvs ++ [v]) else mapSet lks lvs lk v
        (copyEntries cfg mk mv lks' lvs' rks' rvs').bind fun m s' => .ok m (ks + s + s')
    | [] => .panic
termination_by structural rvs

def copyElems (cfg : GenCfg) (e : Node) (les res : List Val) : CopyR :=
  match res with
  | [] => .ok (.struct les) 0
  | r :: res' =>
    let one : CopyR :=
      if e.ptr && !isBuiltinName e.typn then
        (match r with
         | .ptr rw => (copyN cfg (e.withPtr false) false (zeroNoPtr e) rw).bind fun v s => .ok (.ptr v) s
         | _ => if cfg.copyNilElemPanics then .panic else .ok .nilptr 0)
      else copyN cfg e false (zeroVal e) r
    one.bind fun v s =>
      (copyElems cfg e (les ++ [v]) res').bindList fun es s' => .ok (.struct es) (s + s')
termination_by structural res
end

/-- Outcome of Copy / CopyTo. -/
inductive CopyOut
  | ok (v : Val) (shared : Nat)
  | panic
  | unsupported
  | mustPointer
deriving Inhabited

/-- Forget capacities (they depend on the buffer's growth, which is a parameter) and nil-versus-empty
of collections (what an empty bufferized value is depends on whether the buffer has an array yet;
C06 and C08 identify the two anyway). -/
def dropCapsFuel : Nat → Val → Val
  | 0, v => v
  | f + 1, v =>
    match v with
    | .bytes _ d _ => .bytes false d 0
    | .slice _ es _ => .slice false (es.map (dropCapsFuel f)) 0
    | .struct fs => .struct (fs.map (dropCapsFuel f))
    | .map _ ks vs => .map false (ks.map (dropCapsFuel f)) (vs.map (dropCapsFuel f))
    | .ptr w => .ptr (dropCapsFuel f w)
    | x => x

def dropCaps (v : Val) : Val := dropCapsFuel 64 v

def copySrcOf : Form → RootX
  | .val | .ptr | .ptrptr => .ok
  | .nilPtr | .ptrNilPtr | .nilPtrPtr => .panic      -- `*x.(*T)` / `**x.(**T)`
  | .untypedNil | .foreign => .early

/-- `Copy(x)`: CopyTo into a zero value with a buffer of `countBytes`. -/
def copySrcOfC (cfg : GenCfg) (f : Form) : RootX :=
  match copySrcOf f with
  | .panic | .nilX => if cfg.nilRootPanics then .panic else .early
  | x => x

def copyM (cfg : GenCfg) (n : Node) (f : Form) (r : Val) : CopyOut :=
  match copySrcOfC cfg f with
  | .early => .unsupported
  | .panic | .nilX => .panic
  | .ok =>
    match copyN cfg n true (zeroVal n) r with
    | .ok v s => .ok v s
    | .panic => .panic

/-- `CopyTo(src, dst, buf)` with destination value `l` reached through form `fd`. -/
def copyToM (cfg : GenCfg) (n : Node) (fs fd : Form) (r l : Val) : CopyOut :=
  match copySrcOfC cfg fs with
  | .early => .unsupported
  | .panic | .nilX => .panic
  | .ok =>
    match fd with
    | .val => .mustPointer
    | .untypedNil | .foreign => .unsupported
    | .ptr | .ptrptr =>
      (match copyN cfg n true l r with
       | .ok v s => .ok v s
       | .panic => .panic)
    | _ => if cfg.nilRootPanics then .panic else .unsupported

end Inspector
