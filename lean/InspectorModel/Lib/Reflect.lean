/-
Lib/Reflect.lean — model of ReflectInspector.Get (reflect.go:20-118), the only method of that inspector that does
anything: navigation by reflection — struct fields by name, map entries by the `%v` rendering of their key, slice
elements by decimal index (`strconv.Atoi`), pointers followed, a `[]byte` handed out whatever the key says.
C02 speaks about it ("… and reflect inspectors"); there is no correctness property for it.
-/
import InspectorModel.Lib.Strings
import InspectorModel.Lib.Assign
import InspectorModel.Core.Lookup
namespace Inspector

/-- `fmt.Sprintf("%v", key)` of a map key. `none`: not modelled (floats: shortest-representation formatting;
non-nil pointers: an address that no path segment spells). -/
def sprintKey : Val → Option Bytes
  | .int i => some (strBytes (toString i))
  | .uint n => some (strBytes (toString n))
  | .bool b => some (strBytes (if b then "true" else "false"))
  | .str s => some s
  | .nilptr => some (strBytes "<nil>")
  | _ => none

/-- The entry whose key renders as `key`; second component: a key of the map could not be rendered by the model
(the answer is then unknown unless an entry was found). -/
def reflectLookup : List Val → List Val → Bytes → Option Val × Bool
  | k :: ks, v :: vs, key =>
    (match sprintKey k with
     | some t => if t == key then (some v, false) else reflectLookup ks vs key
     | none =>
       let r := reflectLookup ks vs key
       (r.1, match k with | .ptr _ => r.2 | _ => true))
  | _, _, _ => (none, false)

inductive RStep
  | next (n : Node) (v : Val)
  | nil
  | panic
  | unknown
deriving Inhabited

/-- `inspect(node, key)`: one step. `idxPanics` (the original code): `v.Index(idx)` without a bounds test. -/
def reflectStep (idxPanics : Bool) (n : Node) (v : Val) (key : Bytes) : RStep :=
  match v with
  | .nilptr => .nil                                       -- reflect.Ptr with an invalid Elem
  | .ptr w => reflectStep idxPanics (n.withPtr false) w key
  | .struct fs =>
    (match n with
     | .struct _ chld => (match findField chld fs key with | some (ch, fv) => .next ch fv | none => .nil)
     | _ => .nil)
  | .map _ ks vs =>
    (match n with
     | .map _ _ mv =>
       (match reflectLookup ks vs key with
        | (some x, _) => .next mv x
        | (none, true) => .unknown
        | (none, false) => .nil)
     | _ => .nil)
  | .bytes _ _ _ => .next (n.withPtr false) v              -- `if bytes, ok := node.([]byte); ok { return bytes }`
  | .slice _ es _ =>
    (match n with
     | .slice _ e =>
       (match atoiM key with
        | none => .nil
        | some idx =>
          if 0 ≤ idx ∧ idx < es.length then
            (match nth? es idx.toNat with | some x => .next e x | none => .nil)
          else if idxPanics then .panic else .nil)
     | _ => .nil)
  | _ => .nil                                             -- scalars: no case of the kind switch

/-- Outcome of ReflectInspector.Get. -/
inductive RGet
  | none
  | some (shape : String) (v : Val)
  | panic
  | unknown
deriving Inhabited

def reflectGetN (idxPanics : Bool) (n : Node) (v : Val) : List Bytes → RGet
  | [] => .some (shapeOf n) v.strip
  | k :: rest =>
    match reflectStep idxPanics n v k with
    | .next n' v' => reflectGetN idxPanics n' v' rest
    | .nil => .none
    | .panic => .panic
    | .unknown => .unknown

/-- The argument forms the harness uses: the value, a pointer, a pointer to a pointer, a typed-nil pointer. -/
def reflectGetM (cfg : LibCfg) (n : Node) (nilRoot : Bool) (v : Val) (p : List Bytes) : RGet :=
  if nilRoot then (if p.isEmpty then .some (shapeOf n) .nilptr else .none)
  else reflectGetN cfg.reflectIndexPanics n v p

end Inspector
