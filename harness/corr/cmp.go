package corr

import (
	"reflect"
	"strconv"

	"github.com/koykov/inspector"
)

func callCmp(ins inspector.Inspector, arg any, op int, right string, init bool, path []string) (res bool, out string) {
	defer func() {
		if r := recover(); r != nil {
			out = "panic"
		}
	}()
	res = init
	if err := ins.Compare(arg, inspector.Op(op), right, &res, path...); err != nil {
		return res, "err"
	}
	return res, "ok"
}

// OpCmp emits one `C` record. Compare is run twice, with *result preset to false and to true, which
// tells "left untouched" from "set".
func OpCmp(o *Out, e *TypeEntry, v reflect.Value, f Form, path []string, op int, right string) {
	vtok := Ser(v)
	arg0, root0 := MakeArg(e.Type, DeepCopy(v), f)
	r0, s0 := callCmp(e.Ins, arg0, op, right, false, path)
	arg1, root1 := MakeArg(e.Type, DeepCopy(v), f)
	r1, s1 := callCmp(e.Ins, arg1, op, right, true, path)
	out := ""
	switch {
	case s0 == "panic" || s1 == "panic":
		out = "panic"
	case s0 == "err" && s1 == "err":
		out = "err"
	case s0 != s1:
		out = "nondet"
	case !r0 && r1:
		out = "untouched"
	case r0 == r1:
		out = "set" + b01(r0)
	default:
		out = "nondet"
	}
	mut := "0"
	if Ser(root0()) != vtok || Ser(root1()) != vtok {
		mut = "1"
	}
	vid := o.DeclareVal(e, vtok)
	o.Op("C " + e.Tid + " " + string(f) + " " + vid + " | " + PathToks(path) + " | " + strconv.Itoa(op) + " " + SegTok(right) + " | " + mut + " " + out)
}
