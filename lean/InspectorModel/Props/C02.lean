/-
Props/C02.lean — property theorems for C02 (no generated inspector method panics, whatever the value, path,
operand, source or argument form).

For the *repaired* emitter model (`GenCfg.fixed`), every argument form `f : Form` (by value, `*T`, `**T`,
typed nil `(*T)(nil)`, `**T` to nil, `(**T)(nil)`, untyped nil, foreign type), every well-formed tree
(`NodeWF`), every well-typed value (`WT`) and every path / operator / operand / assigned source / options:
the model's outcome is not the panic outcome. One theorem per method:

  get_no_panic, cmp_no_panic, lc_no_panic, deq_no_panic, reset_no_panic, copy_no_panic, copyTo_no_panic,
  set_no_panic, loop_no_panic.

Hypotheses beyond `NodeWF`/`WT`, each a decidable `Bool`/`DecidableEq` fact the driver can evaluate:
  * `cmp_no_panic`: `EmitOK n` — for a *named* bool the emitter writes a six-way comparison that does not
    compile; the model's `cmpSix` answers `.panic` there (`cmp_needs_EmitOK`).
  * `copyTo_no_panic`: the destination value is well-typed too.
`RootOK` is needed nowhere; DeepEqual and Loop need nothing beyond `WT` (Loop: `NodeWF`, `WT`).

The model of the current tree (`GenCfg.repo`) panics on every listed class: `repo_panics_*`.
-/
import InspectorModel.Proofs.C02
import InspectorModel.Proofs.C02Deq
import InspectorModel.Proofs.C02Reset
import InspectorModel.Proofs.C02Copy
import InspectorModel.Proofs.C02Set
namespace Inspector.C02

/-- By value, by pointer and by pointer-to-pointer: the emitted argument-form switch leaves the same root. -/
theorem get_forms_agree (cfg : GenCfg) (n : Node) (v : Val) (p : List Seg) :
    getM cfg n .val v p = getM cfg n .ptr v p ∧ getM cfg n .ptr v p = getM cfg n .ptrptr v p := ⟨rfl, rfl⟩

/-- Get / GetTo never panic. -/
theorem get_no_panic (n : Node) (f : Form) (v : Val) (p : List Seg)
    (hwf : NodeWF n = true) (hwt : WT n v = true) :
    (getM GenCfg.fixed n f v p).isPanic = false :=
  getM_no_panic n f v p hwf hwt

/-- Compare never panics. -/
theorem cmp_no_panic (n : Node) (f : Form) (v : Val) (p : List Seg) (op : Op) (right : Seg)
    (hwf : NodeWF n = true) (hok : EmitOK n = true) (hwt : WT n v = true) :
    cmpM GenCfg.fixed n f v p op right ≠ .panic :=
  cmpM_no_panic n f v p op right hwf hok hwt

/-- Length (`isCap = false`) and Capacity (`isCap = true`) never panic. -/
theorem lc_no_panic (isCap : Bool) (n : Node) (f : Form) (v : Val) (p : List Seg)
    (hwf : NodeWF n = true) (hwt : WT n v = true) :
    lcM GenCfg.fixed isCap n f v p ≠ .panic :=
  lcM_no_panic isCap n f v p hwf hwt

/-- DeepEqual / DeepEqualWithOptions never panic: every pair of argument forms (a nil `**T` included), every
options value (`env.opts`), identical or independent arguments (`env.ident`). -/
theorem deq_no_panic (env : DeqEnv) (henv : env.cfg = GenCfg.fixed) (n : Node) (fl fr : Form) (l r : Val)
    (hl : WT n l = true) (hr : WT n r = true) :
    deqM env n fl fr l r ≠ .panic :=
  c02_deqM_no_panic env henv n fl fr l r hl hr

/-- Reset never panics. -/
theorem reset_no_panic (n : Node) (f : Form) (v : Val) (hwt : WT n v = true) :
    (resetM GenCfg.fixed n f v).isPanic = false :=
  resetM_no_panic n f v hwt

/-- Copy never panics. -/
theorem copy_no_panic (n : Node) (f : Form) (r : Val) (hwf : NodeWF n = true) (hr : WT n r = true) :
    (copyM GenCfg.fixed n f r).isPanic = false :=
  copyM_no_panic n f r hwf hr

/-- CopyTo never panics, whatever the destination holds. -/
theorem copyTo_no_panic (n : Node) (fs fd : Form) (r l : Val) (hwf : NodeWF n = true)
    (hr : WT n r = true) (hl : WT n l = true) :
    (copyToM GenCfg.fixed n fs fd r l).isPanic = false :=
  copyToM_no_panic n fs fd r l hwf hr hl

/-- Set / SetWithBuffer never panic: every assigned source (nil pointers and foreign types included), with
(`noBuf = false`) or without a buffer. -/
theorem set_no_panic (n : Node) (f : Form) (v : Val) (p : List Seg) (src : Src) (noBuf : Bool)
    (hwf : NodeWF n = true) (hwt : WT n v = true) :
    (setM GenCfg.fixed n f v p src noBuf).isPanic = false :=
  setM_no_panic n f v p src noBuf hwf hwt

/-- The Assign chain under Set never panics, whatever destination kind, old value and source. -/
theorem assign_no_panic (a : Bool) (dk : DynKind) (old : Val) (s : Src) (noBuf : Bool) :
    (assignM { strAppendsOld := a, nilSrcPanics := false } dk old s noBuf).isPanic = false :=
  assignM_np a dk old s noBuf

/-- Loop never panics: every iterator script and float-text oracle. -/
theorem loop_no_panic (sc : LoopScript) (ft : Val → Bytes) (n : Node) (f : Form) (v : Val) (p : List Seg)
    (hwf : NodeWF n = true) (hwt : WT n v = true) :
    (loopM GenCfg.fixed sc ft n f v p).fin ≠ .panic :=
  loopM_no_panic sc ft n f v p hwf hwt

section NonVacuity
/-- `type T struct { M map[string]int; L []int; P *int; S *string; E []*Inner; I Inner; PM map[*string]int }`,
`type Inner struct { B string }`. -/
def inner (name : String) (ptr : Bool) : Node :=
  .struct { typn := "Inner", name := name, ptr := ptr, hasc := true }
    [.basic { typn := "string", typu := "string", name := "B", hasc := true }]
def exNode : Node :=
  .struct { typn := "T", hasc := true } [
    .map { typn := "map[string]int", name := "M", hasc := true }
      (.basic { typn := "string", typu := "string" }) (.basic { typn := "int", typu := "int" }),
    .slice { typn := "[]int", name := "L", hasc := true } (.basic { typn := "int", typu := "int" }),
    .basic { typn := "int", typu := "int", name := "P", ptr := true },
    .basic { typn := "string", typu := "string", name := "S", ptr := true, hasc := true },
    .slice { typn := "[]*Inner", name := "E", hasc := true } (inner "" true),
    inner "I" false,
    .map { typn := "map[*string]int", name := "PM", hasc := true }
      (.basic { typn := "string", typu := "string", ptr := true }) (.basic { typn := "int", typu := "int" })]
/-- `M` nil, `L = [3]`, `P` nil, `S = &"s"`, `E = [nil]`, `I = {B: "b"}`, `PM = {nil: 1}`. -/
def exVal : Val :=
  .struct [.map true [] [], .slice false [.int 3] 1, .nilptr, .ptr (.str (strBytes "s")),
           .slice false [.nilptr] 1, .struct [.str (strBytes "b")], .map false [.nilptr] [.int 1]]
/-- The zero value of `T`. -/
def exZero : Val := zeroVal exNode
def seg (t : String) (pi : Option Int := none) : Seg := { text := strBytes t, pi := pi }
def srcInt (i : Int) : Src := { kind := .int, v := .int i }
def srcNilIntPtr : Src := { kind := .int, isPtr := true, v := .nilptr }
def exScriptKeys : LoopScript := { wantKey := [true], ctl := [0] }
def exScriptNoKeys : LoopScript := { wantKey := [false], ctl := [0] }
def exFt (_ : Val) : Bytes := []

/-- The hypotheses of all theorems hold of a concrete input full of nil pointers, nil maps and nil elements … -/
example : NodeWF exNode = true ∧ EmitOK exNode = true ∧ WT exNode exVal = true ∧ WT exNode exZero = true := by decide
/-- … on which the repaired model answers (instances of the theorems, evaluated). -/
example : (getM GenCfg.fixed exNode .ptr exVal [seg "L", seg "-1" (some (-1))]).isPanic = false := by decide
example : (getM GenCfg.fixed exNode .nilPtr exVal [seg "L"]).isPanic = false := by decide
example : cmpM GenCfg.fixed exNode .ptr exVal [seg "L", seg "0" (some 0)] 1 (seg "3" (some 3)) = .set true := by decide
example : lcM GenCfg.fixed false exNode .ptr exVal [seg "I"] = .val 0 := by decide
example : deqM { cfg := GenCfg.fixed, ident := true } exNode .ptr .val exVal exVal = .t := by decide
example : deqM { cfg := GenCfg.fixed } exNode .nilPtr .ptr exVal exVal = .f := by decide
example : (resetM GenCfg.fixed exNode .ptr exVal).isPanic = false := by decide
example : (copyM GenCfg.fixed exNode .ptr exVal).isPanic = false := by decide
example : (copyToM GenCfg.fixed exNode .ptr .ptr exVal exZero).isPanic = false := by decide
example : (setM GenCfg.fixed exNode .ptr exVal [seg "M", seg "a"] (srcInt 5) true).isPanic = false := by decide
example : (setM GenCfg.fixed exNode .ptr exVal [seg "P"] srcNilIntPtr true).isPanic = false := by decide
example : (loopM GenCfg.fixed exScriptNoKeys exFt exNode .ptr exVal [seg "PM"]).fin = .done := by decide

/-! ### The model of the current tree panics: one witness per known class -/

/-- `negative-index`: `L.-1` reaches `s[-1]`. -/
theorem repo_panics_negative_index :
    (getM GenCfg.original exNode .ptr exVal [seg "L", seg "-1" (some (-1))]).isPanic = true ∧
    cmpM GenCfg.original exNode .ptr exVal [seg "L", seg "-1" (some (-1))] 1 (seg "3" (some 3)) = .panic ∧
    (setM GenCfg.original exNode .ptr exVal [seg "L", seg "-1" (some (-1))] (srcInt 5) true).isPanic = true := by
  decide

/-- `nil-root-panics`: a typed-nil root is dereferenced (GetTo on the empty path, Reset, Copy, Length). -/
theorem repo_panics_nil_root :
    (getM GenCfg.original exNode .nilPtr exVal []).isPanic = true ∧
    cmpM GenCfg.original exNode .nilPtr exVal [seg "L"] 1 (seg "3") = .panic ∧
    (resetM GenCfg.original exNode .nilPtr exVal).isPanic = true ∧
    (copyM GenCfg.original exNode .nilPtr exVal).isPanic = true ∧
    lcM GenCfg.original false exNode .nilPtr exVal [seg "L"] = .panic ∧
    (setM GenCfg.original exNode .ptrNilPtr exVal [seg "L"] (srcInt 5) true).isPanic = true := by
  decide

/-- `lc-struct-stop-panics`: Length on a path that stops on the nested struct `I` indexes `path[1]`. -/
theorem repo_panics_lc_struct_stop :
    lcM GenCfg.original false exNode .ptr exVal [seg "I"] = .panic ∧
    lcM GenCfg.original true exNode .ptr exVal [seg "I"] = .panic := by
  decide

/-- `copy-nil-elem-panics`: the nil `*Inner` element of `E` is dereferenced. -/
theorem repo_panics_copy_nil_elem :
    (copyM GenCfg.repo (.slice { typn := "[]*Inner" } (inner "" true)) .ptr (.slice false [.nilptr] 1)).isPanic = true := by
  decide

/-- `copy-nil-dest-panics`: the `*string` field `S` is written through the nil destination pointer. -/
theorem repo_panics_copy_nil_dest :
    (copyM GenCfg.repo (.struct { typn := "T" } [.basic { typn := "string", typu := "string", name := "S", ptr := true }])
      .ptr (.struct [.ptr (.str (strBytes "s"))])).isPanic = true := by
  decide

/-- `type RM map[string]int`. -/
def exRootMap : Node :=
  .map { typn := "RM" } (.basic { typn := "string", typu := "string" }) (.basic { typn := "int", typu := "int" })

/-- `copy-root-map-panics`: copying a non-empty root map stores into the nil destination map. -/
theorem repo_panics_copy_root_map :
    (copyM GenCfg.repo exRootMap .ptr (.map false [.str (strBytes "a")] [.int 1])).isPanic = true := by
  decide

/-- `reset-nil-ptr-panics`: Reset dereferences the nil `*int` field `P`. -/
theorem repo_panics_reset_nil_ptr :
    (resetM GenCfg.original exNode .ptr exVal).isPanic = true := by
  decide

/-- `set-nil-map-store`: Set on a nil root map stores into it. -/
theorem repo_panics_set_nil_map_store :
    (setM GenCfg.repo exRootMap .ptr (.map true [] []) [seg "a"] (srcInt 5) true).isPanic = true := by
  decide

/-- `set-nil-leaf-ptr`: Set hands the nil `*int` field `P` to AssignBuf as the destination. -/
theorem repo_panics_set_nil_leaf_ptr :
    (setM GenCfg.repo exNode .ptr exVal [seg "P"] (srcInt 5) true).isPanic = true := by
  decide

/-- `assign-nil-src`: Set with a nil `*int` as the assigned value dereferences it. -/
theorem repo_panics_assign_nil_src :
    (setM GenCfg.original exNode .ptr exVal [seg "L", seg "0" (some 0)] srcNilIntPtr true).isPanic = true := by
  decide

/-- `deq-ptr-leaf-nil`: DeepEqual dereferences the nil `*int` field `P` of both arguments. -/
theorem repo_panics_deq_ptr_leaf_nil :
    deqM {} exNode .ptr .ptr exVal exVal = .panic := by
  decide

/-- `nil-root-panics`, DeepEqual: a nil `**T` argument is dereferenced in the header (`lx, leq = *lp, true`,
compiler.go:400-401) — also next to an unrecognised left argument, since `*rp` is evaluated before
`!leq || !req`; the repaired emitter refuses it (answer false). -/
theorem repo_panics_deq_nil_ptrptr :
    deqM { cfg := GenCfg.original } exNode .nilPtrPtr .ptr exVal exVal = .panic ∧
    deqM { cfg := GenCfg.original } exNode .ptr .nilPtrPtr exVal exVal = .panic ∧
    deqM { cfg := GenCfg.original } exNode .foreign .nilPtrPtr exVal exVal = .panic ∧
    deqM { cfg := GenCfg.fixed } exNode .nilPtrPtr .ptr exVal exVal = .f ∧
    deqM { cfg := GenCfg.fixed } exNode .ptr .nilPtrPtr exVal exVal = .f ∧
    deqM { cfg := GenCfg.fixed } exNode .foreign .nilPtrPtr exVal exVal = .f := by
  decide

/-- `loop-nil-key-panics`: Loop over `PM = map[*string]int{nil: 1}` with an iterator that asks for keys: the
emitted `*k` (compiler.go:785-800) dereferences the nil key; the repaired emitter hands over an empty key. -/
theorem repo_panics_loop_nil_key :
    (loopM GenCfg.original exScriptKeys exFt exNode .ptr exVal [seg "PM"]).fin = .panic ∧
    (loopM GenCfg.fixed exScriptKeys exFt exNode .ptr exVal [seg "PM"]).fin = .done ∧
    (loopM GenCfg.fixed exScriptKeys exFt exNode .ptr exVal [seg "PM"]).groups.map (·.key) = [some []] := by
  decide

/-! ### What the repaired model still does: the remaining hypothesis is needed -/

/-- `type B bool; type T struct { F B }`: the emitted six-way comparison on a named bool does not compile
(C14 class `named-scalar`); the model's `cmpSix` answers `.panic` there. `EmitOK` excludes exactly this. -/
def exNamedBool : Node := .struct { typn := "T" } [.basic { typn := "B", typu := "bool", name := "F" }]
theorem cmp_needs_EmitOK :
    NodeWF exNamedBool = true ∧ WT exNamedBool (.struct [.bool true]) = true ∧ EmitOK exNamedBool = false ∧
    cmpM GenCfg.fixed exNamedBool .ptr (.struct [.bool true]) [seg "F"] 1 { text := strBytes "true", pb := some true } = .panic := by
  decide

end NonVacuity

end Inspector.C02
