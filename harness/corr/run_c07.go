package corr

func init() {
	Runners["C07"] = runC07
}

func runC07(p *Plan) {
	r := NewRng(p.Seed)
	n := scale(p.Tier, 1500, 20000)
	for i := 0; i < n; i++ {
		initCap := []int{0, 0, 4, 16, 64, 1024}[r.Intn(6)]
		steps := 2 + r.Intn(scale(p.Tier, 10, 30))
		OpBufferHistory(p.Out, r, initCap, steps)
		p.Out.Count("initcap:" + itoa(initCap))
		p.Out.Count("steps:" + itoa(steps/4*4))
	}
}
