package corr

import (
	"reflect"
	"sort"
	"strconv"
	"strings"

	"github.com/koykov/inspector"
)

// recIter is a recording iterator driven by a script.
type recIter struct {
	wantKey []bool
	ctl     []int
	pos     int
	curKey  string
	hasKey  bool
	groups  []string
	pending string
}

func at[T any](l []T, i int, d T) T {
	if len(l) == 0 {
		return d
	}
	if i < len(l) {
		return l[i]
	}
	return l[len(l)-1]
}

func (it *recIter) RequireKey() bool { return at(it.wantKey, it.pos, false) }

func insName(ins inspector.Inspector) string {
	if ins == nil {
		return "nil"
	}
	return ins.TypeName()
}

func (it *recIter) SetKey(val any, ins inspector.Inspector) {
	it.hasKey = true
	switch x := val.(type) {
	case *[]byte:
		it.curKey = string(*x)
	case []byte:
		it.curKey = string(x)
	case *string:
		it.curKey = *x
	case string:
		it.curKey = x
	default:
		it.curKey = "?unknown-key-type"
	}
	_ = ins
}

func (it *recIter) SetVal(val any, ins inspector.Inspector) {
	k := "-"
	if it.hasKey {
		k = SegTok(it.curKey)
	}
	if val == nil {
		it.pending = k + " " + insName(ins) + " nil Pn"
		return
	}
	v := reflect.ValueOf(val)
	it.pending = k + " " + insName(ins) + " " + ShapeOfType(v.Type(), false) + " " + Ser(v)
}

func (it *recIter) Iterate() inspector.LoopCtl {
	it.groups = append(it.groups, it.pending)
	it.pending, it.hasKey = "", false
	c := at(it.ctl, it.pos, 0)
	it.pos++
	return inspector.LoopCtl(c)
}

// OpLoop emits one `L` record.
func OpLoop(o *Out, e *TypeEntry, v reflect.Value, f Form, path []string, wantKey []bool, ctl []int, isMapOrder bool) {
	vtok := Ser(v)
	arg, root := MakeArg(e.Type, DeepCopy(v), f)
	it := &recIter{wantKey: wantKey, ctl: ctl}
	fin := "done"
	func() {
		defer func() {
			if r := recover(); r != nil {
				fin = "panic"
			}
		}()
		var buf []byte
		if err := e.Ins.Loop(arg, it, &buf, path...); err != nil {
			fin = "err"
		}
	}()
	mut := "0"
	if Ser(root()) != vtok {
		mut = "1"
	}
	var wk, ck []string
	for _, b := range wantKey {
		wk = append(wk, b01(b))
	}
	for _, c := range ctl {
		ck = append(ck, strconv.Itoa(c))
	}
	groups := append([]string(nil), it.groups...)
	_ = isMapOrder
	_ = sort.Strings
	tail := ""
	if len(groups) > 0 {
		tail = " | " + strings.Join(groups, " | ")
	}
	vid := o.DeclareVal(e, vtok)
	o.Op("L " + e.Tid + " " + string(f) + " " + vid + " | " + PathToks(path) + " | " + strings.Join(wk, "") + " " + strings.Join(ck, "") + " | " + fin + " " + mut + " " + strconv.Itoa(len(groups)) + tail)
}
