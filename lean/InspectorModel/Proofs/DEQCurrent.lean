/-
Proofs/DEQCurrent.lean — the DeepEqual emitter model (`Gen/DEQ.lean`) reads only two switches of its `GenCfg`
inside the mutual block (`deqNilBeforeMustCheck`, `deqPtrLeafNilUnchecked`) and one more in the header
(`nilRootPanics`, through `deqNilPtrPtr`). Two environments that differ only in `cfg`, with configurations that
agree on these switches, give the same result. Consequence: the model of the tree as it is (`GenCfg.repo`) *is*
the repaired model (`GenCfg.fixed`) for DeepEqual (`deqM_repo`).
-/
import InspectorModel.Proofs.C02Deq
set_option linter.unusedSimpArgs false
set_option linter.unusedVariables false
namespace Inspector.DEQCurrent

/-- The two environments differ at most in `cfg`, and there not in the two switches the mutual block reads. -/
structure Agree (e1 e2 : DeqEnv) : Prop where
  opts : e1.opts = e2.opts
  ident : e1.ident = e2.ident
  nilBefore : e1.cfg.deqNilBeforeMustCheck = e2.cfg.deqNilBeforeMustCheck
  ptrLeaf : e1.cfg.deqPtrLeafNilUnchecked = e2.cfg.deqPtrLeafNilUnchecked

mutual
theorem deqV_cfg (e1 e2 : DeqEnv) (h : Agree e1 e2) (l : Val) :
    ∀ (n : Node) (ps w : Bool) (path : String) (r : Val),
      deqV e1 n ps w path l r = deqV e2 n ps w path l r := by
  intro n ps w path r
  cases l with
  | nilptr => simp only [deqV]
  | ptr lw => simp only [deqV]
  | bool b => simp only [deqV, h.opts]
  | int b => simp only [deqV, h.opts]
  | uint b => simp only [deqV, h.opts]
  | float b => simp only [deqV, h.opts]
  | str b => simp only [deqV, h.opts]
  | bytes nl d c => simp only [deqV, h.opts]
  | struct lfs =>
    have ih := deqFields_cfg e1 e2 h lfs
    simp only [deqV, h.opts, ih]
  | map nl lks lvs =>
    have ih := deqMapVals_cfg e1 e2 h lvs
    simp only [deqV, h.opts, ih]
  | slice nl les c =>
    have ih := deqElems_cfg e1 e2 h les
    simp only [deqV, h.opts, ih]
termination_by (sizeOf l, 0)

theorem deqN_cfg (e1 e2 : DeqEnv) (h : Agree e1 e2) (l : Val) :
    ∀ (n : Node) (ps d0 : Bool) (pp : String) (r : Val),
      deqN e1 n ps d0 pp l r = deqN e2 n ps d0 pp l r := by
  intro n ps d0 pp r
  cases l with
  | nilptr => simp only [deqN, h.opts, h.nilBefore]
  | ptr lw =>
    have ih := deqV_cfg e1 e2 h lw
    simp only [deqN, h.opts, h.nilBefore, ih]
  | bool b => simp only [deqN, h.opts, h.nilBefore]
  | int b => simp only [deqN, h.opts, h.nilBefore]
  | uint b => simp only [deqN, h.opts, h.nilBefore]
  | float b => simp only [deqN, h.opts, h.nilBefore]
  | str b => simp only [deqN, h.opts, h.nilBefore]
  | bytes nl d c => simp only [deqN, h.opts, h.nilBefore]
  | struct lfs =>
    have ih := deqFields_cfg e1 e2 h lfs
    simp only [deqN, h.opts, h.nilBefore, ih]
  | map nl lks lvs =>
    have ih := deqMapVals_cfg e1 e2 h lvs
    simp only [deqN, h.opts, h.nilBefore, ih]
  | slice nl les c =>
    have ih := deqElems_cfg e1 e2 h les
    simp only [deqN, h.opts, h.nilBefore, ih]
termination_by (sizeOf l, 1)

theorem deqLeafDeref_cfg (e1 e2 : DeqEnv) (h : Agree e1 e2) (l : Val) :
    ∀ (ch : Node) (path : String) (r : Val),
      deqLeafDeref e1 ch path l r = deqLeafDeref e2 ch path l r := by
  intro ch path r
  cases l with
  | ptr lw =>
    have ih := deqV_cfg e1 e2 h lw
    simp only [deqLeafDeref, ih]
  | _ => simp only [deqLeafDeref]
termination_by (sizeOf l, 1)

theorem deqFields_cfg (e1 e2 : DeqEnv) (h : Agree e1 e2) (ls : List Val) :
    ∀ (chld : List Node) (path : String) (rs : List Val),
      deqFields e1 chld path ls rs = deqFields e2 chld path ls rs := by
  intro chld path rs
  cases ls with
  | nil => rw [deqFields_nil, deqFields_nil]
  | cons l ls' =>
    have ih1 := deqN_cfg e1 e2 h l
    have ih2 := deqLeafDeref_cfg e1 e2 h l
    have ih3 := deqFields_cfg e1 e2 h ls'
    cases chld with
    | nil => simp only [deqFields]
    | cons ch chs =>
      cases rs with
      | nil => simp only [deqFields]
      | cons r rs' => simp only [deqFields, h.ptrLeaf, ih1, ih2, ih3]
termination_by (sizeOf ls, 0)

theorem deqMapVals_cfg (e1 e2 : DeqEnv) (h : Agree e1 e2) (lvs : List Val) :
    ∀ (mk mv : Node) (path : String) (lks rks rvs : List Val),
      deqMapVals e1 mk mv path lks lvs rks rvs = deqMapVals e2 mk mv path lks lvs rks rvs := by
  intro mk mv path lks rks rvs
  cases lvs with
  | nil => simp only [deqMapVals]
  | cons lv lvs' =>
    have ih1 := deqN_cfg e1 e2 h lv
    have ih2 := deqMapVals_cfg e1 e2 h lvs'
    cases lks with
    | nil => simp only [deqMapVals]
    | cons lk lks' => simp only [deqMapVals, h.ident, ih1, ih2]
termination_by (sizeOf lvs, 0)

theorem deqElems_cfg (e1 e2 : DeqEnv) (h : Agree e1 e2) (ls : List Val) :
    ∀ (e : Node) (path : String) (rs : List Val),
      deqElems e1 e path ls rs = deqElems e2 e path ls rs := by
  intro e path rs
  cases ls with
  | nil => simp only [deqElems]
  | cons l ls' =>
    have ih1 := deqN_cfg e1 e2 h l
    have ih2 := deqElems_cfg e1 e2 h ls'
    cases rs with
    | nil => simp only [deqElems]
    | cons r rs' => simp only [deqElems, ih1, ih2]
termination_by (sizeOf ls, 0)
end

/-- `deqM` reads `nilRootPanics` on top (header, nil `**T`). -/
theorem deqM_cfg (e1 e2 : DeqEnv) (h : Agree e1 e2) (hroot : e1.cfg.nilRootPanics = e2.cfg.nilRootPanics)
    (n : Node) (fl fr : Form) (l r : Val) :
    deqM e1 n fl fr l r = deqM e2 n fl fr l r := by
  unfold deqM deqNilPtrPtr
  rw [deqN_cfg e1 e2 h l, hroot]

/-- Replacing the configuration by one that agrees on the switches DeepEqual reads. -/
theorem agree_of_cfg (env : DeqEnv) (c1 c2 : GenCfg)
    (h1 : c1.deqNilBeforeMustCheck = c2.deqNilBeforeMustCheck)
    (h2 : c1.deqPtrLeafNilUnchecked = c2.deqPtrLeafNilUnchecked) :
    Agree { env with cfg := c1 } { env with cfg := c2 } :=
  ⟨rfl, rfl, h1, h2⟩

theorem agree_repo (env : DeqEnv) : Agree { env with cfg := GenCfg.repo } { env with cfg := GenCfg.fixed } :=
  agree_of_cfg env _ _ rfl rfl

/-- All six functions of the mutual block: the current tree is the repaired emitter. -/
theorem deqN_repo (env : DeqEnv) (n : Node) (ps d0 : Bool) (pp : String) (l r : Val) :
    deqN { env with cfg := GenCfg.repo } n ps d0 pp l r = deqN { env with cfg := GenCfg.fixed } n ps d0 pp l r :=
  deqN_cfg _ _ (agree_repo env) l n ps d0 pp r
theorem deqV_repo (env : DeqEnv) (n : Node) (ps w : Bool) (path : String) (l r : Val) :
    deqV { env with cfg := GenCfg.repo } n ps w path l r = deqV { env with cfg := GenCfg.fixed } n ps w path l r :=
  deqV_cfg _ _ (agree_repo env) l n ps w path r
theorem deqFields_repo (env : DeqEnv) (chld : List Node) (path : String) (ls rs : List Val) :
    deqFields { env with cfg := GenCfg.repo } chld path ls rs =
      deqFields { env with cfg := GenCfg.fixed } chld path ls rs :=
  deqFields_cfg _ _ (agree_repo env) ls chld path rs
theorem deqLeafDeref_repo (env : DeqEnv) (ch : Node) (path : String) (l r : Val) :
    deqLeafDeref { env with cfg := GenCfg.repo } ch path l r =
      deqLeafDeref { env with cfg := GenCfg.fixed } ch path l r :=
  deqLeafDeref_cfg _ _ (agree_repo env) l ch path r
theorem deqMapVals_repo (env : DeqEnv) (mk mv : Node) (path : String) (lks lvs rks rvs : List Val) :
    deqMapVals { env with cfg := GenCfg.repo } mk mv path lks lvs rks rvs =
      deqMapVals { env with cfg := GenCfg.fixed } mk mv path lks lvs rks rvs :=
  deqMapVals_cfg _ _ (agree_repo env) lvs mk mv path lks rks rvs
theorem deqElems_repo (env : DeqEnv) (e : Node) (path : String) (ls rs : List Val) :
    deqElems { env with cfg := GenCfg.repo } e path ls rs = deqElems { env with cfg := GenCfg.fixed } e path ls rs :=
  deqElems_cfg _ _ (agree_repo env) ls e path rs

/-- DeepEqual / DeepEqualWithOptions of the tree as it is, for every pair of argument forms. -/
theorem deqM_repo (env : DeqEnv) (n : Node) (fl fr : Form) (l r : Val) :
    deqM { env with cfg := GenCfg.repo } n fl fr l r = deqM { env with cfg := GenCfg.fixed } n fl fr l r :=
  deqM_cfg _ _ (agree_repo env) rfl n fl fr l r

/-- The same with the environment written out field by field, the way the property theorems write it. -/
theorem deqM_repo_mk (opts : Option DeqOpts) (ident : Bool) (n : Node) (fl fr : Form) (l r : Val) :
    deqM { cfg := GenCfg.repo, opts := opts, ident := ident } n fl fr l r =
      deqM { cfg := GenCfg.fixed, opts := opts, ident := ident } n fl fr l r :=
  deqM_repo { opts := opts, ident := ident } n fl fr l r

theorem deqN_repo_mk (opts : Option DeqOpts) (ident : Bool) (n : Node) (ps d0 : Bool) (pp : String) (l r : Val) :
    deqN { cfg := GenCfg.repo, opts := opts, ident := ident } n ps d0 pp l r =
      deqN { cfg := GenCfg.fixed, opts := opts, ident := ident } n ps d0 pp l r :=
  deqN_repo { opts := opts, ident := ident } n ps d0 pp l r

end Inspector.DEQCurrent
