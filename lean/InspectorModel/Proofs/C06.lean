/-
Proofs/C06.lean — the repaired copy emitter model: for every well-typed source and destination whose
collections are empty, `copyN` does not panic, shares nothing, yields a well-typed value that is
structurally identical to the source (`eqS`), and identical up to nil/empty (`approxEq`, for C08).
-/
import InspectorModel.Proofs.CopyLists
set_option linter.unusedSimpArgs false
set_option linter.unusedVariables false
namespace Inspector.CopyPf

/-- What is proved of the copy of source `r` at every node, into every admissible destination. -/
def CopyQ (r : Val) : Prop :=
  ∀ (n : Node) (d0 : Bool) (l : Val) (strict : Bool), NodeWF n = true → WT n r = true → WT n l = true →
    dstOK true l = true → KeysOK strict n r = true →
    ∃ v, copyN GenCfg.fixed n d0 l r = .ok v 0 ∧ WT n v = true ∧
      (strict = true → isEmptyV l = true → approxEq r v = true) ∧
      (dstOK false l = true → ∀ π, triOK (hasPtrKeyMap n) (eqS {} n π r v) = true)

theorem KeysOK_ptr (strict : Bool) (n : Node) (w : Val) : KeysOK strict n (.ptr w) = KeysOK strict (n.withPtr false) w := by
  cases n <;> simp [KeysOK]

theorem copyKey_fixed (mk : Node) (rk : Val) : copyKey GenCfg.fixed mk rk = .ok rk 0 := by
  unfold copyKey
  cases rk <;> simp

/-! ### struct fields -/
theorem copyFields_ok (strict : Bool) : ∀ (rs : List Val) (chld : List Node) (ls : List Val),
    (∀ x ∈ rs, CopyQ x) → NodeWFs chld = true → WTs chld rs = true → WTs chld ls = true → dstOKs true ls = true →
    KeysOKs strict chld rs = true →
    ∃ fs, copyFields GenCfg.fixed chld ls rs = .ok (.struct fs) 0 ∧ WTs chld fs = true ∧
      (strict = true → allEmpty ls = true → approxEqList rs fs = true) ∧
      (dstOKs false ls = true → ∀ π, triOK (hasPtrKeyMapList chld) (eqFields {} chld π rs fs) = true)
  | [], chld, ls, _, _, hwt, _, _, _ => by
    cases chld with
    | nil =>
      exact ⟨[], by simp [copyFields], by simp [WTs], by intros; simp [approxEqList], by intro _ π; simp [eqFields, triOK]⟩
    | cons c cs => simp [WTs] at hwt
  | r :: rs, [], ls, _, _, hwt, _, _, _ => by simp [WTs] at hwt
  | r :: rs, ch :: chs, [], _, _, _, hwtl, _, _ => by simp [WTs] at hwtl
  | r :: rs, ch :: chs, l :: ls, hq, hwf, hwt, hwtl, hd, hk => by
    simp only [NodeWFs, WTs, dstOKs, KeysOKs, Bool.and_eq_true] at hwf hwt hwtl hd hk
    obtain ⟨v, hv, hwv, ha, he⟩ := hq r (by simp) ch false l strict hwf.1 hwt.1 hwtl.1 hd.1 hk.1
    obtain ⟨fs, hfs, hwfs, has, hes⟩ := copyFields_ok strict rs chs ls (fun x hx => hq x (by simp [hx])) hwf.2 hwt.2 hwtl.2 hd.2 hk.2
    refine ⟨v :: fs, ?_, ?_, ?_, ?_⟩
    · simp [copyFields, hv, hfs]
    · simp [WTs, hwv, hwfs]
    · intro hs hem
      simp only [allEmpty, Bool.and_eq_true] at hem
      simp [approxEqList, ha hs hem.1, has hs hem.2]
    · intro hdl π
      simp only [dstOKs, Bool.and_eq_true] at hdl
      have h1 := he hdl.1 (dotted π ch.name)
      have h2 := hes hdl.2 π
      have hl : specLooksAt ({} : EqEnv).opts (dotted π ch.name) = true := rfl
      simp only [eqFields, hasPtrKeyMapList, hl, if_true]
      exact triOK_and _ _ _ _ h1 h2

/-! ### one map value / slice element -/
theorem elem_direct (strict : Bool) (e : Node) (x : Val) (hq : CopyQ x) (hwf : NodeWF e = true) (hwt : WT e x = true)
    (hk : KeysOK strict e x = true) :
    ∃ v, copyN GenCfg.fixed e false (zeroVal e) x = .ok v 0 ∧ ElemR strict e x v := by
  obtain ⟨v, hv, hwv, ha, he⟩ := hq e false (zeroVal e) strict hwf hwt (WT_zeroVal e hwf) (zeroVal_dstOK true e) hk
  exact ⟨v, hv, hwv, fun hs => ha hs (zeroVal_empty e), he (zeroVal_dstOK false e)⟩

theorem elem_ptr (strict : Bool) (e : Node) (rw : Val) (hq : CopyQ rw) (hwf : NodeWF e = true)
    (hwt : WT e (.ptr rw) = true) (hk : KeysOK strict e (.ptr rw) = true) :
    ∃ v, copyN GenCfg.fixed (e.withPtr false) false (zeroNoPtr e) rw = .ok v 0 ∧ ElemR strict e (.ptr rw) (.ptr v) := by
  rw [WT_ptr, Bool.and_eq_true] at hwt
  rw [KeysOK_ptr] at hk
  have hwf' : NodeWF (e.withPtr false) = true := by rw [NodeWF_withPtr]; exact hwf
  obtain ⟨v, hv, hwv, ha, he⟩ := hq (e.withPtr false) false (zeroNoPtr e) strict hwf' hwt.2 (zeroNoPtr_WT e hwf)
    (zeroVal_dstOK true _) hk
  refine ⟨v, hv, ?_, ?_, ?_⟩
  · rw [WT_ptr, hwt.1, hwv]; rfl
  · intro hs
    have := ha hs (zeroVal_empty _)
    simpa [approxEq] using this
  · intro π
    have := he (zeroVal_dstOK false _) π
    rw [hasPtrKeyMap_withPtr] at this
    simpa [eqS] using this

theorem elem_nil (strict : Bool) (e : Node) (hp : e.ptr = true) : ElemR strict e .nilptr .nilptr := by
  refine ⟨by rw [WT_nilptr]; exact hp, fun _ => by simp [approxEq], fun π => by simp [eqS, Val.isNilPtr, triOK]⟩

/-- What the inductive hypothesis provides for the elements of a collection. -/
def ElemQ (x : Val) : Prop := CopyQ x ∧ ∀ w, x = .ptr w → CopyQ w

theorem copyElems_ok (strict : Bool) (e : Node) (hwf : NodeWF e = true) : ∀ (res les : List Val),
    (∀ x ∈ res, ElemQ x) → WTall e res = true → KeysOKall strict e res = true →
    ∃ cvs, copyElems GenCfg.fixed e les res = .ok (.struct (les ++ cvs)) 0 ∧ All2 (ElemR strict e) res cvs
  | [], les, _, _, _ => ⟨[], by simp [copyElems], .nil⟩
  | x :: res, les, hq, hwt, hk => by
    simp only [WTall, KeysOKall, Bool.and_eq_true] at hwt hk
    have hrest : ∀ les', ∃ cvs, copyElems GenCfg.fixed e les' res = .ok (.struct (les' ++ cvs)) 0 ∧ All2 (ElemR strict e) res cvs :=
      fun les' => copyElems_ok strict e hwf res les' (fun y hy => hq y (by simp [hy])) hwt.2 hk.2
    have hqx := hq x (by simp)
    unfold copyElems
    by_cases hc : (e.ptr && !isBuiltinName e.typn) = true
    · have hp : e.ptr = true := by
        simp only [Bool.and_eq_true] at hc; exact hc.1
      rcases WT_ptr_cases e x hwt.1 with ⟨_, hx | ⟨w, hx, hw⟩⟩ | ⟨hnp, _⟩
      · subst hx
        obtain ⟨cvs, hc2, hr⟩ := hrest (les ++ [.nilptr])
        refine ⟨.nilptr :: cvs, ?_, .cons (elem_nil strict e hp) hr⟩
        simp only [hc, if_true, fixed_copyNilElemPanics, Bool.false_eq_true, if_false, bind_ok, hc2, bindList_ok]
        simp
      · subst hx
        obtain ⟨v, hv, hR⟩ := elem_ptr strict e w (hqx.2 w rfl) hwf hwt.1 hk.1
        obtain ⟨cvs, hc2, hr⟩ := hrest (les ++ [.ptr v])
        refine ⟨.ptr v :: cvs, ?_, .cons hR hr⟩
        simp only [hc, if_true, hv, bind_ok, hc2, bindList_ok]
        simp
      · rw [hp] at hnp; cases hnp
    · obtain ⟨v, hv, hR⟩ := elem_direct strict e x hqx.1 hwf hwt.1 hk.1
      obtain ⟨cvs, hc2, hr⟩ := hrest (les ++ [v])
      refine ⟨v :: cvs, ?_, .cons hR hr⟩
      simp only [hc, Bool.false_eq_true, if_false, hv, bind_ok, hc2, bindList_ok]
      simp

/-! ### map entries -/
theorem beq_nil (x : Val) : (x == Val.nilptr) = x.isNilPtr := by
  cases x <;> simp [BEq.beq, Val.beq, Val.isNilPtr]

theorem isNilPtr_eq (x : Val) (h : x.isNilPtr = true) : x = .nilptr := by
  cases x <;> simp [Val.isNilPtr] at h ⊢

/-- What is known of the keys still to be copied (`rks`) against those already in the destination (`lks`):
for a pointer-keyed map only that the nil pointer occurs once (non-nil pointer keys are appended whatever
they point to), otherwise that all keys are distinct. -/
def KeysInv (mk : Node) (lks rks : List Val) : Prop :=
  (mk.ptr = true ∧ (∀ x ∈ lks, ∀ y ∈ rks, (x.isNilPtr && y.isNilPtr) = false) ∧ nilKeysOnce rks = true) ∨
  ((∀ x ∈ lks, ∀ y ∈ rks, (x == y) = false) ∧ distinctKeys rks = true)

theorem KeysInv_step (mk : Node) (lks : List Val) (rk : Val) (rks : List Val) (h : KeysInv mk lks (rk :: rks)) :
    KeysInv mk (lks ++ [rk]) rks := by
  rcases h with ⟨hp, h1, h2⟩ | ⟨h1, h2⟩
  · left
    simp only [nilKeysOnce, Bool.and_eq_true, Bool.or_eq_true, Bool.not_eq_true', List.all_eq_true] at h2
    refine ⟨hp, ?_, h2.2⟩
    intro x hx y hy
    rcases List.mem_append.1 hx with hx | hx
    · exact h1 x hx y (by simp [hy])
    · have : x = rk := by simpa using hx
      subst this
      rcases h2.1 with h | h
      · simp [h]
      · have := h y hy
        simp [this]
  · right
    simp only [distinctKeys, Bool.and_eq_true] at h2
    refine ⟨?_, h2.2⟩
    intro x hx y hy
    rcases List.mem_append.1 hx with hx | hx
    · exact h1 x hx y (by simp [hy])
    · have : x = rk := by simpa using hx
      subst this
      exact (keyFresh_iff x rks).1 h2.1 y hy

/-- Under the invariant the new entry is appended: by the pointer-key branch, or by `mapSet` on a fresh key. -/
theorem KeysInv_set (mk : Node) (lks lvs : List Val) (rk : Val) (rks : List Val) (v : Val)
    (hll : lks.length = lvs.length) (h : KeysInv mk lks (rk :: rks)) :
    (if (mk.ptr && !rk.isNilPtr) = true then (lks ++ [rk], lvs ++ [v]) else mapSet lks lvs rk v) = (lks ++ [rk], lvs ++ [v]) := by
  by_cases hc : (mk.ptr && !rk.isNilPtr) = true
  · simp only [hc, if_true]
  · simp only [hc, Bool.false_eq_true, if_false]
    apply mapSet_fresh lks lvs rk v hll
    rcases h with ⟨hp, h1, _⟩ | ⟨h1, _⟩
    · have hn : rk.isNilPtr = true := by
        simp only [hp, Bool.true_and, Bool.not_eq_true', Bool.not_eq_false] at hc
        simpa using hc
      have hrk := isNilPtr_eq rk hn
      intro x hx
      have := h1 x hx rk (by simp)
      rw [hn, Bool.and_true] at this
      rw [hrk, beq_nil]; exact this
    · exact fun x hx => h1 x hx rk (by simp)

theorem copyEntries_ok (strict : Bool) (mk mv : Node) (hwf : NodeWF mv = true) : ∀ (rvs rks lks lvs : List Val),
    (∀ x ∈ rvs, ElemQ x) → rks.length = rvs.length → lks.length = lvs.length →
    WTall mv rvs = true → KeysOKall strict mv rvs = true → KeysInv mk lks rks →
    ∃ cvs, copyEntries GenCfg.fixed mk mv lks lvs rks rvs = .ok (.map false (lks ++ rks) (lvs ++ cvs)) 0 ∧
      All2 (ElemR strict mv) rvs cvs
  | [], rks, lks, lvs, _, hl, _, _, _, _ => by
    have : rks = [] := by cases rks <;> simp_all
    subst this
    exact ⟨[], by simp [copyEntries], .nil⟩
  | rv :: rvs, [], _, _, _, hl, _, _, _, _ => by simp at hl
  | rv :: rvs, rk :: rks, lks, lvs, hq, hl, hll, hwt, hk, hdist => by
    simp only [WTall, KeysOKall, Bool.and_eq_true] at hwt hk
    have hqx := hq rv (by simp)
    have hset := fun v => KeysInv_set mk lks lvs rk rks v hll hdist
    have hrest : ∀ v, ∃ cvs, copyEntries GenCfg.fixed mk mv (lks ++ [rk]) (lvs ++ [v]) rks rvs =
        .ok (.map false ((lks ++ [rk]) ++ rks) ((lvs ++ [v]) ++ cvs)) 0 ∧ All2 (ElemR strict mv) rvs cvs := by
      intro v
      exact copyEntries_ok strict mk mv hwf rvs rks (lks ++ [rk]) (lvs ++ [v]) (fun y hy => hq y (by simp [hy]))
        (by simpa using hl) (by simp [hll]) hwt.2 hk.2 (KeysInv_step mk lks rk rks hdist)
    unfold copyEntries
    simp only [copyKey_fixed]
    by_cases hc : (mv.ptr && !mv.isBasicTyp) = true
    · have hp : mv.ptr = true := by
        simp only [Bool.and_eq_true] at hc; exact hc.1
      rcases WT_ptr_cases mv rv hwt.1 with ⟨_, hx | ⟨w, hx, hw⟩⟩ | ⟨hnp, _⟩
      · subst hx
        obtain ⟨cvs, hc2, hr⟩ := hrest .nilptr
        refine ⟨.nilptr :: cvs, ?_, .cons (elem_nil strict mv hp) hr⟩
        simp only [hc, if_true, fixed_copyNilElemPanics, Bool.false_eq_true, if_false, bind_ok, hset, hc2]
        simp
      · subst hx
        obtain ⟨v, hv, hR⟩ := elem_ptr strict mv w (hqx.2 w rfl) hwf hwt.1 hk.1
        obtain ⟨cvs, hc2, hr⟩ := hrest (.ptr v)
        refine ⟨.ptr v :: cvs, ?_, .cons hR hr⟩
        simp only [hc, if_true, hv, bind_ok, hset, hc2]
        simp
      · rw [hp] at hnp; cases hnp
    · obtain ⟨v, hv, hR⟩ := elem_direct strict mv rv hqx.1 hwf hwt.1 hk.1
      obtain ⟨cvs, hc2, hr⟩ := hrest v
      refine ⟨v :: cvs, ?_, .cons hR hr⟩
      simp only [hc, Bool.false_eq_true, if_false, hv, bind_ok, hset, hc2]
      simp

/-- The invariant at the start (empty destination map), from the hypothesis on the source's keys. -/
theorem KeysInv_init (strict : Bool) (mk : Node) (rks : List Val)
    (h : ((!strict && mk.ptr && nilKeysOnce rks) || distinctKeys rks) = true) : KeysInv mk [] rks := by
  by_cases hd : distinctKeys rks = true
  · exact Or.inr ⟨by simp, hd⟩
  · left
    simp only [hd, Bool.or_false, Bool.and_eq_true] at h
    exact ⟨h.1.2, by simp, h.2⟩

/-- The shape of the hypothesis `map_facts` uses. -/
theorem keysHyp_weaken (strict : Bool) (mk : Node) (rks : List Val)
    (h : ((!strict && mk.ptr && nilKeysOnce rks) || distinctKeys rks) = true) :
    ((!strict && mk.ptr) || distinctKeys rks) = true := by
  cases hd : distinctKeys rks
  · simp only [hd, Bool.or_false, Bool.and_eq_true] at h ⊢; exact h.1
  · simp

/-! ### facts about the shapes the copy produces -/
theorem scalar_refl (k : Kind) (w : Val) (h : wtScalar k w = true) :
    approxEq w w = true ∧ ∀ (env : EqEnv) (n : Node) (π : String), eqS env n π w w = .must := by
  cases k <;> cases w <;> simp_all [wtScalar, approxEq, eqS, eqScalar]

theorem WT_basic_inv (i : Info) (w : Val) (hi : i.ptr = false) (h : WT (.basic i) w = true) :
    ∃ k, kindOfName i.typu = some k ∧ wtScalar k w = true := by
  cases hk : kindOfName i.typu with
  | none => cases w <;> simp [WT, hi, hk, Node.ptr, Node.info] at h
  | some k =>
    refine ⟨k, rfl, ?_⟩
    cases w <;> simp [WT, hi, hk, Node.ptr, Node.info, wtScalar] at h ⊢ <;> first | exact h | skip

theorem ptr_lift (strict : Bool) (n : Node) (rw v : Val) (hp : n.ptr = true) (h : ElemR strict (n.withPtr false) rw v) :
    ElemR strict n (.ptr rw) (.ptr v) := by
  obtain ⟨h1, h2, h3⟩ := h
  refine ⟨?_, ?_, ?_⟩
  · rw [WT_ptr, hp, h1]; rfl
  · intro hs; simpa [approxEq] using h2 hs
  · intro π
    have := h3 π
    rw [hasPtrKeyMap_withPtr] at this
    simpa [eqS] using this

theorem copyQ_of (n : Node) (d0 : Bool) (l r v : Val) (strict : Bool) (heq : copyN GenCfg.fixed n d0 l r = .ok v 0)
    (h : ElemR strict n r v) :
    ∃ v, copyN GenCfg.fixed n d0 l r = .ok v 0 ∧ WT n v = true ∧
      (strict = true → isEmptyV l = true → approxEq r v = true) ∧
      (dstOK false l = true → ∀ π, triOK (hasPtrKeyMap n) (eqS {} n π r v) = true) :=
  ⟨v, heq, h.1, fun hs _ => h.2.1 hs, fun _ => h.2.2⟩

theorem map_facts (strict : Bool) (i : Info) (mk mv : Node) (nl nl' : Bool) (rks rvs cvs : List Val) (hi : i.ptr = false)
    (hlen : rks.length = rvs.length) (hwk : WTall mk rks = true) (hr : All2 (ElemR strict mv) rvs cvs)
    (hkk : ((!strict && mk.ptr) || distinctKeys rks) = true) :
    ElemR strict (.map i mk mv) (.map nl rks rvs) (.map nl' rks cvs) := by
  have hlc := forall2_length hr
  refine ⟨?_, ?_, ?_⟩
  · simp [WT, hi, hwk, WTall_of_forall2 strict mv hr, hlen, hlc]
  · intro hs
    subst hs
    have hd : distinctKeys rks = true := by simpa using hkk
    have := approxEqMap_ok mv rvs rks cvs [] [] hlen rfl (by simp) hd hr
    simpa [approxEq] using this
  · intro π
    by_cases hp : mk.ptr = true
    · cases rks with
      | nil => simp [eqS, hp, triOK, hasPtrKeyMap]
      | cons k ks => simp [eqS, hp, triOK, hasPtrKeyMap]
    · have hd : distinctKeys rks = true := by simpa [hp] using hkk
      have := eqMapVals_ok strict mv π rvs rks cvs [] [] hlen rfl (by simp) hd hr
      simp only [List.nil_append] at this
      have hp' : mk.ptr = false := by simpa using hp
      simp only [eqS, hasPtrKeyMap, hp', Bool.false_or, bne_self_eq_false, Bool.false_eq_true, if_false, Bool.false_and]
      exact this

theorem slice_facts (strict : Bool) (i : Info) (e : Node) (nl nl' : Bool) (c c' : Nat) (res cvs : List Val) (hi : i.ptr = false)
    (hb : (i.typn == "[]byte") = false) (hc : cvs.length ≤ c') (hr : All2 (ElemR strict e) res cvs) :
    ElemR strict (.slice i e) (.slice nl res c) (.slice nl' cvs c') := by
  have hlc := forall2_length hr
  refine ⟨?_, ?_, ?_⟩
  · simp [WT, hi, hb, hc, WTall_of_forall2 strict e hr]
    simpa using hb
  · intro hs
    subst hs
    simpa [approxEq] using approxEqList_ok e hr
  · intro π
    have := eqElems_ok strict e π hr
    simpa [eqS, hasPtrKeyMap, hlc] using this

theorem bytes_facts (strict : Bool) (i : Info) (e : Node) (nl nl' : Bool) (c c' : Nat) (d : Bytes) (hi : i.ptr = false)
    (hb : (i.typn == "[]byte") = true) (hc : d.length ≤ c') :
    ElemR strict (.slice i e) (.bytes nl d c) (.bytes nl' d c') := by
  refine ⟨?_, ?_, ?_⟩
  · simp [WT, hi, hb, hc]
  · intro _; simp [approxEq]
  · intro π; simp [eqS, triOK]

theorem nil_facts (n : Node) (l : Val) (strict : Bool) (hp : n.ptr = true) (hwl : WT n l = true) :
    (strict = true → isEmptyV l = true → approxEq .nilptr l = true) ∧
    (dstOK false l = true → ∀ π, triOK (hasPtrKeyMap n) (eqS {} n π .nilptr l) = true) := by
  rcases WT_ptr_cases n l hwl with ⟨_, hl | ⟨w, hl, _⟩⟩ | ⟨hnp, _⟩
  · subst hl; exact ⟨fun _ _ => by simp [approxEq], fun _ π => by simp [eqS, Val.isNilPtr, triOK]⟩
  · subst hl; exact ⟨fun _ he => by simpa [approxEq, isEmptyV] using he, fun hd => by simp [dstOK] at hd⟩
  · rw [hp] at hnp; cases hnp

/-! ### the main induction -/
def isScalarV : Val → Bool
  | .bool _ | .int _ | .uint _ | .float _ | .str _ => true
  | _ => false

theorem scalar_ok (r : Val) (hs : isScalarV r = true) : CopyQ r := by
  intro n d0 l strict hwf hwt hwl hd hk
  have hn : ∃ i, n = .basic i ∧ i.ptr = false := by
    cases r <;> simp [isScalarV] at hs <;> cases n <;> simp [WT] at hwt <;> exact ⟨_, rfl, hwt.1⟩
  obtain ⟨i, rfl, hi⟩ := hn
  obtain ⟨k, _, hsc⟩ := WT_basic_inv i r hi hwt
  obtain ⟨ha, he⟩ := scalar_refl k r hsc
  have hc : copyN GenCfg.fixed (.basic i) d0 l r = .ok r 0 := by
    cases r <;> simp [isScalarV] at hs <;> simp [copyN]
  exact copyQ_of _ _ _ _ _ _ hc ⟨hwt, fun _ => ha, fun π => by rw [he]; rfl⟩

theorem WT_basic_scalar (i : Info) (v : Val) (h : WT (.basic i) v = true) :
    v = .nilptr ∨ (∃ w, v = .ptr w) ∨ isScalarV v = true := by
  cases v with
  | nilptr => exact Or.inl rfl
  | ptr w => exact Or.inr (Or.inl ⟨w, rfl⟩)
  | bool _ | int _ | uint _ | float _ | str _ => exact Or.inr (Or.inr rfl)
  | bytes _ _ _ | struct _ | map _ _ _ | slice _ _ _ =>
    simp only [WT, Bool.and_eq_true] at h
    cases hk : kindOfName i.typu with
    | none => simp [hk] at h
    | some k => cases k <;> simp [hk, wtScalar] at h

theorem WT_bytes_inv (i : Info) (e : Node) (w : Val) (hi : i.ptr = false) (hb : (i.typn == "[]byte") = true)
    (h : WT (.slice i e) w = true) : ∃ nl d c, w = .bytes nl d c := by
  cases w <;> simp_all [WT, Node.ptr, Node.info]

theorem elemQ_of (r : Val) (ih : ∀ x, sizeOf x < sizeOf r → CopyQ x) (x : Val) (hx : sizeOf x < sizeOf r) : ElemQ x :=
  ⟨ih x hx, fun w hw => ih w (by subst hw; exact Nat.lt_trans (size_ptr w) hx)⟩

theorem isEmpty_nil {α : Type} (l : List α) (h : l.isEmpty = true) : l = [] := by
  cases l <;> simp_all

theorem copyN_ok : ∀ r, CopyQ r := by
  apply size_ind
  intro r ih
  cases r with
  | bool b => exact scalar_ok _ rfl
  | int b => exact scalar_ok _ rfl
  | uint b => exact scalar_ok _ rfl
  | float b => exact scalar_ok _ rfl
  | str b => exact scalar_ok _ rfl
  | nilptr =>
    intro n d0 l strict hwf hwt hwl hd hk
    have hp : n.ptr = true := by rw [WT_nilptr] at hwt; exact hwt
    obtain ⟨h1, h2⟩ := nil_facts n l strict hp hwl
    cases n with
    | basic i =>
      exact ⟨.nilptr, by simp [copyN], hwt, fun _ _ => by simp [approxEq], fun _ π => by simp [eqS, Val.isNilPtr, triOK]⟩
    | struct i c => exact ⟨l, by simp [copyN], hwl, h1, h2⟩
    | map i k v => exact ⟨l, by simp [copyN], hwl, h1, h2⟩
    | slice i e => exact ⟨l, by simp [copyN], hwl, h1, h2⟩
  | bytes nl d c =>
    intro n d0 l strict hwf hwt hwl hd hk
    cases n with
    | slice i e =>
      have h : i.ptr = false ∧ (i.typn == "[]byte") = true := by
        simp [WT] at hwt; exact ⟨hwt.1.1, by simpa using hwt.1.2⟩
      exact copyQ_of _ _ _ _ _ _ (by simp [copyN]) (bytes_facts strict i e nl false c d.length d h.1 h.2 (Nat.le_refl _))
    | basic i => rcases WT_basic_scalar i _ hwt with h | ⟨w, h⟩ | h <;> simp [isScalarV] at h
    | _ => simp [WT] at hwt
  | struct rfs =>
    intro n d0 l strict hwf hwt hwl hd hk
    cases n with
    | struct i chld =>
      have hi : i.ptr = false := by simp [WT] at hwt; exact hwt.1
      obtain ⟨_, hfs, hwrs⟩ := WT_struct_inv i chld _ hi hwt
      cases hfs
      obtain ⟨lfs, hl, hwls⟩ := WT_struct_inv i chld l hi hwl
      subst hl
      simp only [NodeWF] at hwf
      simp only [KeysOK] at hk
      simp only [dstOK] at hd
      obtain ⟨fs, hfs, hwfs, ha, he⟩ := copyFields_ok strict rfs chld lfs
        (fun x hx => ih x (size_struct rfs x hx)) hwf hwrs hwls hd hk
      refine ⟨.struct fs, by simp [copyN, hfs], by simp [WT, hi, hwfs], ?_, ?_⟩
      · intro hs hem
        simp only [isEmptyV] at hem
        simpa [approxEq] using ha hs hem
      · intro hdl π
        simp only [dstOK] at hdl
        simpa [eqS, hasPtrKeyMap] using he hdl π
    | basic i => rcases WT_basic_scalar i _ hwt with h | ⟨w, h⟩ | h <;> simp [isScalarV] at h
    | _ => simp [WT] at hwt
  | map nl rks rvs =>
    intro n d0 l strict hwf hwt hwl hd hk
    cases n with
    | map i mk mv =>
      have hi : i.ptr = false := by simp [WT] at hwt; exact hwt.1.1.1
      obtain ⟨_, _, _, hm, hlen, hwk, hwv⟩ := WT_map_inv i mk mv _ hi hwt
      cases hm
      obtain ⟨lnl, lks, lvs, hl, hllen, _, _⟩ := WT_map_inv i mk mv l hi hwl
      subst hl
      simp only [NodeWF, Bool.and_eq_true] at hwf
      simp only [KeysOK, Bool.and_eq_true] at hk
      simp only [dstOK] at hd
      have hlk : lks = [] := isEmpty_nil _ hd
      subst hlk
      have hlv : lvs = [] := by cases lvs <;> simp_all
      subst hlv
      by_cases hemp : rks.isEmpty = true
      · have h1 : rks = [] := isEmpty_nil _ hemp
        subst h1
        have h2 : rvs = [] := by cases rvs <;> simp_all
        subst h2
        exact copyQ_of _ _ _ _ _ _ (by simp [copyN]) (map_facts strict i mk mv nl lnl [] [] [] hi rfl hwk .nil (keysHyp_weaken strict mk _ hk.1))
      · obtain ⟨cvs, hce, hr⟩ := copyEntries_ok strict mk mv hwf.2 rvs rks [] []
          (fun x hx => elemQ_of _ ih x (size_map_v nl rks rvs x hx)) hlen rfl hwv hk.2
          (KeysInv_init strict mk rks hk.1)
        simp only [List.nil_append] at hce
        refine copyQ_of _ _ _ _ _ _ ?_ (map_facts strict i mk mv nl false rks rvs cvs hi hlen hwk hr (keysHyp_weaken strict mk _ hk.1))
        cases lnl <;> simp [copyN, hemp, hce]
    | basic i => rcases WT_basic_scalar i _ hwt with h | ⟨w, h⟩ | h <;> simp [isScalarV] at h
    | _ => simp [WT] at hwt
  | slice nl res c =>
    intro n d0 l strict hwf hwt hwl hd hk
    cases n with
    | slice i e =>
      have hi : i.ptr = false ∧ (i.typn == "[]byte") = false := by
        simp [WT] at hwt; exact ⟨hwt.1.1.1, by simpa using hwt.1.1.2⟩
      obtain ⟨_, _, _, hm, hwe⟩ := WT_slice_inv i e _ hi.1 hi.2 hwt
      cases hm
      obtain ⟨lnl, les, lc, hl, _⟩ := WT_slice_inv i e l hi.1 hi.2 hwl
      subst hl
      simp only [NodeWF] at hwf
      simp only [KeysOK] at hk
      simp only [dstOK] at hd
      have hle : les = [] := isEmpty_nil _ hd
      subst hle
      by_cases hemp : res.isEmpty = true
      · have h1 : res = [] := isEmpty_nil _ hemp
        subst h1
        exact copyQ_of _ _ _ _ _ _ (by simp [copyN]) (slice_facts strict i e nl lnl c lc [] [] hi.1 hi.2 (Nat.zero_le _) .nil)
      · obtain ⟨cvs, hce, hr⟩ := copyElems_ok strict e hwf res []
          (fun x hx => elemQ_of _ ih x (size_slice nl res c x hx)) hwe hk
        simp only [List.nil_append] at hce
        refine copyQ_of _ _ _ _ _ _ ?_ (slice_facts strict i e nl false c cvs.length res cvs hi.1 hi.2 (Nat.le_refl _) hr)
        simp [copyN, hemp, hce]
    | basic i => rcases WT_basic_scalar i _ hwt with h | ⟨w, h⟩ | h <;> simp [isScalarV] at h
    | _ => simp [WT] at hwt
  | ptr rw =>
    intro n d0 l strict hwf hwt hwl hd hk
    rw [WT_ptr, Bool.and_eq_true] at hwt
    obtain ⟨hp, hwr⟩ := hwt
    rw [KeysOK_ptr] at hk
    have hl : l = .nilptr ∨ ∃ lw, l = .ptr lw ∧ WT (n.withPtr false) lw = true := by
      rcases WT_ptr_cases n l hwl with ⟨_, h⟩ | ⟨hnp, _⟩
      · exact h
      · rw [hp] at hnp; cases hnp
    cases n with
    | basic i =>
      rw [withPtr_basic] at hwr
      obtain ⟨k, hkd, hsc⟩ := WT_basic_inv _ rw rfl hwr
      obtain ⟨ha, he⟩ := scalar_refl k rw hsc
      refine copyQ_of _ _ _ _ (.ptr rw) _ ?_ (ptr_lift strict _ rw rw hp
        ⟨by rw [withPtr_basic]; exact hwr, fun _ => ha, fun π => by rw [he]; rfl⟩)
      by_cases hs : (i.typu == "string") = true
      · have hts : i.typu = "string" := by simpa using hs
        have hk' : k = .string := by
          simp only [hts, kindOfName] at hkd
          injection hkd with hkd; exact hkd.symm
        subst hk'
        cases rw <;> simp [wtScalar] at hsc
        rcases hl with hl | ⟨lw, hl, _⟩ <;> subst hl <;> simp [copyN, hs]
      · simp [copyN, hs]
    | struct i chld =>
      rw [withPtr_struct] at hwr hk
      obtain ⟨rfs, hrfs, hwrs⟩ := WT_struct_inv _ chld rw rfl hwr
      subst hrfs
      simp only [NodeWF] at hwf
      simp only [KeysOK] at hk
      have ihf : ∀ x ∈ rfs, CopyQ x := fun x hx => ih x (Nat.lt_trans (size_struct rfs x hx) (size_ptr _))
      have core := fun lfs h1 h2 => copyFields_ok strict rfs chld lfs ihf hwf hwrs h1 h2 hk
      rcases hl with hl | ⟨lw, hl, hwlw⟩
      · subst hl
        obtain ⟨fs, hfs, hwfs, ha, he⟩ := core (zeroVals chld) (WTs_zeroVals chld hwf) (zeroVals_dstOK true chld)
        have hz : zeroNoPtr (.struct i chld) = .struct (zeroVals chld) := by simp [zeroNoPtr, Node.withPtr, zeroVal]
        refine copyQ_of _ _ _ _ (.ptr (.struct fs)) _ (by simp [copyN, hz, hfs]) (ptr_lift strict _ _ _ hp ⟨?_, ?_, ?_⟩)
        · simp [withPtr_struct, WT, hwfs]
        · intro hs; simpa [approxEq] using ha hs (zeroVals_empty chld)
        · intro π; simpa [withPtr_struct, eqS, hasPtrKeyMap] using he (zeroVals_dstOK false chld) π
      · subst hl
        rw [withPtr_struct] at hwlw
        obtain ⟨lfs, hlfs, hwls⟩ := WT_struct_inv _ chld lw rfl hwlw
        subst hlfs
        simp only [dstOK, Bool.true_and] at hd
        obtain ⟨fs, hfs, hwfs, ha, he⟩ := core lfs hwls hd
        refine ⟨.ptr (.struct fs), by simp [copyN, hfs], ?_, ?_, ?_⟩
        · rw [WT_ptr, hp, withPtr_struct]; simp [WT, hwfs]
        · intro hs hem; simp only [isEmptyV] at hem; simpa [approxEq] using ha hs hem
        · intro hdl; simp [dstOK] at hdl
    | map i mk mv =>
      rw [withPtr_map] at hwr hk
      obtain ⟨nl, rks, rvs, hrw, hlen, hwk, hwv⟩ := WT_map_inv _ mk mv rw rfl hwr
      subst hrw
      simp only [NodeWF, Bool.and_eq_true] at hwf
      simp only [KeysOK, Bool.and_eq_true] at hk
      have hl' : l = .nilptr ∨ ∃ lnl, l = .ptr (.map lnl [] []) := by
        rcases hl with hl | ⟨lw, hl, hwlw⟩
        · exact Or.inl hl
        · right
          subst hl
          rw [withPtr_map] at hwlw
          obtain ⟨lnl, lks, lvs, h, hll, _, _⟩ := WT_map_inv _ mk mv lw rfl hwlw
          subst h
          simp only [dstOK, Bool.true_and] at hd
          have h1 := isEmpty_nil _ hd
          subst h1
          have h2 : lvs = [] := by cases lvs <;> simp_all
          subst h2
          exact ⟨lnl, rfl⟩
      by_cases hemp : rks.isEmpty = true
      · have h1 : rks = [] := isEmpty_nil _ hemp
        subst h1
        have h2 : rvs = [] := by cases rvs <;> simp_all
        subst h2
        rcases hl' with hl | ⟨lnl, hl⟩
        · subst hl
          refine copyQ_of _ _ _ _ (.ptr (.map false [] [])) _ (by simp [copyN, Val.isNilPtr]) (ptr_lift strict _ _ _ hp ?_)
          rw [withPtr_map]; exact map_facts strict _ mk mv nl false [] [] [] rfl rfl hwk .nil (keysHyp_weaken strict mk _ hk.1)
        · subst hl
          refine copyQ_of _ _ _ _ (.ptr (.map lnl [] [])) _ (by simp [copyN, Val.isNilPtr]) (ptr_lift strict _ _ _ hp ?_)
          rw [withPtr_map]; exact map_facts strict _ mk mv nl lnl [] [] [] rfl rfl hwk .nil (keysHyp_weaken strict mk _ hk.1)
      · obtain ⟨cvs, hce, hr⟩ := copyEntries_ok strict mk mv hwf.2 rvs rks [] []
          (fun x hx => elemQ_of _ ih x (Nat.lt_trans (size_map_v nl rks rvs x hx) (size_ptr _))) hlen rfl hwv hk.2
          (KeysInv_init strict mk rks hk.1)
        simp only [List.nil_append] at hce
        refine copyQ_of _ _ _ _ (.ptr (.map false rks cvs)) _ ?_ (ptr_lift strict _ _ _ hp ?_)
        · rcases hl' with hl | ⟨lnl, hl⟩
          · subst hl; simp [copyN, hemp, hce]
          · subst hl; cases lnl <;> simp [copyN, hemp, hce]
        · rw [withPtr_map]; exact map_facts strict _ mk mv nl false rks rvs cvs rfl hlen hwk hr (keysHyp_weaken strict mk _ hk.1)
    | slice i e =>
      rw [withPtr_slice] at hwr hk
      simp only [NodeWF] at hwf
      by_cases hb : (i.typn == "[]byte") = true
      · obtain ⟨nl, d, c, hrw⟩ := WT_bytes_inv { i with ptr := false } e rw rfl hb hwr
        subst hrw
        refine copyQ_of _ _ _ _ (.ptr (.bytes false d d.length)) _ ?_ (ptr_lift strict _ _ _ hp ?_)
        · rcases hl with hl | ⟨lw, hl, _⟩ <;> subst hl <;> simp [copyN, hb]
        · rw [withPtr_slice]; exact bytes_facts strict { i with ptr := false } e nl false c d.length d rfl hb (Nat.le_refl _)
      · have hb' : (i.typn == "[]byte") = false := by simpa using hb
        obtain ⟨nl, res, c, hrw, hwe⟩ := WT_slice_inv { i with ptr := false } e rw rfl hb' hwr
        subst hrw
        simp only [KeysOK] at hk
        have hl' : l = .nilptr ∨ ∃ lnl lc, l = .ptr (.slice lnl [] lc) := by
          rcases hl with hl | ⟨lw, hl, hwlw⟩
          · exact Or.inl hl
          · right
            subst hl
            rw [withPtr_slice] at hwlw
            obtain ⟨lnl, les, lc, h, _⟩ := WT_slice_inv { i with ptr := false } e lw rfl hb' hwlw
            subst h
            simp only [dstOK, Bool.true_and] at hd
            have h1 := isEmpty_nil _ hd
            subst h1
            exact ⟨lnl, lc, rfl⟩
        by_cases hemp : res.isEmpty = true
        · have h1 : res = [] := isEmpty_nil _ hemp
          subst h1
          rcases hl' with hl | ⟨lnl, lc, hl⟩
          · subst hl
            refine copyQ_of _ _ _ _ (.ptr (.slice false [] 0)) _ (by simp [copyN, hb', Val.isNilPtr]) (ptr_lift strict _ _ _ hp ?_)
            rw [withPtr_slice]; exact slice_facts strict { i with ptr := false } e nl false c 0 [] [] rfl hb' (Nat.le_refl _) .nil
          · subst hl
            refine copyQ_of _ _ _ _ (.ptr (.slice lnl [] lc)) _ (by simp [copyN, hb', Val.isNilPtr]) (ptr_lift strict _ _ _ hp ?_)
            rw [withPtr_slice]; exact slice_facts strict { i with ptr := false } e nl lnl c lc [] [] rfl hb' (Nat.zero_le _) .nil
        · obtain ⟨cvs, hce, hr⟩ := copyElems_ok strict e hwf res []
            (fun x hx => elemQ_of _ ih x (Nat.lt_trans (size_slice nl res c x hx) (size_ptr _))) hwe hk
          simp only [List.nil_append] at hce
          refine copyQ_of _ _ _ _ (.ptr (.slice false cvs cvs.length)) _ ?_ (ptr_lift strict _ _ _ hp ?_)
          · rcases hl' with hl | ⟨lnl, lc, hl⟩
            · subst hl; simp [copyN, hb', hemp, hce]
            · subst hl; simp [copyN, hb', hemp, hce]
          · rw [withPtr_slice]; exact slice_facts strict { i with ptr := false } e nl false c cvs.length res cvs rfl hb' (Nat.le_refl _) hr

end Inspector.CopyPf
