/-
Proofs/C02Hyps.lean — C02: the panic aspect of each outcome type, and the one new decidable hypothesis
(`LoopNilKeyFree`). Definitions only, so that the driver can import this file without the proofs.
-/
import InspectorModel.Gen.Get
import InspectorModel.Gen.Reset
import InspectorModel.Gen.Copy
import InspectorModel.Gen.Set
import InspectorModel.Gen.Loop
namespace Inspector

/-! ## panic aspect of the outcome types (`CmpOut`, `LcOut`, `DeqOut`, `LoopEnd` have `DecidableEq`) -/

def Flow.isPanic : Flow → Bool
  | .panic => true
  | _ => false

def GetOut.isPanic : GetOut → Bool
  | .panic => true
  | _ => false

def ResetOut.isPanic : ResetOut → Bool
  | .panic => true
  | _ => false

def CopyOut.isPanic : CopyOut → Bool
  | .panic => true
  | _ => false

def SetOut.isPanic : SetOut → Bool
  | .panic => true
  | _ => false

/-! ## Loop: the hypothesis on map keys -/

/-- The map keys that loop mode would render are all non-nil (only pointer-typed keys can be nil). -/
def keysNonNil (k : Node) (ks : List Val) : Bool := !k.ptr || ks.all (fun key => !key.isNilPtr)

/-- The map that loop mode reaches along `p` (the first map or slice on the way is looped, whatever remains of
the path) holds no nil pointer key. Mirrors the navigation of `loopN`; `true` where no map is reached. -/
def loopedKeysNonNil (n : Node) (v : Val) (p : List Seg) : Bool :=
  match n with
  | .basic _ => true
  | .slice _ _ => true
  | .map i k _ =>
    if i.ptr && v.isNilPtr then true else
    (match derefIf i.ptr v with
     | .map _ ks _ => keysNonNil k ks
     | _ => true)
  | .struct i chld =>
    match p with
    | [] => true
    | s :: rest =>
      if i.ptr && v.isNilPtr then true else
      match derefIf i.ptr v with
      | .struct fs =>
        (match findField chld fs s.text with
         | none => true
         | some (ch, fv) => if ch.isLeaf then true else loopedKeysNonNil ch fv rest)
      | _ => true

/-- Hypothesis of `loop_no_panic`: the iterator never asks for a key, or the looped map has no nil pointer key
(the emitted key rendering `*k` dereferences it — not among the listed defects). -/
def LoopNilKeyFree (sc : LoopScript) (n : Node) (v : Val) (p : List Seg) : Bool :=
  sc.wantKey.all (fun b => !b) || loopedKeysNonNil n v p

end Inspector
