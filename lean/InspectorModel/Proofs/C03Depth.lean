/-
Proofs/C03Depth.lean — a well-typed value is no deeper than its type says, so the depth condition of C03
(`DepthOK`) is a condition on the type tree alone.
-/
import InspectorModel.Proofs.C03Main
set_option linter.unusedSimpArgs false
set_option linter.unusedVariables false
namespace Inspector.C03

mutual
theorem WT_depth : ∀ (v : Val) (n : Node), WT n v = true → vdepth v + (if n.ptr then 0 else 1) ≤ ndepth n
  | .nilptr, n, h => by
    have := ndepth_ge_2 n
    rw [WT_nilptr] at h
    simp only [h, if_true, vdepth]; omega
  | .ptr w, n, h => by
    rw [WT_ptr] at h
    simp only [Bool.and_eq_true] at h
    have := WT_depth w (n.withPtr false) h.2
    rw [ndepth_withPtr] at this
    simp only [withPtr_ptr, Bool.false_eq_true, if_false] at this
    simp only [h.1, if_true, vdepth]; omega
  | .struct fs, n, h => by
    cases n with
    | struct i ch =>
      simp only [WT, Bool.and_eq_true, Bool.not_eq_true'] at h
      have := WTs_depth fs ch h.2
      have hp : (Node.struct i ch).ptr = false := h.1
      simp only [hp, Bool.false_eq_true, if_false, vdepth, ndepth]; omega
    | basic i =>
      exfalso
      simp only [WT, Bool.and_eq_true, Bool.not_eq_true'] at h
      cases hk : kindOfName i.typu with
      | none => simp [hk] at h
      | some k => cases k <;> simp [hk, wtScalar] at h
    | _ => simp [WT] at h
  | .map nl ks vs, n, h => by
    cases n with
    | map i k mv =>
      simp only [WT, Bool.and_eq_true, Bool.not_eq_true'] at h
      have h1 := WTall_depth ks k h.1.2
      have h2 := WTall_depth vs mv h.2
      have hp : (Node.map i k mv).ptr = false := h.1.1.1
      simp only [hp, Bool.false_eq_true, if_false, vdepth, ndepth]; omega
    | basic i =>
      exfalso
      simp only [WT, Bool.and_eq_true, Bool.not_eq_true'] at h
      cases hk : kindOfName i.typu with
      | none => simp [hk] at h
      | some k => cases k <;> simp [hk, wtScalar] at h
    | _ => simp [WT] at h
  | .slice nl es c, n, h => by
    cases n with
    | slice i e =>
      simp only [WT, Bool.and_eq_true, Bool.not_eq_true'] at h
      have h1 := WTall_depth es e h.2
      have hp : (Node.slice i e).ptr = false := h.1.1.1
      simp only [hp, Bool.false_eq_true, if_false, vdepth, ndepth]; omega
    | basic i =>
      exfalso
      simp only [WT, Bool.and_eq_true, Bool.not_eq_true'] at h
      cases hk : kindOfName i.typu with
      | none => simp [hk] at h
      | some k => cases k <;> simp [hk, wtScalar] at h
    | _ => simp [WT] at h
  | .bytes _ _ _, n, h => by
    have := ndepth_ge_2 n
    simp only [vdepth]; split <;> omega
  | .bool _, n, h | .int _, n, h | .uint _, n, h | .float _, n, h | .str _, n, h => by
    have := ndepth_ge_2 n
    simp only [vdepth]; split <;> omega
theorem WTs_depth : ∀ (vs : List Val) (ns : List Node), WTs ns vs = true → vdepths vs ≤ ndepths ns
  | [], ns, h => by simp [vdepths]
  | v :: vs, ns, h => by
    cases ns with
    | nil => simp [WTs] at h
    | cons n ns =>
      simp only [WTs, Bool.and_eq_true] at h
      have h1 := WT_depth v n h.1
      have h2 := WTs_depth vs ns h.2
      simp only [vdepths, ndepths]
      split at h1 <;> omega
theorem WTall_depth : ∀ (vs : List Val) (n : Node), WTall n vs = true → vdepths vs ≤ ndepth n
  | [], n, h => by simp [vdepths]
  | v :: vs, n, h => by
    simp only [WTall, Bool.and_eq_true] at h
    have h1 := WT_depth v n h.1
    have h2 := WTall_depth vs n h.2
    simp only [vdepths]
    split at h1 <;> omega
end

theorem WT_vdepth (n : Node) (v : Val) (h : WT n v = true) : vdepth v ≤ ndepth n := by
  have := WT_depth v n h
  split at this <;> omega

end Inspector.C03
