/-
Proofs/C02Deq.lean — C02 for DeepEqual: the repaired model of `writeNodeDEQ` never reaches a `.panic` branch
on two well-typed values of one type.
-/
import InspectorModel.Proofs.C02
import InspectorModel.Gen.DEQ
set_option linter.unusedSimpArgs false
set_option linter.unusedVariables false
namespace Inspector

/-! ### unfolding lemmas (`deqFields` has no generated equation lemmas) -/

theorem deqFields_nil (env : DeqEnv) (chld : List Node) (path : String) (rs : List Val) :
    deqFields env chld path [] rs = .cont := rfl

theorem deqFields_cons (env : DeqEnv) (ch : Node) (chs : List Node) (path : String) (l r : Val) (ls' rs' : List Val) :
    deqFields env (ch :: chs) path (l :: ls') (r :: rs') =
      (match (if ch.isLeaf && ch.ptr && env.cfg.deqPtrLeafNilUnchecked then
          (match l with
           | .ptr lw =>
             (match r with
              | .ptr rw => deqV env ch true true (deqPath path ch false) lw rw
              | _ => .panic)
           | _ => .panic)
        else deqN env ch true false path l r) with
       | .cont => deqFields env chs path ls' rs'
       | x => x) := by
  cases l <;> rfl

/-! ### inversion of well-typedness by the value's constructor -/

def Val.isScalar : Val → Bool
  | .bool _ | .int _ | .uint _ | .float _ | .str _ => true
  | _ => false

theorem wtScalar_isScalar (k : Kind) (v : Val) (h : wtScalar k v = true) : v.isScalar = true := by
  cases k <;> cases v <;> simp_all [wtScalar, Val.isScalar]

theorem WT_basic_val (i : Info) (v : Val) (h : WT (.basic i) v = true) (h1 : v ≠ .nilptr) (h2 : ∀ w, v ≠ .ptr w) :
    v.isScalar = true ∧ i.ptr = false := by
  have hk : ∀ k, wtScalar k v = true → v.isScalar = true := fun k => wtScalar_isScalar k v
  cases v with
  | nilptr => exact absurd rfl h1
  | ptr w => exact absurd rfl (h2 w)
  | _ =>
    simp only [WT, Bool.and_eq_true, Bool.not_eq_true'] at h
    refine ⟨?_, h.1⟩
    have h' := h.2
    split at h'
    · exact hk _ h'
    · cases h'

theorem WT_struct_val (n : Node) (fs : List Val) (h : WT n (.struct fs) = true) :
    ∃ i chld, n = .struct i chld ∧ i.ptr = false ∧ WTs chld fs = true := by
  cases n with
  | basic i => have := (WT_basic_val i _ h (by simp) (by simp)).1; simp [Val.isScalar] at this
  | struct i chld => simp [WT] at h; exact ⟨i, chld, rfl, h.1, h.2⟩
  | _ => simp [WT] at h

theorem WT_map_val (n : Node) (nl : Bool) (ks vs : List Val) (h : WT n (.map nl ks vs) = true) :
    ∃ i k mv, n = .map i k mv ∧ i.ptr = false ∧ ks.length = vs.length ∧ WTall k ks = true ∧ WTall mv vs = true := by
  cases n with
  | basic i => have := (WT_basic_val i _ h (by simp) (by simp)).1; simp [Val.isScalar] at this
  | map i k mv => simp [WT] at h; exact ⟨i, k, mv, rfl, h.1.1.1, h.1.1.2, h.1.2, h.2⟩
  | _ => simp [WT] at h

theorem WT_slice_val (n : Node) (nl : Bool) (es : List Val) (c : Nat) (h : WT n (.slice nl es c) = true) :
    ∃ i e, n = .slice i e ∧ i.ptr = false ∧ (i.typn == "[]byte") = false ∧ WTall e es = true := by
  cases n with
  | basic i => have := (WT_basic_val i _ h (by simp) (by simp)).1; simp [Val.isScalar] at this
  | slice i e => simp [WT] at h; exact ⟨i, e, rfl, h.1.1.1, by simpa using h.1.1.2, h.2⟩
  | _ => simp [WT] at h

theorem WT_scalar_val (n : Node) (v : Val) (hs : v.isScalar = true) (h : WT n v = true) :
    ∃ i, n = .basic i ∧ i.ptr = false := by
  cases n with
  | basic i =>
    refine ⟨i, rfl, ?_⟩
    cases v <;> simp [Val.isScalar] at hs <;> (simp [WT] at h; exact h.1)
  | _ => cases v <;> simp [Val.isScalar] at hs <;> simp [WT] at h

theorem WT_bytes_val (n : Node) (nl : Bool) (d : Bytes) (c : Nat) (h : WT n (.bytes nl d c) = true) :
    n.ptr = false := by
  cases n <;> simp_all [WT, Node.ptr, Node.info]

theorem WTs_cons_inv (chld : List Node) (l : Val) (ls : List Val) (h : WTs chld (l :: ls) = true) :
    ∃ ch chs, chld = ch :: chs ∧ WT ch l = true ∧ WTs chs ls = true := by
  cases chld with
  | nil => simp [WTs] at h
  | cons ch chs => simp only [WTs, Bool.and_eq_true] at h; exact ⟨ch, chs, rfl, h.1, h.2⟩

theorem deqBasic_np (opts : Option DeqOpts) (n : Node) (ps : Bool) (path : String) (l r : Val) :
    deqBasic opts n ps path l r ≠ .panic := by
  have ite_np : ∀ (c : Prop) [Decidable c], (if c then DeqR.retFalse else DeqR.cont) ≠ .panic := by
    intro c _; split <;> simp
  unfold deqBasic
  split
  · exact ite_np _
  · exact ite_np _

/-- `deqV` never looks at the node's own pointer flag. -/
theorem deqV_withPtr (env : DeqEnv) (n : Node) (ps w : Bool) (path : String) (l r : Val) :
    deqV env n ps w path l r = deqV env (n.withPtr false) ps w path l r := by
  cases l <;> cases n <;> simp [deqV, Node.withPtr, deqBasic, isFloatNode, Node.typu, Node.info] <;>
    (cases r <;> simp)

/-- On a non-pointer node holding a non-pointer value, `deqN` is `deqV` under the node's own path. -/
theorem c02_deqN_eq_deqV (env : DeqEnv) (n : Node) (ps d0 : Bool) (pp : String) (l r : Val)
    (hp : n.ptr = false) (hl1 : l ≠ .nilptr) (hl2 : ∀ w, l ≠ .ptr w) :
    deqN env n ps d0 pp l r =
      deqV env n ps (ps && decide ((deqPath pp n d0).length > 0)) (deqPath pp n d0) l r := by
  cases l with
  | nilptr => exact absurd rfl hl1
  | ptr w => exact absurd rfl (hl2 w)
  | _ => simp [deqN, deqV, hp]

mutual
theorem deqV_np (env : DeqEnv) (henv : env.cfg = GenCfg.fixed) (l : Val) :
    ∀ (n : Node) (ps w : Bool) (path : String) (r : Val), n.ptr = false → WT n l = true → WT n r = true →
      deqV env n ps w path l r ≠ .panic := by
  intro n ps w path r hp hl hr
  cases l with
  | nilptr => rw [WT_nilptr, hp] at hl; cases hl
  | ptr lw => rw [WT_ptr, hp] at hl; cases hl
  | bool b =>
    obtain ⟨i, hn, _⟩ := WT_scalar_val n _ rfl hl
    subst hn; simp only [deqV]; exact deqBasic_np _ _ _ _ _ _
  | int b =>
    obtain ⟨i, hn, _⟩ := WT_scalar_val n _ rfl hl
    subst hn; simp only [deqV]; exact deqBasic_np _ _ _ _ _ _
  | uint b =>
    obtain ⟨i, hn, _⟩ := WT_scalar_val n _ rfl hl
    subst hn; simp only [deqV]; exact deqBasic_np _ _ _ _ _ _
  | float b =>
    obtain ⟨i, hn, _⟩ := WT_scalar_val n _ rfl hl
    subst hn; simp only [deqV]; exact deqBasic_np _ _ _ _ _ _
  | str b =>
    obtain ⟨i, hn, _⟩ := WT_scalar_val n _ rfl hl
    subst hn; simp only [deqV]; exact deqBasic_np _ _ _ _ _ _
  | bytes nl d c =>
    simp only [deqV]; split <;> simp
  | struct lfs =>
    obtain ⟨i, chld, hn, hi, hwl⟩ := WT_struct_val n lfs hl
    subst hn
    obtain ⟨rfs, hr', hwr⟩ := WT_struct_inv i chld r hi hr
    subst hr'
    simp only [deqV]
    split
    · simp
    · exact deqFields_np env henv lfs chld path rfs hwl hwr
  | map nl lks lvs =>
    obtain ⟨i, k, mv, hn, hi, hlen, _, hwl⟩ := WT_map_val n nl lks lvs hl
    subst hn
    obtain ⟨nr, rks, rvs, hr', _, _, hwr⟩ := WT_map_inv i k mv r hi hr
    subst hr'
    simp only [deqV]
    split
    · simp
    · split
      · simp
      · exact deqMapVals_np env henv lvs k mv path lks rks rvs hlen hwl hwr
  | slice nl les c =>
    obtain ⟨i, e, hn, hi, hb, hwl⟩ := WT_slice_val n nl les c hl
    subst hn
    obtain ⟨nr, res, cr, hr', hwr⟩ := WT_slice_inv i e r hi hb hr
    subst hr'
    simp only [deqV]
    split
    · simp
    · split
      · simp
      · rename_i hne
        have hlen : les.length = res.length := by simpa using hne
        exact deqElems_np env henv les e path res hlen hwl hwr
termination_by (sizeOf l, 0)

theorem deqN_np (env : DeqEnv) (henv : env.cfg = GenCfg.fixed) (l : Val) :
    ∀ (n : Node) (ps d0 : Bool) (pp : String) (r : Val), WT n l = true → WT n r = true →
      deqN env n ps d0 pp l r ≠ .panic := by
  intro n ps d0 pp r hl hr
  rcases WT_ptr_cases n l hl with ⟨hp, hv⟩ | ⟨hp, h1, h2⟩
  · rcases hv with hv | ⟨lw, hv, hlw⟩
    · subst hv
      simp only [deqN, hp]
      repeat' split
      all_goals simp_all
    · subst hv
      rcases WT_ptr_cases n r hr with ⟨_, hv⟩ | ⟨hp', _, _⟩
      · rcases hv with hv | ⟨rw, hv, hrw⟩
        · subst hv
          simp only [deqN, hp]
          repeat' split
          all_goals simp_all
        · subst hv
          simp only [deqN, hp]
          split
          · simp
          · simp only [Bool.not_true, Bool.false_eq_true, if_false]
            rw [deqV_withPtr]
            exact deqV_np env henv lw (n.withPtr false) _ _ _ rw (by simp) hlw hrw
      · rw [hp] at hp'; cases hp'
  · rw [c02_deqN_eq_deqV env n ps d0 pp l r hp h1 h2]
    exact deqV_np env henv l n _ _ _ r hp hl hr
termination_by (sizeOf l, 1)

theorem deqFields_np (env : DeqEnv) (henv : env.cfg = GenCfg.fixed) (ls : List Val) :
    ∀ (chld : List Node) (path : String) (rs : List Val), WTs chld ls = true → WTs chld rs = true →
      deqFields env chld path ls rs ≠ .panic := by
  intro chld path rs hl hr
  cases ls with
  | nil => rw [deqFields_nil]; simp
  | cons l ls' =>
    obtain ⟨ch, chs, hc, hwl, hwls⟩ := WTs_cons_inv chld l ls' hl
    subst hc
    cases rs with
    | nil => simp [WTs] at hr
    | cons r rs' =>
      simp only [WTs, Bool.and_eq_true] at hr
      rw [deqFields_cons]
      have hcfg : env.cfg.deqPtrLeafNilUnchecked = false := by rw [henv]; rfl
      simp only [hcfg, Bool.and_false, Bool.false_eq_true, if_false]
      have h1 := deqN_np env henv l ch true false path r hwl hr.1
      have h2 := deqFields_np env henv ls' chs path rs' hwls hr.2
      generalize deqN env ch true false path l r = a at h1 ⊢
      cases a with
      | cont => exact h2
      | retFalse => simp
      | panic => exact absurd rfl h1
termination_by (sizeOf ls, 0)

theorem deqMapVals_np (env : DeqEnv) (henv : env.cfg = GenCfg.fixed) (lvs : List Val) :
    ∀ (mk mv : Node) (path : String) (lks rks rvs : List Val), lks.length = lvs.length →
      WTall mv lvs = true → WTall mv rvs = true →
      deqMapVals env mk mv path lks lvs rks rvs ≠ .panic := by
  intro mk mv path lks rks rvs hlen hl hr
  cases lvs with
  | nil => simp [deqMapVals]
  | cons lv lvs' =>
    cases lks with
    | nil => simp at hlen
    | cons lk lks' =>
      simp only [WTall, Bool.and_eq_true] at hl
      simp only [deqMapVals]
      have h2 := deqMapVals_np env henv lvs' mk mv path lks' rks rvs (by simpa using hlen) hl.2 hr
      have key : ∀ (o : Option Val), (∀ rv, o = some rv → WT mv rv = true) →
          (match o with
            | none => DeqR.retFalse
            | some rv =>
              match deqN env mv false false path lv rv with
              | DeqR.cont => deqMapVals env mk mv path lks' lvs' rks rvs
              | x => x) ≠ .panic := by
        intro o ho
        cases o with
        | none => simp
        | some rv =>
          have h1 := deqN_np env henv lv mv false false path rv hl.1 (ho rv rfl)
          simp only []
          generalize deqN env mv false false path lv rv = a at h1 ⊢
          cases a with
          | cont => exact h2
          | retFalse => simp
          | panic => exact absurd rfl h1
      apply key
      intro rv hrv
      split at hrv
      · cases hrv
      · exact lookupKey_WT mv rks rvs lk rv hr hrv
termination_by (sizeOf lvs, 0)

theorem deqElems_np (env : DeqEnv) (henv : env.cfg = GenCfg.fixed) (ls : List Val) :
    ∀ (e : Node) (path : String) (rs : List Val), ls.length = rs.length →
      WTall e ls = true → WTall e rs = true →
      deqElems env e path ls rs ≠ .panic := by
  intro e path rs hlen hl hr
  cases ls with
  | nil => simp [deqElems]
  | cons l ls' =>
    cases rs with
    | nil => simp at hlen
    | cons r rs' =>
      simp only [WTall, Bool.and_eq_true] at hl hr
      simp only [deqElems]
      have h1 := deqN_np env henv l e false false path r hl.1 hr.1
      have h2 := deqElems_np env henv ls' e path rs' (by simpa using hlen) hl.2 hr.2
      generalize deqN env e false false path l r = a at h1 ⊢
      cases a with
      | cont => exact h2
      | retFalse => simp
      | panic => exact absurd rfl h1
termination_by (sizeOf ls, 0)
end

theorem c02_deqM_no_panic (env : DeqEnv) (henv : env.cfg = GenCfg.fixed) (n : Node) (fl fr : Form) (l r : Val)
    (hl : WT n l = true) (hr : WT n r = true) :
    deqM env n fl fr l r ≠ .panic := by
  have h := deqN_np env henv l n false true "" r hl hr
  have hnp : deqNilPtrPtr env.cfg = .f := by rw [henv]; rfl
  unfold deqM
  cases fl <;> cases fr <;> simp only [deqArgOf, hnp] <;> first
    | (simp; done)
    | (generalize deqN env n false true "" l r = a at h ⊢
       cases a <;> first | exact absurd rfl h | simp)

end Inspector
