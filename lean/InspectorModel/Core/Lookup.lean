/-
Core/Lookup.lean — struct field lookup by name, map lookup by key, list indexing.
-/
import InspectorModel.Core.Seg
namespace Inspector

/-- First child whose name equals the segment text, with the field value at the same position. -/
def findField : List Node → List Val → Bytes → Option (Node × Val)
  | n :: ns, v :: vs, name => if strBytes n.name == name then some (n, v) else findField ns vs name
  | _, _, _ => none

/-- Map lookup on the association-list representation (first match). -/
def lookupKey : List Val → List Val → Val → Option Val
  | k :: ks, v :: vs, key => if k == key then some v else lookupKey ks vs key
  | _, _, _ => none

def nth? : List Val → Nat → Option Val
  | [], _ => none
  | v :: _, 0 => some v
  | _ :: vs, n + 1 => nth? vs n

/-- What a handed-out reference denotes: the node describing it and its value. -/
structure Res where
  node : Node
  val : Val
deriving Inhabited

/-- Structural shape of the type a node describes; names are kept for structs only
(mirrors `ShapeOfType` of the harness). -/
def shapeOf : Node → String
  | .basic i => if i.typu == "byte" then "uint8" else i.typu
  | .struct i _ => "S:" ++ i.typn
  | .map _ k v => "M[" ++ (if k.ptr then "*" else "") ++ shapeOf k ++ "]" ++ (if v.ptr then "*" else "") ++ shapeOf v
  | .slice i e =>
      if i.typn == "[]byte" then "Y"
      else if !e.ptr && e.isBasicTyp && (e.typu == "uint8" || e.typu == "byte") then "Y"
      else "L" ++ (if e.ptr then "*" else "") ++ shapeOf e

/-- Observable form of a get result: shape and pointer-stripped value. -/
inductive GetOut
  | none
  | some (shape : String) (v : Val)
  | err
  | panic
deriving Inhabited

def GetOut.beq : GetOut → GetOut → Bool
  | .none, .none => true
  | .some s v, .some s' v' => s == s' && v == v'
  | .err, .err => true
  | .panic, .panic => true
  | _, _ => false
instance : BEq GetOut := ⟨GetOut.beq⟩

def Res.out (r : Res) : GetOut := .some (shapeOf r.node) r.val.strip

end Inspector
