/-
Gen/DEQ.lean — behavioural model of `writeNodeDEQ` (compiler.go:545-665), of the DeepEqual header
(compiler.go:395-405), of `DEQMustCheck` (options.go) and `EqualFloat64` (equal.go).
Mutual recursion, structural in the left value.
-/
import InspectorModel.Gen.Get
namespace Inspector

/-- DEQOptions: `none` = nil options. Precision is in 2⁻²⁰ units (0 = not set). -/
structure DeqOpts where
  precision : Int := 0
  exclude : List String := []
  filter : List String := []
deriving Repr, Inhabited

/-- options.go:14-27. -/
def deqMustCheck (path : String) (opts : Option DeqOpts) : Bool :=
  match opts with
  | none => true
  | some o =>
    if o.exclude.length > 0 then !(o.exclude.contains path)
    else if o.filter.length > 0 then o.filter.contains path
    else true

/-- ⌊10⁻³ · 2²⁰⌋: `math.Abs(a-b) <= 1e-3` on exact multiples of 2⁻²⁰ (DESIGN.md 4.2). -/
def defaultPrecFx : Int := 1048

/-- equal.go:5-11. -/
def equalFloat (a b : Int) (opts : Option DeqOpts) : Bool :=
  let prec := match opts with
    | some o => if o.precision > 0 then o.precision else defaultPrecFx
    | none => defaultPrecFx
  decide ((a - b).natAbs ≤ prec.toNat)

/-- Everything a DeepEqual run is parameterised by. `ident`: the right argument is the very same object
as the left one (pointer-typed map keys are then found; in an independent copy they never are). -/
structure DeqEnv where
  cfg : GenCfg := {}
  opts : Option DeqOpts := none
  ident : Bool := false
deriving Inhabited

inductive DeqR
  | cont      -- nothing decided yet
  | retFalse
  | panic
deriving Repr, DecidableEq, Inhabited

def DeqR.andThen (a : DeqR) (b : Unit → DeqR) : DeqR :=
  match a with
  | .cont => b ()
  | x => x

/-- The dotted path of a node (compiler.go:547-553). -/
def deqPath (path : String) (n : Node) (depth0 : Bool) : String :=
  let path := if path.length > 0 && n.name.length > 0 then path ++ "." else path
  if depth0 then path else path ++ n.name

/-- Plain `!=` on scalars (the emitted `plv != prv`). -/
def scalarNe : Val → Val → Bool
  | .bool a, .bool b => a != b
  | .int a, .int b => a != b
  | .uint a, .uint b => a != b
  | .float a, .float b => a != b
  | .str a, .str b => a != b
  | _, _ => true

def bytesData : Val → Bytes
  | .bytes _ d _ => d
  | _ => []

def isFloatNode (n : Node) : Bool := n.typu == "float32" || n.typu == "float64"

/-- Leaf comparison of a basic node (compiler.go:638-658), values already dereferenced. -/
def deqBasic (opts : Option DeqOpts) (n : Node) (pstruct : Bool) (path : String) (l r : Val) : DeqR :=
  if pstruct then
    let ne := if isFloatNode n then
        (match l, r with | .float a, .float b => !equalFloat a b opts | _, _ => true)
      else scalarNe l r
    if ne && deqMustCheck path opts then .retFalse else .cont
  else
    if scalarNe l r then .retFalse else .cont

mutual
/-- `writeNodeDEQ` for node `n` with left/right values `l`, `r` (pointer level as the node says).
`pstruct`: the parent is a struct; `path`: the parent's dotted path; `depth0`: this is the root. -/
def deqN (env : DeqEnv) (n : Node) (pstruct depth0 : Bool) (ppath : String) (l r : Val) : DeqR :=
  let path := deqPath ppath n depth0
  let wrap := pstruct && path.length > 0
  if wrap && n.ptr && !env.cfg.deqNilBeforeMustCheck && !deqMustCheck path env.opts then .cont else
  match l with
  | .nilptr =>
    if n.ptr then (if r.isNilPtr then .cont else .retFalse) else .panic
  | .ptr lw =>
    if !n.ptr then .panic else
    match r with
    | .nilptr => .retFalse
    | .ptr rw => deqV env n pstruct wrap path lw rw
    | _ => .panic
  | .bool _ | .int _ | .uint _ | .float _ | .str _ =>
    if n.ptr then .panic else
    (match n with
     | .basic _ => deqBasic env.opts n pstruct path l r
     | _ => .panic)
  | .bytes _ ld _ =>
    if n.ptr then .panic else
    if !(ld == bytesData r) && deqMustCheck path env.opts then .retFalse else .cont
  | .struct lfs =>
    if n.ptr then .panic else
    (match n, r with
     | .struct _ chld, .struct rfs =>
       if wrap && !deqMustCheck path env.opts then .cont else deqFields env chld path lfs rfs
     | _, _ => .panic)
  | .map _ lks lvs =>
    if n.ptr then .panic else
    (match n, r with
     | .map _ mk mv, .map _ rks rvs =>
       if wrap && !deqMustCheck path env.opts then .cont
       else if lks.length != rks.length then .retFalse
       else deqMapVals env mk mv path lks lvs rks rvs
     | _, _ => .panic)
  | .slice _ les _ =>
    if n.ptr then .panic else
    (match n, r with
     | .slice _ e, .slice _ res _ =>
       if wrap && !deqMustCheck path env.opts then .cont
       else if les.length != res.length then .retFalse
       else deqElems env e path les res
     | _, _ => .panic)
termination_by structural l

/-- Same as `deqN` after the pointer level has been peeled (`n.ptr` is ignored). -/
def deqV (env : DeqEnv) (n : Node) (pstruct wrap : Bool) (path : String) (l r : Val) : DeqR :=
  match l with
  | .nilptr | .ptr _ => .panic
  | .bool _ | .int _ | .uint _ | .float _ | .str _ =>
    (match n with
     | .basic _ => deqBasic env.opts n pstruct path l r
     | _ => .panic)
  | .bytes _ ld _ =>
    if !(ld == bytesData r) && deqMustCheck path env.opts then .retFalse else .cont
  | .struct lfs =>
    (match n, r with
     | .struct _ chld, .struct rfs =>
       if wrap && !deqMustCheck path env.opts then .cont else deqFields env chld path lfs rfs
     | _, _ => .panic)
  | .map _ lks lvs =>
    (match n, r with
     | .map _ mk mv, .map _ rks rvs =>
       if wrap && !deqMustCheck path env.opts then .cont
       else if lks.length != rks.length then .retFalse
       else deqMapVals env mk mv path lks lvs rks rvs
     | _, _ => .panic)
  | .slice _ les _ =>
    (match n, r with
     | .slice _ e, .slice _ res _ =>
       if wrap && !deqMustCheck path env.opts then .cont
       else if les.length != res.length then .retFalse
       else deqElems env e path les res
     | _, _ => .panic)
termination_by structural l

/-- Children of a struct, in order. For a leaf child (basic or `[]byte`) the emitted nil test of a
pointer node still looks at the *parent's* variables (compiler.go:572-582): nil-ness of a
pointer-to-scalar field is never compared and a nil field is dereferenced. -/
def deqFields (env : DeqEnv) (chld : List Node) (path : String) (ls rs : List Val) : DeqR :=
  match ls with
  | [] => .cont
  | l :: ls' =>
    match chld, rs with
    | ch :: chs, r :: rs' =>
      let here : DeqR :=
        if ch.isLeaf && ch.ptr && env.cfg.deqPtrLeafNilUnchecked then deqLeafDeref env ch path l r
        else deqN env ch true false path l r
      (match here with
       | .cont => deqFields env chs path ls' rs'
       | x => x)
    | _, _ => .panic
termination_by structural ls

/-- What is emitted for a pointer-to-leaf struct field under `deqPtrLeafNilUnchecked`: both sides are
dereferenced without a nil test of their own (split out of `deqFields` so that its unfolding lemma can be stated). -/
def deqLeafDeref (env : DeqEnv) (ch : Node) (path : String) (l r : Val) : DeqR :=
  match l with
  | .ptr lw =>
    (match r with
     | .ptr rw => deqV env ch true true (deqPath path ch false) lw rw
     | _ => .panic)
  | _ => .panic
termination_by structural l

/-- `for k := range l { lx := l[k]; rx, ok := r[k]; if !ok { return false }; … }`. A pointer-typed key of an
independent object is never found in the other map — except the nil pointer, which equals itself. -/
def deqMapVals (env : DeqEnv) (mk mv : Node) (path : String) (lks lvs rks rvs : List Val) : DeqR :=
  match lvs with
  | [] => .cont
  | lv :: lvs' =>
    match lks with
    | lk :: lks' =>
      (match (if mk.ptr && !env.ident && !lk.isNilPtr then none else lookupKey rks rvs lk) with
       | none => .retFalse
       | some rv =>
         match deqN env mv false false path lv rv with
         | .cont => deqMapVals env mk mv path lks' lvs' rks rvs
         | x => x)
    | [] => .panic
termination_by structural lvs

def deqElems (env : DeqEnv) (e : Node) (path : String) (ls rs : List Val) : DeqR :=
  match ls with
  | [] => .cont
  | l :: ls' =>
    match rs with
    | r :: rs' =>
      (match deqN env e false false path l r with
       | .cont => deqElems env e path ls' rs'
       | x => x)
    | [] => .panic
termination_by structural ls
end

/-- DeepEqual's answer. -/
inductive DeqOut
  | t | f | panic
deriving Repr, DecidableEq, Inhabited

/-- What the header leaves in `lx` / `rx`: recognised form with nil or non-nil pointer, or not recognised. -/
inductive DeqArg
  | ok | nilX | unrecognised | panic
deriving Repr, DecidableEq

def deqArgOf : Form → DeqArg
  | .val | .ptr | .ptrptr => .ok
  | .nilPtr | .ptrNilPtr => .nilX
  | .nilPtrPtr => .panic
  | .untypedNil | .foreign => .unrecognised

/-- A nil `**T` argument: `lx, leq = *lp, true` dereferences it in the header (compiler.go:400-401); the
repaired emitter (`nilRootPanics` off) refuses it like an unrecognised argument. -/
def deqNilPtrPtr (cfg : GenCfg) : DeqOut := if cfg.nilRootPanics then .panic else .f

def deqM (env : DeqEnv) (n : Node) (fl fr : Form) (l r : Val) : DeqOut :=
  match deqArgOf fl, deqArgOf fr with
  | .panic, _ => deqNilPtrPtr env.cfg
  | .ok, .panic | .nilX, .panic => deqNilPtrPtr env.cfg
  | .unrecognised, .panic => deqNilPtrPtr env.cfg      -- `*rp` is evaluated before `!leq || !req`
  | .unrecognised, _ | _, .unrecognised => .f
  | .nilX, .nilX => .t
  | .nilX, .ok | .ok, .nilX => .f
  | .ok, .ok =>
    match deqN env n false true "" l r with
    | .cont => .t
    | .retFalse => .f
    | .panic => .panic

end Inspector
