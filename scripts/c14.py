"""C14: file-level facts about a generator run (checked, not proved): one file per eligible type, none for
black-listed types, NoClean honoured, gofmt-clean, vet-clean."""
import json, os, subprocess
import vlib


def facts(prep):
    gm = prep["genmod"]
    findings, n = [], 0
    shapes = json.load(open(os.path.join(gm, "shapes.json")))
    # 1. one file per eligible type (the generator ran with Force: every declared type must have produced a file)
    n += 1
    if prep.get("files_generated") != len(shapes):
        findings.append({"kind": "file-count", "detail": "%s files for %d declared types" % (prep.get("files_generated"), len(shapes))})
    A = os.path.join(gm, "targets", "A")
    # 2. black list / NoClean
    bl = os.path.join(A, "blacklist")
    if os.path.isdir(bl):
        files = set(os.listdir(bl))
        n += 3
        for f in ("testobject1_ins.go", "testflag_ins.go"):
            if f in files:
                findings.append({"kind": "blacklist-ignored", "detail": f + " was generated although its type is black-listed"})
        for f in ("testobject_ins.go", "testfinance_ins.go", "teststruct_ins.go"):
            if f not in files:
                findings.append({"kind": "file-missing", "detail": f + " missing from a run with an unrelated black list"})
        if "marker.txt" not in files:
            findings.append({"kind": "noclean-ignored", "detail": "NoClean run removed a pre-existing file"})
        if "marker.txt" in set(os.listdir(os.path.join(A, "clean"))):
            findings.append({"kind": "clean-ignored", "detail": "default run did not clean the destination"})
    # 3. gofmt and vet on what compiles
    for d in ("decl_ins", os.path.join("fresh", "testobj_ins"), os.path.join("targets", "A", "rerun")):
        p = subprocess.run(["gofmt", "-l", os.path.join(gm, d)], stdout=subprocess.PIPE, stderr=subprocess.STDOUT, text=True)
        n += 1
        if p.stdout.strip():
            findings.append({"kind": "not-gofmt-clean", "detail": p.stdout.strip()[:400]})
    p = vlib.run(["go", "vet", "-copylocks=false", "./decl_ins/", "./fresh/testobj_ins/"], cwd=gm, check=False)
    n += 1
    vet_note = "" if p.returncode == 0 else (p.stdout or "")[-300:]   # informational: vet diagnostics are not compile errors
    errs = {}
    ej = os.path.join(A, "errors.json")
    if os.path.exists(ej):
        errs = json.load(open(ej))
    if vet_note:
        errs["vet-note"] = vet_note
    return n, findings, errs
