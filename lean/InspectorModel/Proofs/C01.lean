/-
Proofs/C01.lean — the repaired get-mode emitter model agrees with native navigation (property C01).
-/
import InspectorModel.Proofs.KeyConv
import InspectorModel.Proofs.WT
namespace Inspector

theorem NodeWFs_mem (chld : List Node) (ch : Node) (h : NodeWFs chld = true) (hm : ch ∈ chld) : NodeWF ch = true := by
  induction chld with
  | nil => cases hm
  | cons c cs ih =>
    simp only [NodeWFs, Bool.and_eq_true] at h
    cases hm with
    | head => exact h.1
    | tail _ hm => exact ih h.2 hm

/-- The snippet chosen for a well-formed basic node is the conversion by its kind, except for `byte`. -/
theorem convSeg_wf (i : Info) (s : Seg) (h : NodeWF (.basic i) = true) :
    ∃ kd, kindOfName i.typu = some kd ∧
      ((i.typn ≠ "byte" ∧ i.typu ≠ "byte" ∧ convSeg i.typn i.typu s = some (convByKind kd s)) ∨
       ((i.typn = "byte" ∨ i.typu = "byte") ∧ ∃ key, convSeg i.typn i.typu s = some (.ok key))) := by
  simp only [NodeWF, Bool.and_eq_true, Bool.or_eq_true, Bool.not_eq_true', beq_iff_eq] at h
  obtain ⟨hk, hb⟩ := h
  cases hkd : kindOfName i.typu with
  | none => simp [hkd] at hk
  | some kd =>
    refine ⟨kd, rfl, ?_⟩
    by_cases hbi : isBuiltinName i.typn = true
    · have heq : i.typn = i.typu := by
        rcases hb with hb | hb
        · rw [hb] at hbi; cases hbi
        · exact hb
      by_cases hbyte : i.typn = "byte"
      · right
        refine ⟨Or.inl hbyte, ?_⟩
        unfold convSeg
        rw [hbyte]
        simp only [convByName]
        cases s.text <;> exact ⟨_, rfl⟩
      · left
        refine ⟨hbyte, heq ▸ hbyte, ?_⟩
        unfold convSeg
        rw [convByName_of_kind i.typn s kd (heq ▸ hkd) hbyte]
    · have hnb : isBuiltinName i.typn = false := by simpa using hbi
      unfold convSeg
      rw [convByName_none_of_not_builtin i.typn s hnb]
      by_cases hbyte : i.typu = "byte"
      · right
        refine ⟨Or.inr hbyte, ?_⟩
        rw [hbyte]
        simp only [convByName]
        cases s.text <;> exact ⟨_, rfl⟩
      · left
        refine ⟨fun hc => (by rw [hc] at hnb; cases hnb), hbyte, ?_⟩
        simp only []
        rw [convByName_of_kind i.typu s kd hkd hbyte]

theorem kindOfName_sint_pos (t : String) (b : Nat) (h : kindOfName t = some (.sint b)) : 0 < b := by
  unfold kindOfName at h
  split at h <;> first | (injection h with h; injection h with h; omega) | cases h | (injection h with h; cases h)

/-- How the emitted key conversion and the property's reading of a key text relate, for a well-formed key node. -/
theorem key_cases (i : Info) (s : Seg) (h : NodeWF (.basic i) = true) :
    specKey (.basic i) s = .unspec ∨
    (specKey (.basic i) s = .perr ∧ convSeg i.typn i.typu s = some .err) ∨
    (specKey (.basic i) s = .never ∧ i.ptr = true ∧
      (convSeg i.typn i.typu s = some .opaque ∨ ∃ key, convSeg i.typn i.typu s = some (.ok key))) ∨
    (∃ key, specKey (.basic i) s = .key key ∧ i.ptr = false ∧ convSeg i.typn i.typu s = some (.ok key)) := by
  obtain ⟨kd, hkd, hc⟩ := convSeg_wf i s h
  rcases hc with ⟨hn1, hn2, hc⟩ | ⟨hbyte, key, hc⟩
  · have hb1 : (i.typn == "byte") = false := by simpa using hn1
    have hb2 : (i.typu == "byte") = false := by simpa using hn2
    rw [hc]
    unfold specKey
    simp only [Node.ptr, Node.info, Node.typu, Node.typn, hkd, hb1, hb2, Bool.or_false, Bool.false_eq_true, if_false]
    cases hp : i.ptr <;> cases kd <;> simp only [convByKind, if_true, if_false, Bool.false_eq_true]
    · -- value bool
      cases s.pb <;> simp
    · rename_i b
      cases hpi : s.pi with
      | none => simp
      | some x =>
        by_cases hr : inRangeS b x = true
        · simp [hr, wrapS_of_inRange b x (kindOfName_sint_pos _ _ hkd) hr]
        · simp [hr]
    · rename_i b
      cases hpu : s.pu with
      | none => simp
      | some x =>
        by_cases hr : inRangeU b x = true
        · simp [hr, wrapU_of_inRange b x hr]
        · simp [hr]
    · cases s.pf <;> simp
    · simp
    · cases s.pb <;> simp
    · cases s.pi <;> simp
    · cases s.pu <;> simp
    · cases s.pf <;> simp
    · simp
  · have htu : i.typu = "byte" := by
      rcases hbyte with hb | hb
      · simp only [NodeWF, Bool.and_eq_true, Bool.or_eq_true, Bool.not_eq_true', beq_iff_eq] at h
        rcases h.2 with h2 | h2
        · rw [hb] at h2; cases h2
        · rw [← h2]; exact hb
      · exact hb
    rw [hc]
    unfold specKey
    simp only [Node.ptr, Node.info, Node.typu, Node.typn, htu, kindOfName]
    cases hp : i.ptr <;> simp

mutual
theorem Val.beq_refl : ∀ (v : Val), Val.beq v v = true
  | .bool _ | .int _ | .uint _ | .float _ | .str _ | .nilptr => by simp [Val.beq]
  | .bytes _ _ _ => by simp [Val.beq]
  | .struct fs => by simp [Val.beq, Val.beqList_refl fs]
  | .map _ ks vs => by simp [Val.beq, Val.beqList_refl ks, Val.beqList_refl vs]
  | .slice _ es _ => by simp [Val.beq, Val.beqList_refl es]
  | .ptr w => by simp [Val.beq, Val.beq_refl w]
theorem Val.beqList_refl : ∀ (vs : List Val), Val.beqList vs vs = true
  | [] => by simp [Val.beqList]
  | v :: vs => by simp [Val.beqList, Val.beq_refl v, Val.beqList_refl vs]
end

theorem GetOut.beq_refl (o : GetOut) : (o == o) = true := by
  cases o <;> simp [BEq.beq, GetOut.beq]
  exact Val.beq_refl _

/-- Behind an absent key everything may answer "nothing". -/
theorem navV_true_none (p : List Seg) : ∀ (n : Node) (v : Val), getAccepts (navV true n v p) .none = true := by
  induction p with
  | nil => intro n v; simp [navV, getAccepts, BEq.beq, GetOut.beq]
  | cons s rest ih =>
    intro n v
    unfold navV
    split
    · rfl
    split
    · rfl
    split
    all_goals first | rfl | skip
    · split
      · exact ih _ _
      · rfl
    · split
      · rfl
      · rfl
      · exact ih _ _
      · split <;> exact ih _ _
    · split
      · rfl
      · split
        · rfl
        · split
          · split
            · exact ih _ _
            · rfl
          · rfl

@[simp] theorem getAccepts_unspec (o : GetOut) : getAccepts .unspec o = true := rfl

theorem getFallThrough_fixed_mid (n : Node) (root : Bool) (v : Val) (b : Option Res) :
    flowOut (getFallThrough GenCfg.fixed n root v false b) = flowOut (.cont b) := by
  unfold getFallThrough
  cases root <;> simp [GenCfg.fixed]

@[simp] theorem isLeaf_struct (i : Info) (c : List Node) : (Node.struct i c).isLeaf = false := rfl
@[simp] theorem isLeaf_map (i : Info) (k v : Node) : (Node.map i k v).isLeaf = false := rfl
@[simp] theorem isLeaf_basic (i : Info) : (Node.basic i).isLeaf = true := rfl
@[simp] theorem isLeaf_slice (i : Info) (e : Node) : (Node.slice i e).isLeaf = (i.typn == "[]byte") := by
  simp [Node.isLeaf, Node.isBasicTyp, Node.isBytes]

theorem flowOut_struct_child (f : Flow) :
    flowOut (match f with | .cont b => .ret b | f => f) = flowOut f := by
  cases f with
  | ret b => rfl
  | cont b => cases b <;> rfl
  | err => rfl
  | panic => rfl

theorem navV_leaf (via : Bool) (ch : Node) (fv : Val) (rest : List Seg) (hl : ch.isLeaf = true) :
    getAccepts (navV via ch fv rest) (Res.mk ch fv).out = true := by
  cases rest with
  | nil => simp [navV, getAccepts, GetOut.beq_refl]
  | cons s r => simp [navV, hl]

/-- Main lemma: at every node, the repaired emitter's answer is one the property accepts for where native
navigation ends. -/
theorem getN_correct (p : List Seg) : ∀ (n : Node) (v : Val) (via root : Bool),
    NodeWF n = true → WT n v = true → (p = [] → root = false) →
    getAccepts (navV via n v p) (flowOut (getN GenCfg.fixed n root v p none)) = true := by
  induction p with
  | nil =>
    intro n v via root hwf hwt hroot
    have hr : root = false := hroot rfl
    subst hr
    cases n with
    | basic i =>
      simp only [navV, getN]
      split
      · rename_i hnil
        simp only [Bool.and_eq_true] at hnil
        cases v <;> simp [Val.isNilPtr] at hnil
        simp [flowOut, getAccepts, Val.strip, Val.isNilPtr, BEq.beq, GetOut.beq]
      · simp [flowOut, getAccepts, GetOut.beq_refl]
    | struct i c => simp [navV, getN, getFallThrough, GenCfg.fixed, flowOut, getAccepts, GetOut.beq_refl]
    | map i k mv => simp [navV, getN, getFallThrough, GenCfg.fixed, flowOut, getAccepts, GetOut.beq_refl]
    | slice i e => simp [navV, getN, getFallThrough, GenCfg.fixed, flowOut, getAccepts, GetOut.beq_refl]
  | cons s rest ih =>
    intro n v via root hwf hwt _
    cases n with
    | basic i => simp [navV, Node.isLeaf, Node.isBasicTyp]
    | struct i chld =>
      by_cases hnil : (i.ptr && v.isNilPtr) = true
      · simp [navV, getN, hnil, Node.isLeaf, Node.isBasicTyp, Node.isBytes, Node.ptr, Node.info, flowOut, getAccepts, BEq.beq, GetOut.beq]
      · have hnil' : (i.ptr && v.isNilPtr) = false := by simpa using hnil
        have hw := WT_deref _ _ hwt (by simpa [Node.ptr, Node.info] using hnil')
        rw [withPtr_struct] at hw
        obtain ⟨fs, hfs, hwts⟩ := WT_struct_inv _ _ _ rfl hw
        simp only [Node.ptr, Node.info] at hfs
        have hfs' : targetOf i.ptr v = Val.struct fs := hfs
        simp only [navV, getN, hnil', isLeaf_struct, Node.ptr, Node.info, hfs, hfs', Bool.false_eq_true, if_false]
        cases hff : findField chld fs s.text with
        | none =>
          simp only [getFallThrough_fixed_mid]
          simp [flowOut, getAccepts, BEq.beq, GetOut.beq]
        | some cf =>
          obtain ⟨ch, fv⟩ := cf
          obtain ⟨hwtc, hmem⟩ := findField_WT _ _ _ _ _ hwts hff
          have hwfc : NodeWF ch = true := NodeWFs_mem _ _ (by simpa [NodeWF] using hwf) hmem
          simp only []
          by_cases hl : ch.isLeaf = true
          · simp only [hl, if_true, flowOut]
            exact navV_leaf via ch fv rest hl
          · simp only [hl, Bool.false_eq_true, if_false]
            have h := ih ch fv via false hwfc hwtc (fun _ => rfl)
            generalize getN GenCfg.fixed ch false fv rest none = f at h ⊢
            cases f with
            | cont b => cases b <;> exact h
            | _ => exact h
    | map i k mv =>
      by_cases hnil : (i.ptr && v.isNilPtr) = true
      · simp [navV, getN, hnil, Node.ptr, Node.info, flowOut, getAccepts, BEq.beq, GetOut.beq]
      · have hnil' : (i.ptr && v.isNilPtr) = false := by simpa using hnil
        have hw := WT_deref _ _ hwt (by simpa [Node.ptr, Node.info] using hnil')
        rw [withPtr_map] at hw
        obtain ⟨nl, ks, vs, hm, _, _, hwtv⟩ := WT_map_inv { i with ptr := false } k mv _ rfl hw
        simp only [Node.ptr, Node.info] at hm
        have hm' : targetOf i.ptr v = Val.map nl ks vs := hm
        simp only [NodeWF, Bool.and_eq_true] at hwf
        obtain ⟨⟨hkb, hwfk⟩, hwfm⟩ := hwf
        cases k with
        | basic ki =>
          simp only [navV, getN, hnil', isLeaf_map, Node.ptr, Node.info, Node.typn, Node.typu, hm, hm', Bool.false_eq_true, if_false]
          have nested : ∀ (x : Val) (via' : Bool), WT mv x = true →
              getAccepts (navV via' mv x rest)
                (flowOut (match getN GenCfg.fixed mv false x rest none with
                  | Flow.cont b => getFallThrough GenCfg.fixed (Node.map i (Node.basic ki) mv) root v false b
                  | f => f)) = true := by
            intro x via' hx
            have h := ih mv x via' false hwfm hx (fun _ => rfl)
            generalize getN GenCfg.fixed mv false x rest none = f at h ⊢
            cases f with
            | cont b =>
              simp only []
              rw [getFallThrough_fixed_mid]
              exact h
            | _ => exact h
          have hz : WT mv (zeroVal mv) = true := WT_zeroVal mv hwfm
          have hnone : ∀ r, getAccepts r .none = true →
              getAccepts r (flowOut (getFallThrough GenCfg.fixed (Node.map i (Node.basic ki) mv) root v false none)) = true := by
            intro r hr
            rw [getFallThrough_fixed_mid]
            exact hr
          by_cases hstr : (ki.typn == "string") = true
          · have htn : ki.typn = "string" := by simpa using hstr
            have htu : ki.typu = "string" := by
              simp only [NodeWF, Bool.and_eq_true, Bool.or_eq_true, Bool.not_eq_true', beq_iff_eq] at hwfk
              rcases hwfk.2 with h2 | h2
              · rw [htn] at h2; cases h2
              · rw [← h2]; exact htn
            simp only [hstr, if_true]
            by_cases hp : ki.ptr = true
            · have hk : specKey (Node.basic ki) s = .never := by
                unfold specKey
                simp [Node.ptr, Node.info, Node.typu, hp, htu, kindOfName]
              rw [hk]
              simp only [hp, if_true]
              exact hnone _ (navV_true_none rest mv (zeroVal mv))
            · have hk : specKey (Node.basic ki) s = .key (.str s.text) := by
                unfold specKey
                simp [Node.ptr, Node.info, Node.typu, hp, htu, kindOfName]
              rw [hk]
              simp only [hp, Bool.false_eq_true, if_false]
              cases hl : lookupKey ks vs (.str s.text) with
              | some x => exact nested x via (lookupKey_WT mv ks vs _ x hwtv hl)
              | none => exact hnone _ (navV_true_none rest mv (zeroVal mv))
          · have hstr' : (ki.typn == "string") = false := by simpa using hstr
            simp only [hstr', Bool.false_eq_true, if_false]
            rcases key_cases ki s hwfk with hk | ⟨hk, hc⟩ | ⟨hk, hp, hc⟩ | ⟨key, hk, hp, hc⟩
            · rw [hk]; rfl
            · rw [hk, hc]; simp [flowOut, getAccepts, BEq.beq, GetOut.beq]
            · rw [hk]
              rcases hc with hc | ⟨key, hc⟩
              · rw [hc]; exact nested _ true hz
              · rw [hc]; simp only [hp, if_true]; exact nested _ true hz
            · rw [hk, hc]
              simp only [hp, Bool.false_eq_true, if_false]
              cases hl : lookupKey ks vs key with
              | some x => exact nested x via (lookupKey_WT mv ks vs key x hwtv hl)
              | none => exact nested _ true hz
        | _ => simp [Node.isBasicTyp] at hkb
    | slice i e =>
      by_cases hb : (i.typn == "[]byte") = true
      · simp [navV, hb]
      · have hb' : (i.typn == "[]byte") = false := by simpa using hb
        have hbn : ¬ i.typn = "[]byte" := by simpa using hb
        by_cases hnil : (i.ptr && v.isNilPtr) = true
        · simp [navV, getN, hnil, hbn, Node.ptr, Node.info, flowOut, getAccepts, BEq.beq, GetOut.beq]
        · have hnil' : (i.ptr && v.isNilPtr) = false := by simpa using hnil
          have hw := WT_deref _ _ hwt (by simpa [Node.ptr, Node.info] using hnil')
          rw [withPtr_slice] at hw
          obtain ⟨nl, es, c, hes, hwte⟩ := WT_slice_inv { i with ptr := false } e _ rfl hb' hw
          simp only [Node.ptr, Node.info] at hes
          have hes' : targetOf i.ptr v = Val.slice nl es c := hes
          have hwfe : NodeWF e = true := by simpa [NodeWF] using hwf
          simp only [navV, getN, hnil', hb', isLeaf_slice, Node.ptr, Node.info, hes, hes', Bool.false_eq_true, if_false]
          cases hpi : s.pi with
          | none => simp [flowOut, getAccepts, BEq.beq, GetOut.beq]
          | some idx =>
            simp only []
            by_cases hlt : (es.length : Int) > idx
            · by_cases hneg : idx < 0
              · have hn : ¬ (0 ≤ idx ∧ idx < (es.length : Int)) := by omega
                rw [if_neg hn, if_pos hlt, if_pos hneg]
                have hcfg : GenCfg.fixed.negIndexPanics = false := rfl
                simp only [hcfg, Bool.false_eq_true, if_false]
                rw [getFallThrough_fixed_mid]
                simp [flowOut, getAccepts, BEq.beq, GetOut.beq]
              · have hp : (0 ≤ idx ∧ idx < (es.length : Int)) := by omega
                obtain ⟨x, hx⟩ := nth?_some_of_lt es idx.toNat (by omega)
                have hwtx := nth?_WT e es _ x hwte hx
                rw [if_pos hp, if_pos hlt, if_neg hneg]
                simp only [hx]
                have h := ih e x via false hwfe hwtx (fun _ => rfl)
                generalize getN GenCfg.fixed e false x rest none = f at h ⊢
                cases f with
                | cont b =>
                  simp only []
                  rw [getFallThrough_fixed_mid]
                  exact h
                | _ => exact h
            · have hn : ¬ (0 ≤ idx ∧ idx < (es.length : Int)) := by omega
              rw [if_neg hn, if_neg hlt]
              rw [getFallThrough_fixed_mid]
              simp [flowOut, getAccepts, BEq.beq, GetOut.beq]

end Inspector
