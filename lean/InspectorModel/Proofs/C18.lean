/-
Proofs/C18.lean — helper lemmas for C18: the repaired model of the map[string]any inspector follows key paths.

The model represents a Go map as an association list and a leaf as a `Src` (kind + value). Two representation
invariants are needed by the theorems and are made explicit as decidable predicates:
* `JMapsOK`   : every map has as many values as keys, pairwise distinct keys, and a nil map has no entries;
* `JLeavesOK` : a leaf's value agrees with its dynamic kind (a `.str` value has a text kind, a `.bytes` value has kind `[]byte`).
-/
import InspectorModel.Proofs.C04
import InspectorModel.Spec.StrAnyMapSpec
set_option linter.unusedSimpArgs false
set_option linter.unusedVariables false
namespace Inspector.C18

/-! ### Well-formedness predicates (decidable; the driver can evaluate them on every tree) -/

def keysNodup : List Bytes → Bool
  | [] => true
  | k :: ks => !ks.contains k && keysNodup ks

mutual
def JMapsOK : JVal → Bool
  | .map _ _ mapNil ks vs => ks.length == vs.length && keysNodup ks && (!mapNil || ks.isEmpty) && JMapsOKs vs
  | _ => true
def JMapsOKs : List JVal → Bool
  | [] => true
  | v :: vs => JMapsOK v && JMapsOKs vs
end

def leafOK (s : Src) : Bool :=
  match s.v with
  | .str _ => s.kind.family == .text
  | .bytes _ _ _ => s.kind == .bytes
  | _ => true

mutual
def JLeavesOK : JVal → Bool
  | .leaf s => leafOK s
  | .map _ _ _ _ vs => JLeavesOKs vs
  | _ => true
def JLeavesOKs : List JVal → Bool
  | [] => true
  | v :: vs => JLeavesOK v && JLeavesOKs vs
end

def JWF (j : JVal) : Bool := JMapsOK j && JLeavesOK j

mutual
/-- Representation of a nil `*map[string]any` / `**map[string]any`: the node of a nil pointer is a nil map
(`mapNil = true`; with `JMapsOK`, without entries). Needed where the repaired inspector goes on past a nil
pointer (Set). -/
def JNilPtrsOK : JVal → Bool
  | .map _ nilAt mapNil _ vs => (nilAt == 0 || mapNil) && JNilPtrsOKs vs
  | _ => true
def JNilPtrsOKs : List JVal → Bool
  | [] => true
  | v :: vs => JNilPtrsOK v && JNilPtrsOKs vs
end

mutual
/-- A nil pointer to a map somewhere in the tree. -/
def jHasNilMap : JVal → Bool
  | .map _ n _ _ vs => n != 0 || jHasNilMapList vs
  | _ => false
def jHasNilMapList : List JVal → Bool
  | [] => false
  | v :: vs => jHasNilMap v || jHasNilMapList vs
end

/-! ### Association lists -/

theorem lookup_mem_pred (P : JVal → Bool) (Ps : List JVal → Bool)
    (hnil : Ps [] = true) (hcons : ∀ v vs, Ps (v :: vs) = (P v && Ps vs)) :
    ∀ (ks : List Bytes) (vs : List JVal) (k : Bytes) (x : JVal),
      JVal.lookup ks vs k = some x → Ps vs = true → P x = true
  | [], _, _, _, h, _ => by simp [JVal.lookup] at h
  | _ :: _, [], _, _, h, _ => by simp [JVal.lookup] at h
  | k0 :: ks, v :: vs, k, x, h, hp => by
    rw [hcons, Bool.and_eq_true] at hp
    simp only [JVal.lookup] at h
    by_cases hk : (k0 == k) = true
    · simp only [hk, if_true] at h; injection h with h; rw [← h]; exact hp.1
    · simp only [hk, if_false, Bool.false_eq_true] at h
      exact lookup_mem_pred P Ps hnil hcons ks vs k x h hp.2

theorem lookup_JMapsOK (ks : List Bytes) (vs : List JVal) (k : Bytes) (x : JVal)
    (h : JVal.lookup ks vs k = some x) (hp : JMapsOKs vs = true) : JMapsOK x = true :=
  lookup_mem_pred JMapsOK JMapsOKs (by simp [JMapsOKs]) (by intro v vs; simp [JMapsOKs]) ks vs k x h hp

theorem lookup_JLeavesOK (ks : List Bytes) (vs : List JVal) (k : Bytes) (x : JVal)
    (h : JVal.lookup ks vs k = some x) (hp : JLeavesOKs vs = true) : JLeavesOK x = true :=
  lookup_mem_pred JLeavesOK JLeavesOKs (by simp [JLeavesOKs]) (by intro v vs; simp [JLeavesOKs]) ks vs k x h hp

/-- Along the path, the node of a nil pointer to a map is a nil map (what Set needs of `JNilPtrsOK`). -/
def pathNilOK : JVal → List Bytes → Bool
  | _, [] => true
  | .map _ nilAt mapNil ks vs, k :: rest =>
    (nilAt == 0 || mapNil) && (match JVal.lookup ks vs k with | some x => pathNilOK x rest | none => true)
  | _, _ :: _ => true

theorem lookup_JNilPtrsOK (ks : List Bytes) (vs : List JVal) (k : Bytes) (x : JVal)
    (h : JVal.lookup ks vs k = some x) (hp : JNilPtrsOKs vs = true) : JNilPtrsOK x = true :=
  lookup_mem_pred JNilPtrsOK JNilPtrsOKs (by simp [JNilPtrsOKs]) (by intro v vs; simp [JNilPtrsOKs]) ks vs k x h hp

theorem JMapsOK_map (h n : Nat) (mn : Bool) (ks : List Bytes) (vs : List JVal) (hw : JMapsOK (.map h n mn ks vs) = true) :
    ks.length = vs.length ∧ keysNodup ks = true ∧ (mn = true → ks = []) ∧ JMapsOKs vs = true := by
  simp only [JMapsOK, Bool.and_eq_true, Bool.or_eq_true, Bool.not_eq_true', beq_iff_eq] at hw
  refine ⟨hw.1.1.1, hw.1.1.2, ?_, hw.2⟩
  intro hm
  rcases hw.1.2 with h | h
  · rw [hm] at h; cases h
  · simpa using h

/-- A key that does not occur is not found. -/
theorem lookup_not_contains : ∀ (ks : List Bytes) (vs : List JVal) (k : Bytes),
    ks.contains k = false → JVal.lookup ks vs k = none
  | [], _, _, _ => by simp [JVal.lookup]
  | _ :: _, [], _, _ => by simp [JVal.lookup]
  | k0 :: ks, v :: vs, k, h => by
    simp only [List.contains_cons, Bool.or_eq_false_iff] at h
    have hk : (k0 == k) = false := by
      have := h.1
      cases hc : (k0 == k)
      · rfl
      · have e : k0 = k := by simpa using hc
        subst e; simp at this
    simp only [JVal.lookup, hk, Bool.false_eq_true, if_false]
    exact lookup_not_contains ks vs k h.2

/-- With distinct keys, looking up the key at some position finds the value at that position
(`pk`, `pv`: the entries before it). -/
theorem lookup_at : ∀ (pk : List Bytes) (pv : List JVal) (k : Bytes) (v : JVal) (ks : List Bytes) (vs : List JVal),
    pk.length = pv.length → pk.contains k = false →
    JVal.lookup (pk ++ k :: ks) (pv ++ v :: vs) k = some v
  | [], [], k, v, ks, vs, _, _ => by simp [JVal.lookup]
  | [], _ :: _, _, _, _, _, h, _ => by simp at h
  | _ :: _, [], _, _, _, _, h, _ => by simp at h
  | k0 :: pk, v0 :: pv, k, v, ks, vs, hl, hc => by
    simp only [List.contains_cons, Bool.or_eq_false_iff] at hc
    have hk : (k0 == k) = false := by
      cases hc' : (k0 == k)
      · rfl
      · have e : k0 = k := by simpa using hc'
        subst e; simp at hc
    simp only [List.cons_append, JVal.lookup, hk, Bool.false_eq_true, if_false]
    exact lookup_at pk pv k v ks vs (by simpa using hl) hc.2

theorem keysNodup_append_cons : ∀ (pk : List Bytes) (k : Bytes) (ks : List Bytes),
    keysNodup (pk ++ k :: ks) = true → pk.contains k = false ∧ ks.contains k = false
  | [], k, ks, h => by
    simp only [List.nil_append, keysNodup, Bool.and_eq_true, Bool.not_eq_true'] at h
    exact ⟨rfl, h.1⟩
  | k0 :: pk, k, ks, h => by
    simp only [List.cons_append, keysNodup, Bool.and_eq_true, Bool.not_eq_true'] at h
    obtain ⟨h1, h2⟩ := keysNodup_append_cons pk k ks h.2
    refine ⟨?_, h2⟩
    simp only [List.contains_cons, Bool.or_eq_false_iff]
    refine ⟨?_, h1⟩
    cases hc : (k == k0)
    · rfl
    · have e : k = k0 := by simpa using hc
      subst e
      have := h.1
      simp at this

/-! ### Reflexivity of the tree comparison -/

theorem valContentEq_refl (v : Val) : valContentEq v v = true := by
  cases v <;> simp [valContentEq, Val.beq_refl] <;> exact Val.beq_refl _

theorem srcEq_refl (s : Src) : srcEq s s = true := by
  simp [srcEq, valContentEq_refl]

/-- Entry-wise comparison against a list that carries, at the same positions, values related by `jeq`. -/
theorem jeqEntries_pointwise : ∀ (ks : List Bytes) (vs vs' : List JVal) (pk : List Bytes) (pv' : List JVal),
    pk.length = pv'.length → keysNodup (pk ++ ks) = true → vs.length = vs'.length →
    (∀ (i : Nat) (a b : JVal), vs[i]? = some a → vs'[i]? = some b → jeq a b = true) →
    jeqEntries ks vs (pk ++ ks) (pv' ++ vs') = true
  | [], _, _, _, _, _, _, _, _ => by simp [jeqEntries]
  | _ :: _, [], _, _, _, _, _, _, _ => by simp [jeqEntries]
  | k :: ks, v :: vs, [], _, _, _, _, hl, _ => by simp at hl
  | k :: ks, v :: vs, v' :: vs', pk, pv', hl, hn, hlv, hp => by
    have hc := (keysNodup_append_cons pk k ks hn).1
    simp only [jeqEntries, lookup_at pk pv' k v' ks vs' hl hc, Bool.and_eq_true]
    refine ⟨hp 0 v v' rfl rfl, ?_⟩
    have := jeqEntries_pointwise ks vs vs' (pk ++ [k]) (pv' ++ [v']) (by simp [hl])
      (by simpa using hn) (by simpa using hlv) (fun i a b ha hb => hp (i + 1) a b (by simpa using ha) (by simpa using hb))
    simpa using this

mutual
theorem jeq_refl : ∀ (j : JVal), JMapsOK j = true → jeq j j = true
  | .nil, _ => by simp [jeq]
  | .other, _ => by simp [jeq]
  | .leaf s, _ => by simp [jeq, srcEq_refl]
  | .map h n mn ks vs, hw => by
    obtain ⟨hl, hn, _, hvs⟩ := JMapsOK_map h n mn ks vs hw
    have hp := jeqAll_refl vs hvs
    simp only [jeq, beq_self_eq_true, Bool.true_and]
    exact jeqEntries_pointwise ks vs vs [] [] rfl hn rfl
      (fun i a b ha hb => by rw [ha] at hb; injection hb with hb; subst hb; exact hp i a ha)
theorem jeqAll_refl : ∀ (vs : List JVal), JMapsOKs vs = true → ∀ (i : Nat) (a : JVal), vs[i]? = some a → jeq a a = true
  | [], _, i, a, h => by simp at h
  | v :: vs, hw, 0, a, h => by
    simp only [JMapsOKs, Bool.and_eq_true] at hw
    simp at h; subst h; exact jeq_refl v hw.1
  | v :: vs, hw, i + 1, a, h => by
    simp only [JMapsOKs, Bool.and_eq_true] at hw
    exact jeqAll_refl vs hw.2 i a (by simpa using h)
end

/-! ### Navigation: the model's descent is the spec's `jnav` -/

/-- With the nil-pointer switch on, Get is the spec's navigation (`.unspec` is the panic). -/
theorem samapGet_eq_jnav (cfg : LibCfg) (hc : cfg.samapNilPtrPanics = true) : ∀ (p : List Bytes) (j : JVal),
    samapGet cfg j p = (match jnav j p with
      | .found x => .node x | .absent => .none | .nonMap => .unsupported | .unspec => .panic)
  | [], j => by simp [samapGet, jnav]
  | k :: rest, j => by
    cases j with
    | map h n mn ks vs =>
      simp only [samapGet, jnav, hc, Bool.and_true]
      by_cases hn : (n != 0) = true
      · simp only [hn, if_true]
      · simp only [hn, if_false, Bool.false_eq_true]
        cases hl : JVal.lookup ks vs k with
        | none => rfl
        | some x => exact samapGet_eq_jnav cfg hc rest x
    | _ => simp [samapGet, jnav]

/-- Whatever the switch: off the nil pointers, Get is the spec's navigation. -/
theorem samapGet_jnav (cfg : LibCfg) : ∀ (p : List Bytes) (j : JVal),
    (match jnav j p with
      | .found x => samapGet cfg j p = .node x
      | .absent => samapGet cfg j p = .none
      | .nonMap => samapGet cfg j p = .unsupported
      | .unspec => True)
  | [], j => by simp [samapGet, jnav]
  | k :: rest, j => by
    cases j with
    | map h n mn ks vs =>
      simp only [samapGet, jnav]
      by_cases hn : (n != 0) = true
      · simp only [hn, if_true]
      · simp only [hn, if_false, Bool.false_eq_true, Bool.false_and]
        cases hl : JVal.lookup ks vs k with
        | none => rfl
        | some x => exact samapGet_jnav cfg rest x
    | _ => simp [samapGet, jnav]

/-- C02: with the switch off Get never panics. -/
theorem samapGet_no_panic (cfg : LibCfg) (hc : cfg.samapNilPtrPanics = false) : ∀ (p : List Bytes) (j : JVal),
    samapGet cfg j p ≠ .panic
  | [], j => by simp [samapGet]
  | k :: rest, j => by
    cases j with
    | map h n mn ks vs =>
      simp only [samapGet, hc, Bool.and_false, Bool.false_eq_true, if_false]
      cases hl : JVal.lookup ks vs k with
      | none => simp
      | some x => exact samapGet_no_panic cfg hc rest x
    | _ => simp [samapGet]

theorem jnav_found_pred (P : JVal → Bool) (Ps : List JVal → Bool)
    (hnil : Ps [] = true) (hcons : ∀ v vs, Ps (v :: vs) = (P v && Ps vs))
    (hmap : ∀ h n mn ks vs, P (.map h n mn ks vs) = true → Ps vs = true) :
    ∀ (p : List Bytes) (j x : JVal), jnav j p = .found x → P j = true → P x = true
  | [], j, x, h, hp => by simp [jnav] at h; subst h; exact hp
  | k :: rest, j, x, h, hp => by
    cases j with
    | map hh n mn ks vs =>
      simp only [jnav] at h
      by_cases hn : (n != 0) = true
      · simp [hn] at h
      · simp only [hn, if_false, Bool.false_eq_true] at h
        cases hl : JVal.lookup ks vs k with
        | none => simp [hl] at h
        | some y =>
          simp only [hl] at h
          exact jnav_found_pred P Ps hnil hcons hmap rest y x h
            (lookup_mem_pred P Ps hnil hcons ks vs k y hl (hmap _ _ _ _ _ hp))
    | _ => simp [jnav] at h

theorem jnav_JMapsOK (p : List Bytes) (j x : JVal) (h : jnav j p = .found x) (hw : JMapsOK j = true) : JMapsOK x = true :=
  jnav_found_pred JMapsOK JMapsOKs (by simp [JMapsOKs]) (by intro v vs; simp [JMapsOKs])
    (fun h n mn ks vs hp => (JMapsOK_map h n mn ks vs hp).2.2.2) p j x h hw

theorem jnav_JLeavesOK (p : List Bytes) (j x : JVal) (h : jnav j p = .found x) (hw : JLeavesOK j = true) : JLeavesOK x = true :=
  jnav_found_pred JLeavesOK JLeavesOKs (by simp [JLeavesOKs]) (by intro v vs; simp [JLeavesOKs])
    (fun h n mn ks vs hp => by simpa [JLeavesOK] using hp) p j x h hw

/-! ### Leaf comparison: StaticInspector.Compare (repaired) computes the native comparison -/

theorem valLt_of_valEq (l r : Val) (eq : Bool) (hr : (valLt r r).isSome = true) (h : valEq l r = some eq) :
    ∃ lt gt, valLt l r = some lt ∧ valLt r l = some gt := by
  cases l <;> cases r <;> simp [valEq, valLt] at h hr ⊢

theorem staticCmpSix_native (op : Op) (l r : Val) (b : Bool) (hr : (valLt r r).isSome = true)
    (h : nativeCmp op l r = some b) : staticCmpSix op l r = b := by
  unfold nativeCmp at h
  cases he : valEq l r with
  | none => simp [he] at h
  | some eq =>
    obtain ⟨lt, gt, hlt, hgt⟩ := valLt_of_valEq l r eq hr he
    obtain ⟨t1, t2⟩ := val_tri l r eq lt gt he hlt hgt
    simp only [he, hlt, hgt] at h
    unfold staticCmpSix staticCmpSix.nativeCmpRaw
    simp only [he, hlt, hgt]
    by_cases h1 : (op == 1) = true
    · simp only [h1, if_true] at h ⊢; injection h
    · simp only [h1, if_false, Bool.false_eq_true] at h ⊢
      by_cases h2 : (op == 2) = true
      · simp only [h2, if_true] at h ⊢; injection h
      · simp only [h2, if_false, Bool.false_eq_true] at h ⊢
        by_cases h3 : (op == 3) = true
        · simp only [h3, if_true] at h ⊢; injection h
        · simp only [h3, if_false, Bool.false_eq_true] at h ⊢
          by_cases h4 : (op == 4) = true
          · simp only [h4, if_true] at h ⊢; injection h with h; rw [← h, t1]
          · simp only [h4, if_false, Bool.false_eq_true] at h ⊢
            by_cases h5 : (op == 5) = true
            · simp only [h5, if_true] at h ⊢; injection h
            · simp only [h5, if_false, Bool.false_eq_true] at h ⊢
              by_cases h6 : (op == 6) = true
              · simp only [h6, if_true] at h ⊢; injection h with h; rw [← h, t2]
              · simp only [h6, if_false, Bool.false_eq_true] at h ⊢
                cases h

theorem staticCmpTwo_native (op : Op) (l r : Val) (b : Bool) (hop : (op == 1 || op == 2) = true)
    (h : nativeCmp op l r = some b) : staticCmpTwo op l r = b := by
  unfold nativeCmp at h
  unfold staticCmpTwo
  cases he : valEq l r with
  | none => simp [he] at h
  | some eq =>
    simp only [he] at h ⊢
    by_cases h1 : (op == 1) = true
    · simp only [h1, if_true] at h ⊢; injection h
    · simp only [h1, if_false, Bool.false_eq_true] at h ⊢
      by_cases h2 : (op == 2) = true
      · simp only [h2, if_true] at h ⊢; injection h
      · simp [h1, h2] at hop

/-- What the spec demands of a `.set` outcome computed by the six-way helper. -/
theorem set_six_ok (op : Op) (l r : Val) (opOk : Bool) (hr : (valLt r r).isSome = true) :
    (if !opOk then CmpOut.set (staticCmpSix op l r) != .panic else
      match nativeCmp op l r with
      | some b => CmpOut.set (staticCmpSix op l r) == .set b
      | none => CmpOut.set (staticCmpSix op l r) != .panic) = true := by
  cases opOk
  · rfl
  · simp only [Bool.not_true, Bool.false_eq_true, if_false]
    cases h : nativeCmp op l r with
    | none => rfl
    | some b => rw [staticCmpSix_native op l r b hr h]; exact CmpOut.beq_refl _

theorem set_two_ok (op : Op) (l r : Val) :
    (if !(op == 1 || op == 2) then CmpOut.set (staticCmpTwo op l r) != .panic else
      match nativeCmp op l r with
      | some b => CmpOut.set (staticCmpTwo op l r) == .set b
      | none => CmpOut.set (staticCmpTwo op l r) != .panic) = true := by
  cases hop : (op == 1 || op == 2)
  · rfl
  · simp only [Bool.not_true, Bool.false_eq_true, if_false]
    cases h : nativeCmp op l r with
    | none => rfl
    | some b => rw [staticCmpTwo_native op l r b hop h]; exact CmpOut.beq_refl _

/-- C16's Compare statement, as far as C18 needs it: for every operand the repaired static comparison is accepted. -/
theorem staticCmp_correct (s : Src) (op : Op) (right : Seg) :
    staticCmpAccepts s op right (staticCmp LibCfg.fixed s op right) = true := by
  obtain ⟨kind, isPtr, v, ft, pf⟩ := s
  unfold staticCmpAccepts staticCmp
  by_cases hnil : v.isNilPtr = true
  · cases kind <;> simp [hnil]
  · have hnil' : v.isNilPtr = false := by simpa using hnil
    cases kind <;>
      simp only [DynKind.family, hnil', LibCfg.fixed, Bool.false_eq_true, if_false, beq_self_eq_true, if_true,
        Bool.or_false, Bool.false_or, Bool.or_true, Bool.true_or, reduceCtorEq, beq_iff_eq,
        show ((DynKind.bool == DynKind.foreign) = false) from rfl]
    all_goals first
      | exact set_six_ok op _ _ _ rfl
      | exact set_two_ok op _ _
      | (cases right.pi <;> first | rfl | exact set_six_ok op _ _ _ rfl)
      | (cases right.pu <;> first | rfl | exact set_six_ok op _ _ _ rfl)
      | (cases right.pb <;> first | rfl | exact set_two_ok op _ _)
      | (cases right.pf <;> first | rfl | exact set_six_ok op _ _ _ rfl)

/-! ### Length / Capacity -/

theorem JLc.beq_refl (o : JLc) : (o == o) = true := by simp

theorem lcAccepts_step (isCap : Bool) (h n : Nat) (mn : Bool) (ks : List Bytes) (vs : List JVal) (k : Bytes)
    (rest : List Bytes) (x : JVal) (o : JLc) (hn : (n != 0) = false) (hl : JVal.lookup ks vs k = some x) :
    samapLcAccepts isCap (.map h n mn ks vs) (k :: rest) o = samapLcAccepts isCap x rest o := by
  unfold samapLcAccepts
  simp only [jnav, hn, hl, Bool.false_eq_true, if_false]

theorem samapLen_ok (cfg : LibCfg) : ∀ (p : List Bytes) (j : JVal), JLeavesOK j = true →
    samapLcAccepts false j p (samapLen cfg j p) = true
  | [], j, hw => by
    unfold samapLcAccepts samapLen
    simp only [jnav]
    cases j with
    | map h n mn ks vs =>
      simp only []
      cases hn : (n != 0) <;> simp
    | leaf s =>
      simp only [JLeavesOK, leafOK] at hw
      simp only []
      cases hv : s.v <;> simp only [hv] at hw <;>
        cases hf : (s.kind.family == Family.text) <;>
        simp [Val.isNilPtr, elemText, hf] at hw ⊢
      case bytes.false a b c =>
        rw [hw] at hf; simp [DynKind.family] at hf
    | nil => simp
    | other => simp
  | k :: rest, j, hw => by
    cases j with
    | map h n mn ks vs =>
      cases hn : (n != 0)
      · cases hl : JVal.lookup ks vs k with
        | none =>
          unfold samapLcAccepts samapLen
          simp [jnav, hn, hl]
        | some x =>
          rw [lcAccepts_step false h n mn ks vs k rest x _ hn hl]
          have : samapLen cfg (.map h n mn ks vs) (k :: rest) = samapLen cfg x rest := by
            simp only [samapLen, hn, hl, Bool.false_eq_true, if_false, Bool.false_and]
          rw [this]
          exact samapLen_ok cfg rest x (lookup_JLeavesOK ks vs k x hl (by simpa [JLeavesOK] using hw))
      · unfold samapLcAccepts
        simp [jnav, hn]
    | leaf s => unfold samapLcAccepts samapLen; simp [jnav]
    | nil => unfold samapLcAccepts samapLen; simp [jnav]
    | other => unfold samapLcAccepts samapLen; simp [jnav]

theorem samapCap_ok (cfg : LibCfg) (hc : cfg.samapCapIsLen = false) : ∀ (p : List Bytes) (j : JVal), JLeavesOK j = true →
    samapLcAccepts true j p (samapCap cfg j p) = true
  | [], j, hw => by
    unfold samapLcAccepts samapCap
    simp only [jnav]
    cases j with
    | map h n mn ks vs => simp
    | leaf s =>
      simp only [JLeavesOK, leafOK] at hw
      simp only []
      cases hv : s.v <;> simp only [hv] at hw <;>
        cases hf : (s.kind == DynKind.bytes) <;>
        simp [Val.isNilPtr, hf] at hw ⊢
    | nil => simp
    | other => simp
  | k :: rest, j, hw => by
    cases j with
    | map h n mn ks vs =>
      cases hn : (n != 0)
      · cases hl : JVal.lookup ks vs k with
        | none =>
          unfold samapLcAccepts samapCap
          simp [jnav, hn, hl]
        | some x =>
          rw [lcAccepts_step true h n mn ks vs k rest x _ hn hl]
          have : samapCap cfg (.map h n mn ks vs) (k :: rest) = samapCap cfg x rest := by
            simp only [samapCap, hn, hl, Bool.false_eq_true, if_false, hc, Bool.false_and]
          rw [this]
          exact samapCap_ok cfg hc rest x (lookup_JLeavesOK ks vs k x hl (by simpa [JLeavesOK] using hw))
      · unfold samapLcAccepts
        simp [jnav, hn]
    | leaf s => unfold samapLcAccepts samapCap; simp [jnav]
    | nil => unfold samapLcAccepts samapCap; simp [jnav]
    | other => unfold samapLcAccepts samapCap; simp [jnav]

/-- Length reads the nil-pointer switch only; Capacity that one and `samapCapIsLen`. -/
theorem samapLen_congr (c1 c2 : LibCfg) (h : c1.samapNilPtrPanics = c2.samapNilPtrPanics) :
    ∀ (p : List Bytes) (j : JVal), samapLen c1 j p = samapLen c2 j p
  | [], j => by cases j <;> simp only [samapLen, h]
  | k :: rest, j => by
    cases j with
    | map hold n mn ks vs =>
      simp only [samapLen, h]
      split
      · rfl
      · cases JVal.lookup ks vs k with
        | none => rfl
        | some x => exact samapLen_congr c1 c2 h rest x
    | _ => simp only [samapLen]

theorem samapCap_congr (c1 c2 : LibCfg) (h : c1.samapNilPtrPanics = c2.samapNilPtrPanics)
    (hl : c1.samapCapIsLen = c2.samapCapIsLen) : ∀ (p : List Bytes) (j : JVal), samapCap c1 j p = samapCap c2 j p
  | [], j => by cases j <;> simp only [samapCap, h]
  | k :: rest, j => by
    cases j with
    | map hold n mn ks vs =>
      simp only [samapCap, h, hl]
      split
      · rfl
      · cases JVal.lookup ks vs k with
        | none => rfl
        | some x =>
          simp only []
          split
          · exact samapLen_congr c1 c2 h rest x
          · exact samapCap_congr c1 c2 h hl rest x
    | _ => simp only [samapCap]

/-- C02: with the switch off Length never panics. -/
theorem samapLen_no_panic (cfg : LibCfg) (hc : cfg.samapNilPtrPanics = false) : ∀ (p : List Bytes) (j : JVal),
    samapLen cfg j p ≠ .panic
  | [], j => by
    cases j with
    | map h n mn ks vs => simp [samapLen, hc]
    | leaf s =>
      simp only [samapLen, hc]
      split
      · cases hv : s.v <;> simp
      · simp
    | nil => simp [samapLen]
    | other => simp [samapLen]
  | k :: rest, j => by
    cases j with
    | map h n mn ks vs =>
      simp only [samapLen, hc, Bool.and_false, Bool.false_eq_true, if_false]
      cases hl : JVal.lookup ks vs k with
      | none => simp
      | some x => exact samapLen_no_panic cfg hc rest x
    | _ => simp [samapLen]

/-- C02: with the switch off Capacity never panics (whether or not it descends into Length). -/
theorem samapCap_no_panic (cfg : LibCfg) (hc : cfg.samapNilPtrPanics = false) : ∀ (p : List Bytes) (j : JVal),
    samapCap cfg j p ≠ .panic
  | [], j => by
    cases j with
    | map h n mn ks vs => simp [samapCap]
    | leaf s =>
      simp only [samapCap, hc]
      split
      · cases hv : s.v <;> simp
      · simp
    | nil => simp [samapCap]
    | other => simp [samapCap]
  | k :: rest, j => by
    cases j with
    | map h n mn ks vs =>
      simp only [samapCap, hc, Bool.and_false, Bool.false_eq_true, if_false]
      cases hl : JVal.lookup ks vs k with
      | none => simp
      | some x =>
        simp only []
        split
        · exact samapLen_no_panic cfg hc rest x
        · exact samapCap_no_panic cfg hc rest x
    | _ => simp [samapCap]

/-! ### Compare -/

/-- The leaf comparison reads one switch only. -/
theorem staticCmp_congr (cfg : LibCfg) (hs : cfg.staticNilPtrPanics = false) (s : Src) (op : Op) (right : Seg) :
    staticCmp cfg s op right = staticCmp LibCfg.fixed s op right := by
  have hf : LibCfg.fixed.staticNilPtrPanics = false := rfl
  unfold staticCmp
  rw [hs, hf]

theorem samapCmp_ok (cfg : LibCfg) (hs : cfg.staticNilPtrPanics = false) (op : Op) (right : Seg) :
    ∀ (p : List Bytes) (j : JVal), JMapsOK j = true →
    samapCmpAccepts j p op right (samapCmp cfg j p op right) = true
  | [], j, _ => by simp [samapCmpAccepts]
  | k :: rest, j, hw => by
    cases j with
    | map h n mn ks vs =>
      obtain ⟨_, _, hmn, hvs⟩ := JMapsOK_map h n mn ks vs hw
      cases hn : (n != 0)
      · cases hm : mn
        · cases hl : JVal.lookup ks vs k with
          | none =>
            simp [samapCmpAccepts, samapCmp, jnav, hn, hl]
          | some x =>
            cases rest with
            | nil =>
              simp only [samapCmpAccepts, samapCmp, jnav, hn, hl, Bool.false_eq_true, if_false, List.isEmpty_nil, if_true,
                Bool.false_and]
              cases x with
              | leaf s => simp [staticCmp_congr cfg hs, staticCmp_correct]
              | map _ _ _ _ _ => simp
              | nil => simp
              | other => simp
            | cons k2 r2 =>
              have ih := samapCmp_ok cfg hs op right (k2 :: r2) x (lookup_JMapsOK ks vs k x hl hvs)
              have e1 : samapCmp cfg (.map h n false ks vs) (k :: k2 :: r2) op right
                  = samapCmp cfg x (k2 :: r2) op right := by
                rw [samapCmp]
                simp only [hn, hl, Bool.false_eq_true, if_false, List.isEmpty_cons, Bool.false_and]
              rw [e1]
              simp only [samapCmpAccepts] at ih ⊢
              have e2 : jnav (.map h n false ks vs) (k :: k2 :: r2) = jnav x (k2 :: r2) := by
                simp only [jnav, hn, hl, Bool.false_eq_true, if_false]
              rw [e2]
              exact ih
        · have hk := hmn hm
          subst hk
          simp [samapCmpAccepts, samapCmp, jnav, hn, JVal.lookup]
      · simp [samapCmpAccepts, samapCmp, jnav, hn]
    | leaf s => simp [samapCmpAccepts, samapCmp, jnav]
    | nil => simp [samapCmpAccepts, samapCmp, jnav]
    | other => simp [samapCmpAccepts, samapCmp, jnav]

theorem staticCmp_no_panic (cfg : LibCfg) (hs : cfg.staticNilPtrPanics = false) (s : Src) (op : Op) (right : Seg) :
    staticCmp cfg s op right ≠ .panic := by
  rw [staticCmp_congr cfg hs]
  unfold staticCmp
  simp only [LibCfg.fixed]
  by_cases hf : s.kind = .foreign
  · simp [hf]
  · by_cases hn : s.v.isNilPtr = true
    · simp [hf, hn]
    · simp only [hn]
      cases s.kind.family
      all_goals simp only []
      all_goals (repeat' split)
      all_goals simp

/-- C02: with the nil-pointer switches off Compare never panics. -/
theorem samapCmp_no_panic (cfg : LibCfg) (hc : cfg.samapNilPtrPanics = false) (hs : cfg.staticNilPtrPanics = false)
    (op : Op) (right : Seg) : ∀ (p : List Bytes) (j : JVal), (samapCmp cfg j p op right).1 ≠ .panic
  | [], j => by simp [samapCmp]
  | k :: rest, j => by
    cases j with
    | map h n mn ks vs =>
      rw [samapCmp]
      simp only [hc, Bool.and_false, Bool.false_eq_true, if_false]
      cases mn
      · simp only [Bool.false_eq_true, if_false]
        cases hl : JVal.lookup ks vs k with
        | none => simp
        | some x =>
          simp only []
          split
          · cases x with
            | leaf s => exact staticCmp_no_panic cfg hs s op right
            | map _ _ _ _ _ => simp
            | nil => simp
            | other => simp
          · exact samapCmp_no_panic cfg hc hs op right rest x
      · simp
    | _ => simp [samapCmp]

/-! ### Copy -/

/- Copy, for either position of the nil-pointer switch. With the switch on a nil pointer to a map makes Copy
fail (`none`), so a successful Copy has met none; with the switch off (`hnm`) the statement is about trees without
a nil pointer to a map: such a pointer is copied as a pointer to an empty map, which `jeq` tells apart. -/
mutual
theorem samapCpy_ok (cfg : LibCfg) : ∀ (j c : JVal) (s : Nat), JMapsOK j = true →
    (cfg.samapNilPtrPanics = true ∨ jHasNilMap j = false) → samapCpy cfg j = some (c, s) →
    jeq j c = true ∧ s = ptrLeafCount j
  | .nil, c, s, _, _, h => by
    simp [samapCpy] at h; obtain ⟨h1, h2⟩ := h; subst h1 h2; simp [jeq, ptrLeafCount]
  | .other, c, s, _, _, h => by
    simp [samapCpy] at h; obtain ⟨h1, h2⟩ := h; subst h1 h2; simp [jeq, ptrLeafCount]
  | .leaf src, c, s, _, _, h => by
    simp only [samapCpy] at h
    cases hf : (src.kind.family == Family.text)
    · simp only [hf, Bool.false_eq_true, if_false] at h
      injection h with h; injection h with h1 h2
      subst h1 h2
      have hf' : (src.kind.family != Family.text) = true := by simp [bne, hf]
      simp [jeq, srcEq_refl, ptrLeafCount, hf']
    · simp only [hf, if_true] at h
      have hf' : (src.kind.family != Family.text) = false := by simp [bne, hf]
      cases hv : src.v <;> simp only [hv] at h <;>
        first
        | (injection h with h; injection h with h1 h2; subst h1 h2
           simp [jeq, srcEq, valContentEq_refl, ptrLeafCount, hf']
           rw [hv]; exact valContentEq_refl _)
        | (cases hc : cfg.samapNilPtrPanics
           · simp only [hc, Bool.false_eq_true, if_false] at h
             injection h with h; injection h with h1 h2; subst h1 h2
             simp [jeq, srcEq_refl, ptrLeafCount, hf']
           · simp [hc] at h)
  | .map hold n mn ks vs, c, s, hw, hnm, h => by
    obtain ⟨hl, hnd, _, hvs⟩ := JMapsOK_map hold n mn ks vs hw
    simp only [samapCpy] at h
    cases hn : (n != 0)
    · simp only [hn, Bool.false_eq_true, if_false, Bool.false_and] at h
      have hnm' : cfg.samapNilPtrPanics = true ∨ jHasNilMapList vs = false := by
        rcases hnm with h1 | h1
        · exact Or.inl h1
        · right; simp only [jHasNilMap, Bool.or_eq_false_iff] at h1; exact h1.2
      cases hc : samapCpyList cfg vs with
      | none => simp [hc] at h
      | some r =>
        obtain ⟨vs', s'⟩ := r
        simp only [hc] at h
        injection h with h; injection h with h1 h2
        subst h1 h2
        obtain ⟨hlen, hpw, hs⟩ := samapCpyList_ok cfg vs vs' s' hvs hnm' hc
        have hn0 : n = 0 := by simpa using hn
        subst hn0
        refine ⟨?_, by simpa [ptrLeafCount] using hs⟩
        simp only [jeq, beq_self_eq_true, Bool.true_and]
        exact jeqEntries_pointwise ks vs vs' [] [] rfl hnd hlen hpw
    · rcases hnm with h1 | h1
      · simp [hn, h1] at h
      · simp [jHasNilMap, hn] at h1
theorem samapCpyList_ok (cfg : LibCfg) : ∀ (vs cs : List JVal) (s : Nat), JMapsOKs vs = true →
    (cfg.samapNilPtrPanics = true ∨ jHasNilMapList vs = false) → samapCpyList cfg vs = some (cs, s) →
    vs.length = cs.length ∧ (∀ (i : Nat) (a b : JVal), vs[i]? = some a → cs[i]? = some b → jeq a b = true) ∧
    s = ptrLeafCountList vs
  | [], cs, s, _, _, h => by
    simp [samapCpyList] at h; obtain ⟨h1, h2⟩ := h; subst h1 h2
    simp [ptrLeafCountList]
  | v :: rest, cs, s, hw, hnm, h => by
    simp only [JMapsOKs, Bool.and_eq_true] at hw
    simp only [samapCpyList] at h
    have hnm1 : cfg.samapNilPtrPanics = true ∨ jHasNilMap v = false := by
      rcases hnm with h1 | h1
      · exact Or.inl h1
      · right; simp only [jHasNilMapList, Bool.or_eq_false_iff] at h1; exact h1.1
    have hnm2 : cfg.samapNilPtrPanics = true ∨ jHasNilMapList rest = false := by
      rcases hnm with h1 | h1
      · exact Or.inl h1
      · right; simp only [jHasNilMapList, Bool.or_eq_false_iff] at h1; exact h1.2
    cases h1 : samapCpy cfg v with
    | none => simp [h1] at h
    | some r1 =>
      obtain ⟨v', s1⟩ := r1
      cases h2 : samapCpyList cfg rest with
      | none => simp [h1, h2] at h
      | some r2 =>
        obtain ⟨rest', s2⟩ := r2
        simp only [h1, h2] at h
        injection h with h; injection h with e1 e2
        subst e1 e2
        obtain ⟨hj, hs1⟩ := samapCpy_ok cfg v v' s1 hw.1 hnm1 h1
        obtain ⟨hlen, hpw, hs2⟩ := samapCpyList_ok cfg rest rest' s2 hw.2 hnm2 h2
        refine ⟨by simp [hlen], ?_, by simp [ptrLeafCountList, hs1, hs2]⟩
        intro i a b ha hb
        cases i with
        | zero => simp at ha hb; subst ha hb; exact hj
        | succ i => exact hpw i a b (by simpa using ha) (by simpa using hb)
end

/-! ### Copy, nil pointers to maps included -/

theorem jCopyNormList_length : ∀ (vs : List JVal), (jCopyNormList vs).length = vs.length
  | [] => rfl
  | v :: vs => by simp [jCopyNormList, jCopyNormList_length vs]

theorem jCopyNormList_get : ∀ (vs : List JVal) (i : Nat) (a : JVal), (jCopyNormList vs)[i]? = some a →
    ∃ a0, vs[i]? = some a0 ∧ a = jCopyNorm a0
  | [], i, a, h => by simp [jCopyNormList] at h
  | v :: vs, 0, a, h => by
    simp only [jCopyNormList, List.getElem?_cons_zero] at h
    injection h with h
    exact ⟨v, rfl, h.symm⟩
  | v :: vs, i + 1, a, h => by
    simp only [jCopyNormList, List.getElem?_cons_succ] at h
    simpa using jCopyNormList_get vs i a h

/- The copy is the source up to `jCopyNorm`. `hnp`: either Copy stops (panics) at a nil pointer to a map, or the
node of such a pointer is a nil map (`JNilPtrsOK`; with `JMapsOK`, without entries). -/
mutual
theorem samapCpy_norm (cfg : LibCfg) : ∀ (j c : JVal) (s : Nat), JMapsOK j = true →
    (cfg.samapNilPtrPanics = true ∨ JNilPtrsOK j = true) → samapCpy cfg j = some (c, s) →
    jeq (jCopyNorm j) c = true ∧ s = ptrLeafCount j
  | .nil, c, s, hw, _, h => by
    have := samapCpy_ok cfg .nil c s hw (Or.inr rfl) h
    simpa [jCopyNorm] using this
  | .other, c, s, hw, _, h => by
    have := samapCpy_ok cfg .other c s hw (Or.inr rfl) h
    simpa [jCopyNorm] using this
  | .leaf src, c, s, hw, _, h => by
    have := samapCpy_ok cfg (.leaf src) c s hw (Or.inr rfl) h
    simpa [jCopyNorm] using this
  | .map hold n mn ks vs, c, s, hw, hnp, h => by
    obtain ⟨hl, hnd, hmn, hvs⟩ := JMapsOK_map hold n mn ks vs hw
    simp only [samapCpy] at h
    by_cases hpan : (n != 0 && cfg.samapNilPtrPanics) = true
    · simp [hpan] at h
    simp only [hpan, if_false] at h
    cases hn : (n != 0)
    · have hn0 : n = 0 := by simpa using hn
      subst hn0
      have hnp' : cfg.samapNilPtrPanics = true ∨ JNilPtrsOKs vs = true := by
        rcases hnp with h1 | h1
        · exact Or.inl h1
        · right; simp only [JNilPtrsOK, Bool.and_eq_true] at h1; exact h1.2
      cases hc : samapCpyList cfg vs with
      | none => simp [hc] at h
      | some r =>
        obtain ⟨vs', s'⟩ := r
        simp only [hc] at h
        injection h with h; injection h with h1 h2
        subst h1 h2
        obtain ⟨hlen, hpw, hs⟩ := samapCpyList_norm cfg vs vs' s' hvs hnp' hc
        refine ⟨?_, by simpa [ptrLeafCount] using hs⟩
        simp only [jCopyNorm, bne_self_eq_false, Bool.false_eq_true, if_false, jeq, beq_self_eq_true, Bool.true_and]
        refine jeqEntries_pointwise ks (jCopyNormList vs) vs' [] [] rfl hnd
          (by rw [jCopyNormList_length]; exact hlen) ?_
        intro i a b ha hb
        obtain ⟨a0, ha0, e⟩ := jCopyNormList_get vs i a ha
        subst e
        exact hpw i a0 b ha0 hb
    · -- repaired: a nil pointer to a map, represented as a nil map without entries
      have hoff : cfg.samapNilPtrPanics = false := by
        cases hc : cfg.samapNilPtrPanics
        · rfl
        · simp [hn, hc] at hpan
      have hmn' : mn = true := by
        rcases hnp with h1 | h1
        · rw [hoff] at h1; cases h1
        · simp only [JNilPtrsOK, Bool.and_eq_true, Bool.or_eq_true, beq_iff_eq] at h1
          rcases h1.1 with h2 | h2
          · subst h2; simp at hn
          · exact h2
      have hk := hmn hmn'
      subst hk
      have hv : vs = [] := by
        cases vs with
        | nil => rfl
        | cons _ _ => simp at hl
      subst hv
      simp only [samapCpyList] at h
      injection h with h; injection h with h1 h2
      subst h1 h2
      simp [jCopyNorm, hn, jeq, jeqEntries, ptrLeafCount, ptrLeafCountList]
theorem samapCpyList_norm (cfg : LibCfg) : ∀ (vs cs : List JVal) (s : Nat), JMapsOKs vs = true →
    (cfg.samapNilPtrPanics = true ∨ JNilPtrsOKs vs = true) → samapCpyList cfg vs = some (cs, s) →
    vs.length = cs.length ∧
    (∀ (i : Nat) (a b : JVal), vs[i]? = some a → cs[i]? = some b → jeq (jCopyNorm a) b = true) ∧
    s = ptrLeafCountList vs
  | [], cs, s, _, _, h => by
    simp [samapCpyList] at h; obtain ⟨h1, h2⟩ := h; subst h1 h2
    simp [ptrLeafCountList]
  | v :: rest, cs, s, hw, hnp, h => by
    simp only [JMapsOKs, Bool.and_eq_true] at hw
    simp only [samapCpyList] at h
    have hnp1 : cfg.samapNilPtrPanics = true ∨ JNilPtrsOK v = true := by
      rcases hnp with h1 | h1
      · exact Or.inl h1
      · right; simp only [JNilPtrsOKs, Bool.and_eq_true] at h1; exact h1.1
    have hnp2 : cfg.samapNilPtrPanics = true ∨ JNilPtrsOKs rest = true := by
      rcases hnp with h1 | h1
      · exact Or.inl h1
      · right; simp only [JNilPtrsOKs, Bool.and_eq_true] at h1; exact h1.2
    cases h1 : samapCpy cfg v with
    | none => simp [h1] at h
    | some r1 =>
      obtain ⟨v', s1⟩ := r1
      cases h2 : samapCpyList cfg rest with
      | none => simp [h1, h2] at h
      | some r2 =>
        obtain ⟨rest', s2⟩ := r2
        simp only [h1, h2] at h
        injection h with h; injection h with e1 e2
        subst e1 e2
        obtain ⟨hj, hs1⟩ := samapCpy_norm cfg v v' s1 hw.1 hnp1 h1
        obtain ⟨hlen, hpw, hs2⟩ := samapCpyList_norm cfg rest rest' s2 hw.2 hnp2 h2
        refine ⟨by simp [hlen], ?_, by simp [ptrLeafCountList, hs1, hs2]⟩
        intro i a b ha hb
        cases i with
        | zero => simp at ha hb; subst ha hb; exact hj
        | succ i => exact hpw i a b (by simpa using ha) (by simpa using hb)
end

/- Without a nil pointer to a map the source is compared as it is. -/
mutual
theorem jCopyNorm_id : ∀ (j : JVal), jHasNilMap j = false → jCopyNorm j = j
  | .nil, _ => rfl
  | .other, _ => rfl
  | .leaf _, _ => rfl
  | .map hold n mn ks vs, h => by
    simp only [jHasNilMap, Bool.or_eq_false_iff] at h
    have hn0 : n = 0 := by simpa using h.1
    subst hn0
    simp only [jCopyNorm, bne_self_eq_false, Bool.false_eq_true, if_false, jCopyNormList_id vs h.2]
theorem jCopyNormList_id : ∀ (vs : List JVal), jHasNilMapList vs = false → jCopyNormList vs = vs
  | [], _ => rfl
  | v :: rest, h => by
    simp only [jHasNilMapList, Bool.or_eq_false_iff] at h
    simp only [jCopyNormList, jCopyNorm_id v h.1, jCopyNormList_id rest h.2]
end

/-! ### Set -/

theorem bytes_beq_comm (a b : Bytes) : (a == b) = (b == a) := by
  by_cases h : a = b
  · subst h; rfl
  · have h' : ¬ b = a := fun e => h e.symm
    have e1 : (a == b) = false := by simpa using h
    have e2 : (b == a) = false := by simpa using h'
    rw [e1, e2]

theorem jsetKey_lookup_same : ∀ (ks : List Bytes) (vs : List JVal) (k : Bytes) (x : JVal),
    JVal.lookup (jsetKey ks vs k x).1 (jsetKey ks vs k x).2 k = some x
  | [], _, k, x => by simp [jsetKey, JVal.lookup]
  | _ :: _, [], k, x => by simp [jsetKey, JVal.lookup]
  | k0 :: ks, v0 :: vs, k, x => by
    simp only [jsetKey]
    cases hk : (k0 == k)
    · simp only [Bool.false_eq_true, if_false, JVal.lookup, hk]
      exact jsetKey_lookup_same ks vs k x
    · simp only [if_true, JVal.lookup, hk]

theorem jsetKey_lookup_other : ∀ (ks : List Bytes) (vs : List JVal) (k : Bytes) (x : JVal) (bk : Bytes),
    (bk == k) = false → JVal.lookup (jsetKey ks vs k x).1 (jsetKey ks vs k x).2 bk = JVal.lookup ks vs bk
  | [], _, k, x, bk, h => by
    have h' : (k == bk) = false := by rw [bytes_beq_comm]; exact h
    simp [jsetKey, JVal.lookup, h']
  | _ :: _, [], k, x, bk, h => by
    have h' : (k == bk) = false := by rw [bytes_beq_comm]; exact h
    simp [jsetKey, JVal.lookup, h']
  | k0 :: ks, v0 :: vs, k, x, bk, h => by
    simp only [jsetKey]
    cases hk : (k0 == k)
    · simp only [Bool.false_eq_true, if_false, JVal.lookup]
      cases hb : (k0 == bk)
      · simp only [Bool.false_eq_true, if_false]
        exact jsetKey_lookup_other ks vs k x bk h
      · simp only [if_true]
    · simp only [if_true, JVal.lookup]
      have e : k0 = k := by simpa using hk
      subst e
      have hb : (k0 == bk) = false := by rw [bytes_beq_comm]; exact h
      simp only [hb, Bool.false_eq_true, if_false]

theorem jsetKey_keys_mem : ∀ (ks : List Bytes) (vs : List JVal) (k : Bytes) (x : JVal) (ak : Bytes),
    ak ∈ (jsetKey ks vs k x).1 → ak = k ∨ ak ∈ ks
  | [], _, k, x, ak, h => by simp [jsetKey] at h; exact Or.inl h
  | _ :: _, [], k, x, ak, h => by simp [jsetKey] at h; exact Or.inl h
  | k0 :: ks, v0 :: vs, k, x, ak, h => by
    simp only [jsetKey] at h
    cases hk : (k0 == k)
    · simp only [hk, Bool.false_eq_true, if_false, List.mem_cons] at h
      rcases h with h | h
      · right; simp [h]
      · rcases jsetKey_keys_mem ks vs k x ak h with h | h
        · exact Or.inl h
        · right; simp [h]
    · simp only [hk, if_true] at h
      exact Or.inr h

theorem lookup_isSome_of_mem : ∀ (ks : List Bytes) (vs : List JVal) (ak : Bytes),
    ks.length = vs.length → ak ∈ ks → (JVal.lookup ks vs ak).isSome = true
  | [], _, _, _, h => by cases h
  | _ :: _, [], _, hl, _ => by simp at hl
  | k0 :: ks, v0 :: vs, ak, hl, h => by
    simp only [JVal.lookup]
    cases hk : (k0 == ak)
    · simp only [Bool.false_eq_true, if_false]
      have hne : ¬ ak = k0 := by
        intro e; subst e; simp at hk
      have : ak ∈ ks := by
        rcases List.mem_cons.1 h with h | h
        · exact absurd h hne
        · exact h
      exact lookup_isSome_of_mem ks vs ak (by simpa using hl) this
    · simp

theorem zip_lookup : ∀ (ks : List Bytes) (vs : List JVal) (bk : Bytes) (bv : JVal),
    (bk, bv) ∈ ks.zip vs → keysNodup ks = true → JVal.lookup ks vs bk = some bv
  | [], _, _, _, h, _ => by simp at h
  | _ :: _, [], _, _, h, _ => by simp at h
  | k0 :: ks, v0 :: vs, bk, bv, h, hn => by
    simp only [keysNodup, Bool.and_eq_true, Bool.not_eq_true'] at hn
    simp only [List.zip_cons_cons, List.mem_cons] at h
    rcases h with h | h
    · injection h with h1 h2
      subst h1 h2
      simp [JVal.lookup]
    · have hm : bk ∈ ks := (List.of_mem_zip h).1
      have hk : (k0 == bk) = false := by
        cases hc : (k0 == bk)
        · rfl
        · have e : k0 = bk := by simpa using hc
          subst e
          have := hn.1
          simp [hm] at this
      simp only [JVal.lookup, hk, Bool.false_eq_true, if_false]
      exact zip_lookup ks vs bk bv h hn.2

theorem samapFrame_nil (b a : JVal) (f : Nat) : samapFrame b a [] f = true := by
  cases f <;> simp [samapFrame]

/-- One level of the frame condition after `m[k] = x'`. -/
theorem frame_step (h : Nat) (mn : Bool) (ks : List Bytes) (vs : List JVal) (k : Bytes) (x' : JVal)
    (rest : List Bytes) (f : Nat) (ks' : List Bytes) (vs' : List JVal) (hjs : jsetKey ks vs k x' = (ks', vs'))
    (hl : ks.length = vs.length) (hn : keysNodup ks = true) (hvs : JMapsOKs vs = true)
    (hx : ∀ bv, JVal.lookup ks vs k = some bv → samapFrame bv x' rest f = true) :
    samapFrame (.map h 0 mn ks vs) (.map h 0 false ks' vs') (k :: rest) (f + 1) = true := by
  have e1 : ks' = (jsetKey ks vs k x').1 := by rw [hjs]
  have e2 : vs' = (jsetKey ks vs k x').2 := by rw [hjs]
  simp only [samapFrame, beq_self_eq_true, Bool.true_and, Bool.and_eq_true, List.all_eq_true]
  constructor
  · rintro ⟨bk, bv⟩ hmem
    have hlk := zip_lookup ks vs bk bv hmem hn
    simp only []
    cases hk : (bk == k)
    · rw [e1, e2, jsetKey_lookup_other ks vs k x' bk hk, hlk]
      simp only [Bool.false_eq_true, if_false]
      have hmv : bv ∈ vs := (List.of_mem_zip hmem).2
      exact jeq_refl bv (lookup_JMapsOK ks vs bk bv hlk hvs)
    · have e : bk = k := by simpa using hk
      subst e
      rw [e1, e2, jsetKey_lookup_same ks vs bk x']
      simp only [if_true]
      exact hx bv hlk
  · intro ak hak
    rw [e1] at hak
    rcases jsetKey_keys_mem ks vs k x' ak hak with h | h
    · subst h; simp
    · simp [lookup_isSome_of_mem ks vs ak hl h]

theorem samapLeafOf_leaf (cfg : LibCfg) (src : Src) (x : JVal) (h : samapLeafOf cfg src = some x) : ∃ s, x = .leaf s := by
  unfold samapLeafOf at h
  split at h
  · cases hv : src.v <;> rw [hv] at h <;> simp at h <;> first | exact ⟨_, h.symm⟩ | exact ⟨_, h.2.symm⟩
  · injection h with h; exact ⟨_, h.symm⟩

theorem samapLeafOf_none (cfg : LibCfg) (src : Src) (h : samapLeafOf cfg src = none) :
    src.v.isNilPtr = true ∧ cfg.samapNilPtrPanics = true := by
  unfold samapLeafOf at h
  split at h
  · cases hv : src.v <;> rw [hv] at h <;> simp at h
    exact ⟨rfl, h⟩
  · cases h

/-- With the switch off every value can be stored. -/
theorem samapLeafOf_isSome (cfg : LibCfg) (hc : cfg.samapNilPtrPanics = false) (src : Src) :
    ∃ x, samapLeafOf cfg src = some x := by
  cases h : samapLeafOf cfg src with
  | some x => exact ⟨x, rfl⟩
  | none => have := (samapLeafOf_none cfg src h).2; rw [hc] at this; cases this

/-- The spec's demand on the stored leaf is what the inspector stored before the nil-pointer repair (`none`: a
typed-nil `*string` / `*[]byte`, nothing demanded): introducing the switch left the specification as it was. -/
theorem samapStoredLeaf_eq (src : Src) : samapStoredLeaf src = samapLeafOf LibCfg.original src := by
  unfold samapStoredLeaf samapLeafOf
  cases hf : (src.kind.family == Family.text)
  · simp
  · cases hv : src.v <;> simp [Val.isNilPtr, LibCfg.original, LibCfg.fixed]

/-- Whatever the switch, a leaf that is stored is the leaf the spec asks for (where it asks for one). -/
theorem samapLeafOf_stored (cfg : LibCfg) (src : Src) (x y : JVal) (h1 : samapLeafOf cfg src = some x)
    (h2 : samapStoredLeaf src = some y) : y = x := by
  unfold samapStoredLeaf at h2
  unfold samapLeafOf at h1 h2
  cases hf : (src.kind.family == Family.text)
  · simp only [hf, Bool.false_eq_true, if_false, Bool.false_and] at h1 h2
    rw [h1] at h2; injection h2 with h2; exact h2.symm
  · cases hv : src.v <;> simp only [hf, hv, Val.isNilPtr, Bool.true_and, Bool.and_true, Bool.false_eq_true, if_false, if_true] at h1 h2 <;>
      first
      | (cases h2; done)
      | (rw [h1] at h2; injection h2 with h2; exact h2.symm)

def emptyJMap : JVal := .map 0 0 false [] []

/-- What Set guarantees at one node for a non-empty path (the inductive statement behind `samapSetAccepts`). -/
def setClaim (j : JVal) (p : List Bytes) (src : Src) (o : JSet) : Prop :=
  match o with
  | .panic => True
  | .ok after =>
    samapFrame j after p (p.length + 1) = true ∧
    ∀ x, samapStoredLeaf src = some x →
      (match jnav after p with | .found y => jeq x y | _ => passesNilMap j p) = true
  | .unsupported after =>
    samapFrame j after p (p.length + 1) = true ∧ jnav after p = .nonMap

theorem pathNilOK_of_tree : ∀ (p : List Bytes) (j : JVal), JNilPtrsOK j = true → pathNilOK j p = true
  | [], j, _ => by cases j <;> rfl
  | k :: rest, j, h => by
    cases j with
    | map hold n mn ks vs =>
      simp only [JNilPtrsOK, Bool.and_eq_true] at h
      simp only [pathNilOK, Bool.and_eq_true]
      refine ⟨h.1, ?_⟩
      cases hl : JVal.lookup ks vs k with
      | none => rfl
      | some x => exact pathNilOK_of_tree rest x (lookup_JNilPtrsOK ks vs k x hl h.2)
    | _ => rfl

theorem pathNilOK_of_nav : ∀ (p : List Bytes) (j : JVal), jnav j p ≠ .unspec → pathNilOK j p = true
  | [], j, _ => by cases j <;> rfl
  | k :: rest, j, h => by
    cases j with
    | map hold n mn ks vs =>
      simp only [jnav] at h
      cases hn : (n != 0)
      · have hn0 : n = 0 := by simpa using hn
        subst hn0
        simp only [hn, Bool.false_eq_true, if_false] at h
        simp only [pathNilOK, beq_self_eq_true, Bool.true_or, Bool.true_and]
        cases hl : JVal.lookup ks vs k with
        | none => rfl
        | some x => rw [hl] at h; exact pathNilOK_of_nav rest x h
      · simp [hn] at h
    | _ => rfl

/-- Either position of the nil-pointer switch. With the switch off Set goes on past a nil pointer to a map, and the
claim needs the representation invariant `JNilPtrsOK` (the node of a nil pointer is a nil map) along the path. -/
theorem samapSet_claim (cfg : LibCfg) (src : Src) : ∀ (p : List Bytes) (k : Bytes) (j : JVal), JMapsOK j = true →
    (cfg.samapNilPtrPanics = true ∨ pathNilOK j (k :: p) = true) →
    setClaim j (k :: p) src (samapSet cfg j (k :: p) src)
  | rest, k, .nil, hw, _ => by simp [samapSet, setClaim, samapFrame, jeq, jnav]
  | rest, k, .other, hw, _ => by simp [samapSet, setClaim, samapFrame, jeq, jnav]
  | rest, k, .leaf s, hw, _ => by simp [samapSet, setClaim, samapFrame, jeq, jnav, srcEq_refl]
  | rest, k, .map hold n mn ks vs, hw, hnp => by
    obtain ⟨hl, hnd, hmn, hvs⟩ := JMapsOK_map hold n mn ks vs hw
    simp only [samapSet]
    by_cases hpan : (n != 0 && cfg.samapNilPtrPanics) = true
    · simp [hpan, setClaim]
    simp only [hpan, if_false]
    by_cases hm' : mn = true
    · -- nil map (or, repaired, a nil pointer to a map): nothing can be created
      have hk := hmn hm'
      subst hk hm'
      simp only [if_true, setClaim]
      refine ⟨by simp [samapFrame], ?_⟩
      intro x _
      cases hn : (n != 0) <;> simp [jnav, hn, JVal.lookup, passesNilMap]
    have hm : mn = false := by simpa using hm'
    subst hm
    have hn0 : n = 0 := by
      rcases hnp with h1 | h1
      · simpa [h1] using hpan
      · simp only [pathNilOK, Bool.and_eq_true, Bool.or_eq_true, Bool.false_eq_true, or_false, beq_iff_eq] at h1
        exact h1.1
    subst hn0
    simp only [Bool.false_eq_true, if_false]
    cases rest with
    | nil =>
      simp only [List.isEmpty_nil, if_true]
      cases hlf : samapLeafOf cfg src with
      | none => simp [setClaim]
      | some x =>
        simp only []
        cases hjs : jsetKey ks vs k x with
        | mk ks' vs' =>
          simp only [setClaim]
          refine ⟨frame_step hold false ks vs k x [] _ ks' vs' hjs hl hnd hvs (fun bv _ => samapFrame_nil _ _ _), ?_⟩
          intro x2 hx2
          have hx := samapLeafOf_stored cfg src x x2 hlf hx2
          subst hx
          have hlk : JVal.lookup ks' vs' k = some x2 := by
            have := jsetKey_lookup_same ks vs k x2
            rw [hjs] at this; exact this
          simp only [jnav, bne_self_eq_false, Bool.false_eq_true, if_false, hlk]
          obtain ⟨s', hs'⟩ := samapLeafOf_leaf cfg src x2 hlf
          subst hs'
          simp [jeq, srcEq_refl]
    | cons k2 r2 =>
      simp only [List.isEmpty_cons, Bool.false_eq_true, if_false]
      have hx0 : JMapsOK ((JVal.lookup ks vs k).getD (.map 0 0 false [] [])) = true := by
        cases hlk : JVal.lookup ks vs k with
        | none => rfl
        | some y => exact lookup_JMapsOK ks vs k y hlk hvs
      have hx1 : cfg.samapNilPtrPanics = true ∨
          pathNilOK ((JVal.lookup ks vs k).getD (.map 0 0 false [] [])) (k2 :: r2) = true := by
        rcases hnp with h1 | h1
        · exact Or.inl h1
        · right
          simp only [pathNilOK, Bool.and_eq_true] at h1
          cases hlk : JVal.lookup ks vs k with
          | none => simp [pathNilOK, JVal.lookup]
          | some y => have := h1.2; rw [hlk] at this; exact this
      have ih := samapSet_claim cfg src r2 k2 ((JVal.lookup ks vs k).getD (.map 0 0 false [] [])) hx0 hx1
      cases hres : samapSet cfg ((JVal.lookup ks vs k).getD (.map 0 0 false [] [])) (k2 :: r2) src with
      | panic => simp [setClaim]
      | ok x' =>
        rw [hres] at ih
        simp only [setClaim] at ih
        obtain ⟨ihf, ihs⟩ := ih
        simp only []
        cases hjs : jsetKey ks vs k x' with
        | mk ks' vs' =>
          have hlk' : JVal.lookup ks' vs' k = some x' := by
            have := jsetKey_lookup_same ks vs k x'
            rw [hjs] at this; exact this
          simp only [setClaim]
          refine ⟨frame_step hold false ks vs k x' (k2 :: r2) _ ks' vs' hjs hl hnd hvs ?_, ?_⟩
          · intro bv hbv
            rw [hbv] at ihf
            exact ihf
          · intro x hx
            have := ihs x hx
            simp only [jnav, bne_self_eq_false, Bool.false_eq_true, if_false, hlk'] at this ⊢
            cases hlk : JVal.lookup ks vs k with
            | none =>
              rw [hlk] at this
              simp only [passesNilMap, hlk, Bool.false_or]
              simpa [Option.getD, passesNilMap, JVal.lookup] using this
            | some y =>
              rw [hlk] at this
              simpa [passesNilMap, hlk] using this
      | unsupported x' =>
        rw [hres] at ih
        simp only [setClaim] at ih
        obtain ⟨ihf, ihs⟩ := ih
        simp only []
        cases hjs : jsetKey ks vs k x' with
        | mk ks' vs' =>
          have hlk' : JVal.lookup ks' vs' k = some x' := by
            have := jsetKey_lookup_same ks vs k x'
            rw [hjs] at this; exact this
          simp only [setClaim]
          refine ⟨frame_step hold false ks vs k x' (k2 :: r2) _ ks' vs' hjs hl hnd hvs ?_, ?_⟩
          · intro bv hbv
            rw [hbv] at ihf
            exact ihf
          · simp only [jnav, bne_self_eq_false, Bool.false_eq_true, if_false, hlk']
            exact ihs

/-- Set panics only for a nil pointer as the value or a nil pointer to a map on the way — and only with the switch on. -/
theorem samapSet_panic (cfg : LibCfg) (src : Src) : ∀ (p : List Bytes) (j : JVal), samapSet cfg j p src = .panic →
    cfg.samapNilPtrPanics = true ∧ (src.v.isNilPtr = true ∨ jnav j p = .unspec)
  | [], j, h => by simp [samapSet] at h
  | k :: rest, .nil, h => by simp [samapSet] at h
  | k :: rest, .other, h => by simp [samapSet] at h
  | k :: rest, .leaf _, h => by simp [samapSet] at h
  | k :: rest, .map hold n mn ks vs, h => by
    simp only [samapSet] at h
    by_cases hpan : (n != 0 && cfg.samapNilPtrPanics) = true
    · simp only [Bool.and_eq_true] at hpan
      exact ⟨hpan.2, Or.inr (by simp [jnav, hpan.1])⟩
    simp only [hpan, if_false] at h
    by_cases hm' : mn = true
    · simp [hm'] at h
    have hm : mn = false := by simpa using hm'
    simp only [hm, Bool.false_eq_true, if_false] at h
    cases rest with
    | nil =>
      simp only [List.isEmpty_nil, if_true] at h
      cases hlf : samapLeafOf cfg src with
      | none => exact ⟨(samapLeafOf_none cfg src hlf).2, Or.inl (samapLeafOf_none cfg src hlf).1⟩
      | some x => simp [hlf] at h
    | cons k2 r2 =>
      simp only [List.isEmpty_cons, Bool.false_eq_true, if_false] at h
      cases hres : samapSet cfg ((JVal.lookup ks vs k).getD (.map 0 0 false [] [])) (k2 :: r2) src with
      | ok x' => simp [hres] at h
      | unsupported x' => simp [hres] at h
      | panic =>
        obtain ⟨hc, h1⟩ := samapSet_panic cfg src (k2 :: r2) _ hres
        refine ⟨hc, ?_⟩
        have hn : (n != 0) = false := by simpa [hc] using hpan
        rcases h1 with h1 | h1
        · exact Or.inl h1
        · right
          cases hlk : JVal.lookup ks vs k with
          | none => rw [hlk] at h1; simp [jnav, JVal.lookup] at h1
          | some y => rw [hlk] at h1; simpa [jnav, hn, hlk] using h1

/-- C02: with the switch off Set never panics. -/
theorem samapSet_no_panic (cfg : LibCfg) (hc : cfg.samapNilPtrPanics = false) (src : Src) (p : List Bytes) (j : JVal) :
    samapSet cfg j p src ≠ .panic := by
  intro h
  have := (samapSet_panic cfg src p j h).1
  rw [hc] at this; cases this

/-! ### Copy fails only on a nil pointer in the tree -/

mutual
/-- A nil pointer to a map, or a nil `*string` / `*[]byte` leaf, somewhere in the tree (outside C18; C02's territory). -/
def jHasNil : JVal → Bool
  | .map _ n _ _ vs => n != 0 || jHasNilList vs
  | .leaf s => s.kind.family == .text && s.v.isNilPtr
  | _ => false
def jHasNilList : List JVal → Bool
  | [] => false
  | v :: vs => jHasNil v || jHasNilList vs
end

mutual
theorem samapCpy_none (cfg : LibCfg) : ∀ (j : JVal), samapCpy cfg j = none →
    cfg.samapNilPtrPanics = true ∧ jHasNil j = true
  | .nil, h => by simp [samapCpy] at h
  | .other, h => by simp [samapCpy] at h
  | .leaf src, h => by
    simp only [samapCpy] at h
    cases hf : (src.kind.family == Family.text)
    · simp [hf] at h
    · simp only [hf, if_true] at h
      cases hv : src.v <;> simp [hv] at h
      exact ⟨h, by simp [jHasNil, hf, hv, Val.isNilPtr]⟩
  | .map hold n mn ks vs, h => by
    simp only [samapCpy] at h
    by_cases hpan : (n != 0 && cfg.samapNilPtrPanics) = true
    · simp only [Bool.and_eq_true] at hpan
      exact ⟨hpan.2, by simp [jHasNil, hpan.1]⟩
    · simp only [hpan, if_false] at h
      cases hc : samapCpyList cfg vs with
      | none =>
        obtain ⟨h1, h2⟩ := samapCpyList_none cfg vs hc
        exact ⟨h1, by simp [jHasNil, h2]⟩
      | some r => simp [hc] at h
theorem samapCpyList_none (cfg : LibCfg) : ∀ (vs : List JVal), samapCpyList cfg vs = none →
    cfg.samapNilPtrPanics = true ∧ jHasNilList vs = true
  | [], h => by simp [samapCpyList] at h
  | v :: rest, h => by
    simp only [samapCpyList] at h
    cases h1 : samapCpy cfg v with
    | none =>
      obtain ⟨e1, e2⟩ := samapCpy_none cfg v h1
      exact ⟨e1, by simp [jHasNilList, e2]⟩
    | some r1 =>
      cases h2 : samapCpyList cfg rest with
      | none =>
        obtain ⟨e1, e2⟩ := samapCpyList_none cfg rest h2
        exact ⟨e1, by simp [jHasNilList, e2]⟩
      | some r2 => simp [h1, h2] at h
end

/-- C02: with the switch off Copy never panics. -/
theorem samapCpy_no_panic (cfg : LibCfg) (hc : cfg.samapNilPtrPanics = false) (j : JVal) :
    (samapCpy cfg j).isSome = true := by
  cases h : samapCpy cfg j with
  | some r => rfl
  | none => have := (samapCpy_none cfg j h).1; rw [hc] at this; cases this

/- A nil pointer to a map is one of the nil pointers. -/
mutual
theorem jHasNil_of_nilMap : ∀ (j : JVal), jHasNilMap j = true → jHasNil j = true
  | .nil, h => by simp [jHasNilMap] at h
  | .other, h => by simp [jHasNilMap] at h
  | .leaf _, h => by simp [jHasNilMap] at h
  | .map _ n _ _ vs, h => by
    simp only [jHasNilMap, Bool.or_eq_true] at h
    simp only [jHasNil, Bool.or_eq_true]
    rcases h with h | h
    · exact Or.inl h
    · exact Or.inr (jHasNilList_of_nilMap vs h)
theorem jHasNilList_of_nilMap : ∀ (vs : List JVal), jHasNilMapList vs = true → jHasNilList vs = true
  | [], h => by simp [jHasNilMapList] at h
  | v :: rest, h => by
    simp only [jHasNilMapList, Bool.or_eq_true] at h
    simp only [jHasNilList, Bool.or_eq_true]
    rcases h with h | h
    · exact Or.inl (jHasNil_of_nilMap v h)
    · exact Or.inr (jHasNilList_of_nilMap rest h)
end

/-! ### Loop / Reset -/

/-- Loop is Get followed by the step with the empty path (what the driver computed inline before). -/
theorem samapLoop_eq_viaGet (cfg : LibCfg) : ∀ (p : List Bytes) (j : JVal),
    samapLoop cfg j p = samapLoopViaGet cfg j p
  | [], j => by
    cases j with
    | map h n mn ks vs =>
      cases n with
      | zero => simp [samapLoop, samapLoopViaGet, samapGet]
      | succ n' => simp [samapLoop, samapLoopViaGet, samapGet]
    | _ => simp [samapLoop, samapLoopViaGet, samapGet]
  | k :: rest, j => by
    cases j with
    | map h n mn ks vs =>
      by_cases hn : (n != 0 && cfg.samapNilPtrPanics) = true
      · simp only [samapLoop, samapLoopViaGet, samapGet, hn, if_true]
      · have ih := fun x => samapLoop_eq_viaGet cfg rest x
        simp only [samapLoop, samapLoopViaGet, samapGet, hn, if_false, Bool.false_eq_true]
        cases hl : JVal.lookup ks vs k with
        | none => rfl
        | some x => simp only []; rw [ih x]; rfl
    | _ => simp [samapLoop, samapLoopViaGet, samapGet]

/-- C02: with the switch off Loop never panics. -/
theorem samapLoop_no_panic (cfg : LibCfg) (hc : cfg.samapNilPtrPanics = false) : ∀ (p : List Bytes) (j : JVal),
    samapLoop cfg j p ≠ .panic
  | [], j => by
    cases j <;> simp [samapLoop, hc]
  | k :: rest, j => by
    cases j with
    | map h n mn ks vs =>
      simp only [samapLoop, hc, Bool.and_false, Bool.false_eq_true, if_false]
      cases hl : JVal.lookup ks vs k with
      | none => simp
      | some x => exact samapLoop_no_panic cfg hc rest x
    | _ => simp [samapLoop]

/-- Any configuration: Loop panics only with the switch on. -/
theorem samapLoop_panic (cfg : LibCfg) (p : List Bytes) (j : JVal) (h : samapLoop cfg j p = .panic) :
    cfg.samapNilPtrPanics = true := by
  cases hc : cfg.samapNilPtrPanics with
  | true => rfl
  | false => exact absurd h (samapLoop_no_panic cfg hc p j)

/-- C02: with the switch off Reset never panics — every argument form, every tree. -/
theorem samapReset_no_panic (cfg : LibCfg) (hc : cfg.samapNilPtrPanics = false) (f : Form) (m : JVal) :
    (samapReset cfg f m).isSome = true := by
  cases f <;> simp [samapReset, hc]

end Inspector.C18
