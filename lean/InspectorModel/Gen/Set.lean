/-
Gen/Set.lean — behavioural model of set mode of `writeNode` (compiler.go:699-711, 721-771, 819-859,
872-881, 927-934, 945-959) and of the SetWithBuffer header. The emitted copy-then-write-back idiom
(`x1 := m[k]; …; m[k] = x1`) is modelled as exactly that: a local value, and a write-back that happens
only where the emitted control flow reaches it; values that are references in Go (pointers, maps,
slices, `&s[i]`, `&v.f`) are changed in place whatever the control flow.
-/
import InspectorModel.Gen.Get
import InspectorModel.Gen.Copy
import InspectorModel.Lib.Assign
namespace Inspector

inductive SFlow
  | ret | cont | err | panic
deriving Repr, DecidableEq, Inhabited

structure SetR where
  v : Val
  flow : SFlow
deriving Inhabited

/-- Dynamic destination kind of a leaf node: named scalar types match no arm of the assign switches. -/
def leafKind (n : Node) : DynKind :=
  if isBuiltinName n.typn then DynKind.ofName n.typn else .foreign

/-- AssignBuf with a *nil* destination pointer of kind `dk`: does it dereference? -/
def nilDstPanics (acfg : AssignCfg) (dk : DynKind) (s : Src) (noBuf : Bool) : Bool :=
  -- since `fix: Assign/AssignBuf dereferenced a nil pointer source` a nil source is refused before the
  -- destination is looked at
  if s.v.isNilPtr && s.kind != .foreign && !acfg.nilSrcPanics then false else
  match dk with
  | .bytes => true                                   -- `p = *dst.(*[]byte)` in the var block of the default arm; `*dst = …` in the others
  | .string =>
    (match s.kind.family with
     | .text => true
     -- without a buffer the original library read `*dst` before converting; since `fix: AssignToStr without
     -- a buffer …` it writes `*dst` only when the conversion succeeded, like the buffered branch
     | _ => if noBuf && acfg.strAppendsOld then true else (match renderSrc s with | .unknown => false | _ => true))
  | .bool => s.kind.family != .foreign
  -- no arm matches the destination, but AssignToInt/Uint/Float read the source before they look at it
  | .foreign => (match assignM acfg .foreign (.int 0) s noBuf with | .panic => true | _ => false)
  | _ => (match assignM acfg dk (.int 0) s noBuf with | .no => false | _ => true)

/-- `inspector.AssignBuf(&v | v, value, buf)` on a leaf node holding `old` (pointer level as the node says).
`none` = panic. -/
def assignLeaf (cfg : GenCfg) (n : Node) (old : Val) (s : Src) (noBuf : Bool) : Option Val :=
  let acfg : AssignCfg := { strAppendsOld := cfg.strAppendsOld, nilSrcPanics := cfg.assignNilSrcPanics }
  let dk := leafKind n
  if n.ptr then
    match old with
    | .ptr w =>
      (match assignM acfg dk w s noBuf with
       | .ok w' => some (.ptr w')
       | .no | .inexact => some old
       | .panic => none)
    | _ => if cfg.setNilLeafPtrPanics && nilDstPanics acfg dk s noBuf then none else some old
  else
    match assignM acfg dk old s noBuf with
    | .ok v' => some v'
    | .no | .inexact => some old
    | .panic => none

/-- Is a map value of this node a Go reference (changes made through the local copy persist)? -/
def mapValIsRef (mv : Node) : Bool :=
  mv.ptr || (match mv with | .map _ _ _ => true | .slice i _ => i.typn != "[]byte" | _ => false)

/-- Map values the repaired emitter writes back on every way out (deferred `m[k] = x`): structs and maps held
by value. -/
def writesBack (mv : Node) : Bool :=
  !mv.ptr && (match mv with | .struct _ _ => true | .map _ _ _ => true | _ => false)

/-- Is the slice element variable a reference (`&s[i]`, or a copied pointer)? -/
def elemIsRef (e : Node) : Bool := e.ptr || !isBuiltinName e.typn

def isNilColl : Val → Bool
  | .nilptr => true
  | .map true _ _ => true
  | .slice true _ _ => true
  | _ => false

/-- Auto-creation of a nil struct pointer / map / slice child on the path (compiler.go:737-751). -/
def autoCreate (ch : Node) (fv : Val) : Val :=
  if !isNilColl fv then fv else
  match ch with
  | .struct i _ => if i.ptr then .ptr (zeroVal (ch.withPtr false)) else fv
  | .map i _ _ => if i.ptr then .ptr (.map false [] []) else .map false [] []
  | .slice i _ => if i.ptr then .ptr (.slice false [] 0) else .slice false [] 0
  | .basic _ => fv

/-- The byte chunks `x2bytes.ToBytes` appends one `append` call at a time: integers, booleans in one
piece; a float (`strconv.AppendFloat(…,'f',-1,64)`, fmtF) as sign, integer digits, then byte by byte. -/
def renderPieces (s : Src) : List Bytes :=
  match s.v with
  | .float _ =>
    let t := s.ftext
    let (sign, rest) : Bytes × Bytes := match t with | 45 :: r => ([45], r) | r => ([], r)
    let ip := rest.takeWhile (fun b => b != 46)
    let tail := rest.drop ip.length
    (if sign.isEmpty then [] else [sign]) ++ [ip] ++ tail.map (fun b => [b])
  | _ => (match renderSrc s with | .ok b => [b] | _ => [])

/-- What successive appends leave in an array of capacity `cap` starting from length 0, before the
first append that does not fit reallocates. -/
def inPlacePrefix : List Bytes → Nat → Bytes
  | [], _ => []
  | p :: ps, cap => if p.length ≤ cap then p ++ inPlacePrefix ps (cap - p.length) else []

mutual
/-- What the owner of the original sees after its *copy* was assigned to (lost update): scalars keep
their old value, references are shared, and a `[]byte` field rendered in place without a buffer
(`ToBytes(p[:0], src)` within the old capacity) shows the overwritten prefix under its old length. -/
def staleView (pieces : List Bytes) (old new : Val) : Val :=
  match old with
  | .struct ofs => (match new with | .struct nfs => .struct (staleViews pieces ofs nfs) | _ => old)
  | .bytes nl od oc =>
    (match new with
     | .bytes _ nd _ =>
       let w := inPlacePrefix pieces oc
       if !(nd == od) && !w.isEmpty then .bytes nl (w.take od.length ++ od.drop w.length) oc else old
     | _ => old)
  -- a nil map / slice that was auto-created in the copy stays nil for the owner
  | .map nl _ _ => if nl then old else new
  | .slice nl _ _ => if nl then old else new
  | .ptr _ => new
  | _ => old
termination_by structural old
def staleViews (pieces : List Bytes) (olds news : List Val) : List Val :=
  match olds with
  | [] => []
  | o :: os => (match news with | n :: ns => staleView pieces o n :: staleViews pieces os ns | [] => o :: os)
termination_by structural olds
end

def setN (cfg : GenCfg) (n : Node) (parentIsMap root : Bool) (v : Val) (p : List Seg) (src : Src) (noBuf : Bool) : SetR :=
  let leaf (retFlow : SFlow) : SetR :=
    if n.ptr && v.isNilPtr then ⟨v, .ret⟩ else
    match assignLeaf cfg n v src noBuf with
    | some v' => ⟨v', retFlow⟩
    | none => ⟨v, .panic⟩
  match p with
  | [] =>
    match n with
    | .basic _ => leaf (if parentIsMap then .cont else .ret)
    | _ => ⟨v, .cont⟩
  | s :: rest =>
    match n with
    | .basic _ => leaf (if parentIsMap then .cont else .ret)
    | .struct i chld =>
      if i.ptr && v.isNilPtr then ⟨v, .ret⟩ else
      let rewrap (w : Val) : Val := if i.ptr then .ptr w else w
      match derefIf i.ptr v with
      | .struct fs =>
        match findField chld fs s.text with
        | none => ⟨v, .cont⟩
        | some (ch, fv) =>
          let idx := (chld.takeWhile fun c => !(strBytes c.name == s.text)).length
          if ch.isLeaf then
            match assignLeaf cfg ch fv src noBuf with
            | some fv' => ⟨rewrap (.struct (replaceNth fs idx fv')), .ret⟩
            | none => ⟨v, .panic⟩
          else
            let fv1 := autoCreate ch fv
            let r := setN cfg ch false false fv1 rest src noBuf
            ⟨rewrap (.struct (replaceNth fs idx r.v)), r.flow⟩
      | _ => ⟨v, .panic⟩
    | .map i k mv =>
      if i.ptr && v.isNilPtr then ⟨v, .ret⟩ else
      let rewrap (w : Val) : Val := if i.ptr then .ptr w else w
      match derefIf i.ptr v with
      | .map isNil ks vs =>
        let withKey (key : Val) (present : Option Val) : SetR :=
          let x := present.getD (zeroVal mv)
          let r := setN cfg mv true false x rest src noBuf
          let store (nv : Val) : Val :=
            if k.ptr then .map false (ks ++ [.ptr key]) (vs ++ [nv])      -- `m[&k] = x`: a fresh pointer is a new key
            else let (ks', vs') := mapSet ks vs key nv; .map false ks' vs'
          match r.flow with
          | .cont =>
            if isNil && cfg.setNilMapStorePanics then ⟨v, .panic⟩          -- assignment to entry in nil map
            else ⟨rewrap (store r.v), .ret⟩
          | .ret | .err =>
            -- the write-back is not reached (unless the repaired emitter always writes back)
            if isNil then ⟨v, r.flow⟩
            -- a nil map value that the callee created (`if x1 == nil { x1 = make(…) }`) is a fresh local map:
            -- without the write-back it is lost like any other copy
            else if mapValIsRef mv && present.isSome && !(cfg.setLostUpdate && isNilColl x) then ⟨rewrap (store r.v), r.flow⟩
            -- the repaired emitter writes a by-value struct entry back on every way out (deferred `m[k] = x`)
            else if !cfg.setLostUpdate && (writesBack mv || !(r.v == x)) then ⟨rewrap (store r.v), r.flow⟩
            else if present.isSome then
              ⟨rewrap (store (staleView (if noBuf && src.kind.family != .text then renderPieces src else []) x r.v)), r.flow⟩
            else ⟨v, r.flow⟩
          | .panic => ⟨v, .panic⟩
        if k.typn == "string" then
          if k.ptr then withKey (.str s.text) none
          else withKey (.str s.text) (lookupKey ks vs (.str s.text))
        else
          match convSeg k.typn k.typu s with
          | none => ⟨v, .panic⟩
          | some .err => ⟨v, .err⟩
          | some .opaque => ⟨v, .ret⟩          -- never reached: the driver skips inexact keys
          | some (.ok key) =>
            if k.ptr then withKey key none else withKey key (lookupKey ks vs key)
      | _ => ⟨v, .panic⟩
    | .slice i e =>
      if i.typn == "[]byte" then leaf .ret
      else
      if i.ptr && v.isNilPtr then ⟨v, .ret⟩ else
      let rewrap (w : Val) : Val := if i.ptr then .ptr w else w
      match derefIf i.ptr v with
      | .slice isNil es cap =>
        match s.pi with
        | none => ⟨v, .err⟩
        | some idx =>
          if (es.length : Int) > idx then
            if idx < 0 then (if cfg.negIndexPanics then ⟨v, .panic⟩ else ⟨v, .cont⟩)
            else
              match nth? es idx.toNat with
              | some x =>
                let r := setN cfg e false false x rest src noBuf
                let stored := rewrap (.slice isNil (replaceNth es idx.toNat r.v) cap)
                (match r.flow with
                 | .cont => ⟨stored, .ret⟩
                 | .ret | .err => if elemIsRef e || !cfg.setScalarElemLost then ⟨stored, r.flow⟩ else ⟨v, r.flow⟩
                 | .panic => ⟨v, .panic⟩)
              | none => ⟨v, .panic⟩
          else ⟨v, .cont⟩
      | _ => ⟨v, .panic⟩

/-- Outcome of Set / SetWithBuffer: the destination afterwards. -/
inductive SetOut
  | ok (root : Val)
  | err (root : Val)
  | panic
deriving Inhabited

def setM (cfg : GenCfg) (n : Node) (f : Form) (v : Val) (p : List Seg) (src : Src) (noBuf : Bool) : SetOut :=
  match p with
  | [] => .ok v
  | s :: _ =>
    match rootOfC cfg f with
    | .early => .ok v
    | .panic => .panic
    | .nilX =>
      (match n with
       | .map _ _ _ => .ok v
       | .struct _ chld => if chld.any (fun c => strBytes c.name == s.text) then .panic else .ok v
       | .slice _ _ => (match s.pi with | none => .err v | some _ => .panic)
       | .basic _ => .panic)
    | .ok =>
      let r := setN cfg n false true v p src noBuf
      -- a by-value argument is copied before use: in-place effects on references reachable from the
      -- copy still show; the root itself does not
      match r.flow with
      | .panic => .panic
      | .err => .err r.v
      | _ => .ok r.v

end Inspector
