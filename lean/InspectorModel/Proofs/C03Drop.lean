/-
Proofs/C03Drop.lean — the driver compares the destination after `dropCaps` (capacities and nil-versus-
empty forgotten): navigation finds the same element in the normalised value.
-/
import InspectorModel.Proofs.C03Stored
import InspectorModel.Proofs.C03Depth
set_option linter.unusedSimpArgs false
set_option linter.unusedVariables false
namespace Inspector.C03

theorem isNilPtr_D (a : Val) : (D a).isNilPtr = a.isNilPtr := by
  cases a <;> simp [D, Val.isNilPtr]

theorem targetOf_D (b : Bool) (a : Val) : targetOf b (D a) = D (targetOf b a) := by
  unfold targetOf
  cases b <;> simp
  cases a <;> simp [D]

/-- Values the conversion table stores are scalars, strings or byte slices. -/
def flat : Val → Bool
  | .bool _ | .int _ | .uint _ | .float _ | .str _ | .bytes _ _ _ => true
  | _ => false

theorem D_beq_flat_key (k key : Val) (hk : flat key = true) (hnb : ∀ nl d c, key ≠ .bytes nl d c) :
    (D k == key) = (k == key) := by
  cases key <;> simp [flat] at hk <;> cases k <;> simp [D, BEq.beq, Val.beq]
  exact absurd rfl (hnb _ _ _)

theorem lookupKey_Ds_flat (ks vs : List Val) (key : Val) (hk : flat key = true) (hnb : ∀ nl d c, key ≠ .bytes nl d c) :
    lookupKey (Ds ks) (Ds vs) key = (lookupKey ks vs key).map D := by
  induction ks generalizing vs with
  | nil => cases vs <;> simp [lookupKey, Ds]
  | cons k ks ih =>
    cases vs with
    | nil => simp [lookupKey, Ds]
    | cons v vs =>
      simp only [Ds, lookupKey, D_beq_flat_key k key hk hnb]
      split
      · simp
      · exact ih vs

theorem specKey_key_flat (k : Node) (s : Seg) (key : Val) (h : specKey k s = .key key) :
    flat key = true ∧ ∀ nl d c, key ≠ .bytes nl d c := by
  unfold specKey at h
  split at h
  · repeat' split at h
    all_goals cases h
  · repeat' split at h
    all_goals first | (cases h; done) | (injection h with h; subst h; simp [flat]; done)

theorem specConv_store_flat (dk : DynKind) (s : Src) (sv : Val) (h : specConv dk s = .store sv) : flat sv = true := by
  unfold specConv at h
  repeat' split at h
  all_goals first | (cases h; done) | (injection h with h; subst h; simp [flat]; done) | skip
  all_goals (injection h with h; subst h; split <;> simp [flat])

theorem valContentEq_D (x sv : Val) (hf : flat sv = true) (h : valContentEq x sv = true) :
    valContentEq (D x) sv = true := by
  cases sv <;> simp [flat] at hf <;> cases x <;> simp_all [valContentEq, D]

/-- Navigation that finds an element without passing an absent key finds the same element, normalised, in
the normalised value. -/
theorem navV_D_found (p : List Seg) : ∀ (n : Node) (a : Val) (via : Bool) (res : Res),
    navV via n a p = .found res false → navV via n (D a) p = .found ⟨res.node, D res.val⟩ false := by
  induction p with
  | nil =>
    intro n a via res h
    simp only [navV] at h ⊢
    injection h with h1 h2
    subst h1; subst h2
    rfl
  | cons s rest ih =>
    intro n a via res h
    unfold navV at h ⊢
    by_cases hl : n.isLeaf = true
    · simp [hl] at h
    · simp only [hl, Bool.false_eq_true, if_false] at h ⊢
      rw [isNilPtr_D, targetOf_D]
      by_cases hnil : (n.ptr && a.isNilPtr) = true
      · simp [hnil] at h
      · simp only [hnil, Bool.false_eq_true, if_false] at h ⊢
        generalize targetOf n.ptr a = w at h ⊢
        cases n with
        | basic i => cases h
        | struct i chld =>
          cases w <;> simp only [D] at h ⊢ <;> first | (cases h; done) | skip
          rename_i fs
          rw [findField_Ds]
          cases hff : findField chld fs s.text with
          | none => simp [hff] at h
          | some cf =>
            obtain ⟨ch, fv⟩ := cf
            simp only [hff, Option.map_some] at h ⊢
            exact ih ch fv via res h
        | map i k mv =>
          cases w <;> simp only [D] at h ⊢ <;> first | (cases h; done) | skip
          rename_i nl ks vs
          cases hk : specKey k s with
          | perr => simp [hk] at h
          | unspec => simp [hk] at h
          | never => simp only [hk] at h; exact absurd h (navV_true_ne_found _ _ _ _)
          | key key =>
            simp only [hk] at h ⊢
            obtain ⟨hf, hnb⟩ := specKey_key_flat _ _ _ hk
            rw [lookupKey_Ds_flat ks vs key hf hnb]
            cases hlk : lookupKey ks vs key with
            | none => simp only [hlk] at h; exact absurd h (navV_true_ne_found _ _ _ _)
            | some x =>
              simp only [hlk, Option.map_some] at h ⊢
              exact ih mv x via res h
        | slice i e =>
          cases w <;> simp only [D] at h ⊢ <;> first | (cases h; done) | skip
          rename_i nl es c
          by_cases hb : (i.typn == "[]byte") = true
          · simp only [hb, if_true] at h; cases h
          · simp only [hb, Bool.false_eq_true, if_false] at h ⊢
            cases hpi : s.pi with
            | none => simp [hpi] at h
            | some idx =>
              simp only [hpi, Ds_length] at h ⊢
              by_cases hr : 0 ≤ idx ∧ idx < (es.length : Int)
              · simp only [hr, and_self, if_true] at h ⊢
                rw [nth?_Ds]
                cases hx : nth? es idx.toNat with
                | none => simp [hx] at h
                | some x =>
                  simp only [hx, Option.map_some] at h ⊢
                  exact ih e x via res h
              · simp [hr] at h

end Inspector.C03
