/-
Proofs/CopyDropCaps.lean — `dropCaps` (forgetting capacities and nil-versus-empty of collections, as the
driver does before it applies the acceptance relations) changes none of `isEmptyV`, `eqS`, `approxEq`
for values whose map keys are scalars or pointers to scalars (every well-typed value of a well-formed type).
-/
import InspectorModel.Proofs.C06
set_option linter.unusedSimpArgs false
set_option linter.unusedVariables false
namespace Inspector.CopyPf

/-- A map key as well-formed types have them: scalar, nil, or pointer to a scalar. -/
def flatKey : Val → Bool
  | .bool _ | .int _ | .uint _ | .float _ | .str _ | .nilptr => true
  | .ptr w => isScalarV w
  | _ => false

def flatKeys : List Val → Bool
  | [] => true
  | k :: ks => flatKey k && flatKeys ks

mutual
def keysFlat : Val → Bool
  | .struct fs => keysFlatL fs
  | .map _ ks vs => flatKeys ks && keysFlatL vs
  | .slice _ es _ => keysFlatL es
  | .ptr w => keysFlat w
  | _ => true
def keysFlatL : List Val → Bool
  | [] => true
  | v :: vs => keysFlat v && keysFlatL vs
end

theorem dropCapsFuel_flat (f : Nat) (k : Val) (h : flatKey k = true) : dropCapsFuel f k = k := by
  cases f with
  | zero => rfl
  | succ f =>
    cases k <;> simp [flatKey] at h <;> simp [dropCapsFuel]
    rename_i w
    cases f with
    | zero => rfl
    | succ f => cases w <;> simp [isScalarV] at h <;> simp [dropCapsFuel]

theorem map_flat (f : Nat) : ∀ (ks : List Val), flatKeys ks = true → ks.map (dropCapsFuel f) = ks
  | [], _ => rfl
  | k :: ks, h => by
    simp only [flatKeys, Bool.and_eq_true] at h
    simp [dropCapsFuel_flat f k h.1, map_flat f ks h.2]

theorem keysFlatL_mem : ∀ (vs : List Val) (x : Val), keysFlatL vs = true → x ∈ vs → keysFlat x = true
  | [], _, _, hm => by cases hm
  | v :: vs, x, h, hm => by
    simp only [keysFlatL, Bool.and_eq_true] at h
    cases hm with
    | head => exact h.1
    | tail _ hm => exact keysFlatL_mem vs x h.2 hm

/-! ### well-typed values have flat keys -/
theorem WT_basic_flat (i : Info) (k : Val) (h : WT (.basic i) k = true) : flatKey k = true := by
  rcases WT_basic_scalar i k h with h1 | ⟨w, h1⟩ | h1
  · subst h1; rfl
  · subst h1
    rw [WT_ptr, Bool.and_eq_true, withPtr_basic] at h
    rcases WT_basic_scalar _ w h.2 with h2 | ⟨w', h2⟩ | h2
    · subst h2; simp [WT, Node.ptr, Node.info] at h
    · subst h2; simp [WT, Node.ptr, Node.info] at h
    · simpa [flatKey] using h2
  · cases k <;> simp [isScalarV] at h1 <;> rfl

theorem WTall_basic_flat (i : Info) : ∀ (ks : List Val), WTall (.basic i) ks = true → flatKeys ks = true
  | [], _ => rfl
  | k :: ks, h => by
    simp only [WTall, Bool.and_eq_true] at h
    simp [flatKeys, WT_basic_flat i k h.1, WTall_basic_flat i ks h.2]

def FlatQ (v : Val) : Prop := ∀ n, NodeWF n = true → WT n v = true → keysFlat v = true

theorem flat_all (e : Node) (hwf : NodeWF e = true) : ∀ (vs : List Val), (∀ x ∈ vs, FlatQ x) → WTall e vs = true → keysFlatL vs = true
  | [], _, _ => rfl
  | v :: vs, hq, h => by
    simp only [WTall, Bool.and_eq_true] at h
    simp [keysFlatL, hq v (by simp) e hwf h.1, flat_all e hwf vs (fun x hx => hq x (by simp [hx])) h.2]

theorem flat_fields : ∀ (vs : List Val) (chld : List Node), (∀ x ∈ vs, FlatQ x) → NodeWFs chld = true → WTs chld vs = true → keysFlatL vs = true
  | [], _, _, _, _ => rfl
  | v :: vs, [], _, _, h => by simp [WTs] at h
  | v :: vs, ch :: chs, hq, hwf, h => by
    simp only [WTs, NodeWFs, Bool.and_eq_true] at h hwf
    simp [keysFlatL, hq v (by simp) ch hwf.1 h.1, flat_fields vs chs (fun x hx => hq x (by simp [hx])) hwf.2 h.2]

theorem WT_keysFlat : ∀ v, FlatQ v := by
  apply size_ind
  intro v ih n hwf hwt
  cases v with
  | ptr w =>
    rw [WT_ptr, Bool.and_eq_true] at hwt
    simp only [keysFlat]
    exact ih w (size_ptr w) (n.withPtr false) (by rw [NodeWF_withPtr]; exact hwf) hwt.2
  | struct fs =>
    cases n with
    | struct i chld =>
      simp only [WT, Bool.and_eq_true] at hwt
      simp only [NodeWF] at hwf
      simp only [keysFlat]
      exact flat_fields fs chld (fun x hx => ih x (size_struct fs x hx)) hwf hwt.2
    | basic i => rcases WT_basic_scalar i _ hwt with h | ⟨w, h⟩ | h <;> simp [isScalarV] at h
    | _ => simp [WT] at hwt
  | map nl ks vs =>
    cases n with
    | map i mk mv =>
      simp only [WT, Bool.and_eq_true] at hwt
      simp only [NodeWF, Bool.and_eq_true] at hwf
      simp only [keysFlat, Bool.and_eq_true]
      refine ⟨?_, flat_all mv hwf.2 vs (fun x hx => ih x (size_map_v nl ks vs x hx)) hwt.2⟩
      cases mk with
      | basic ki => exact WTall_basic_flat ki ks hwt.1.2
      | _ => simp [Node.isBasicTyp] at hwf
    | basic i => rcases WT_basic_scalar i _ hwt with h | ⟨w, h⟩ | h <;> simp [isScalarV] at h
    | _ => simp [WT] at hwt
  | slice nl es c =>
    cases n with
    | slice i e =>
      simp only [WT, Bool.and_eq_true] at hwt
      simp only [NodeWF] at hwf
      simp only [keysFlat]
      exact flat_all e hwf es (fun x hx => ih x (size_slice nl es c x hx)) hwt.2
    | basic i => rcases WT_basic_scalar i _ hwt with h | ⟨w, h⟩ | h <;> simp [isScalarV] at h
    | _ => simp [WT] at hwt
  | _ => simp [keysFlat]

/-! ### isEmptyV -/
theorem allEmpty_map (d : Val → Val) : ∀ (vs : List Val), (∀ x ∈ vs, isEmptyV (d x) = isEmptyV x) →
    allEmpty (vs.map d) = allEmpty vs
  | [], _ => rfl
  | v :: vs, h => by
    simp [allEmpty, h v (by simp), allEmpty_map d vs (fun x hx => h x (by simp [hx]))]

theorem isEmptyV_dropCapsFuel : ∀ (v : Val) (f : Nat), isEmptyV (dropCapsFuel f v) = isEmptyV v := by
  apply size_ind
  intro v ih f
  cases f with
  | zero => rfl
  | succ f =>
    cases v with
    | struct fs =>
      simp only [dropCapsFuel, isEmptyV]
      exact allEmpty_map _ fs (fun x hx => ih x (size_struct fs x hx) f)
    | ptr w => simp only [dropCapsFuel, isEmptyV]; exact ih w (size_ptr w) f
    | map nl ks vs => cases ks <;> simp [dropCapsFuel, isEmptyV]
    | slice nl es c => cases es <;> simp [dropCapsFuel, isEmptyV]
    | _ => simp [dropCapsFuel, isEmptyV]

/-! ### eqS -/
theorem lookupKey_map (d : Val → Val) (k : Val) : ∀ (ks vs : List Val),
    lookupKey ks (vs.map d) k = (lookupKey ks vs k).map d
  | [], _ => by simp [lookupKey]
  | _ :: _, [] => by simp [lookupKey]
  | x :: ks, v :: vs => by
    simp only [List.map_cons, lookupKey]
    split
    · rfl
    · exact lookupKey_map d k ks vs

theorem lookupKey_mem (k v : Val) : ∀ (ks vs : List Val), lookupKey ks vs k = some v → v ∈ vs
  | [], _, h => by simp [lookupKey] at h
  | _ :: _, [], h => by simp [lookupKey] at h
  | x :: ks, y :: vs, h => by
    simp only [lookupKey] at h
    split at h
    · injection h with h; subst h; simp
    · simp [lookupKey_mem k v ks vs h]

def EqDQ (a : Val) : Prop :=
  ∀ (env : EqEnv) (n : Node) (π : String) (b : Val) (f : Nat), keysFlat b = true →
    eqS env n π a (dropCapsFuel f b) = eqS env n π a b

theorem eqFields_drop (env : EqEnv) (π : String) (f : Nat) : ∀ (as : List Val) (chld : List Node) (bs : List Val),
    (∀ x ∈ as, EqDQ x) → keysFlatL bs = true →
    eqFields env chld π as (bs.map (dropCapsFuel f)) = eqFields env chld π as bs
  | [], _, _, _, _ => by simp [eqFields]
  | a :: as, [], _, _, _ => by simp [eqFields]
  | a :: as, ch :: chs, [], _, _ => by simp [eqFields]
  | a :: as, ch :: chs, b :: bs, hq, hk => by
    simp only [keysFlatL, Bool.and_eq_true] at hk
    simp only [List.map_cons, eqFields, hq a (by simp) env ch _ b f hk.1,
      eqFields_drop env π f as chs bs (fun x hx => hq x (by simp [hx])) hk.2]

theorem eqElems_drop (env : EqEnv) (e : Node) (π : String) (f : Nat) : ∀ (as bs : List Val),
    (∀ x ∈ as, EqDQ x) → keysFlatL bs = true →
    eqElems env e π as (bs.map (dropCapsFuel f)) = eqElems env e π as bs
  | [], _, _, _ => by simp [eqElems]
  | a :: as, [], _, _ => by simp [eqElems]
  | a :: as, b :: bs, hq, hk => by
    simp only [keysFlatL, Bool.and_eq_true] at hk
    simp only [List.map_cons, eqElems, hq a (by simp) env e _ b f hk.1,
      eqElems_drop env e π f as bs (fun x hx => hq x (by simp [hx])) hk.2]

theorem eqMapVals_drop (env : EqEnv) (mv : Node) (π : String) (f : Nat) (bks bvs : List Val) (hk : keysFlatL bvs = true) :
    ∀ (avs aks : List Val), (∀ x ∈ avs, EqDQ x) →
    eqMapVals env mv π aks avs bks (bvs.map (dropCapsFuel f)) = eqMapVals env mv π aks avs bks bvs
  | [], _, _ => by simp [eqMapVals]
  | av :: avs, [], _ => by simp [eqMapVals]
  | av :: avs, ak :: aks, hq => by
    simp only [eqMapVals, lookupKey_map]
    cases hl : lookupKey bks bvs ak with
    | none => simp
    | some bv =>
      have hbv := keysFlatL_mem bvs bv hk (lookupKey_mem ak bv bks bvs hl)
      simp only [Option.map_some, hq av (by simp) env mv π bv f hbv,
        eqMapVals_drop env mv π f bks bvs hk avs aks (fun x hx => hq x (by simp [hx]))]

theorem eqS_dropCapsFuel : ∀ a, EqDQ a := by
  apply size_ind
  intro a ih env n π b f hk
  cases f with
  | zero => rfl
  | succ f =>
    cases a with
    | nilptr => cases b <;> simp [eqS, dropCapsFuel, Val.isNilPtr]
    | ptr aw =>
      cases b with
      | ptr bw =>
        simp only [dropCapsFuel, eqS]
        exact ih aw (size_ptr aw) env _ π bw f (by simpa [keysFlat] using hk)
      | _ => simp [eqS, dropCapsFuel]
    | bool x => cases b <;> simp [eqS, dropCapsFuel, eqScalar]
    | int x => cases b <;> simp [eqS, dropCapsFuel, eqScalar]
    | uint x => cases b <;> simp [eqS, dropCapsFuel, eqScalar]
    | float x => cases b <;> simp [eqS, dropCapsFuel, eqScalar]
    | str x => cases b <;> simp [eqS, dropCapsFuel, eqScalar]
    | bytes nl d c => cases b <;> simp [eqS, dropCapsFuel]
    | struct afs =>
      cases b with
      | struct bfs =>
        cases n with
        | struct i chld =>
          simp only [dropCapsFuel, eqS]
          exact eqFields_drop env π f afs chld bfs (fun x hx => ih x (size_struct afs x hx)) (by simpa [keysFlat] using hk)
        | _ => simp [eqS, dropCapsFuel]
      | _ => cases n <;> simp [eqS, dropCapsFuel]
    | map nl aks avs =>
      cases b with
      | map bnl bks bvs =>
        cases n with
        | map i mk mv =>
          simp only [keysFlat, Bool.and_eq_true] at hk
          simp only [dropCapsFuel, eqS, map_flat f bks hk.1,
            eqMapVals_drop env mv π f bks bvs hk.2 avs aks (fun x hx => ih x (size_map_v nl aks avs x hx))]
        | _ => simp [eqS, dropCapsFuel]
      | _ => cases n <;> simp [eqS, dropCapsFuel]
    | slice nl aes c =>
      cases b with
      | slice bnl bes bc =>
        cases n with
        | slice i e =>
          simp only [dropCapsFuel, eqS, List.length_map]
          rw [eqElems_drop env e π f aes bes (fun x hx => ih x (size_slice nl aes c x hx)) (by simpa [keysFlat] using hk)]
        | _ => simp [eqS, dropCapsFuel]
      | _ => cases n <;> simp [eqS, dropCapsFuel]

/-! ### approxEq -/
def ApDQ (a : Val) : Prop :=
  ∀ (b : Val) (f : Nat), keysFlat b = true → approxEq a (dropCapsFuel f b) = approxEq a b

theorem approxEqList_drop (f : Nat) : ∀ (as bs : List Val), (∀ x ∈ as, ApDQ x) → keysFlatL bs = true →
    approxEqList as (bs.map (dropCapsFuel f)) = approxEqList as bs
  | [], bs, _, _ => by cases bs <;> simp [approxEqList]
  | a :: as, [], _, _ => by simp [approxEqList]
  | a :: as, b :: bs, hq, hk => by
    simp only [keysFlatL, Bool.and_eq_true] at hk
    simp only [List.map_cons, approxEqList, hq a (by simp) b f hk.1,
      approxEqList_drop f as bs (fun x hx => hq x (by simp [hx])) hk.2]

theorem approxEqMap_drop (f : Nat) (bks bvs : List Val) (hk : keysFlatL bvs = true) :
    ∀ (avs aks : List Val), (∀ x ∈ avs, ApDQ x) →
    approxEqMap aks avs bks (bvs.map (dropCapsFuel f)) = approxEqMap aks avs bks bvs
  | [], _, _ => by simp [approxEqMap]
  | av :: avs, [], _ => by simp [approxEqMap]
  | av :: avs, ak :: aks, hq => by
    simp only [approxEqMap, lookupKey_map]
    cases hl : lookupKey bks bvs ak with
    | none => simp
    | some bv =>
      have hbv := keysFlatL_mem bvs bv hk (lookupKey_mem ak bv bks bvs hl)
      simp only [Option.map_some, hq av (by simp) bv f hbv,
        approxEqMap_drop f bks bvs hk avs aks (fun x hx => hq x (by simp [hx]))]

theorem approxEq_dropCapsFuel : ∀ a, ApDQ a := by
  apply size_ind
  intro a ih b f hk
  cases f with
  | zero => rfl
  | succ f =>
    cases a with
    | nilptr => cases b <;> simp [approxEq, dropCapsFuel, isEmptyV_dropCapsFuel]
    | ptr aw =>
      cases b with
      | ptr bw =>
        simp only [dropCapsFuel, approxEq]
        exact ih aw (size_ptr aw) bw f (by simpa [keysFlat] using hk)
      | _ => simp [approxEq, dropCapsFuel]
    | bool x => cases b <;> simp [approxEq, dropCapsFuel]
    | int x => cases b <;> simp [approxEq, dropCapsFuel]
    | uint x => cases b <;> simp [approxEq, dropCapsFuel]
    | float x => cases b <;> simp [approxEq, dropCapsFuel]
    | str x => cases b <;> simp [approxEq, dropCapsFuel]
    | bytes nl d c => cases b <;> simp [approxEq, dropCapsFuel]
    | struct afs =>
      cases b with
      | struct bfs =>
        simp only [dropCapsFuel, approxEq]
        exact approxEqList_drop f afs bfs (fun x hx => ih x (size_struct afs x hx)) (by simpa [keysFlat] using hk)
      | _ => simp [approxEq, dropCapsFuel]
    | map nl aks avs =>
      cases b with
      | map bnl bks bvs =>
        simp only [keysFlat, Bool.and_eq_true] at hk
        simp only [dropCapsFuel, approxEq, map_flat f bks hk.1,
          approxEqMap_drop f bks bvs hk.2 avs aks (fun x hx => ih x (size_map_v nl aks avs x hx))]
      | _ => simp [approxEq, dropCapsFuel]
    | slice nl aes c =>
      cases b with
      | slice bnl bes bc =>
        simp only [dropCapsFuel, approxEq]
        exact approxEqList_drop f aes bes (fun x hx => ih x (size_slice nl aes c x hx)) (by simpa [keysFlat] using hk)
      | _ => simp [approxEq, dropCapsFuel]

end Inspector.CopyPf
