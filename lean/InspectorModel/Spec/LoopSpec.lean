/-
Spec/LoopSpec.lean — C09: which collection a path denotes for Loop, and what the iterator must receive.
-/
import InspectorModel.Spec.Nav
import InspectorModel.Gen.Loop
namespace Inspector

inductive LoopTarget
  | coll (n : Node) (v : Val)     -- the path denotes this map / slice (pointer level stripped)
  | nothing                       -- no prefix of the path denotes a collection
  | unspec                        -- the path continues past a collection
deriving Inhabited

def loopTarget (n : Node) (v : Val) (p : List Seg) : LoopTarget :=
  if n.ptr && v.isNilPtr then .nothing else
  let w := if n.ptr then (match v with | .ptr w => w | w => w) else v
  match n with
  | .basic _ => .nothing
  | .map _ _ _ => if p.isEmpty then .coll n w else .unspec
  | .slice i _ => if i.typn == "[]byte" then .nothing else if p.isEmpty then .coll n w else .unspec
  | .struct _ chld =>
    match p with
    | [] => .nothing
    | s :: rest =>
      match w with
      | .struct fs =>
        (match findField chld fs s.text with
         | some (ch, fv) => loopTarget ch fv rest
         | none => .nothing)
      | _ => .nothing

/-- One group as observed: the oracle-annotated key text (if any), inspector name, value. -/
structure ObsGroup where
  key : Option Seg
  ins : String
  shape : String
  val : Val
deriving Inhabited

/-- Expected number of callbacks: every element, or up to and including the first Break. -/
def expectedCount (sc : LoopScript) (n : Nat) : Nat :=
  let rec go (i : Nat) (fuel : Nat) : Nat :=
    match fuel with
    | 0 => n
    | f + 1 => if i ≥ n then n else if scriptAt sc.ctl i 0 == 1 then i + 1 else go (i + 1) f
  go 0 n

def groupMatches (e : Node) (want : Bool) (keyOk : Seg → Bool) (x : Val) (g : ObsGroup) : Bool :=
  (match g.key with
   | some s => want && keyOk s
   | none => !want) &&
  g.ins == elemInspector e && g.shape == shapeOf e && g.val.strip == x.strip

def sliceGroupsOk (sc : LoopScript) (e : Node) : List Val → List ObsGroup → Nat → Bool
  | _, [], _ => true
  | x :: xs, g :: gs, i =>
    groupMatches e (scriptAt sc.wantKey i false) (fun s => s.text == renderNat i) x g && sliceGroupsOk sc e xs gs (i + 1)
  | [], _ :: _, _ => false

/-- Maps: every observed group is a distinct entry; the key text parses back to the entry's key. -/
def mapGroupsOk (sc : LoopScript) (k mv : Node) (ks vs : List Val) : List ObsGroup → Nat → Bool
  | [], _ => true
  | g :: gs, i =>
    let want := scriptAt sc.wantKey i false
    -- find an entry this group can stand for, remove it, go on
    let rec pick (ks vs : List Val) (accK accV : List Val) : Option (List Val × List Val) :=
      match ks, vs with
      | key :: ks', x :: vs' =>
        -- no text denotes a nil pointer key: whatever is handed over as its key is accepted
        let keyOk (s : Seg) : Bool :=
          key.isNilPtr ||
          match specKey (k.withPtr false) s with
          | .key k' => k' == key.strip
          | _ => false
        if groupMatches mv want keyOk x g then some (accK.reverse ++ ks', accV.reverse ++ vs')
        else pick ks' vs' (key :: accK) (x :: accV)
      | _, _ => none
    match pick ks vs [] [] with
    | some (ks', vs') => mapGroupsOk sc k mv ks' vs' gs (i + 1)
    | none => false

def loopAccepts (sc : LoopScript) (n : Node) (v : Val) (p : List Seg) (gs : List ObsGroup) (fin : LoopEnd) : Bool :=
  match loopTarget n v p with
  | .unspec => true
  | .nothing => gs.isEmpty && fin == .done
  | .coll cn cv =>
    fin == .done &&
    (match cn, cv with
     | .slice _ e, .slice _ es _ => gs.length == expectedCount sc es.length && sliceGroupsOk sc e es gs 0
     | .map _ k mv, .map _ ks vs =>
       -- the script must not depend on the position where the order is free: the harness keeps
       -- wantKey constant for maps
       gs.length == expectedCount sc ks.length && mapGroupsOk sc k mv ks vs gs 0
     | _, _ => false)

end Inspector
