/-
Props/C05.lean — property theorems for C05 (DeepEqual is structural equality: reflexive, symmetric, sees
every change).

`deq_correct`: for the repaired emitter model, every tree whose inspector compiles (`EmitOK`) and whose
fields are named the way both parsers name them (`PathNamesOK`), every pair of well-typed values and every
option set, the answer of DeepEqual is one the structural reading `eqS` accepts: `true` where the values
are structurally identical, `false` where they differ in a scalar, string, bytes, length, key set or
nil-ness, either answer only for floats within the tolerance and for pointer-keyed maps of independent
objects. `deq_structural` is its reading for nil options (C05 proper); with options it is C11
(Props/C11.lean). `deq_symmetric` / `deq_reflexive`: same answer in both argument orders, and `true` for a
value against itself, for values whose maps have pairwise distinct keys (`MapKeysOK`).
The model of the current tree differs on the classes `deq-ptr-leaf-nil` and `deq-nil-before-mustcheck`
(`repo_not_correct`, `repo_not_correct_nil_before_mustcheck`) — that is the tree at the pinned commit
(`GenCfg.original`). `section CurrentTree`: since the `fix:` commits `GenCfg.repo` has every switch DeepEqual reads
off (`deqM_repo`, Proofs/DEQCurrent.lean), so every theorem above holds of the emitter as it stands:
`deq_current`, `deq_anyroot_current`, `deq_structural_current`, `deq_symmetric_current`, `deq_reflexive_current`,
`deq_check_current`.
-/
import InspectorModel.Proofs.DEQSym
import InspectorModel.Proofs.DEQCurrent
namespace Inspector.C05

/-- The decision function of options.go with nil options: every field is checked. -/
theorem mustCheck_nil (path : String) : deqMustCheck path none = true := rfl

/-- C05 (and C11: `opts` is arbitrary) for the repaired emitter. The pairing is the one `opDeq`
(Driver/GenOps.lean) applies when both arguments are recognised and non-nil. -/
theorem deq_correct (n : Node) (a b : Val) (opts : Option DeqOpts) (ident : Bool)
    (hroot : RootOK n = true) (hok : EmitOK n = true) (hnames : PathNamesOK n = true)
    (hwa : WT n a = true) (hwb : WT n b = true) :
    deqAccepts (eqS { opts := opts, ident := ident } n "" a b)
      (deqM { cfg := GenCfg.fixed, opts := opts, ident := ident } n .ptr .ptr a b) = true := by
  have hl : n.isLeaf = false := by
    simp only [RootOK, Bool.and_eq_true, Bool.not_eq_true'] at hroot
    exact hroot.2
  exact deqM_correct n a b opts ident (isBytes_le_isLeaf n hl) hok hnames hwa hwb

/-- The same for any root node that is not `[]byte` itself (pointer-typed or scalar roots included). -/
theorem deq_correct_anyroot (n : Node) (a b : Val) (opts : Option DeqOpts) (ident : Bool)
    (hroot : n.isBytes = false) (hok : EmitOK n = true) (hnames : PathNamesOK n = true)
    (hwa : WT n a = true) (hwb : WT n b = true) :
    deqAccepts (eqS { opts := opts, ident := ident } n "" a b)
      (deqM { cfg := GenCfg.fixed, opts := opts, ident := ident } n .ptr .ptr a b) = true :=
  deqM_correct n a b opts ident hroot hok hnames hwa hwb

/-- C05 proper: plain `DeepEqual` (nil options). -/
theorem deq_structural (n : Node) (a b : Val) (ident : Bool)
    (hroot : RootOK n = true) (hok : EmitOK n = true) (hnames : PathNamesOK n = true)
    (hwa : WT n a = true) (hwb : WT n b = true) :
    deqAccepts (eqS { opts := none, ident := ident } n "" a b)
      (deqM { cfg := GenCfg.fixed, opts := none, ident := ident } n .ptr .ptr a b) = true :=
  deq_correct n a b none ident hroot hok hnames hwa hwb

/-- Same answer in both argument orders — for every pair, floats closer than the tolerance included. -/
theorem deq_symmetric (n : Node) (a b : Val) (opts : Option DeqOpts) (ident : Bool)
    (hwa : WT n a = true) (hwb : WT n b = true) (hka : MapKeysOK a = true) (hkb : MapKeysOK b = true) :
    deqM { cfg := GenCfg.fixed, opts := opts, ident := ident } n .ptr .ptr a b =
      deqM { cfg := GenCfg.fixed, opts := opts, ident := ident } n .ptr .ptr b a :=
  deqM_symmetric n a b opts ident hwa hwb hka hkb

/-- A value compared with itself (the very same object) is equal, under every option set. -/
theorem deq_reflexive (n : Node) (a : Val) (opts : Option DeqOpts)
    (hwa : WT n a = true) (hka : MapKeysOK a = true) :
    deqM { cfg := GenCfg.fixed, opts := opts, ident := true } n .ptr .ptr a a = .t :=
  deqM_reflexive n a opts hwa hka

/-- All three conjuncts of the check `opDeq` applies, at once. -/
theorem deq_check (n : Node) (a b : Val) (opts : Option DeqOpts) (ident : Bool)
    (hroot : RootOK n = true) (hok : EmitOK n = true) (hnames : PathNamesOK n = true)
    (hwa : WT n a = true) (hwb : WT n b = true) (hka : MapKeysOK a = true) (hkb : MapKeysOK b = true) :
    let env : DeqEnv := { cfg := GenCfg.fixed, opts := opts, ident := ident }
    let t := eqS { opts := opts, ident := ident } n "" a b
    (deqAccepts t (deqM env n .ptr .ptr a b) && deqAccepts t (deqM env n .ptr .ptr b a) &&
      deqM env n .ptr .ptr a b == deqM env n .ptr .ptr b a) = true := by
  intro env t
  have h1 := deq_correct n a b opts ident hroot hok hnames hwa hwb
  have h2 := deq_symmetric n a b opts ident hwa hwb hka hkb
  show (deqAccepts t (deqM env n .ptr .ptr a b) && deqAccepts t (deqM env n .ptr .ptr b a) &&
      deqM env n .ptr .ptr a b == deqM env n .ptr .ptr b a) = true
  rw [← h2]
  simp [h1, t, env]

section NonVacuity
/-- `struct { A int; F float64; P *struct{ B string }; N *int; M map[string]int; S []*Inner; Y []byte }`. -/
def inner : Info → Node := fun i => .struct i [.basic { typn := "string", typu := "string", name := "B" }]
def exNode : Node :=
  .struct { typn := "T" } [
    .basic { typn := "int", typu := "int", name := "A" },
    .basic { typn := "float64", typu := "float64", name := "F" },
    inner { typn := "Inner", name := "P", ptr := true },
    .basic { typn := "int", typu := "int", name := "N", ptr := true },
    .map { typn := "map[string]int", name := "M" } (.basic { typn := "string", typu := "string" })
      (.basic { typn := "int", typu := "int" }),
    .slice { typn := "[]*Inner", name := "S" } (inner { typn := "Inner", ptr := true }),
    .slice { typn := "[]byte", name := "Y" } (.basic { typn := "byte", typu := "byte" })]
def mk (a : Int) (f : Int) (p n : Val) (ks vs : List Val) (s : List Val) (y : Bytes) : Val :=
  .struct [.int a, .float f, p, n, .map false ks vs, .slice false s s.length, .bytes false y y.length]
def sB (s : String) : Val := .ptr (.struct [.str (strBytes s)])
def exA : Val := mk 5 1000000 (sB "x") (.ptr (.int 7)) [.str (strBytes "k"), .str (strBytes "l")] [.int 1, .int 2] [sB "e", .nilptr] [1, 2]
/-- Same as `exA` with the map listed in the other order and the float moved by less than the tolerance. -/
def exA' : Val := mk 5 1000100 (sB "x") (.ptr (.int 7)) [.str (strBytes "l"), .str (strBytes "k")] [.int 2, .int 1] [sB "e", .nilptr] [1, 2]
/-- `exA` with the pointer-to-scalar field cleared. -/
def exB : Val := mk 5 1000000 (sB "x") .nilptr [.str (strBytes "k"), .str (strBytes "l")] [.int 1, .int 2] [sB "e", .nilptr] [1, 2]
/-- `exA` with a string changed behind the slice of pointers. -/
def exC : Val := mk 5 1000000 (sB "x") (.ptr (.int 7)) [.str (strBytes "k"), .str (strBytes "l")] [.int 1, .int 2] [sB "f", .nilptr] [1, 2]

example : RootOK exNode = true ∧ EmitOK exNode = true ∧ PathNamesOK exNode = true ∧ NodeWF exNode = true := by decide
example : WT exNode exA = true ∧ WT exNode exA' = true ∧ WT exNode exB = true ∧ WT exNode exC = true := by decide
example : MapKeysOK exA = true ∧ MapKeysOK exA' = true ∧ MapKeysOK exB = true ∧ MapKeysOK exC = true := by decide
example : eqS {} exNode "" exA exA = .must ∧ eqS {} exNode "" exA exA' = .either ∧
    eqS {} exNode "" exA exB = .mustNot ∧ eqS {} exNode "" exA exC = .mustNot := by decide
example : deqM { cfg := GenCfg.fixed } exNode .ptr .ptr exA exA' = .t ∧
    deqM { cfg := GenCfg.fixed } exNode .ptr .ptr exA exB = .f ∧
    deqM { cfg := GenCfg.fixed } exNode .ptr .ptr exB exA = .f ∧
    deqM { cfg := GenCfg.fixed } exNode .ptr .ptr exA exC = .f := by decide

/-- Known finding `deq-ptr-leaf-nil`: for a pointer-to-scalar struct field the emitted nil test looks at the
parent's variables, so a cleared field is dereferenced: the current tree panics where `false` is due. -/
theorem repo_not_correct :
    deqAccepts (eqS {} exNode "" exA exB) (deqM { cfg := GenCfg.original } exNode .ptr .ptr exA exB) = false := by
  decide
example : deqM { cfg := GenCfg.original } exNode .ptr .ptr exA exB = .panic := by decide

/-- The same class where `true` is due: both fields nil. -/
theorem repo_not_correct_both_nil :
    deqAccepts (eqS {} exNode "" exB exB) (deqM { cfg := GenCfg.original } exNode .ptr .ptr exB exB) = false := by
  decide

/-- Known finding `deq-nil-before-mustcheck`: the nil-ness test of a pointer-typed struct field is emitted
outside the `DEQMustCheck` wrapper, so an excluded field still decides the answer through its nil-ness. -/
def exclP : Option DeqOpts := some { exclude := ["P"] }
def exD : Val := mk 5 1000000 .nilptr (.ptr (.int 7)) [.str (strBytes "k"), .str (strBytes "l")] [.int 1, .int 2] [sB "e", .nilptr] [1, 2]
theorem repo_not_correct_nil_before_mustcheck :
    deqAccepts (eqS { opts := exclP } exNode "" exA exD)
      (deqM { cfg := GenCfg.original, opts := exclP } exNode .ptr .ptr exA exD) = false := by
  decide
example : eqS { opts := exclP } exNode "" exA exD = .must ∧
    deqM { cfg := GenCfg.fixed, opts := exclP } exNode .ptr .ptr exA exD = .t ∧
    deqM { cfg := GenCfg.original, opts := exclP } exNode .ptr .ptr exA exD = .f := by decide
/-- Pointer-typed map keys of independent objects (`ident := false`): `map[*int32]*int64`. The nil key equals
itself, any other pointer key is never found; the answers stay symmetric, also with the nil key on one side only. -/
def pkNode : Node := .map { typn := "PK" } (.basic { typn := "int32", typu := "int32", ptr := true })
  (.basic { typn := "int64", typu := "int64", ptr := true })
def pkNil3 : Val := .map false [.nilptr] [.ptr (.int 3)]
def pkNil4 : Val := .map false [.nilptr] [.ptr (.int 4)]
def pkP3 : Val := .map false [.ptr (.int 1)] [.ptr (.int 3)]
def pkBoth : Val := .map false [.nilptr, .ptr (.int 1)] [.ptr (.int 3), .ptr (.int 3)]
def pkBoth' : Val := .map false [.ptr (.int 2), .nilptr] [.ptr (.int 3), .ptr (.int 3)]
example : RootOK pkNode = true ∧ EmitOK pkNode = true ∧ PathNamesOK pkNode = true ∧ WT pkNode pkNil3 = true ∧
    WT pkNode pkP3 = true ∧ WT pkNode pkBoth = true ∧ WT pkNode pkBoth' = true ∧
    MapKeysOK pkNil3 = true ∧ MapKeysOK pkP3 = true ∧ MapKeysOK pkBoth = true ∧ MapKeysOK pkBoth' = true := by decide
example : deqM { cfg := GenCfg.fixed } pkNode .ptr .ptr pkNil3 pkNil3 = .t ∧
    deqM { cfg := GenCfg.fixed } pkNode .ptr .ptr pkNil3 pkNil4 = .f ∧
    deqM { cfg := GenCfg.fixed } pkNode .ptr .ptr pkNil3 pkP3 = .f ∧
    deqM { cfg := GenCfg.fixed } pkNode .ptr .ptr pkP3 pkNil3 = .f ∧
    deqM { cfg := GenCfg.fixed } pkNode .ptr .ptr pkP3 pkP3 = .f ∧
    deqM { cfg := GenCfg.fixed } pkNode .ptr .ptr pkBoth pkBoth' = .f ∧
    deqM { cfg := GenCfg.fixed } pkNode .ptr .ptr pkBoth' pkBoth = .f ∧
    deqM { cfg := GenCfg.fixed, ident := true } pkNode .ptr .ptr pkBoth pkBoth = .t ∧
    eqS {} pkNode "" pkNil3 pkNil3 = .either := by decide
end NonVacuity

section Necessity
/-! Each hypothesis of `deq_correct` / `deq_symmetric` / `deq_reflexive` that is not plain well-typedness is
needed: without it the repaired model is rejected (or asymmetric). -/
def onlyX : Option DeqOpts := some { filter := ["X"] }
def bytesNode (name : String := "") : Node := .slice { typn := "[]byte", name := name } (.basic { typn := "byte", typu := "byte" })

/-- `EmitOK` (no `[]byte` as slice element / map value — such inspectors do not compile): in a root
`[][]byte` the element comparison asks `DEQMustCheck("")`, which a non-empty filter denies. -/
theorem emitOK_needed :
    let n : Node := .slice { typn := "L" } (bytesNode)
    let a : Val := .slice false [.bytes false [1] 1] 1
    let b : Val := .slice false [.bytes false [2] 1] 1
    RootOK n = true ∧ PathNamesOK n = true ∧ WT n a = true ∧ WT n b = true ∧ EmitOK n = false ∧
    deqAccepts (eqS { opts := onlyX } n "" a b) (deqM { cfg := GenCfg.fixed, opts := onlyX } n .ptr .ptr a b) = false := by
  decide

/-- Root not `[]byte` itself: same reason. -/
theorem root_not_bytes_needed :
    let n : Node := bytesNode
    let a : Val := .bytes false [1] 1
    let b : Val := .bytes false [2] 1
    PathNamesOK n = true ∧ EmitOK n = true ∧ WT n a = true ∧ WT n b = true ∧
    deqAccepts (eqS { opts := onlyX } n "" a b) (deqM { cfg := GenCfg.fixed, opts := onlyX } n .ptr .ptr a b) = false := by
  decide

/-- `PathNamesOK`: a map value carrying a name shifts the dotted path of everything below it. -/
theorem pathNames_needed :
    let n : Node := .map { typn := "M" } (.basic { typn := "string", typu := "string" })
      (.struct { typn := "S", name := "V" } [.basic { typn := "int", typu := "int", name := "A" }])
    let a : Val := .map false [.str []] [.struct [.int 1]]
    let b : Val := .map false [.str []] [.struct [.int 2]]
    let o : Option DeqOpts := some { filter := ["A"] }
    RootOK n = true ∧ EmitOK n = true ∧ PathNamesOK n = false ∧ WT n a = true ∧ WT n b = true ∧
    deqAccepts (eqS { opts := o } n "" a b) (deqM { cfg := GenCfg.fixed, opts := o } n .ptr .ptr a b) = false := by
  decide

def miNode : Node := .map { typn := "M" } (.basic { typn := "string", typu := "string" }) (.basic { typn := "int", typu := "int" })
/-- `MapKeysOK`: an association list with a repeated key (no Go map is one) is not equal to itself … -/
theorem distinctKeys_needed_refl :
    let a : Val := .map false [.str [], .str []] [.int 1, .int 2]
    WT miNode a = true ∧ MapKeysOK a = false ∧
    deqM { cfg := GenCfg.fixed, ident := true } miNode .ptr .ptr a a = .f := by
  decide
/-- … and is compared asymmetrically. -/
theorem distinctKeys_needed_sym :
    let a : Val := .map false [.str [], .str []] [.int 1, .int 1]
    let b : Val := .map false [.str [], .str [1]] [.int 1, .int 1]
    WT miNode a = true ∧ WT miNode b = true ∧ MapKeysOK a = false ∧ MapKeysOK b = true ∧
    deqM { cfg := GenCfg.fixed } miNode .ptr .ptr a b = .t ∧ deqM { cfg := GenCfg.fixed } miNode .ptr .ptr b a = .f := by
  decide
end Necessity

/-! ### The tree as it is now

After the generator `fix:` commits that concern DeepEqual (nil-ness of pointer-to-scalar fields, nil test inside
the `DEQMustCheck` wrapper) and the typed-nil-root fix, no switch that `deqM` consults (`deqPtrLeafNilUnchecked`,
`deqNilBeforeMustCheck`, `nilRootPanics`) is left on in `GenCfg.repo`: the model of the current tree *is* the
repaired model, for every pair of argument forms, every option set and `ident`. -/
section CurrentTree
open Inspector.DEQCurrent

/-- DeepEqual of the current tree is DeepEqual of the repaired emitter (any environment, any argument forms). -/
theorem deqM_repo (env : DeqEnv) (n : Node) (fl fr : Form) (l r : Val) :
    deqM { env with cfg := GenCfg.repo } n fl fr l r = deqM { env with cfg := GenCfg.fixed } n fl fr l r :=
  DEQCurrent.deqM_repo env n fl fr l r

/-- C05 (and C11) for the emitter as it stands. -/
theorem deq_current (n : Node) (a b : Val) (opts : Option DeqOpts) (ident : Bool)
    (hroot : RootOK n = true) (hok : EmitOK n = true) (hnames : PathNamesOK n = true)
    (hwa : WT n a = true) (hwb : WT n b = true) :
    deqAccepts (eqS { opts := opts, ident := ident } n "" a b)
      (deqM { cfg := GenCfg.repo, opts := opts, ident := ident } n .ptr .ptr a b) = true := by
  rw [deqM_repo_mk]; exact deq_correct n a b opts ident hroot hok hnames hwa hwb

theorem deq_anyroot_current (n : Node) (a b : Val) (opts : Option DeqOpts) (ident : Bool)
    (hroot : n.isBytes = false) (hok : EmitOK n = true) (hnames : PathNamesOK n = true)
    (hwa : WT n a = true) (hwb : WT n b = true) :
    deqAccepts (eqS { opts := opts, ident := ident } n "" a b)
      (deqM { cfg := GenCfg.repo, opts := opts, ident := ident } n .ptr .ptr a b) = true := by
  rw [deqM_repo_mk]; exact deq_correct_anyroot n a b opts ident hroot hok hnames hwa hwb

/-- C05 proper for the emitter as it stands: plain `DeepEqual` (nil options). -/
theorem deq_structural_current (n : Node) (a b : Val) (ident : Bool)
    (hroot : RootOK n = true) (hok : EmitOK n = true) (hnames : PathNamesOK n = true)
    (hwa : WT n a = true) (hwb : WT n b = true) :
    deqAccepts (eqS { opts := none, ident := ident } n "" a b)
      (deqM { cfg := GenCfg.repo, opts := none, ident := ident } n .ptr .ptr a b) = true :=
  deq_current n a b none ident hroot hok hnames hwa hwb

theorem deq_symmetric_current (n : Node) (a b : Val) (opts : Option DeqOpts) (ident : Bool)
    (hwa : WT n a = true) (hwb : WT n b = true) (hka : MapKeysOK a = true) (hkb : MapKeysOK b = true) :
    deqM { cfg := GenCfg.repo, opts := opts, ident := ident } n .ptr .ptr a b =
      deqM { cfg := GenCfg.repo, opts := opts, ident := ident } n .ptr .ptr b a := by
  rw [deqM_repo_mk, deqM_repo_mk]; exact deq_symmetric n a b opts ident hwa hwb hka hkb

theorem deq_reflexive_current (n : Node) (a : Val) (opts : Option DeqOpts)
    (hwa : WT n a = true) (hka : MapKeysOK a = true) :
    deqM { cfg := GenCfg.repo, opts := opts, ident := true } n .ptr .ptr a a = .t := by
  rw [deqM_repo_mk]; exact deq_reflexive n a opts hwa hka

/-- All three conjuncts of the check `opDeq` applies, at once, for the emitter as it stands. -/
theorem deq_check_current (n : Node) (a b : Val) (opts : Option DeqOpts) (ident : Bool)
    (hroot : RootOK n = true) (hok : EmitOK n = true) (hnames : PathNamesOK n = true)
    (hwa : WT n a = true) (hwb : WT n b = true) (hka : MapKeysOK a = true) (hkb : MapKeysOK b = true) :
    let env : DeqEnv := { cfg := GenCfg.repo, opts := opts, ident := ident }
    let t := eqS { opts := opts, ident := ident } n "" a b
    (deqAccepts t (deqM env n .ptr .ptr a b) && deqAccepts t (deqM env n .ptr .ptr b a) &&
      deqM env n .ptr .ptr a b == deqM env n .ptr .ptr b a) = true := by
  intro env t
  show (deqAccepts t (deqM { cfg := GenCfg.repo, opts := opts, ident := ident } n .ptr .ptr a b) &&
      deqAccepts t (deqM { cfg := GenCfg.repo, opts := opts, ident := ident } n .ptr .ptr b a) &&
      deqM { cfg := GenCfg.repo, opts := opts, ident := ident } n .ptr .ptr a b ==
        deqM { cfg := GenCfg.repo, opts := opts, ident := ident } n .ptr .ptr b a) = true
  rw [deqM_repo_mk, deqM_repo_mk]
  exact deq_check n a b opts ident hroot hok hnames hwa hwb hka hkb

/-- The witnesses on which the tree at the pinned commit was rejected are accepted now. -/
example : deqM { cfg := GenCfg.repo } exNode .ptr .ptr exA exB = .f ∧
    deqM { cfg := GenCfg.repo } exNode .ptr .ptr exB exB = .t ∧
    deqM { cfg := GenCfg.repo, opts := exclP } exNode .ptr .ptr exA exD = .t := by decide

end CurrentTree

end Inspector.C05
