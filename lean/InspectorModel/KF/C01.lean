/-
KF/C01.lean — known-finding classes of C01 as decidable predicates over the input (DESIGN.md 5.3).
-/
import InspectorModel.Gen.Get
import InspectorModel.Spec.Nav
namespace Inspector

/-- Placeholder until the classes are characterised. -/
def kfC01 (_cfg : GenCfg) (_n : Node) (_v : Val) (_p : List Seg) : Option String := none

end Inspector
