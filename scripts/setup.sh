#!/bin/sh
# setup.sh — build the framework from files on disk only (offline): Lean model + driver, Go harness.
set -e
cd "$(dirname "$0")/.."
export GOFLAGS=-mod=mod GOPROXY=off GOSUMDB=off GOTOOLCHAIN=local
(cd lean && lake build 2>&1 | tail -3)
python3 scripts/vlib.py quick >/dev/null
python3 -c "
import sys; sys.path.insert(0,'scripts'); import vlib; vlib.prepare_lib('quick')"
echo setup done
