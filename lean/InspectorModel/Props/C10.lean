/-
Props/C10.lean — property theorems for C10 (Length and Capacity).
-/
import InspectorModel.Gen.LC
import InspectorModel.Spec.LcSpec
namespace Inspector.C10

/-- An untyped nil source returns before the result is zeroed. -/
theorem untyped_nil (cfg : GenCfg) (isCap : Bool) (n : Node) (v : Val) (p : List Seg) :
    lcM cfg isCap n .untypedNil v p = .untouched := rfl

end Inspector.C10
