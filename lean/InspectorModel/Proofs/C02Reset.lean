/-
Proofs/C02Reset.lean — C02 for Reset: the repaired model of `writeNodeReset` never reaches a `.panic` branch
on a well-typed value.
-/
import InspectorModel.Proofs.C02Deq
import InspectorModel.Gen.Reset
set_option linter.unusedSimpArgs false
set_option linter.unusedVariables false
namespace Inspector

theorem WTall_cons (e : Node) (x : Val) (xs : List Val) : WTall e (x :: xs) = (WT e x && WTall e xs) := by
  simp [WTall]

mutual
theorem resetN_ok (v : Val) : ∀ (n : Node), WT n v = true → ∃ v', resetN GenCfg.fixed n v = .ok v' := by
  intro n h
  cases v with
  | nilptr =>
    simp only [resetN]
    have hcfg : GenCfg.fixed.resetNilPtrPanics = false := rfl
    simp only [hcfg, Bool.false_eq_true, if_false]
    split <;> exact ⟨_, rfl⟩
  | ptr w =>
    rw [WT_ptr] at h
    simp only [Bool.and_eq_true] at h
    obtain ⟨w', hw'⟩ := resetN_ok w (n.withPtr false) h.2
    simp only [resetN, hw', ResetR.bind]
    exact ⟨_, rfl⟩
  | bool b => simp only [resetN]; exact ⟨_, rfl⟩
  | int b => simp only [resetN]; exact ⟨_, rfl⟩
  | uint b => simp only [resetN]; exact ⟨_, rfl⟩
  | float b => simp only [resetN]; exact ⟨_, rfl⟩
  | str b => simp only [resetN]; exact ⟨_, rfl⟩
  | bytes nl d c => simp only [resetN]; split <;> exact ⟨_, rfl⟩
  | struct fs =>
    obtain ⟨i, chld, hn, _, hw⟩ := WT_struct_val n fs h
    subst hn
    obtain ⟨r, hr⟩ := resetFields_ok fs chld hw
    simp only [resetN, hr, ResetR.bind]
    exact ⟨_, rfl⟩
  | map nl ks vs => simp only [resetN]; split <;> exact ⟨_, rfl⟩
  | slice nl es c =>
    obtain ⟨i, e, hn, _, _, hw⟩ := WT_slice_val n nl es c h
    subst hn
    simp only [resetN]
    split
    · exact ⟨_, rfl⟩
    · split
      · exact ⟨_, rfl⟩
      · obtain ⟨r, hr⟩ := resetElems_ok es e hw
        simp only [hr, ResetR.bind]
        exact ⟨_, rfl⟩
termination_by sizeOf v

theorem resetFields_ok (fs : List Val) : ∀ (chld : List Node), WTs chld fs = true →
    ∃ r, resetFields GenCfg.fixed chld fs = .ok (.struct r) := by
  intro chld h
  cases fs with
  | nil => simp only [resetFields]; exact ⟨_, rfl⟩
  | cons f fs' =>
    obtain ⟨ch, chs, hc, hwf, hwfs⟩ := WTs_cons_inv chld f fs' h
    subst hc
    obtain ⟨f', hf'⟩ := resetN_ok f ch hwf
    obtain ⟨r, hr⟩ := resetFields_ok fs' chs hwfs
    simp only [resetFields, hf', hr, ResetR.bind]
    exact ⟨_, rfl⟩
termination_by sizeOf fs

theorem resetElems_ok (es : List Val) : ∀ (e : Node), WTall e es = true →
    ∃ v', resetElems GenCfg.fixed e es = .ok v' := by
  intro e h
  cases es with
  | nil => simp only [resetElems]; exact ⟨_, rfl⟩
  | cons x es' =>
    rw [WTall_cons] at h
    simp only [Bool.and_eq_true] at h
    obtain ⟨r, hr⟩ := resetElems_ok es' e h.2
    by_cases hx : x = .nilptr
    · subst hx
      have hcfg : GenCfg.fixed.resetNilPtrPanics = false := rfl
      simp only [resetElems, hcfg, Bool.false_eq_true, if_false, ResetR.bind, hr]
      exact ⟨_, rfl⟩
    · obtain ⟨x', hx'⟩ := resetN_ok x e h.1
      rw [resetElems.eq_3 _ _ _ _ hx]
      simp only [hx', ResetR.bind, hr]
      exact ⟨_, rfl⟩
termination_by sizeOf es
end

theorem resetM_no_panic (n : Node) (f : Form) (v : Val) (hwt : WT n v = true) :
    (resetM GenCfg.fixed n f v).isPanic = false := by
  obtain ⟨v', hv'⟩ := resetN_ok v n hwt
  unfold resetM
  have hcfg : GenCfg.fixed.nilRootPanics = false := rfl
  cases f <;> simp [hv', ResetOut.isPanic, hcfg]

end Inspector
