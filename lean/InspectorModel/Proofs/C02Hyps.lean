/-
Proofs/C02Hyps.lean — C02: the panic aspect of each outcome type. Definitions only, so that the driver can
import this file without the proofs.
-/
import InspectorModel.Gen.Get
import InspectorModel.Gen.Reset
import InspectorModel.Gen.Copy
import InspectorModel.Gen.Set
import InspectorModel.Gen.Loop
namespace Inspector

/-! ## panic aspect of the outcome types (`CmpOut`, `LcOut`, `DeqOut`, `LoopEnd` have `DecidableEq`) -/

def Flow.isPanic : Flow → Bool
  | .panic => true
  | _ => false

def GetOut.isPanic : GetOut → Bool
  | .panic => true
  | _ => false

def ResetOut.isPanic : ResetOut → Bool
  | .panic => true
  | _ => false

def CopyOut.isPanic : CopyOut → Bool
  | .panic => true
  | _ => false

def SetOut.isPanic : SetOut → Bool
  | .panic => true
  | _ => false

end Inspector
