/-
Proofs/C03Stored.lean — C03, the "stored" half: where native navigation finds an existing non-pointer
scalar / string / bytes element and the conversion table says `store sv`, navigating the destination
after `setN GenCfg.fixed` finds an element with the content of `sv`.
-/
import InspectorModel.Proofs.C03Main
set_option linter.unusedSimpArgs false
set_option linter.unusedVariables false
namespace Inspector.C03

theorem navV_true_ne_found (p : List Seg) (n : Node) (v : Val) (res : Res) : navV true n v p ≠ .found res false := by
  intro h
  have := navV_true_via p n v
  rw [h] at this
  cases this

/-! ### one navigation step into the updated value -/

theorem navV_struct_step (via : Bool) (i : Info) (chld : List Node) (fs' : List Val) (s : Seg) (rest : List Seg)
    (ch : Node) (a : Val) (hff : findField chld fs' s.text = some (ch, a)) :
    navV via (.struct i chld) (if i.ptr = true then .ptr (.struct fs') else .struct fs') (s :: rest) = navV via ch a rest := by
  conv => lhs; unfold navV
  cases hp : i.ptr <;> simp [hp, targetOf, Val.isNilPtr, hff]

theorem navV_map_step (via : Bool) (i : Info) (k mv : Node) (nl : Bool) (ks' vs' : List Val) (s : Seg) (rest : List Seg)
    (key a : Val) (hk : specKey k s = .key key) (hl : lookupKey ks' vs' key = some a) :
    navV via (.map i k mv) (if i.ptr = true then .ptr (.map nl ks' vs') else .map nl ks' vs') (s :: rest) = navV via mv a rest := by
  conv => lhs; unfold navV
  cases hp : i.ptr <;> simp [hp, targetOf, Val.isNilPtr, hk, hl]

theorem navV_slice_step (via : Bool) (i : Info) (e : Node) (nl : Bool) (es' : List Val) (c : Nat) (s : Seg) (rest : List Seg)
    (idx : Int) (a : Val) (hb : (i.typn == "[]byte") = false) (hpi : s.pi = some idx)
    (hr : 0 ≤ idx ∧ idx < es'.length) (hn : nth? es' idx.toNat = some a) :
    navV via (.slice i e) (if i.ptr = true then .ptr (.slice nl es' c) else .slice nl es' c) (s :: rest) = navV via e a rest := by
  conv => lhs; unfold navV
  have hb' : ¬ i.typn = "[]byte" := by simpa using hb
  cases hp : i.ptr <;> simp [hp, targetOf, Val.isNilPtr, hb', hpi, hr, hn]

/-- Where navigation finds a leaf below a non-leaf child, nothing had to be created on the way. -/
theorem autoCreate_of_found (ch : Node) (fv : Val) (rest : List Seg) (via : Bool) (res : Res)
    (hl : ch.isLeaf = false) (hwt : WT ch fv = true) (hok : ValOK fv = true)
    (hnav : navV via ch fv rest = .found res false) (hres : res.node.isLeaf = true) : autoCreate ch fv = fv := by
  unfold autoCreate
  by_cases hn : isNilColl fv = true
  · exfalso
    cases rest with
    | nil =>
      simp only [navV] at hnav
      injection hnav with h1 h2
      subst h1
      simp [hl] at hres
    | cons s r =>
      unfold navV at hnav
      simp only [hl, Bool.false_eq_true, if_false] at hnav
      rcases WT_ptr_cases ch fv hwt with ⟨hp, hv⟩ | ⟨hp, hnn, hnp⟩
      · rcases hv with hv | ⟨w, hv, _⟩
        · subst hv; simp [hp, Val.isNilPtr] at hnav
        · subst hv; simp [isNilColl] at hn
      · simp only [hp, Bool.false_and, Bool.false_eq_true, if_false, targetOf] at hnav
        cases ch with
        | basic i => simp at hl
        | struct i c =>
          obtain ⟨fs, hfs, _⟩ := WT_struct_inv i c fv hp hwt
          subst hfs; simp [isNilColl] at hn
        | map i k v =>
          obtain ⟨nl, ks, vs, hm, _, _, _⟩ := WT_map_inv i k v fv hp hwt
          subst hm
          have hnl : nl = true := by cases nl <;> simp [isNilColl] at hn ⊢
          obtain ⟨he, _⟩ := ValOK_map _ _ _ hok
          obtain ⟨h1, h2⟩ := he hnl
          subst h1; subst h2
          simp only [] at hnav
          split at hnav
          · cases hnav
          · cases hnav
          · exact navV_true_ne_found _ _ _ _ hnav
          · simp only [lookupKey] at hnav
            exact navV_true_ne_found _ _ _ _ hnav
        | slice i e =>
          have hb : (i.typn == "[]byte") = false := by simpa using hl
          obtain ⟨nl, es, c, hes, _⟩ := WT_slice_inv i e fv hp hb hwt
          subst hes
          have hnl : nl = true := by cases nl <;> simp [isNilColl] at hn ⊢
          obtain ⟨he, _⟩ := ValOK_slice _ _ _ hok
          have h1 := he hnl
          subst h1
          simp only [hb, Bool.false_eq_true, if_false] at hnav
          split at hnav
          · cases hnav
          · rename_i idx _
            have : ¬ (0 ≤ idx ∧ idx < (([] : List Val).length : Int)) := by simp
            simp only [this, if_false] at hnav
            cases hnav
  · have hn' : isNilColl fv = false := by simpa using hn
    simp [hn']

/-- What theorem B says about the value after the call. -/
def BOk (via : Bool) (n : Node) (after : Val) (p : List Seg) (sv : Val) : Prop :=
  ∃ res', navV via n after p = .found res' false ∧ valContentEq res'.val sv = true

theorem setN_stored (src : Src) (nb : Bool) (sv : Val) (hsrc : SrcWT src = true) (p : List Seg) :
    ∀ (n : Node) (v : Val) (pim root via : Bool) (res : Res),
    NodeWF n = true → EmitOK n = true → WT n v = true → ValOK v = true → ndepth n ≤ 64 → n.isBytes = false →
    navV via n v p = .found res false → res.node.isLeaf = true → res.node.ptr = false →
    specConv (leafKind res.node) src = .store sv →
    BOk via n (setN GenCfg.fixed n pim root v p src nb).v p sv := by
  induction p with
  | nil =>
    intro n v pim root via res hwf hem hwt hok hd hnb hnav hrl hrp hsc
    simp only [navV] at hnav
    injection hnav with h1 h2
    subst h1
    simp only [] at hrl hrp hsc
    cases n with
    | basic i =>
      have hip : i.ptr = false := hrp
      obtain ⟨v', hv', hc⟩ := assignLeaf_store (Node.basic i) v src nb sv hrp hsc hsrc
      simp only [setN, ptr_basic, hip, Bool.false_and, Bool.false_eq_true, if_false]
      rw [hv']
      exact ⟨⟨Node.basic i, v'⟩, by simp [navV, h2], hc⟩
    | struct i c => simp at hrl
    | map i k mv => simp at hrl
    | slice i e =>
      simp only [isLeaf_slice] at hrl
      simp [Node.isBytes, hrl] at hnb
  | cons s rest ih =>
    intro n v pim root via res hwf hem hwt hok hd hnb hnav hrl hrp hsc
    cases n with
    | basic i => simp [navV] at hnav
    | struct i chld =>
      unfold navV at hnav
      simp only [isLeaf_struct, Bool.false_eq_true, if_false, ptr_struct] at hnav
      by_cases hnil : (i.ptr && v.isNilPtr) = true
      · simp [hnil] at hnav
      · have hnil' : (i.ptr && v.isNilPtr) = false := by simpa using hnil
        have hw := WT_deref _ _ hwt (by simpa [Node.ptr, Node.info] using hnil')
        rw [withPtr_struct] at hw
        obtain ⟨fs, hfs, hwts⟩ := WT_struct_inv _ _ _ rfl hw
        simp only [ptr_struct] at hfs
        have hfs' : targetOf i.ptr v = Val.struct fs := hfs
        have hokfs : ValOKs fs = true := by
          have := ValOK_deref i.ptr v hok
          rw [hfs] at this
          simpa [ValOK] using this
        simp only [hnil', hfs', Bool.false_eq_true, if_false] at hnav
        simp only [setN, hnil', hfs, Bool.false_eq_true, if_false]
        cases hff : findField chld fs s.text with
        | none => simp [hff] at hnav
        | some cf =>
          obtain ⟨ch, fv⟩ := cf
          simp only [hff] at hnav
          obtain ⟨hwtc, hmem⟩ := findField_WT _ _ _ _ _ hwts hff
          have hwfc : NodeWF ch = true := NodeWFs_mem _ _ (by simpa [NodeWF] using hwf) hmem
          have hemc : EmitOK ch = true := EmitOKs_mem _ _ (by simpa [EmitOK] using hem) hmem
          have hfvmem : fv ∈ fs := (List.of_mem_zip (findField_mem _ _ _ _ _ hff)).2
          have hokfv : ValOK fv = true := ValOKs_mem _ _ hokfs hfvmem
          have hdch := ndepth_mem _ _ hmem
          simp only [ndepth] at hd
          by_cases hl : ch.isLeaf = true
          · simp only [hl, if_true]
            cases rest with
            | cons s2 r2 => simp [navV, hl] at hnav
            | nil =>
              simp only [navV] at hnav
              injection hnav with h1 h2
              subst h1
              simp only [] at hrl hrp hsc
              obtain ⟨fv', hfv', hc⟩ := assignLeaf_store ch fv src nb sv hrp hsc hsrc
              rw [hfv']
              simp only []
              refine ⟨⟨ch, fv'⟩, ?_, hc⟩
              rw [navV_struct_step via i chld _ s [] ch fv' (findField_replaceNth _ _ _ _ _ _ hff)]
              simp [navV, h2]
          · have hl' : ch.isLeaf = false := by simpa using hl
            simp only [hl', Bool.false_eq_true, if_false]
            rw [autoCreate_of_found ch fv rest via res hl' hwtc hokfv hnav hrl]
            have hcb : ch.isBytes = false := isBytes_le_isLeaf ch hl'
            obtain ⟨res', hn', hc⟩ := ih ch fv false false via res hwfc hemc hwtc hokfv (by omega) hcb hnav hrl hrp hsc
            refine ⟨res', ?_, hc⟩
            rw [navV_struct_step via i chld _ s rest ch _ (findField_replaceNth _ _ _ _ _ _ hff)]
            exact hn'
    | map i k mv =>
      unfold navV at hnav
      simp only [isLeaf_map, Bool.false_eq_true, if_false, ptr_map] at hnav
      by_cases hnil : (i.ptr && v.isNilPtr) = true
      · simp [hnil] at hnav
      · have hnil' : (i.ptr && v.isNilPtr) = false := by simpa using hnil
        have hw := WT_deref _ _ hwt (by simpa [Node.ptr, Node.info] using hnil')
        rw [withPtr_map] at hw
        obtain ⟨nl, ks, vs, hm, hlen, hwk, hwv⟩ := WT_map_inv { i with ptr := false } k mv _ rfl hw
        simp only [ptr_map] at hm
        have hm' : targetOf i.ptr v = Val.map nl ks vs := hm
        obtain ⟨hne, hkd, hokk, hokv⟩ := ValOK_map nl ks vs (by
          have := ValOK_deref i.ptr v hok
          rw [hm] at this
          exact this)
        simp only [NodeWF, Bool.and_eq_true] at hwf
        obtain ⟨⟨hkb, hwfk⟩, hwfm⟩ := hwf
        simp only [EmitOK, Bool.and_eq_true, Bool.not_eq_true'] at hem
        obtain ⟨⟨_, hemm⟩, hmvb⟩ := hem
        simp only [ndepth] at hd
        simp only [hnil', hm', Bool.false_eq_true, if_false] at hnav
        cases k with
        | basic ki =>
          cases hk : specKey (Node.basic ki) s with
          | perr => simp [hk] at hnav
          | unspec => simp [hk] at hnav
          | never =>
            simp only [hk] at hnav
            exact absurd hnav (navV_true_ne_found _ _ _ _)
          | key key =>
            simp only [hk] at hnav
            cases hlk : lookupKey ks vs key with
            | none =>
              simp only [hlk] at hnav
              exact absurd hnav (navV_true_ne_found _ _ _ _)
            | some x =>
              simp only [hlk] at hnav
              have hkp : ki.ptr = false := (specKey_key_scalar _ _ _ hk).2.2
              have core : BOk via (Node.map i (Node.basic ki) mv)
                  (mapWriteBack GenCfg.fixed i.ptr false mv v nl ks vs key (some x) x
                    (setN GenCfg.fixed mv true false x rest src nb) src nb).v (s :: rest) sv := by
                have hwtx := lookupKey_WT mv ks vs key x hwv hlk
                have hokx := ValOKs_mem _ _ hokv (lookupKey_mem _ _ _ _ hlk)
                have fr := setN_frame src nb rest mv x true false hwfm hwtx hokx (by omega)
                have ihr := ih mv x true false via res hwfm hemm hwtx hokx (by omega) hmvb hnav hrl hrp hsc
                generalize setN GenCfg.fixed mv true false x rest src nb = r at fr ihr ⊢
                have hnilp : nl = true → (some x : Option Val) = none := by
                  intro hn
                  rw [(hne hn).1] at hlk
                  simp [lookupKey] at hlk
                obtain ⟨hof, hov⟩ := mapWriteBack_fixed i.ptr false mv v nl ks vs key (some x) x r src nb fr.1 hnilp
                rcases hov with hov | ⟨_, h⟩
                · rw [hov]
                  obtain ⟨res', hn', hc⟩ := ihr
                  refine ⟨res', ?_, hc⟩
                  simp only [storeV, Bool.false_eq_true, if_false]
                  rw [navV_map_step via i (Node.basic ki) mv false _ _ s rest key r.v hk
                    (by rw [lookupKey_mapSet]; simp)]
                  exact hn'
                · cases h
              simp only [setN, hnil', hm, ptr_basic, Node.typn, Node.typu, Node.info, Bool.false_eq_true, if_false]
              by_cases hstr : (ki.typn == "string") = true
              · have htn : ki.typn = "string" := by simpa using hstr
                have htu : ki.typu = "string" := by
                  simp only [NodeWF, Bool.and_eq_true, Bool.or_eq_true, Bool.not_eq_true', beq_iff_eq] at hwfk
                  rcases hwfk.2 with h2 | h2
                  · rw [htn] at h2; cases h2
                  · rw [← h2]; exact htn
                have hk2 : specKey (Node.basic ki) s = .key (.str s.text) := by
                  unfold specKey
                  simp [Node.ptr, Node.info, Node.typu, hkp, htu, kindOfName]
                rw [hk] at hk2
                injection hk2 with hk2
                subst hk2
                simp only [hstr, if_true, hkp, Bool.false_eq_true, if_false, hlk, Option.getD_some]
                exact core
              · have hstr' : (ki.typn == "string") = false := by simpa using hstr
                rcases key_cases ki s hwfk with hk2 | ⟨hk2, _⟩ | ⟨hk2, _, _⟩ | ⟨key2, hk2, _, hc⟩
                · rw [hk] at hk2; cases hk2
                · rw [hk] at hk2; cases hk2
                · rw [hk] at hk2; cases hk2
                · rw [hk] at hk2
                  injection hk2 with hk2
                  subst hk2
                  simp only [hstr', hc, hkp, Bool.false_eq_true, if_false, hlk, Option.getD_some]
                  exact core
        | _ => simp [Node.isBasicTyp] at hkb
    | slice i e =>
      have hb : (i.typn == "[]byte") = false := by simpa [Node.isBytes] using hnb
      have hbn : ¬ i.typn = "[]byte" := by simpa using hb
      unfold navV at hnav
      simp only [isLeaf_slice, hb, Bool.false_eq_true, if_false, ptr_slice] at hnav
      by_cases hnil : (i.ptr && v.isNilPtr) = true
      · simp [hnil] at hnav
      · have hnil' : (i.ptr && v.isNilPtr) = false := by simpa using hnil
        have hw := WT_deref _ _ hwt (by simpa [Node.ptr, Node.info] using hnil')
        rw [withPtr_slice] at hw
        obtain ⟨nl, es, c, hes, hwte⟩ := WT_slice_inv { i with ptr := false } e _ rfl hb hw
        simp only [ptr_slice] at hes
        have hes' : targetOf i.ptr v = Val.slice nl es c := hes
        have hokes : ValOKs es = true := by
          have := ValOK_deref i.ptr v hok
          rw [hes] at this
          exact (ValOK_slice _ _ _ this).2
        have hwfe : NodeWF e = true := by simpa [NodeWF] using hwf
        simp only [EmitOK, hb, Bool.false_or, Bool.and_eq_true, Bool.not_eq_true'] at hem
        simp only [ndepth] at hd
        simp only [hnil', hes', hb, Bool.false_eq_true, if_false] at hnav
        simp only [setN, hb, hnil', hes, Bool.false_eq_true, if_false]
        cases hpi : s.pi with
        | none => simp [hpi] at hnav
        | some idx =>
          simp only [hpi] at hnav ⊢
          by_cases hr : 0 ≤ idx ∧ idx < (es.length : Int)
          · rw [if_pos hr] at hnav
            obtain ⟨x, hx⟩ := nth?_some_of_lt es idx.toNat (by omega)
            simp only [hx] at hnav
            have hlt : (es.length : Int) > idx := by omega
            have hneg : ¬ idx < 0 := by omega
            rw [if_pos hlt, if_neg hneg]
            simp only [hx]
            have hwtx := nth?_WT e es _ x hwte hx
            have hxm := nth?_mem _ _ _ hx
            have hokx := ValOKs_mem _ _ hokes hxm
            have fr := setN_frame src nb rest e x false false hwfe hwtx hokx (by omega)
            have ihr := ih e x false false via res hwfe hem.1 hwtx hokx (by omega) hem.2 hnav hrl hrp hsc
            generalize setN GenCfg.fixed e false false x rest src nb = r at fr ihr ⊢
            obtain ⟨res', hn', hc⟩ := ihr
            have tail : BOk via (Node.slice i e)
                (if i.ptr = true then .ptr (.slice nl (replaceNth es idx.toNat r.v) c)
                  else .slice nl (replaceNth es idx.toNat r.v) c) (s :: rest) sv := by
              refine ⟨res', ?_, hc⟩
              rw [navV_slice_step via i e nl _ c s rest idx r.v hb hpi (by simpa using hr)
                (nth?_replaceNth _ _ _ (by omega))]
              exact hn'
            cases hfl : r.flow with
            | cont => exact tail
            | ret =>
              have hcfg : GenCfg.fixed.setScalarElemLost = false := rfl
              simp only [hcfg, Bool.not_false, Bool.or_true, if_true]
              exact tail
            | err =>
              have hcfg : GenCfg.fixed.setScalarElemLost = false := rfl
              simp only [hcfg, Bool.not_false, Bool.or_true, if_true]
              exact tail
            | panic => exact absurd hfl fr.1
          · rw [if_neg hr] at hnav
            cases hnav

end Inspector.C03
