package corr

import (
	"reflect"

	"github.com/koykov/inspector"
)

// OpSet emits one `S` record: Set / SetWithBuffer on a pointer to a private copy of v.
func OpSet(o *Out, e *TypeEntry, v reflect.Value, f Form, path []string, src SrcSpec, bufMode string) {
	vtok := Ser(v)
	arg, root := MakeArg(e.Type, DeepCopy(v), f)
	var buf *inspector.ByteBuffer
	switch bufMode {
	case "empty":
		buf = &inspector.ByteBuffer{}
	case "filled":
		buf = inspector.NewByteBuffer(8)
		buf.Bufferize([]byte("prefix-bytes"))
	}
	var out string
	func() {
		defer func() {
			if r := recover(); r != nil {
				out = "panic"
			}
		}()
		var err error
		if buf == nil {
			err = e.Ins.Set(arg, src.Any(), path...)
		} else {
			err = e.Ins.SetWithBuffer(arg, src.Any(), buf, path...)
		}
		if err != nil {
			out = "err " + Ser(root())
		} else {
			out = "ok " + Ser(root())
		}
	}()
	vid := o.DeclareVal(e, vtok)
	o.Op("S " + e.Tid + " " + string(f) + " " + vid + " | " + PathToks(path) + " | " + src.Toks() + " | " + bufMode + " | " + out)
}

func kindNameOf(v reflect.Value) string {
	if v.Kind() == reflect.Slice && isByteSlice(v.Type()) {
		return "[]byte"
	}
	switch v.Kind() {
	case reflect.Bool, reflect.Int, reflect.Int8, reflect.Int16, reflect.Int32, reflect.Int64, reflect.Uint, reflect.Uint8, reflect.Uint16,
		reflect.Uint32, reflect.Uint64, reflect.Float32, reflect.Float64, reflect.String:
		return v.Kind().String()
	}
	return ""
}

// OpSetHistory emits one `HS` record: three Sets on ONE object — a number into the bytes leaf A through a buffer, a
// number into the text leaf B through the same buffer, then a longer number into A without a buffer — and whether
// the third Set changed anything off its path (the values handed out through the buffer sit next to each other in
// the buffer's array; C03 demands that the third call leaves B alone).
func OpSetHistory(o *Out, e *TypeEntry, v reflect.Value, pathA, pathB []string) {
	vtok := Ser(v)
	arg, root := MakeArg(e.Type, DeepCopy(v), FormPtr)
	buf := inspector.NewByteBuffer(64)
	out := "kept"
	func() {
		defer func() {
			if r := recover(); r != nil {
				out = "panic"
			}
		}()
		if err := e.Ins.SetWithBuffer(arg, 1, buf, pathA...); err != nil {
			out = "err"
			return
		}
		if err := e.Ins.SetWithBuffer(arg, 22222, buf, pathB...); err != nil {
			out = "err"
			return
		}
		mask := func() string {
			c := DeepCopy(root())
			p := reflect.New(e.Type)
			p.Elem().Set(c)
			if el, ok := NavReflect(p.Elem(), pathA); ok && el.CanSet() {
				el.Set(reflect.Zero(el.Type()))
				return Ser(p.Elem())
			}
			if el, ok := NavReflect(p.Elem(), pathB); ok {
				return Ser(el)
			}
			return ""
		}
		before := mask()
		if err := e.Ins.Set(arg, 123456, pathA...); err != nil {
			out = "err"
			return
		}
		if mask() != before {
			out = "changed"
		}
	}()
	vid := o.DeclareVal(e, vtok)
	o.Op("HS " + e.Tid + " p " + vid + " | " + PathToks(pathA) + " | " + PathToks(pathB) + " | " + out)
}

// OpSetUint8Slices emits `U8` records for one compile-only shape (`F []uint8`, `F *[]uint8`, `F map[string][]uint8`):
// Set of element 0 of a three-element slice with 7 in every source form — a number, decimal text as string and as
// bytes, each by value and by pointer. `*[]byte` is at the same time a pointer to the field's own type. Judged by
// the harness (the reflection-based machinery cannot tell `[]uint8` from `[]byte`): stored | lost | err | panic | other.
func OpSetUint8Slices(o *Out, e *TypeEntry) {
	str, byt, u8, u32 := "7", []byte("7"), uint8(7), uint32(7)
	srcs := []struct {
		name string
		v    any
	}{{"uint8", u8}, {"*uint8", &u8}, {"uint32", u32}, {"*uint32", &u32}, {"string", str}, {"*string", &str}, {"bytes", byt}, {"*bytes", &byt}}
	for _, src := range srcs {
		p := reflect.New(e.Type)
		f := p.Elem().FieldByName("F")
		if !f.IsValid() {
			return
		}
		path := []string{"F", "0"}
		read := func() []byte { return nil }
		switch e.Expr {
		case "[]uint8":
			f.SetBytes([]byte{1, 2, 3})
			read = func() []byte { return f.Bytes() }
		case "*[]uint8":
			b := []byte{1, 2, 3}
			f.Set(reflect.ValueOf(&b))
			read = func() []byte {
				if f.IsNil() {
					return nil
				}
				return f.Elem().Bytes()
			}
		case "map[string][]uint8":
			f.Set(reflect.ValueOf(map[string][]byte{"k": {1, 2, 3}, "other": {4}}))
			path = []string{"F", "k", "0"}
			read = func() []byte { return f.MapIndex(reflect.ValueOf("k")).Bytes() }
		default:
			return
		}
		out := "other"
		func() {
			defer func() {
				if r := recover(); r != nil {
					out = "panic"
				}
			}()
			if err := e.Ins.Set(p.Interface(), src.v, path...); err != nil {
				out = "err"
				return
			}
			got := read()
			switch {
			case len(got) == 3 && got[0] == 7 && got[1] == 2 && got[2] == 3:
				out = "stored"
			case len(got) == 3 && got[0] == 1 && got[1] == 2 && got[2] == 3:
				out = "lost"
			}
		}()
		o.Op("U8 " + e.Name + " " + tokStr(e.Expr) + " " + src.name + " | " + out)
		o.Count("uint8-slice-set:" + src.name)
	}
}
