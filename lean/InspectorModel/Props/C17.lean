/-
Props/C17.lean — property theorems for C17 (the strings inspector behaves like the sequence it wraps).
-/
import InspectorModel.Lib.Strings
import InspectorModel.Spec.StringsSpec
namespace Inspector.C17

/-- Reset through a pointer truncates to length zero. -/
theorem reset_truncates (nl : Bool) (es : List Val) (c : Nat) :
    (match stringsReset .ptr (.slice nl es c) with | .ok v => (seqElems v).length | _ => 1) = 0 := rfl

end Inspector.C17
