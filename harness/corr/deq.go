package corr

import (
	"math"
	"reflect"
	"strconv"
	"strings"

	"github.com/koykov/inspector"
)

// Opts is the harness-side picture of DEQOptions.
type Opts struct {
	Nil     bool
	PrecFx  int64 // precision in 2^-20 units; 0 = not set
	Exclude []string
	Filter  []string
}

func (o *Opts) build() *inspector.DEQOptions {
	if o == nil || o.Nil {
		return nil
	}
	d := &inspector.DEQOptions{}
	if o.PrecFx > 0 {
		d.Precision = FloatOfFx(o.PrecFx)
	}
	if o.Exclude != nil {
		d.Exclude = map[string]struct{}{}
		for _, s := range o.Exclude {
			d.Exclude[s] = struct{}{}
		}
	}
	if o.Filter != nil {
		d.Filter = map[string]struct{}{}
		for _, s := range o.Filter {
			d.Filter[s] = struct{}{}
		}
	}
	return d
}

func (o *Opts) toks() string {
	if o == nil || o.Nil {
		return "-"
	}
	var sb strings.Builder
	sb.WriteString("P" + strconv.FormatInt(o.PrecFx, 10))
	sb.WriteString(" E" + strconv.Itoa(len(o.Exclude)))
	for _, s := range o.Exclude {
		sb.WriteString(" " + tokStr(s))
	}
	sb.WriteString(" F" + strconv.Itoa(len(o.Filter)))
	for _, s := range o.Filter {
		sb.WriteString(" " + tokStr(s))
	}
	return sb.String()
}

func callDeq(ins inspector.Inspector, l, r any, o *Opts) (out string) {
	defer func() {
		if rec := recover(); rec != nil {
			out = "panic"
		}
	}()
	var res bool
	if o == nil {
		res = ins.DeepEqual(l, r)
	} else {
		res = ins.DeepEqualWithOptions(l, r, o.build())
	}
	if res {
		return "t"
	}
	return "f"
}

// OpDeq emits one `D` record: DeepEqual(a,b) and DeepEqual(b,a). With same=true the right argument is
// the very object passed on the left.
func OpDeq(o *Out, e *TypeEntry, a, b reflect.Value, fl, fr Form, same bool, opts *Opts) {
	atok, btok := Ser(a), Ser(b)
	var oab, oba string
	var la, lb any
	var ra, rb func() reflect.Value
	if same {
		la, ra = MakeArg(e.Type, DeepCopy(a), FormPtr)
		lb, rb = la, ra
		fl, fr = FormPtr, FormPtr
		btok = atok
	} else {
		la, ra = MakeArg(e.Type, DeepCopy(a), fl)
		lb, rb = MakeArg(e.Type, DeepCopy(b), fr)
	}
	oab = callDeq(e.Ins, la, lb, opts)
	oba = callDeq(e.Ins, lb, la, opts)
	mut := "0"
	if Ser(ra()) != atok || Ser(rb()) != btok {
		mut = "1"
	}
	va := o.DeclareVal(e, atok)
	vb := o.DeclareVal(e, btok)
	o.Op("D " + e.Tid + " " + string(fl) + " " + string(fr) + " " + va + " " + vb + " | " + b01(same) + " | " + opts.toks() + " | " + oab + " " + oba + " " + mut)
}

// OpDeq2 emits one `D2` record: DeepEqual across two (built-in) types, both orders.
func OpDeq2(o *Out, ea, eb *TypeEntry, a, b reflect.Value, fl, fr Form) {
	atok, btok := Ser(a), Ser(b)
	la, ra := MakeArg(ea.Type, DeepCopy(a), fl)
	lb, rb := MakeArg(eb.Type, DeepCopy(b), fr)
	oab := callDeq(ea.Ins, la, lb, nil)
	oba := callDeq(ea.Ins, lb, la, nil)
	mut := "0"
	if Ser(ra()) != atok || Ser(rb()) != btok {
		mut = "1"
	}
	va := o.DeclareVal(ea, atok)
	vb := o.DeclareVal(eb, btok)
	o.Op("D2 " + ea.Tid + " " + eb.Tid + " " + string(fl) + " " + string(fr) + " " + va + " " + vb + " | " + oab + " " + oba + " " + mut)
}

// poisonFloats sets every float reachable from the settable value v (through non-nil pointers, slices, map
// values, struct fields) to NaN; reports whether it found one.
func poisonFloats(v reflect.Value) bool {
	nan := math.NaN()
	switch v.Kind() {
	case reflect.Float32, reflect.Float64:
		if v.CanSet() {
			v.SetFloat(nan)
			return true
		}
	case reflect.Ptr:
		if !v.IsNil() {
			return poisonFloats(v.Elem())
		}
	case reflect.Struct:
		found := false
		for i := 0; i < v.NumField(); i++ {
			if poisonFloats(v.Field(i)) {
				found = true
			}
		}
		return found
	case reflect.Slice:
		found := false
		for i := 0; i < v.Len(); i++ {
			if poisonFloats(v.Index(i)) {
				found = true
			}
		}
		return found
	case reflect.Map:
		found := false
		for _, k := range v.MapKeys() {
			c := reflect.New(v.Type().Elem()).Elem()
			c.Set(v.MapIndex(k))
			if poisonFloats(c) {
				v.SetMapIndex(k, c)
				found = true
			}
		}
		return found
	}
	return false
}

// OpDeqFormsNaN emits one `FA` record (see Driver/Main.lean): DeepEqual of an all-NaN variant of v with itself in
// every argument form. Nothing is emitted when v holds no reachable float.
func OpDeqFormsNaN(o *Out, e *TypeEntry, v reflect.Value) {
	p := reflect.New(e.Type)
	p.Elem().Set(DeepCopy(v))
	if !poisonFloats(p.Elem()) {
		return
	}
	q := reflect.New(e.Type)
	q.Elem().Set(DeepCopy(v))
	poisonFloats(q.Elem())
	pp := reflect.New(p.Type())
	pp.Elem().Set(p)
	val := p.Elem().Interface()
	outs := []string{
		callDeq(e.Ins, val, val, nil),
		callDeq(e.Ins, p.Interface(), p.Interface(), nil),
		callDeq(e.Ins, pp.Interface(), pp.Interface(), nil),
		callDeq(e.Ins, p.Interface(), q.Interface(), nil),
		callDeq(e.Ins, val, p.Interface(), nil),
	}
	o.Op("FA " + e.Tid + " | " + strings.Join(outs, " "))
	o.Count("nan-forms")
}
