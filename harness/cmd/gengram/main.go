// Command gengram enumerates declaration sets of the supported grammar G (DESIGN.md section 7), runs the
// repository's *current* generator on them through its exported API, dumps the parsed trees as XML, and
// (second phase) writes the main package that registers every type that survived compilation.
package main

import (
	"bytes"
	"encoding/json"
	"flag"
	"fmt"
	"go/parser"
	"go/token"
	"io"
	"log"
	"os"
	"path/filepath"
	"sort"
	"strconv"
	"strings"

	"github.com/koykov/inspector"
)

type shape struct {
	Name   string `json:"name"`   // declared type name
	Kind   string `json:"kind"`   // "field" (struct with framed field), "rootmap", "rootslice", "helper"
	Expr   string `json:"expr"`   // Go type expression of the field / the root type
	Family string `json:"family"` // shape family for the evidence distribution
	Depth  int    `json:"depth"`
}

var scalarsAll = []string{"bool", "int", "int8", "int16", "int32", "int64", "uint", "uint8", "uint16", "uint32", "uint64", "float32", "float64", "string", "byte"}
var scalarsQuick = []string{"bool", "int8", "int32", "int64", "uint16", "uint64", "float32", "float64", "string", "byte"}
var named = []string{"Inner", "NInt", "NUint", "NFloat", "NBool", "NStr", "NSlice", "NMap", "NPtrStruct", "Plain", "Mid", "NumBox", "Deep"}
var namedQuick = []string{"Inner", "NInt", "NStr", "NSlice", "NMap", "Mid", "NumBox", "Deep"}
var keysAll = []string{"string", "bool", "int", "int8", "int16", "int32", "int64", "uint", "uint8", "uint16", "uint32", "uint64", "float32", "float64", "byte", "NInt", "NStr", "*int32", "*string", "*float64"}
var keysQuick = []string{"string", "int", "int32", "uint64", "float64", "bool", "byte", "NStr", "*int32"}

const helperDecls = `
type Inner struct {
	N int32
	S string
	B []byte
	F float64
}

type NPtrStruct struct {
	P *int32
	Q *string
}

// structs without any text below them: plain numbers, a pointer to such a struct, numeric containers
type Plain struct {
	A int32
	B float64
}

type Mid struct {
	N int32
	P *Plain
	V Plain
}

type NumBox struct {
	L []float64
	M map[int32]int32
}

// collections reachable only through two struct levels (by value and behind a pointer)
type Deep struct {
	B  NumBox
	PB *NumBox
}

type NInt int32
type NUint uint16
type NFloat float64
type NBool bool
type NStr string
type NSlice []int32
type NMap map[string]int32
`

type rng struct{ s uint64 }

func (r *rng) next() uint64 {
	r.s += 0x9E3779B97F4A7C15
	z := r.s
	z = (z ^ (z >> 30)) * 0xBF58476D1CE4E5B9
	z = (z ^ (z >> 27)) * 0x94D049BB133111EB
	return z ^ (z >> 31)
}
func (r *rng) intn(n int) int { return int(r.next() % uint64(n)) }

func enumerate(tier string, seed uint64) []shape {
	scal, nam, keys := scalarsQuick, namedQuick, keysQuick
	if tier == "thorough" {
		scal, nam, keys = scalarsAll, named, keysAll
	}
	var d0 []string
	for _, s := range scal {
		d0 = append(d0, s, "*"+s)
	}
	d0 = append(d0, "[]byte", "*[]byte")
	for _, s := range nam {
		d0 = append(d0, s, "*"+s)
	}
	var d1 []string
	for _, e := range d0 {
		if e == "uint8" {
			continue // `[]uint8` is the Go type `[]byte`; the harness cannot tell the spellings apart
		}
		d1 = append(d1, "[]"+e, "*[]"+e)
	}
	for _, k := range keys {
		for _, e := range d0 {
			d1 = append(d1, "map["+k+"]"+e)
			if tier == "thorough" || k == "string" || k == "int32" {
				d1 = append(d1, "*map["+k+"]"+e)
			}
		}
	}
	var out []shape
	add := func(kind, expr, fam string, depth int) {
		out = append(out, shape{Kind: kind, Expr: expr, Family: fam, Depth: depth})
	}
	for _, e := range d0 {
		add("field", e, family(e), 1)
	}
	// the same field alone in its struct: no `[]byte` / string sibling that would use an import or a
	// helper variable on its behalf
	for _, e := range d0 {
		add("solo", e, "solo:"+family(e), 1)
	}
	for _, e := range d1 {
		add("field", e, family(e), 2)
	}
	// `[]uint8` is the Go type `[]byte` spelled differently: the generator treats it as a slice of uint8, the
	// reflection-based harness cannot tell the spellings apart, so these shapes are generated and compiled (C14)
	// but not registered for the behavioural runners
	for _, e := range []string{"[]uint8", "*[]uint8", "map[string][]uint8"} {
		add("conly", e, "conly:"+family(e), 2)
	}
	// depth-3 field shapes, sampled from VERIF_SEED
	r := &rng{s: (seed + 0x632BE59BD9B4E019) * 0xFF51AFD7ED558CCD}
	r.next()
	r.next()
	n3 := 40
	if tier == "thorough" {
		n3 = 300
	}
	seen := map[string]bool{}
	for i := 0; i < n3*4 && len(seen) < n3; i++ {
		inner := d1[r.intn(len(d1))]
		if strings.HasPrefix(inner, "*") && r.intn(2) == 0 {
			inner = inner[1:]
		}
		var e string
		switch r.intn(3) {
		case 0:
			e = "[]" + inner
		case 1:
			e = "map[" + []string{"string", "int32", "uint64"}[r.intn(3)] + "]" + inner
		default:
			e = "*[]" + inner
		}
		if !seen[e] {
			seen[e] = true
			add("field", e, family(e), 3)
		}
	}
	// root-level named maps and slices
	rootElems := []string{"int32", "string", "float64", "*int32", "*string", "Inner", "*Inner", "[]byte", "bool", "uint16"}
	for _, e := range rootElems {
		add("rootslice", "[]"+e, "root:"+family("[]"+e), 1)
		for _, k := range []string{"string", "int32", "float64", "*string"} {
			add("rootmap", "map["+k+"]"+e, "root:"+family("map["+k+"]"+e), 1)
		}
	}
	if tier == "thorough" {
		add("rootslice", "[][]int32", "root:slice-of-slice", 2)
		add("rootslice", "[]map[string]int32", "root:slice-of-map", 2)
		add("rootmap", "map[string][]int32", "root:map-of-slice", 2)
		add("rootmap", "map[string]map[string]int32", "root:map-of-map", 2)
		add("rootmap", "map[int32]map[int32]Inner", "root:map-of-map", 2)
	}
	for i := range out {
		pfx := "T"
		switch out[i].Kind {
		case "rootmap":
			pfx = "M"
		case "rootslice":
			pfx = "L"
		}
		out[i].Name = fmt.Sprintf("%s%04d", pfx, i)
	}
	return out
}

// family abstracts an expression to its constructor skeleton with coarse leaf classes.
func family(e string) string {
	rep := e
	for _, s := range []string{"float32", "float64"} {
		rep = strings.ReplaceAll(rep, s, "FLT")
	}
	for _, s := range []string{"uint16", "uint32", "uint64", "uint8", "uint"} {
		rep = strings.ReplaceAll(rep, s, "UNS")
	}
	for _, s := range []string{"int16", "int32", "int64", "int8", "int"} {
		rep = strings.ReplaceAll(rep, s, "SGN")
	}
	return rep
}

func writeDecl(dir string, shapes []shape) error {
	var sb strings.Builder
	sb.WriteString("// Code generated by gengram (verification harness). DO NOT EDIT.\npackage decl\n" + helperDecls + "\n")
	for _, s := range shapes {
		switch s.Kind {
		case "field", "conly":
			fmt.Fprintf(&sb, "type %s struct {\n\tA int32\n\tF %s\n\tZ []byte\n}\n\n", s.Name, s.Expr)
		case "solo":
			fmt.Fprintf(&sb, "type %s struct {\n\tF %s\n}\n\n", s.Name, s.Expr)
		default:
			fmt.Fprintf(&sb, "type %s %s\n\n", s.Name, s.Expr)
		}
	}
	if err := os.MkdirAll(dir, 0755); err != nil {
		return err
	}
	return os.WriteFile(filepath.Join(dir, "decl.go"), []byte(sb.String()), 0644)
}

type quietLogger struct{}

func (quietLogger) Print(v ...any)   {}
func (quietLogger) Println(v ...any) {}

func runCompiler(cfg *inspector.Config, xml bool) error {
	cfg.Buf = &bytes.Buffer{}
	cfg.Logger = quietLogger{}
	c, err := inspector.NewCompiler(cfg)
	if err != nil {
		return err
	}
	if xml {
		return c.WriteXML()
	}
	return c.Compile()
}

func must(err error) {
	if err != nil {
		fmt.Fprintln(os.Stderr, "gengram:", err)
		os.Exit(1)
	}
}

func phaseGenerate(root, tier string, seed uint64) {
	shapes := enumerate(tier, seed)
	must(writeDecl(filepath.Join(root, "decl"), shapes))
	helper := []shape{
		{Name: "Inner", Kind: "helper", Expr: "struct", Family: "helper"},
		{Name: "NPtrStruct", Kind: "helper", Expr: "struct", Family: "helper"},
		{Name: "Plain", Kind: "helper", Expr: "struct", Family: "helper"},
		{Name: "Mid", Kind: "helper", Expr: "struct", Family: "helper"},
		{Name: "NumBox", Kind: "helper", Expr: "struct", Family: "helper"},
		{Name: "Deep", Kind: "helper", Expr: "struct", Family: "helper"},
		{Name: "NSlice", Kind: "helper", Expr: "[]int32", Family: "helper"},
		{Name: "NMap", Kind: "helper", Expr: "map[string]int32", Family: "helper"},
	}
	all := append(helper, shapes...)
	b, _ := json.MarshalIndent(all, "", " ")
	must(os.WriteFile(filepath.Join(root, "shapes.json"), b, 0644))
	must(os.Chdir(root))
	declFile := filepath.Join(root, "decl", "decl.go")
	// the generator with Force: every type is attempted even when gofmt rejects another one
	must(runCompiler(&inspector.Config{Target: inspector.TargetFile, File: declFile, Destination: filepath.Join(root, "decl_ins"),
		Import: "gen/decl", Force: true}, false))
	must(runCompiler(&inspector.Config{Target: inspector.TargetFile, File: declFile, Destination: filepath.Join(root, "xml", "decl"),
		Import: "gen/decl", XML: "xml/decl"}, true))
	// testobj regenerated by the current generator (directory target), next to the committed output
	must(runCompiler(&inspector.Config{Target: inspector.TargetDirectory, Directory: repoDir + "/testobj", Destination: filepath.Join(root, "fresh", "testobj_ins"),
		Import: "github.com/koykov/inspector/testobj", Force: true}, false))
	must(runCompiler(&inspector.Config{Target: inspector.TargetDirectory, Directory: repoDir + "/testobj", Destination: filepath.Join(root, "xml", "fresh"),
		Import: "github.com/koykov/inspector/testobj", XML: "xml/fresh"}, true))
}

var shippedTypes = []string{"TestObject", "TestObject1", "TestFinance", "TestHistory", "TestFlag", "TestPermission", "TestStruct",
	"TestFloatSlice", "TestFloatPtrSlice", "TestStructSliceLiteral", "TestStringFloatMap", "TestStringFloatPtrMap", "TestStringPtrFloatPtrMap"}

func phaseMain(root string) {
	var shapes []shape
	b, err := os.ReadFile(filepath.Join(root, "shapes.json"))
	must(err)
	must(json.Unmarshal(b, &shapes))
	var sb strings.Builder
	sb.WriteString("// Code generated by gengram (verification harness). DO NOT EDIT.\npackage main\n\nimport (\n")
	sb.WriteString("\t\"verifharness/corr\"\n\n\t\"gen/decl\"\n\t\"gen/decl_ins\"\n")
	if m, _ := filepath.Glob(filepath.Join(root, "fresh", "testobj_ins", "*_ins.go")); len(m) > 0 {
		sb.WriteString("\tfresh \"gen/fresh/testobj_ins\"\n")
	}
	sb.WriteString("\t\"github.com/koykov/inspector/testobj\"\n\t\"github.com/koykov/inspector/testobj_ins\"\n)\n\nfunc main() {\n")
	for _, n := range shippedTypes {
		x := strings.ToLower(n) + ".xml"
		fmt.Fprintf(&sb, "\tcorr.Register(\"shipped\", %q, testobj.%s{}, testobj_ins.%sInspector{}, %q)\n", n, n, n, repoDir+"/testdata/"+x)
		if _, err := os.Stat(filepath.Join(root, "fresh", "testobj_ins", strings.ToLower(n)+"_ins.go")); err == nil {
			fmt.Fprintf(&sb, "\tcorr.Register(\"fresh\", %q, testobj.%s{}, fresh.%sInspector{}, %q)\n", n, n, n, filepath.Join(root, "xml", "fresh", x))
		}
	}
	var alive []string
	for _, s := range shapes {
		f := filepath.Join(root, "decl_ins", strings.ToLower(s.Name)+"_ins.go")
		if _, err := os.Stat(f); err != nil {
			// no compiling inspector (an open C14 class): the type itself is declared and parsed
			x := filepath.Join(root, "xml", "decl", strings.ToLower(s.Name)+".xml")
			if _, err := os.Stat(x); err == nil && s.Kind != "conly" {
				fmt.Fprintf(&sb, "\tcorr.RegisterReflectOnly(%q, decl.%s{}, %q, %q, %q)\n", s.Name, s.Name, x, s.Expr, s.Family)
			}
			continue
		}
		alive = append(alive, s.Kind+":"+s.Expr)
		if s.Kind == "conly" {
			// not registered for the behavioural runners (reflection cannot tell `[]uint8` from `[]byte`); C03 drives
			// them by hand (U8 records)
			fmt.Fprintf(&sb, "\tcorr.RegisterConly(%q, decl.%s{}, decl_ins.%sInspector{}, %q)\n", s.Name, s.Name, s.Name, s.Expr)
			continue
		}
		fmt.Fprintf(&sb, "\tcorr.RegisterShape(\"grammar\", %q, decl.%s{}, decl_ins.%sInspector{}, %q, %q, %q)\n", s.Name, s.Name, s.Name,
			filepath.Join(root, "xml", "decl", strings.ToLower(s.Name)+".xml"), s.Expr, s.Family)
	}
	sb.WriteString("\tcorr.Main()\n}\n")
	must(os.WriteFile(filepath.Join(root, "main.go"), []byte(sb.String()), 0644))
	sort.Strings(alive)
	must(os.WriteFile(filepath.Join(root, "alive.txt"), []byte(strings.Join(alive, "\n")+"\n"), 0644))
}

// compileAndXML generates the sources and, with a second compiler instance, the XML dump (relative to
// the working directory, which the caller has set).
func compileAndXML(cfg *inspector.Config, xmlDir string) error {
	x := *cfg
	if err := runCompiler(cfg, false); err != nil {
		return err
	}
	x.XML = xmlDir
	x.Destination = xmlDir
	return runCompiler(&x, true)
}

// phaseTargets generates testobj through the package, directory and single-file targets (C13).
// `run` distinguishes repeated runs in fresh processes.
func phaseTargets(root, run string) {
	base := filepath.Join(root, "targets", run)
	must(os.MkdirAll(base, 0755))
	imp := "github.com/koykov/inspector/testobj"
	errs := map[string]string{}
	// package target: needs GOPATH for the destination and a working directory that resolves the package
	gopath := filepath.Join(base, "gopath")
	must(os.MkdirAll(gopath, 0755))
	must(os.Setenv("GOPATH", gopath))
	must(os.Chdir(repoDir))
	if err := runCompiler(&inspector.Config{Target: inspector.TargetPackage, Package: imp, Destination: "pkgout"}, false); err != nil {
		errs["package"] = err.Error()
	}
	// WriteXML of the package target writes relative to the working directory, which must stay inside a
	// module that resolves the package: dump into a scratch path below the GOPATH through a relative path
	rel, rerr := filepath.Rel(repoDir, filepath.Join(gopath, "src", "pkgxml"))
	if rerr != nil {
		errs["package-xml"] = rerr.Error()
	} else if err := runCompiler(&inspector.Config{Target: inspector.TargetPackage, Package: imp, Destination: "pkgxml", XML: rel}, true); err != nil {
		errs["package-xml"] = err.Error()
	}
	must(os.Chdir(base))
	if err := compileAndXML(&inspector.Config{Target: inspector.TargetDirectory, Directory: repoDir + "/testobj", Destination: filepath.Join(base, "dir"), Import: imp}, "dirxml"); err != nil {
		errs["directory"] = err.Error()
	}
	// re-generation over an existing destination (NoClean): every file the run writes must come out as it does in
	// a fresh destination, whatever the old file of that name held — a longer version, a shorter one, something else
	rr := filepath.Join(base, "rerun")
	must(os.MkdirAll(rr, 0755))
	if ents, err := os.ReadDir(filepath.Join(base, "dir")); err == nil {
		k := 0
		for _, e := range ents {
			if !strings.HasSuffix(e.Name(), "_ins.go") {
				continue
			}
			old, _ := os.ReadFile(filepath.Join(base, "dir", e.Name()))
			switch k % 3 {
			case 0:
				old = append(old, []byte("\n// tail of a longer previous version\nfunc staleTail() {}\n"+strings.Repeat("// stale\n", 300))...)
			case 1:
				old = old[:len(old)/2]
			default:
				old = []byte("package stale\n" + strings.Repeat("// unrelated previous content\n", len(old)/16))
			}
			k++
			must(os.WriteFile(filepath.Join(rr, e.Name()), old, 0644))
		}
		if err := runCompiler(&inspector.Config{Target: inspector.TargetDirectory, Directory: repoDir + "/testobj", Destination: rr, Import: imp, NoClean: true}, false); err != nil {
			errs["rerun"] = err.Error()
		}
	}
	for i, f := range []string{repoDir + "/testobj/testobj.go", repoDir + "/testobj/testobj1.go"} {
		if err := runCompiler(&inspector.Config{Target: inspector.TargetFile, File: f, Destination: filepath.Join(base, "file"), Import: imp, NoClean: i > 0}, false); err != nil {
			errs["file"] = err.Error()
		}
		if err := runCompiler(&inspector.Config{Target: inspector.TargetFile, File: f, Destination: "filexml", Import: imp, XML: "filexml"}, true); err != nil {
			errs["file-xml"] = err.Error()
		}
	}
	// the grammar declarations through the directory target as well (file target output exists from phase generate)
	if _, err := os.Stat(filepath.Join(root, "decl", "decl.go")); err == nil {
		if err := compileAndXML(&inspector.Config{Target: inspector.TargetDirectory, Directory: filepath.Join(root, "decl"), Destination: filepath.Join(base, "decl_dir"), Import: "gen/decl", Force: true}, "decl_dirxml"); err != nil {
			errs["decl-directory"] = err.Error()
		}
	}
	// the grammar declarations through the go/types parser (package target), XML only
	if _, err := os.Stat(filepath.Join(root, "decl", "decl.go")); err == nil {
		must(os.Chdir(root))
		rel, rerr := filepath.Rel(root, filepath.Join(gopath, "src", "declpkgxml"))
		if rerr != nil {
			errs["decl-package-xml"] = rerr.Error()
		} else if err := runCompiler(&inspector.Config{Target: inspector.TargetPackage, Package: "gen/decl", Destination: "declpkgxml", XML: rel}, true); err != nil {
			errs["decl-package-xml"] = err.Error()
		}
		must(os.Chdir(base))
	}
	// black list and NoClean (C14): a marker file must survive NoClean, black-listed types get no file
	bl := filepath.Join(base, "blacklist")
	must(os.MkdirAll(bl, 0755))
	must(os.WriteFile(filepath.Join(bl, "marker.txt"), []byte("keep"), 0644))
	if err := runCompiler(&inspector.Config{Target: inspector.TargetDirectory, Directory: repoDir + "/testobj", Destination: bl, Import: imp, NoClean: true,
		BlackList: map[string]struct{}{"TestObject1": {}, "TestFlag": {}}}, false); err != nil {
		errs["blacklist"] = err.Error()
	}
	cl := filepath.Join(base, "clean")
	must(os.MkdirAll(cl, 0755))
	must(os.WriteFile(filepath.Join(cl, "marker.txt"), []byte("remove"), 0644))
	if err := runCompiler(&inspector.Config{Target: inspector.TargetDirectory, Directory: repoDir + "/testobj", Destination: cl, Import: imp}, false); err != nil {
		errs["clean"] = err.Error()
	}
	// an un-forced run over the whole grammar slice: does the generator itself report an error?
	if _, err := os.Stat(filepath.Join(root, "decl", "decl.go")); err == nil {
		if err := runCompiler(&inspector.Config{Target: inspector.TargetFile, File: filepath.Join(root, "decl", "decl.go"), Destination: filepath.Join(base, "unforced"), Import: "gen/decl"}, false); err != nil {
			errs["decl-unforced"] = err.Error()
		}
	}
	b, _ := json.MarshalIndent(errs, "", " ")
	must(os.WriteFile(filepath.Join(base, "errors.json"), b, 0644))
}

// phaseFacts extracts from the generated inspector files (committed, regenerated testobj, grammar slice)
// the facts the Lean side re-checks on every run: their distinct import sets.
func phaseFacts(root string) {
	dirs := []string{repoDir + "/testobj_ins", filepath.Join(root, "fresh", "testobj_ins"), filepath.Join(root, "decl_ins")}
	sets := map[string]bool{}
	n := 0
	fset := token.NewFileSet()
	for _, d := range dirs {
		ents, err := os.ReadDir(d)
		if err != nil {
			continue
		}
		for _, e := range ents {
			if !strings.HasSuffix(e.Name(), "_ins.go") {
				continue
			}
			f, err := parser.ParseFile(fset, filepath.Join(d, e.Name()), nil, parser.ImportsOnly)
			if err != nil {
				continue
			}
			var imps []string
			for _, im := range f.Imports {
				imps = append(imps, im.Path.Value)
			}
			sort.Strings(imps)
			sets[strings.Join(imps, " ")] = true
			n++
		}
	}
	var keys []string
	for k := range sets {
		keys = append(keys, k)
	}
	sort.Strings(keys)
	var sb strings.Builder
	sb.WriteString("-- regenerated on every run (gengram -phase facts): distinct import sets of the generated inspector files\nnamespace Inspector\n")
	sb.WriteString("def generatedImportSets : List (List String) := [\n")
	for i, k := range keys {
		var q []string
		for _, im := range strings.Fields(k) {
			q = append(q, strconv.Quote(im))
		}
		sep := ","
		if i == len(keys)-1 {
			sep = ""
		}
		sb.WriteString("  [" + strings.Join(q, ", ") + "]" + sep + "\n")
	}
	sb.WriteString("]\ndef generatedFilesScanned : Nat := " + strconv.Itoa(n) + "\nend Inspector\n")
	must(os.MkdirAll(filepath.Join(root, "extracted"), 0755))
	must(os.WriteFile(filepath.Join(root, "extracted", "Imports.lean"), []byte(sb.String()), 0644))
}

// repoDir: the tree under verification (VERIF_REPO overrides /repo, as in scripts/vlib.py).
var repoDir = func() string {
	if d := os.Getenv("VERIF_REPO"); d != "" {
		return d
	}
	return "/repo"
}()

func main() {
	log.SetOutput(io.Discard) // the compiler logs gofmt failures under Force
	root := flag.String("root", "", "work directory of the generated module")
	tier := flag.String("tier", "quick", "quick|thorough")
	seed := flag.Uint64("seed", 1, "VERIF_SEED")
	phase := flag.String("phase", "generate", "generate|main|targets")
	runName := flag.String("run", "A", "name of this run (phase targets)")
	flag.Parse()
	if *root == "" {
		must(fmt.Errorf("-root required"))
	}
	switch *phase {
	case "generate":
		phaseGenerate(*root, *tier, *seed)
	case "main":
		phaseMain(*root)
		phaseFacts(*root)
	case "targets":
		phaseTargets(*root, *runName)
	}
}
