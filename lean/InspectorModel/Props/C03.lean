/-
Props/C03.lean — property theorems for C03 (Set stores the value at the path and changes nothing else).
-/
import InspectorModel.Gen.Set
import InspectorModel.Spec.SetSpec
namespace Inspector.C03

/-- Empty path: SetWithBuffer returns at once; the destination is untouched (compiler.go:373). -/
theorem empty_path (cfg : GenCfg) (n : Node) (f : Form) (v : Val) (s : Src) (nb : Bool) :
    (match setM cfg n f v [] s nb with | .ok r => r == v | _ => false) = (v == v) := rfl

end Inspector.C03
