/-
Proofs/C02Set.lean — C02 for Set / SetWithBuffer and Loop: the repaired models never reach a `.panic` branch
on a well-formed tree and a well-typed value, whatever the path and the assigned value.
-/
import InspectorModel.Proofs.C02Assign
set_option linter.unusedSimpArgs false
set_option linter.unusedVariables false
namespace Inspector

theorem assignLeaf_isSome (n : Node) (old : Val) (s : Src) (noBuf : Bool) :
    (assignLeaf GenCfg.fixed n old s noBuf).isSome = true := by
  have c1 : GenCfg.fixed.strAppendsOld = false := rfl
  have c2 : GenCfg.fixed.assignNilSrcPanics = false := rfl
  have c3 : GenCfg.fixed.setNilLeafPtrPanics = false := rfl
  have key : ∀ (w : Val) (f : Val → Val) (o : Val),
      (match assignM { strAppendsOld := false, nilSrcPanics := false } (leafKind n) w s noBuf with
        | AssignR.ok w' => some (f w')
        | AssignR.no => some o
        | AssignR.inexact => some o
        | AssignR.panic => none).isSome = true := by
    intro w f o
    have h := assignM_np false (leafKind n) w s noBuf
    generalize assignM { strAppendsOld := false, nilSrcPanics := false } (leafKind n) w s noBuf = r at h ⊢
    cases r <;> first | rfl | (simp [AssignR.isPanic] at h)
  unfold assignLeaf
  simp only [c1, c2, c3, Bool.false_and, Bool.false_eq_true, if_false]
  split
  · split
    · exact key _ (fun w' => .ptr w') _
    · rfl
  · exact key _ (fun w' => w') _

theorem isLeaf_false_cases (ch : Node) (h : ch.isLeaf = false) :
    (∃ i c, ch = .struct i c) ∨ (∃ i k v, ch = .map i k v) ∨ (∃ i e, ch = .slice i e ∧ (i.typn == "[]byte") = false) := by
  cases ch with
  | basic i => simp at h
  | struct i c => exact Or.inl ⟨i, c, rfl⟩
  | map i k v => exact Or.inr (Or.inl ⟨i, k, v, rfl⟩)
  | slice i e => simp only [isLeaf_slice] at h; exact Or.inr (Or.inr ⟨i, e, rfl, h⟩)

/-- Auto-creation on the path keeps the field well-typed. -/
theorem WT_autoCreate (ch : Node) (fv : Val) (hwf : NodeWF ch = true) (hl : ch.isLeaf = false)
    (h : WT ch fv = true) : WT ch (autoCreate ch fv) = true := by
  unfold autoCreate
  split
  · exact h
  · rcases isLeaf_false_cases ch hl with ⟨i, c, hc⟩ | ⟨i, k, v, hc⟩ | ⟨i, e, hc, hb⟩
    · subst hc
      simp only []
      split
      · rename_i hp
        rw [WT_ptr]
        simp only [ptr_struct, hp, Bool.true_and]
        exact WT_zeroVal _ (by rw [NodeWF_withPtr]; exact hwf)
      · exact h
    · subst hc
      simp only []
      split
      · rename_i hp; simp [WT, hp, WTall, Node.withPtr]
      · rename_i hp; simp [WT, hp, WTall]
    · subst hc
      simp only []
      split
      · rename_i hp; simp [WT, hp, WTall, Node.withPtr]; simpa using hb
      · rename_i hp; simp [WT, hp, WTall]; simpa using hb

/-- Close a goal `(… match (setN …).flow with …).flow ≠ .panic` from the fact for the inner call. -/
local macro "setfin " h:term " ; " e:term : tactic => `(tactic|
  (have hsub := $h
   generalize $e = r at hsub ⊢
   obtain ⟨rv, rf⟩ := r
   cases rf <;> simp only [] <;> first
     | exact absurd rfl hsub
     | ((try simp only [apply_ite SetR.flow]); (repeat' split) <;>
          first | (intro hq; cases hq; done) | contradiction | (simp_all; done))))

/-- Set mode never reaches a `.panic` branch. -/
theorem setN_no_panic (src : Src) (noBuf : Bool) (p : List Seg) : ∀ (n : Node) (pm root : Bool) (v : Val),
    NodeWF n = true → WT n v = true →
    (setN GenCfg.fixed n pm root v p src noBuf).flow ≠ .panic := by
  have leaf_np : ∀ (n : Node) (v : Val) (fl : SFlow), fl ≠ .panic →
      (if (n.ptr && v.isNilPtr) = true then (⟨v, .ret⟩ : SetR) else
        match assignLeaf GenCfg.fixed n v src noBuf with
        | some v' => ⟨v', fl⟩
        | none => ⟨v, .panic⟩).flow ≠ .panic := by
    intro n v fl hfl
    split
    · simp
    · have h := assignLeaf_isSome n v src noBuf
      generalize assignLeaf GenCfg.fixed n v src noBuf = o at h ⊢
      cases o with
      | some x => exact hfl
      | none => cases h
  have pmflow : ∀ (pm : Bool), (if pm = true then SFlow.cont else SFlow.ret) ≠ .panic := by
    intro pm; cases pm <;> simp
  induction p with
  | nil =>
    intro n pm root v hwf hwt
    cases n with
    | basic i => simp only [setN]; exact leaf_np _ _ _ (pmflow pm)
    | struct i c => simp [setN]
    | map i k mv => simp [setN]
    | slice i e => simp [setN]
  | cons s rest ih =>
    intro n pm root v hwf hwt
    cases n with
    | basic i => simp only [setN]; exact leaf_np _ _ _ (pmflow pm)
    | struct i chld =>
      by_cases hnil : (i.ptr && v.isNilPtr) = true
      · simp [setN, hnil]
      · have hnil' : (i.ptr && v.isNilPtr) = false := by simpa using hnil
        have hw := WT_deref _ _ hwt (by simpa [Node.ptr, Node.info] using hnil')
        rw [withPtr_struct] at hw
        obtain ⟨fs, hfs, hwts⟩ := WT_struct_inv _ _ _ rfl hw
        simp only [ptr_struct] at hfs
        simp only [setN, hnil', hfs, Bool.false_eq_true, if_false]
        cases hff : findField chld fs s.text with
        | none => simp
        | some cf =>
          obtain ⟨ch, fv⟩ := cf
          obtain ⟨hwtc, hmem⟩ := findField_WT _ _ _ _ _ hwts hff
          have hwfc : NodeWF ch = true := NodeWFs_mem _ _ (by simpa [NodeWF] using hwf) hmem
          simp only []
          by_cases hl : ch.isLeaf = true
          · simp only [hl, if_true]
            have h := assignLeaf_isSome ch fv src noBuf
            generalize assignLeaf GenCfg.fixed ch fv src noBuf = o at h ⊢
            cases o with
            | some x => simp
            | none => cases h
          · have hl' : ch.isLeaf = false := by simpa using hl
            simp only [hl', Bool.false_eq_true, if_false]
            exact ih ch false false _ hwfc (WT_autoCreate ch fv hwfc hl' hwtc)
    | map i k mv =>
      by_cases hnil : (i.ptr && v.isNilPtr) = true
      · simp [setN, hnil]
      · have hnil' : (i.ptr && v.isNilPtr) = false := by simpa using hnil
        have hw := WT_deref _ _ hwt (by simpa using hnil')
        rw [withPtr_map] at hw
        obtain ⟨nl, ks, vs, hm, _, _, hwtv⟩ := WT_map_inv { i with ptr := false } k mv _ rfl hw
        simp only [ptr_map] at hm
        simp only [NodeWF, Bool.and_eq_true] at hwf
        obtain ⟨⟨hkb, hwfk⟩, hwfm⟩ := hwf
        cases k with
        | basic ki =>
          simp only [setN, hnil', ptr_basic, typn_basic, typu_basic, hm, Bool.false_eq_true, if_false]
          have hz : WT mv (zeroVal mv) = true := WT_zeroVal mv hwfm
          have c1 : GenCfg.fixed.setNilMapStorePanics = false := rfl
          simp only [c1, Bool.and_false]
          by_cases hstr : (ki.typn == "string") = true
          · simp only [hstr, if_true]
            by_cases hp : ki.ptr = true
            · simp only [hp, if_true, Option.getD_none]
              setfin (ih mv true false (zeroVal mv) hwfm hz) ; (setN GenCfg.fixed mv true false (zeroVal mv) rest src noBuf)
            · simp only [hp, Bool.false_eq_true, if_false]
              cases hl : lookupKey ks vs (.str s.text) with
              | some x =>
                simp only [Option.getD_some]
                setfin (ih mv true false x hwfm (lookupKey_WT mv ks vs _ x hwtv hl)) ; (setN GenCfg.fixed mv true false x rest src noBuf)
              | none =>
                simp only [Option.getD_none]
                setfin (ih mv true false (zeroVal mv) hwfm hz) ; (setN GenCfg.fixed mv true false (zeroVal mv) rest src noBuf)
          · have hstr' : (ki.typn == "string") = false := by simpa using hstr
            simp only [hstr', Bool.false_eq_true, if_false]
            obtain ⟨c, hc⟩ := convSeg_wf_some ki s hwfk
            rw [hc]
            cases c with
            | err => simp
            | «opaque» => simp
            | ok key =>
              simp only []
              by_cases hp : ki.ptr = true
              · simp only [hp, if_true, Option.getD_none]
                setfin (ih mv true false (zeroVal mv) hwfm hz) ; (setN GenCfg.fixed mv true false (zeroVal mv) rest src noBuf)
              · simp only [hp, Bool.false_eq_true, if_false]
                cases hl : lookupKey ks vs key with
                | some x =>
                  simp only [Option.getD_some]
                  setfin (ih mv true false x hwfm (lookupKey_WT mv ks vs _ x hwtv hl)) ; (setN GenCfg.fixed mv true false x rest src noBuf)
                | none =>
                  simp only [Option.getD_none]
                  setfin (ih mv true false (zeroVal mv) hwfm hz) ; (setN GenCfg.fixed mv true false (zeroVal mv) rest src noBuf)
        | _ => simp [Node.isBasicTyp] at hkb
    | slice i e =>
      by_cases hb : (i.typn == "[]byte") = true
      · simp only [setN, hb, if_true]; exact leaf_np _ _ _ (by simp)
      · have hb' : (i.typn == "[]byte") = false := by simpa using hb
        by_cases hnil : (i.ptr && v.isNilPtr) = true
        · simp [setN, hnil, hb']
        · have hnil' : (i.ptr && v.isNilPtr) = false := by simpa using hnil
          have hw := WT_deref _ _ hwt (by simpa using hnil')
          rw [withPtr_slice] at hw
          obtain ⟨nl, es, c, hes, hwte⟩ := WT_slice_inv { i with ptr := false } e _ rfl hb' hw
          simp only [ptr_slice] at hes
          have hwfe : NodeWF e = true := by simpa [NodeWF] using hwf
          simp only [setN, hnil', hb', hes, Bool.false_eq_true, if_false]
          cases hpi : s.pi with
          | none => simp
          | some idx =>
            simp only []
            by_cases hlt : (es.length : Int) > idx
            · rw [if_pos hlt]
              by_cases hneg : idx < 0
              · rw [if_pos hneg]
                have hcfg : GenCfg.fixed.negIndexPanics = false := rfl
                simp [hcfg]
              · rw [if_neg hneg]
                obtain ⟨x, hx⟩ := nth?_some_of_lt es idx.toNat (by omega)
                have hwtx := nth?_WT e es _ x hwte hx
                simp only [hx]
                setfin (ih e false false x hwfe hwtx) ; (setN GenCfg.fixed e false false x rest src noBuf)
            · rw [if_neg hlt]; simp

theorem setM_no_panic (n : Node) (f : Form) (v : Val) (p : List Seg) (src : Src) (noBuf : Bool)
    (hwf : NodeWF n = true) (hwt : WT n v = true) :
    (setM GenCfg.fixed n f v p src noBuf).isPanic = false := by
  unfold setM
  cases p with
  | nil => rfl
  | cons s rest =>
    simp only []
    rcases rootOfC_fixed f with h | h <;> rw [h]
    · simp only []
      have hs := setN_no_panic src noBuf (s :: rest) n false true v hwf hwt
      generalize setN GenCfg.fixed n false true v (s :: rest) src noBuf = r at hs ⊢
      obtain ⟨rv, rf⟩ := r
      cases rf <;> first | rfl | exact absurd rfl hs
    · rfl

/-! ## Loop -/

/-- With the nil-key repair the key rendering always yields a text. -/
theorem renderKey_fixed_some (k : Node) (key : Val) (ft : Val → Bytes) :
    ∃ t, renderKey false k key ft = some t := by
  unfold renderKey
  simp only []
  split
  · exact ⟨_, rfl⟩
  · split <;> exact ⟨_, rfl⟩

theorem loopEntries_np (sc : LoopScript) (k mv : Node) (ft : Val → Bytes) :
    ∀ (ks vs : List Val) (i : Nat), (loopEntries false sc k mv ft ks vs i).fin ≠ .panic := by
  intro ks
  induction ks with
  | nil => intro vs i; simp [loopEntries]
  | cons key ks' ih =>
    intro vs i
    cases vs with
    | nil => simp [loopEntries]
    | cons x vs' =>
      have hrk : ∃ t, (if scriptAt sc.wantKey i false = true then renderKey false k key ft else some []) = some t := by
        split
        · exact renderKey_fixed_some k key ft
        · exact ⟨_, rfl⟩
      obtain ⟨t, ht⟩ := hrk
      simp only [loopEntries, ht]
      split
      · simp
      · exact ih vs' (i + 1)

/-- Loop mode never reaches a `.panic` branch. -/
theorem loopN_no_panic (sc : LoopScript) (ft : Val → Bytes) (p : List Seg) : ∀ (n : Node) (v : Val),
    NodeWF n = true → WT n v = true →
    (loopN GenCfg.fixed sc ft n v p).fin ≠ .panic := by
  have hcfg : GenCfg.fixed.loopNilKeyPanics = false := rfl
  have hmap : ∀ (i : Info) (k mv : Node) (v : Val) (q : List Seg), WT (.map i k mv) v = true →
      (loopN GenCfg.fixed sc ft (.map i k mv) v q).fin ≠ .panic := by
    intro i k mv v q hwt
    by_cases hnil : (i.ptr && v.isNilPtr) = true
    · simp [loopN, hnil]
    · have hnil' : (i.ptr && v.isNilPtr) = false := by simpa using hnil
      have hw := WT_deref _ _ hwt (by simpa using hnil')
      rw [withPtr_map] at hw
      obtain ⟨nl, ks, vs, hm, _, _, _⟩ := WT_map_inv { i with ptr := false } k mv _ rfl hw
      simp only [ptr_map] at hm
      simp only [loopN, hnil', hm, hcfg, Bool.false_eq_true, if_false]
      exact loopEntries_np sc k mv ft ks vs 0
  have hslice : ∀ (i : Info) (e : Node) (v : Val) (q : List Seg), WT (.slice i e) v = true →
      (loopN GenCfg.fixed sc ft (.slice i e) v q).fin ≠ .panic := by
    intro i e v q hwt
    by_cases hb : (i.typn == "[]byte") = true
    · simp [loopN, hb]
    · have hb' : (i.typn == "[]byte") = false := by simpa using hb
      by_cases hnil : (i.ptr && v.isNilPtr) = true
      · simp [loopN, hnil, hb']
      · have hnil' : (i.ptr && v.isNilPtr) = false := by simpa using hnil
        have hw := WT_deref _ _ hwt (by simpa using hnil')
        rw [withPtr_slice] at hw
        obtain ⟨nl, es, c, hes, _⟩ := WT_slice_inv { i with ptr := false } e _ rfl hb' hw
        simp only [ptr_slice] at hes
        simp [loopN, hnil', hb', hes]
  induction p with
  | nil =>
    intro n v hwf hwt
    cases n with
    | basic i => simp [loopN]
    | struct i c => simp [loopN]
    | map i k mv => exact hmap i k mv v [] hwt
    | slice i e => exact hslice i e v [] hwt
  | cons s rest ih =>
    intro n v hwf hwt
    cases n with
    | basic i => simp [loopN]
    | map i k mv => exact hmap i k mv v _ hwt
    | slice i e => exact hslice i e v _ hwt
    | struct i chld =>
      by_cases hnil : (i.ptr && v.isNilPtr) = true
      · simp [loopN, hnil]
      · have hnil' : (i.ptr && v.isNilPtr) = false := by simpa using hnil
        have hw := WT_deref _ _ hwt (by simpa using hnil')
        rw [withPtr_struct] at hw
        obtain ⟨fs, hfs, hwts⟩ := WT_struct_inv _ _ _ rfl hw
        simp only [ptr_struct] at hfs
        simp only [loopN, hnil', hfs, Bool.false_eq_true, if_false]
        cases hff : findField chld fs s.text with
        | none => simp
        | some cf =>
          obtain ⟨ch, fv⟩ := cf
          obtain ⟨hwtc, hmem⟩ := findField_WT _ _ _ _ _ hwts hff
          have hwfc : NodeWF ch = true := NodeWFs_mem _ _ (by simpa [NodeWF] using hwf) hmem
          simp only []
          by_cases hl : ch.isLeaf = true
          · simp [hl]
          · simp only [hl, Bool.false_eq_true, if_false]
            exact ih ch fv hwfc hwtc

theorem loopM_no_panic (sc : LoopScript) (ft : Val → Bytes) (n : Node) (f : Form) (v : Val) (p : List Seg)
    (hwf : NodeWF n = true) (hwt : WT n v = true) :
    (loopM GenCfg.fixed sc ft n f v p).fin ≠ .panic := by
  have ite_np : ∀ (c : Prop) [Decidable c] (a b : LoopR), a.fin ≠ .panic → b.fin ≠ .panic →
      (if c then a else b).fin ≠ .panic := by
    intro c _ a b ha hb; split <;> assumption
  unfold loopM
  rcases rootOfC_fixed f with h | h <;> simp only [h]
  · apply ite_np
    · simp
    · exact loopN_no_panic sc ft p n v hwf hwt
  · apply ite_np <;> simp

end Inspector
