package corr

import (
	"encoding/json"
	"os"
	"path/filepath"
	"reflect"
	"strings"

	"github.com/koykov/inspector"
)

func init() {
	Runners["C14"] = runC14
}

type shapeRec struct {
	Name   string `json:"name"`
	Kind   string `json:"kind"`
	Expr   string `json:"expr"`
	Family string `json:"family"`
	Depth  int    `json:"depth"`
}

// GenmodDir is set from the -genmod flag: the generated module of this run (shapes.json, alive.txt, xml/).
var GenmodDir string

// runC14 emits, per enumerated declaration, whether the current generator's output for it compiled
// (`CM`), and per compiled type whether the inspector reports the declared name and is retrievable
// from the registry (`RG`).
func runC14(p *Plan) {
	var shapes []shapeRec
	b, err := os.ReadFile(filepath.Join(GenmodDir, "shapes.json"))
	if err == nil {
		_ = json.Unmarshal(b, &shapes)
	}
	alive := map[string]bool{}
	if b, err := os.ReadFile(filepath.Join(GenmodDir, "alive.txt")); err == nil {
		for _, l := range strings.Split(string(b), "\n") {
			alive[l] = true
		}
	}
	for i, s := range shapes {
		x := filepath.Join(GenmodDir, "xml", "decl", strings.ToLower(s.Name)+".xml")
		n, err := LoadXNode(x)
		if err != nil {
			p.Out.Op("CM - " + s.Name + " | missing-xml | " + tokStr(s.Kind+":"+s.Expr))
			continue
		}
		tid := "c" + itoa(i)
		p.Out.Line("T " + tid + " " + n.String())
		judged := "0"
		if s.Depth <= 2 || s.Kind == "helper" {
			judged = "1" // exhaustively enumerated, seed independent
		}
		p.Out.Op("CM " + tid + " " + s.Name + " | " + b01(alive[s.Kind+":"+s.Expr]) + " " + judged + " | " + tokStr(s.Kind+":"+s.Expr))
		p.Out.Count("family:" + s.Family)
	}
	for _, e := range p.Types {
		name := "panic"
		func() {
			defer func() { _ = recover() }()
			name = e.Ins.TypeName()
		}()
		reg := "0"
		if e.Group != "fresh" { // the regenerated testobj inspectors register under the shipped names
			if ins, err := inspector.GetInspector(e.Name); err == nil && reflect.TypeOf(ins) == reflect.TypeOf(e.Ins) {
				reg = "1"
			}
		} else {
			reg = "1"
		}
		var _ inspector.Inspector = e.Ins
		p.Out.Op("RG " + e.Tid + " " + e.Name + " | " + tokStr(name) + " " + reg)
	}
}
