/-
Props/C18.lean — property theorems for C18 (map[string]any inspector follows key paths through nested maps).

For the repaired runtime model (`LibCfg.fixed`), every tree, every key path, operator, operand and source: the
outcome of Get / Length / Capacity / Compare / Set / Copy is accepted by the independent specification
(Spec/StrAnyMapSpec.lean), with the pairing the driver uses (Driver/LibOps.lean `samapOp*`).
Each `…_correct` theorem has a general form `…_correct_cfg` for an arbitrary configuration under the switch
values it really needs; the theorems about `LibCfg.fixed` and about the current tree (`LibCfg.repo`, section
CurrentTree) are instances, so the latter do not depend on the position of the nil-pointer switch in `LibCfg.repo`.

The model represents a Go map as an association list and a leaf as kind + value; the theorems need the
representation invariants of real Go values, explicit as decidable predicates (Proofs/C18.lean):
`JMapsOK` (as many values as keys, distinct keys, a nil map is empty), `JLeavesOK` (a `.str` value has a text
kind, a `.bytes` value has kind `[]byte`) and, where the repaired inspector goes on past a nil pointer to a map
(Set), `JNilPtrsOK` (the node of a nil pointer is a nil map). `hypothesis_needed_*` show that each is needed.

Nil pointers (switch `samapNilPtrPanics`, finding `samap-nil-ptr-panics`): the specification leaves the outcome
open where a nil pointer to a map is on the way (`jnav … = .unspec`); C02 demands that nothing panics. Section
NoPanic proves that of the repaired model for ALL trees, nil pointers included; `original_panics_nil_ptr` shows
the panic of the model with the switch on. Copy of a tree containing a nil pointer to a map yields (repaired) a
pointer to an empty map, which the tree comparison `jeq` tells apart from the source: `copy_correct`,
`copy_correct_general`, `copy_independent` carry the hypothesis `jHasNilMap j = false` for the repaired model
(`copy_hypothesis_needed`); `copy_correct_nil_ptrs` / `copy_correct_driver` cover every tree, comparing the copy with
the source up to `jCopyNorm` (Spec/StrAnyMapSpec.lean: nil pointer to a map ↦ pointer to an empty map).
The model of the tree at the pinned commit is rejected on the class `samap-cap-is-len` (`repo_not_correct`).

Loop and Reset (`samapLoop`, `samapReset`, Lib/StrAnyMap.lean; driver handlers `samapOpLoop`, `samapOpReset`): section
LoopReset relates Loop to Get (`loop_via_get`: the model is what the driver computed inline before); section NoPanic
has `loop_no_panic` (every tree, every path — the argument forms reach Loop as the root node) and `reset_no_panic`
(every argument form, every tree).
-/
import InspectorModel.Proofs.C18
namespace Inspector.C18

/-- The empty path addresses the node itself. -/
theorem get_empty (cfg : LibCfg) (j : JVal) : (match samapGet cfg j [] with | .node _ => true | _ => false) = true := rfl

/-! ### Get -/

/-- Any configuration: Get hands out the node the path leads to, nothing for an absent key, the unsupported-type
error through a non-map. -/
theorem get_correct_cfg (cfg : LibCfg) (j : JVal) (p : List Bytes) (hw : JMapsOK j = true) :
    samapGetAccepts j p (samapGet cfg j p) = true := by
  have h := samapGet_jnav cfg p j
  unfold samapGetAccepts
  cases hn : jnav j p with
  | found x => simp only [hn] at h; rw [h]; exact jeq_refl x (jnav_JMapsOK p j x hn hw)
  | absent => simp only [hn] at h; rw [h]
  | nonMap => simp only [hn] at h; rw [h]
  | unspec => rfl

/-- Get hands out the node the path leads to, nothing for an absent key, the unsupported-type error through a non-map. -/
theorem get_correct (j : JVal) (p : List Bytes) (hw : JMapsOK j = true) :
    samapGetAccepts j p (samapGet LibCfg.fixed j p) = true := get_correct_cfg LibCfg.fixed j p hw

/-- The driver's guard (`acc` of `samapOpGet`): a stored untyped nil is observed as "nothing". -/
def getAcc (j : JVal) (p : List Bytes) (o : JGet) : Bool :=
  let norm (o : JGet) : JGet := match o with | .node .nil => .none | x => x
  match jnav j p with
  | .found .nil => (match norm o with | .none => true | _ => false)
  | _ => samapGetAccepts j p o

theorem get_correct_driver_cfg (cfg : LibCfg) (j : JVal) (p : List Bytes) (hw : JMapsOK j = true) :
    getAcc j p (samapGet cfg j p) = true := by
  have h := get_correct_cfg cfg j p hw
  have hg := samapGet_jnav cfg p j
  unfold getAcc
  cases hn : jnav j p with
  | found x =>
    cases x with
    | nil => simp only [hn] at hg; rw [hg]
    | _ => exact h
  | _ => exact h

theorem get_correct_driver (j : JVal) (p : List Bytes) (hw : JMapsOK j = true) :
    getAcc j p (samapGet LibCfg.fixed j p) = true := get_correct_driver_cfg LibCfg.fixed j p hw

/-- Any configuration: Get panics only for a nil pointer to a map on the way. -/
theorem get_panic_only (cfg : LibCfg) (j : JVal) (p : List Bytes)
    (h : (match jnav j p with | .unspec => false | _ => true) = true) :
    (match samapGet cfg j p with | .panic => false | _ => true) = true := by
  have hg := samapGet_jnav cfg p j
  cases hn : jnav j p <;> simp only [hn] at h hg <;> first | (rw [hg]) | cases h

/-! ### Length / Capacity -/

theorem len_correct_cfg (cfg : LibCfg) (j : JVal) (p : List Bytes) (hw : JLeavesOK j = true) :
    samapLcAccepts false j p (samapLen cfg j p) = true := samapLen_ok cfg p j hw

theorem cap_correct_cfg (cfg : LibCfg) (hc : cfg.samapCapIsLen = false) (j : JVal) (p : List Bytes)
    (hw : JLeavesOK j = true) :
    samapLcAccepts true j p (samapCap cfg j p) = true := samapCap_ok cfg hc p j hw

theorem len_correct (j : JVal) (p : List Bytes) (hw : JLeavesOK j = true) :
    samapLcAccepts false j p (samapLen LibCfg.fixed j p) = true := samapLen_ok LibCfg.fixed p j hw

theorem cap_correct (j : JVal) (p : List Bytes) (hw : JLeavesOK j = true) :
    samapLcAccepts true j p (samapCap LibCfg.fixed j p) = true := samapCap_ok LibCfg.fixed rfl p j hw

/-- As the driver pairs them (`samapOpLC`). -/
theorem lc_correct (isCap : Bool) (j : JVal) (p : List Bytes) (hw : JLeavesOK j = true) :
    samapLcAccepts isCap j p (if isCap then samapCap LibCfg.fixed j p else samapLen LibCfg.fixed j p) = true := by
  cases isCap
  · exact len_correct j p hw
  · exact cap_correct j p hw

/-! ### Compare -/

theorem cmp_correct_cfg (cfg : LibCfg) (hs : cfg.staticNilPtrPanics = false) (j : JVal) (p : List Bytes) (op : Op)
    (right : Seg) (hw : JMapsOK j = true) :
    samapCmpAccepts j p op right (samapCmp cfg j p op right) = true := samapCmp_ok cfg hs op right p j hw

/-- Compare answers with the static comparison of the leaf the path leads to; absent keys leave the result
alone; through a non-map the unsupported-type error is returned. (The driver skips inexact float operands;
the theorem needs no such guard.) -/
theorem cmp_correct (j : JVal) (p : List Bytes) (op : Op) (right : Seg) (hw : JMapsOK j = true) :
    samapCmpAccepts j p op right (samapCmp LibCfg.fixed j p op right) = true :=
  samapCmp_ok LibCfg.fixed rfl op right p j hw

/-- The leaf step on its own (C16's Compare statement): every operand, operator and operand text. -/
theorem leaf_cmp_correct (s : Src) (op : Op) (right : Seg) :
    staticCmpAccepts s op right (staticCmp LibCfg.fixed s op right) = true := staticCmp_correct s op right

/-! ### Set -/

/-- A nil pointer to a map on the way (`jnav … = .unspec`): outside the property (a listed finding of C02). -/
def nilPtrOnPath (j : JVal) (p : List Bytes) : Bool :=
  match jnav j p with | .unspec => true | _ => false

/-- The driver's judgement in `fixedcheck` mode: a panic is passed on to its own class, anything else must be accepted. -/
def setAcc (j : JVal) (p : List Bytes) (src : Src) (o : JSet) : Bool :=
  match o with
  | .panic => true
  | o => samapSetAccepts j p src o

/-- Any configuration. `hnp`: either the inspector stops (panics) at a nil pointer to a map, or along the path the
node of such a pointer is a nil map. -/
theorem set_correct_driver_cfg (cfg : LibCfg) (j : JVal) (p : List Bytes) (src : Src) (hw : JMapsOK j = true)
    (hnp : cfg.samapNilPtrPanics = true ∨ pathNilOK j p = true) :
    setAcc j p src (samapSet cfg j p src) = true := by
  cases p with
  | nil => simp [samapSet, setAcc, samapSetAccepts, samapFrame_nil]
  | cons k rest =>
    have hc := samapSet_claim cfg src rest k j hw hnp
    unfold setAcc
    cases hres : samapSet cfg j (k :: rest) src with
    | panic => rfl
    | ok after =>
      rw [hres] at hc
      obtain ⟨hf, hs⟩ := hc
      simp only [samapSetAccepts, hf, Bool.true_and]
      cases hl : samapStoredLeaf src with
      | none => rfl
      | some x =>
        have := hs x hl
        simp only []
        cases hn : jnav after (k :: rest) <;> simp only [hn] at this ⊢ <;> first | exact this | simp [this]
    | unsupported after =>
      rw [hres] at hc
      obtain ⟨hf, hs⟩ := hc
      simp only [samapSetAccepts, hf, Bool.true_and]
      cases hl : samapStoredLeaf src with
      | none => rfl
      | some x => simp only [hs]

/-- The repaired Set goes on past a nil pointer to a map as past a nil map (nothing is created, the tree is
unchanged): `JNilPtrsOK`, the representation of such a pointer, is needed (`hypothesis_needed_nil_ptrs`). -/
theorem set_correct_driver (j : JVal) (p : List Bytes) (src : Src) (hw : JMapsOK j = true) (hn : JNilPtrsOK j = true) :
    setAcc j p src (samapSet LibCfg.fixed j p src) = true :=
  set_correct_driver_cfg LibCfg.fixed j p src hw (Or.inr (pathNilOK_of_tree p j hn))

/-- Any configuration: Set panics only for a nil pointer as the value or a nil pointer to a map on the way
(and, `set_no_panic_cfg`, only with the switch on). -/
theorem set_panic_only (cfg : LibCfg) (j : JVal) (p : List Bytes) (src : Src)
    (h : (match samapSet cfg j p src with | .panic => true | _ => false) = true) :
    src.v.isNilPtr = true ∨ nilPtrOnPath j p = true := by
  cases hres : samapSet cfg j p src with
  | panic =>
    rcases (samapSet_panic cfg src p j hres).2 with h1 | h1
    · exact Or.inl h1
    · right; unfold nilPtrOnPath; rw [h1]
  | ok _ => simp [hres] at h
  | unsupported _ => simp [hres] at h

/-- Any configuration, no nil pointer to a map on the way. -/
theorem set_correct_cfg (cfg : LibCfg) (j : JVal) (p : List Bytes) (src : Src) (hw : JMapsOK j = true)
    (hnp : nilPtrOnPath j p = false) :
    samapSetAccepts j p src (samapSet cfg j p src) = true := by
  have hnav : jnav j p ≠ .unspec := by
    intro e; unfold nilPtrOnPath at hnp; rw [e] at hnp; cases hnp
  have h := set_correct_driver_cfg cfg j p src hw (Or.inr (pathNilOK_of_nav p j hnav))
  unfold setAcc at h
  cases hres : samapSet cfg j p src with
  | panic =>
    rcases (samapSet_panic cfg src p j hres).2 with h1 | h1
    · simpa [samapSetAccepts] using h1
    · exact absurd h1 hnav
  | ok after => rw [hres] at h; exact h
  | unsupported after => rw [hres] at h; exact h

/-- Set creates or replaces exactly the addressed leaf (creating intermediate maps), nothing else changes. -/
theorem set_correct (j : JVal) (p : List Bytes) (src : Src) (hw : JMapsOK j = true) (hnp : nilPtrOnPath j p = false) :
    samapSetAccepts j p src (samapSet LibCfg.fixed j p src) = true := set_correct_cfg LibCfg.fixed j p src hw hnp

/-- With a nil pointer to a map on the way as well, for the repaired model (no panic is left to be passed on). -/
theorem set_correct_nil_ptrs (j : JVal) (p : List Bytes) (src : Src) (hw : JMapsOK j = true) (hn : JNilPtrsOK j = true) :
    samapSetAccepts j p src (samapSet LibCfg.fixed j p src) = true := by
  have h := set_correct_driver j p src hw hn
  unfold setAcc at h
  cases hres : samapSet LibCfg.fixed j p src with
  | panic => exact absurd hres (samapSet_no_panic LibCfg.fixed rfl src p j)
  | ok after => rw [hres] at h; exact h
  | unsupported after => rw [hres] at h; exact h

/-! ### Copy -/

/-- Any configuration. `hnm`: either Copy stops (panics) at a nil pointer to a map, or the tree has none. -/
theorem copy_correct_cfg (cfg : LibCfg) (j c : JVal) (s : Nat) (hw : JMapsOK j = true)
    (hnm : cfg.samapNilPtrPanics = true ∨ jHasNilMap j = false) (h : samapCpy cfg j = some (c, s)) :
    jeq j c = true ∧ s = ptrLeafCount j := samapCpy_ok cfg j c s hw hnm h

/-- Copy yields a tree equal to the source; the second component (pointers copied as pointers, the only
thing source and copy share) is exactly the number of pointer-to-scalar leaves. -/
theorem copy_correct_general (j c : JVal) (s : Nat) (hw : JMapsOK j = true) (hnm : jHasNilMap j = false)
    (h : samapCpy LibCfg.fixed j = some (c, s)) :
    jeq j c = true ∧ s = ptrLeafCount j := samapCpy_ok LibCfg.fixed j c s hw (Or.inr hnm) h

/-- As the driver judges it (`samapOpCopy`, root map not nil): `s ≤ ptrLeafCount … && jeq … c`. -/
theorem copy_correct (ks : List Bytes) (vs : List JVal) (c : JVal) (s : Nat)
    (hw : JMapsOK (.map 0 0 false ks vs) = true) (hnm : jHasNilMap (.map 0 0 false ks vs) = false)
    (h : samapCpy LibCfg.fixed (.map 0 0 false ks vs) = some (c, s)) :
    (decide (s ≤ ptrLeafCount (.map 0 0 false ks vs)) && jeq (.map 0 0 false ks vs) c) = true := by
  obtain ⟨h1, h2⟩ := samapCpy_ok LibCfg.fixed _ c s hw (Or.inr hnm) h
  simp [h1, h2]

/-- Independence: on the trees the property quantifies over (no pointer-to-scalar leaves) nothing is shared. -/
theorem copy_independent (j c : JVal) (s : Nat) (hw : JMapsOK j = true) (hnm : jHasNilMap j = false)
    (h : samapCpy LibCfg.fixed j = some (c, s)) (hq : ptrLeafCount j = 0) : s = 0 := by
  rw [(samapCpy_ok LibCfg.fixed j c s hw (Or.inr hnm) h).2, hq]

/-- Any configuration: Copy panics only for a nil pointer (to a map, or a nil `*string` / `*[]byte` leaf) somewhere
in the tree (and, `copy_no_panic_cfg`, only with the switch on). -/
theorem copy_panic_only (cfg : LibCfg) (j : JVal) (h : (samapCpy cfg j).isNone = true) : jHasNil j = true :=
  (samapCpy_none cfg j (by simpa using h)).2

/-- Any configuration, nil pointers to maps included: the copy is the source up to `jCopyNorm` (a nil pointer to a
map stands for a pointer to an empty map in the same holding form). `hnp`: either Copy stops (panics) at such a
pointer, or its node is a nil map (`JNilPtrsOK`). -/
theorem copy_correct_norm_cfg (cfg : LibCfg) (j c : JVal) (s : Nat) (hw : JMapsOK j = true)
    (hnp : cfg.samapNilPtrPanics = true ∨ JNilPtrsOK j = true) (h : samapCpy cfg j = some (c, s)) :
    jeq (jCopyNorm j) c = true ∧ s = ptrLeafCount j := samapCpy_norm cfg j c s hw hnp h

/-- The repaired Copy of EVERY tree (of Go values: `JMapsOK`, `JNilPtrsOK`) succeeds, and the copy is the source up
to `jCopyNorm`; pointers to scalars are all it shares with the source. -/
theorem copy_correct_nil_ptrs (j : JVal) (hw : JMapsOK j = true) (hn : JNilPtrsOK j = true) :
    (match samapCpy LibCfg.fixed j with
     | some (c, s) => jeq (jCopyNorm j) c && s == ptrLeafCount j
     | none => false) = true := by
  cases h : samapCpy LibCfg.fixed j with
  | none => have := samapCpy_no_panic LibCfg.fixed rfl j; rw [h] at this; cases this
  | some r =>
    obtain ⟨c, s⟩ := r
    obtain ⟨h1, h2⟩ := samapCpy_norm LibCfg.fixed j c s hw (Or.inr hn) h
    simp [h1, h2]

/-- As the driver judges it (`samapOpCopy`, root map not nil), nil pointers to maps inside the tree included. -/
theorem copy_correct_driver (ks : List Bytes) (vs : List JVal) (c : JVal) (s : Nat)
    (hw : JMapsOK (.map 0 0 false ks vs) = true) (hn : JNilPtrsOK (.map 0 0 false ks vs) = true)
    (h : samapCpy LibCfg.fixed (.map 0 0 false ks vs) = some (c, s)) :
    (decide (s ≤ ptrLeafCount (.map 0 0 false ks vs)) && jeq (jCopyNorm (.map 0 0 false ks vs)) c) = true := by
  obtain ⟨h1, h2⟩ := samapCpy_norm LibCfg.fixed _ c s hw (Or.inr hn) h
  simp [h1, h2]

/-- `jCopyNorm` is the identity on trees without a nil pointer to a map (`jCopyNorm_id`, Proofs/C18.lean): there
`copy_correct_driver` is `copy_correct`. -/
example (j : JVal) (h : jHasNilMap j = false) : jCopyNorm j = j := jCopyNorm_id j h

/-- The repaired Copy of a nil pointer to a map (`n ≠ 0`): a pointer to an empty map in the same holding form. -/
theorem copy_nil_ptr_map (hold n : Nat) :
    (match samapCpy LibCfg.fixed (.map hold n true [] []) with
     | some (.map h' 0 false [] [], 0) => h' == hold
     | _ => false) = true := by
  simp [samapCpy, samapCpyList, LibCfg.fixed]

/-! ### Loop / Reset -/
section LoopReset

/-- Any configuration: Loop is Get of the path followed by Loop with the empty path of the node handed out —
`samapLoopViaGet` is, constructor for constructor, what `samapOpLoop` computed inline before `samapLoop` was there. -/
theorem loop_via_get (cfg : LibCfg) (j : JVal) (p : List Bytes) :
    samapLoop cfg j p = samapLoopViaGet cfg j p := samapLoop_eq_viaGet cfg p j

/-- Any configuration: Loop panics only with the nil-pointer switch on. -/
theorem loop_panic_only (cfg : LibCfg) (j : JVal) (p : List Bytes)
    (h : (match samapLoop cfg j p with | .panic => true | _ => false) = true) :
    cfg.samapNilPtrPanics = true := by
  cases hres : samapLoop cfg j p with
  | panic => exact samapLoop_panic cfg p j hres
  | iterate _ _ => simp [hres] at h
  | nothing => simp [hres] at h
  | unsupported => simp [hres] at h

/-- Any configuration: Reset panics only for a nil `*map[string]any` / a `**map[string]any` whose target is nil,
and only with the nil-pointer switch on. -/
theorem reset_panic_only (cfg : LibCfg) (f : Form) (m : JVal) (h : (samapReset cfg f m).isNone = true) :
    (f = .nilPtr ∨ f = .ptrNilPtr) ∧ cfg.samapNilPtrPanics = true := by
  cases f <;> cases hc : cfg.samapNilPtrPanics <;> simp [samapReset, hc] at h ⊢

end LoopReset

/-! ### C02: the repaired model never panics — every tree, nil pointers included -/
section NoPanic

theorem get_no_panic_cfg (cfg : LibCfg) (hc : cfg.samapNilPtrPanics = false) (j : JVal) (p : List Bytes) :
    samapGet cfg j p ≠ .panic := samapGet_no_panic cfg hc p j
theorem cmp_no_panic_cfg (cfg : LibCfg) (hc : cfg.samapNilPtrPanics = false) (hs : cfg.staticNilPtrPanics = false)
    (j : JVal) (p : List Bytes) (op : Op) (right : Seg) :
    (samapCmp cfg j p op right).1 ≠ .panic := samapCmp_no_panic cfg hc hs op right p j
theorem len_no_panic_cfg (cfg : LibCfg) (hc : cfg.samapNilPtrPanics = false) (j : JVal) (p : List Bytes) :
    samapLen cfg j p ≠ .panic := samapLen_no_panic cfg hc p j
theorem cap_no_panic_cfg (cfg : LibCfg) (hc : cfg.samapNilPtrPanics = false) (j : JVal) (p : List Bytes) :
    samapCap cfg j p ≠ .panic := samapCap_no_panic cfg hc p j
theorem set_no_panic_cfg (cfg : LibCfg) (hc : cfg.samapNilPtrPanics = false) (j : JVal) (p : List Bytes) (src : Src) :
    samapSet cfg j p src ≠ .panic := samapSet_no_panic cfg hc src p j
theorem copy_no_panic_cfg (cfg : LibCfg) (hc : cfg.samapNilPtrPanics = false) (j : JVal) :
    (samapCpy cfg j).isSome = true := samapCpy_no_panic cfg hc j
/-- Loop: every node `j` the root `any` may be (a map held by value / pointer / double pointer, a nil pointer in
either position, untyped nil, a foreign type — `rootJ` of the driver), every key path. -/
theorem loop_no_panic_cfg (cfg : LibCfg) (hc : cfg.samapNilPtrPanics = false) (j : JVal) (p : List Bytes) :
    samapLoop cfg j p ≠ .panic := samapLoop_no_panic cfg hc p j
/-- Reset: every argument form, every tree. -/
theorem reset_no_panic_cfg (cfg : LibCfg) (hc : cfg.samapNilPtrPanics = false) (f : Form) (m : JVal) :
    (samapReset cfg f m).isSome = true := samapReset_no_panic cfg hc f m

theorem get_no_panic (j : JVal) (p : List Bytes) : samapGet LibCfg.fixed j p ≠ .panic :=
  samapGet_no_panic LibCfg.fixed rfl p j
theorem cmp_no_panic (j : JVal) (p : List Bytes) (op : Op) (right : Seg) :
    (samapCmp LibCfg.fixed j p op right).1 ≠ .panic := samapCmp_no_panic LibCfg.fixed rfl rfl op right p j
theorem len_no_panic (j : JVal) (p : List Bytes) : samapLen LibCfg.fixed j p ≠ .panic :=
  samapLen_no_panic LibCfg.fixed rfl p j
theorem cap_no_panic (j : JVal) (p : List Bytes) : samapCap LibCfg.fixed j p ≠ .panic :=
  samapCap_no_panic LibCfg.fixed rfl p j
theorem set_no_panic (j : JVal) (p : List Bytes) (src : Src) : samapSet LibCfg.fixed j p src ≠ .panic :=
  samapSet_no_panic LibCfg.fixed rfl src p j
theorem copy_no_panic (j : JVal) : (samapCpy LibCfg.fixed j).isSome = true :=
  samapCpy_no_panic LibCfg.fixed rfl j
theorem loop_no_panic (j : JVal) (p : List Bytes) : samapLoop LibCfg.fixed j p ≠ .panic :=
  samapLoop_no_panic LibCfg.fixed rfl p j
theorem reset_no_panic (f : Form) (m : JVal) : (samapReset LibCfg.fixed f m).isSome = true :=
  samapReset_no_panic LibCfg.fixed rfl f m

end NoPanic

section NonVacuity
def key (t : String) : Bytes := strBytes t
/-- `{"a": 5, "m": &map[string]any{"s": "xy"}, "b": []byte("ab") with cap 8}` -/
def exJ : JVal :=
  .map 0 0 false [key "a", key "m", key "b"]
    [.leaf { kind := .int, v := .int 5 },
     .map 1 0 false [key "s"] [.leaf { kind := .string, v := .str (strBytes "xy") }],
     .leaf { kind := .bytes, v := .bytes false (strBytes "ab") 8 }]
def srcStr : Src := { kind := .string, v := .str (strBytes "new") }
/-- `{"a": 5, "n": (*map[string]any)(nil), "t": (*string)(nil)}` -/
def exNilJ : JVal :=
  .map 0 0 false [key "a", key "n", key "t"]
    [.leaf { kind := .int, v := .int 5 },
     .map 1 1 true [] [],
     .leaf { kind := .string, isPtr := true, v := .nilptr }]
def srcNilStr : Src := { kind := .string, isPtr := true, v := .nilptr }

example : JMapsOK exJ = true ∧ JLeavesOK exJ = true ∧ JNilPtrsOK exJ = true := by decide
example : JMapsOK exNilJ = true ∧ JLeavesOK exNilJ = true ∧ JNilPtrsOK exNilJ = true := by decide
example : nilPtrOnPath exJ [key "m", key "t"] = false ∧ jHasNil exJ = false ∧ jHasNilMap exJ = false := by decide
example : nilPtrOnPath exNilJ [key "n", key "x"] = true ∧ jHasNilMap exNilJ = true := by decide
example : (match samapGet LibCfg.fixed exJ [key "m", key "s"] with | .node (.leaf s) => s.v == .str (strBytes "xy") | _ => false) = true := by decide
example : samapLen LibCfg.fixed exJ [key "m"] = .val 1 := by decide
example : samapCap LibCfg.fixed exJ [key "b"] = .val 8 := by decide
example : (match samapSet LibCfg.fixed exJ [key "m", key "t"] srcStr with
    | .ok after => (match samapGet LibCfg.fixed after [key "m", key "t"] with | .node (.leaf s) => s.v == .str (strBytes "new") | _ => false)
    | _ => false) = true := by decide
example : (match samapCpy LibCfg.fixed exJ with | some (c, s) => jeq exJ c && s == 0 | none => false) = true := by decide
example : (match samapLoop LibCfg.fixed exJ [key "m"] with | .iterate ks vs => ks == [key "s"] && vs.length == 1 | _ => false) = true := by decide
example : (match samapLoop LibCfg.fixed exJ [key "zz"] with | .nothing => true | _ => false) = true ∧
    (match samapLoop LibCfg.fixed exJ [key "a", key "x"] with | .unsupported => true | _ => false) = true := by decide
example : (match samapReset LibCfg.fixed .ptr exJ with | some (.map 0 0 false [] []) => true | _ => false) = true ∧
    (match samapReset LibCfg.fixed .val exJ with | some after => jeq exJ after | none => false) = true := by decide

/-- Known finding `samap-cap-is-len`: Capacity with a non-empty path answers with the length. -/
theorem repo_not_correct :
    samapLcAccepts true exJ [key "b"] (samapCap LibCfg.original exJ [key "b"]) = false := by decide

/-- Known finding `samap-nil-ptr-panics` (C02): with the switch on, a nil `*map[string]any` on the way, a nil
`*string` leaf and a nil `*string` value make the inspector panic; the repaired inspector reads through the nil
pointer as through a nil map (nothing found, length 0, nothing set), leaves / stores the nil `*string` as it is,
and copies the nil pointer to a map as a pointer to an empty map. -/
theorem original_panics_nil_ptr :
    (match samapGet LibCfg.original exNilJ [key "n", key "x"] with | .panic => true | _ => false) = true ∧
    (match samapGet LibCfg.fixed exNilJ [key "n", key "x"] with | .none => true | _ => false) = true ∧
    (samapCmp LibCfg.original exNilJ [key "n", key "x"] 1 { text := strBytes "1", pi := some 1 }).1 = .panic ∧
    (samapCmp LibCfg.fixed exNilJ [key "n", key "x"] 1 { text := strBytes "1", pi := some 1 }).1 = .untouched ∧
    samapLen LibCfg.original exNilJ [key "n"] = .panic ∧ samapLen LibCfg.fixed exNilJ [key "n"] = .val 0 ∧
    samapLen LibCfg.original exNilJ [key "t"] = .panic ∧ samapLen LibCfg.fixed exNilJ [key "t"] = .untouched ∧
    samapCap LibCfg.original exNilJ [key "n", key "x"] = .panic ∧ samapCap LibCfg.fixed exNilJ [key "n", key "x"] = .untouched ∧
    (match samapSet LibCfg.original exNilJ [key "n", key "x"] srcStr with | .panic => true | _ => false) = true ∧
    (match samapSet LibCfg.fixed exNilJ [key "n", key "x"] srcStr with | .ok after => jeq exNilJ after | _ => false) = true ∧
    (match samapSet LibCfg.original exNilJ [key "a"] srcNilStr with | .panic => true | _ => false) = true ∧
    (match samapSet LibCfg.fixed exNilJ [key "a"] srcNilStr with
      | .ok after => (match samapGet LibCfg.fixed after [key "a"] with | .node (.leaf s) => s.v.isNilPtr | _ => false)
      | _ => false) = true ∧
    (samapCpy LibCfg.original exNilJ).isNone = true ∧
    (match samapCpy LibCfg.fixed exNilJ with
      | some (.map 0 0 false _ [_, .map 1 0 false [] [], .leaf s], 0) => s.v.isNilPtr
      | _ => false) = true ∧
    -- Loop: a nil pointer to a map at the end of the path and on the way (repaired: nothing to iterate over / nothing found)
    (match samapLoop LibCfg.original exNilJ [key "n"] with | .panic => true | _ => false) = true ∧
    (match samapLoop LibCfg.fixed exNilJ [key "n"] with | .iterate [] [] => true | _ => false) = true ∧
    (match samapLoop LibCfg.original exNilJ [key "n", key "x"] with | .panic => true | _ => false) = true ∧
    (match samapLoop LibCfg.fixed exNilJ [key "n", key "x"] with | .nothing => true | _ => false) = true ∧
    -- Loop: the root itself a nil `*map[string]any` / a `**map[string]any` whose target is nil
    (match samapLoop LibCfg.original (.map 1 1 true [] []) [] with | .panic => true | _ => false) = true ∧
    (match samapLoop LibCfg.fixed (.map 2 2 true [] []) [] with | .iterate [] [] => true | _ => false) = true ∧
    -- Reset of a nil `*map[string]any` / a `**map[string]any` whose target is nil (repaired: nothing happens)
    (samapReset LibCfg.original .nilPtr exJ).isNone = true ∧ (samapReset LibCfg.original .ptrNilPtr exJ).isNone = true ∧
    (match samapReset LibCfg.fixed .nilPtr exJ with | some after => jeq exJ after | none => false) = true ∧
    (match samapReset LibCfg.fixed .ptrNilPtr exJ with | some after => jeq exJ after | none => false) = true := by decide

/-- `JMapsOK` is needed: with a repeated key (not a Go map) the tree is not even equal to itself. -/
example : let j : JVal := .map 0 0 false [key "a", key "a"] [.leaf { kind := .int, v := .int 1 }, .leaf { kind := .int, v := .int 2 }]
    samapGetAccepts j [] (samapGet LibCfg.fixed j []) = false := by decide
/-- `JMapsOK` is needed: a "nil map with entries" (not a Go value) is navigated by the spec but not by Compare. -/
example : let j : JVal := .map 0 0 true [key "a"] [.leaf { kind := .int, v := .int 1 }]
    samapCmpAccepts j [key "a"] 1 { text := strBytes "1", pi := some 1 } (samapCmp LibCfg.fixed j [key "a"] 1 { text := strBytes "1", pi := some 1 }) = false := by decide
/-- `JLeavesOK` is needed: an `int` leaf carrying a string value (not a Go value). -/
example : let j : JVal := .leaf { kind := .int, v := .str (strBytes "x") }
    samapLcAccepts false j [] (samapLen LibCfg.fixed j []) = false := by decide
/-- `JNilPtrsOK` is needed for `set_correct_driver`: "a nil pointer to a non-nil map" (not a Go value) — the
repaired Set would go on and store into it. -/
theorem hypothesis_needed_nil_ptrs :
    let j : JVal := .map 0 0 false [key "n"] [.map 1 1 false [] []]
    JMapsOK j = true ∧ JNilPtrsOK j = false ∧
    setAcc j [key "n", key "x"] srcStr (samapSet LibCfg.fixed j [key "n", key "x"] srcStr) = false := by decide
/-- `jHasNilMap j = false` is needed for `copy_correct_general`: the repaired Copy turns a nil pointer to a map
into a pointer to an empty map, and the tree comparison tells the two apart. -/
theorem copy_hypothesis_needed :
    JMapsOK exNilJ = true ∧ JNilPtrsOK exNilJ = true ∧
    (match samapCpy LibCfg.fixed exNilJ with | some (c, _) => jeq exNilJ c | none => true) = false := by decide
end NonVacuity

/-! ### The tree as it is now

After `fix: StringAnyMapInspector.Capacity descended into Length` the only switch of this inspector that may still
be on in `LibCfg.repo` is `samapNilPtrPanics` (nil pointers, C02). The statements below are instances of the
`…_cfg` theorems: they read `samapCapIsLen` and `staticNilPtrPanics` of `LibCfg.repo` (both off) and hold for either
position of `samapNilPtrPanics`. -/
section CurrentTree

/-- Capacity of the current tree is the repaired Capacity, up to the nil-pointer switch. -/
theorem cap_repo_eq (p : List Bytes) (j : JVal) :
    samapCap LibCfg.repo j p
      = samapCap { LibCfg.fixed with samapNilPtrPanics := LibCfg.repo.samapNilPtrPanics } j p :=
  samapCap_congr _ _ rfl rfl p j

theorem get_current (j : JVal) (p : List Bytes) (hw : JMapsOK j = true) :
    getAcc j p (samapGet LibCfg.repo j p) = true := get_correct_driver_cfg LibCfg.repo j p hw

theorem len_current (j : JVal) (p : List Bytes) (hw : JLeavesOK j = true) :
    samapLcAccepts false j p (samapLen LibCfg.repo j p) = true := len_correct_cfg LibCfg.repo j p hw

theorem cap_current (j : JVal) (p : List Bytes) (hw : JLeavesOK j = true) :
    samapLcAccepts true j p (samapCap LibCfg.repo j p) = true := cap_correct_cfg LibCfg.repo rfl j p hw

theorem cmp_current (j : JVal) (p : List Bytes) (op : Op) (right : Seg) (hw : JMapsOK j = true) :
    samapCmpAccepts j p op right (samapCmp LibCfg.repo j p op right) = true :=
  cmp_correct_cfg LibCfg.repo rfl j p op right hw

theorem set_current (j : JVal) (p : List Bytes) (src : Src) (hw : JMapsOK j = true) (hnp : nilPtrOnPath j p = false) :
    samapSetAccepts j p src (samapSet LibCfg.repo j p src) = true := set_correct_cfg LibCfg.repo j p src hw hnp

theorem set_driver_current (j : JVal) (p : List Bytes) (src : Src) (hw : JMapsOK j = true) (hn : JNilPtrsOK j = true) :
    setAcc j p src (samapSet LibCfg.repo j p src) = true :=
  set_correct_driver_cfg LibCfg.repo j p src hw (Or.inr (pathNilOK_of_tree p j hn))

theorem copy_current (j c : JVal) (s : Nat) (hw : JMapsOK j = true) (hnm : jHasNilMap j = false)
    (h : samapCpy LibCfg.repo j = some (c, s)) :
    jeq j c = true ∧ s = ptrLeafCount j := copy_correct_cfg LibCfg.repo j c s hw (Or.inr hnm) h

theorem copy_norm_current (j c : JVal) (s : Nat) (hw : JMapsOK j = true) (hn : JNilPtrsOK j = true)
    (h : samapCpy LibCfg.repo j = some (c, s)) :
    jeq (jCopyNorm j) c = true ∧ s = ptrLeafCount j := copy_correct_norm_cfg LibCfg.repo j c s hw (Or.inr hn) h

/-- Since `fix: StringAnyMapInspector dereferenced nil pointers` the switch is off in the tree as it is: no method
of the map[string]any inspector panics, whatever nil pointers the tree holds. -/
theorem no_panic_current (j : JVal) (p : List Bytes) (op : Op) (right : Seg) (src : Src) (f : Form) :
    samapGet LibCfg.repo j p ≠ .panic ∧ (samapCmp LibCfg.repo j p op right).1 ≠ .panic ∧
    samapLen LibCfg.repo j p ≠ .panic ∧ samapCap LibCfg.repo j p ≠ .panic ∧
    samapSet LibCfg.repo j p src ≠ .panic ∧ (samapCpy LibCfg.repo j).isSome = true ∧
    samapLoop LibCfg.repo j p ≠ .panic ∧ (samapReset LibCfg.repo f j).isSome = true :=
  ⟨get_no_panic_cfg LibCfg.repo rfl j p, cmp_no_panic_cfg LibCfg.repo rfl rfl j p op right,
   len_no_panic_cfg LibCfg.repo rfl j p, cap_no_panic_cfg LibCfg.repo rfl j p,
   set_no_panic_cfg LibCfg.repo rfl j p src, copy_no_panic_cfg LibCfg.repo rfl j,
   loop_no_panic_cfg LibCfg.repo rfl j p, reset_no_panic_cfg LibCfg.repo rfl f j⟩

end CurrentTree

end Inspector.C18
